"""C13 -- exponentiated-Weibull least squares = weighted quantile regression, any weights."""
import math
import warnings

import numpy as np
import scipy.stats as sts

import vlib
from vlib import fl, fl_list

PRELUDE = """From V.base Require Import FloatBits Num.
From V.model Require Import EwLsq.
Local Open Scope float_scope.
Definition F := FOps [] [].
Definition mk (w p x : list float) : list (float * float * float) := map (fun t => (fst (fst t), snd (fst t), snd t)) (combine (combine w p) x).
Definition run (w p x : list float) : list float := let '(a, b, dd, dv) := estimate F (mk w p x) in [a; b; dv / dd].
"""
KINDS = {None: "WNone", "linear": "WLinear", "quadratic": "WQuadratic", "cubic": "WCubic"}


def gen_sample(rng, nrng):
    n = rng.choice([30, 60, 200, 800]) if rng.random() < 0.9 else rng.randrange(30, 3000)
    k = rng.randrange(5)
    seed = rng.randrange(10 ** 6)
    if k == 0:
        x = sts.weibull_min.rvs(rng.uniform(0.8, 3), scale=rng.uniform(0.5, 6), size=n, random_state=seed)
    elif k == 1:
        x = sts.exponweib.rvs(rng.uniform(0.5, 4), rng.uniform(0.8, 2.5), scale=rng.uniform(0.5, 8), size=n, random_state=seed)
    elif k == 2:
        x = sts.lognorm.rvs(rng.uniform(0.2, 0.8), scale=rng.uniform(0.5, 4), size=n, random_state=seed)
    elif k == 3:
        x = np.round(sts.weibull_min.rvs(1.5, scale=3, size=n, random_state=seed), 1)   # ties and zeros
    else:
        x = sts.gamma.rvs(rng.uniform(1, 4), scale=rng.uniform(0.3, 2), size=n, random_state=seed)
    x = np.asarray(x, dtype=float)
    r = rng.random()
    if r < 0.08:
        x = x * rng.choice([1e-9, 1e-7, 1e-12])   # data recorded in a small unit: positive values far below 1e-8
    elif r < 0.14:
        x = np.asarray(sts.weibull_min.rvs(0.3, scale=1e-3, size=n, random_state=seed), dtype=float)   # heavy lower tail
    elif r < 0.18:
        x = x * rng.choice([1e6, 1e9])
    if rng.random() < 0.25:
        x[rng.sample(range(n), max(1, n // 50))] = 0.0
    return x


def gen_case(rng, nrng):
    x = gen_sample(rng, nrng)
    wk = rng.choice([None, "linear", "quadratic", "cubic", "array", "array"])
    c = {"x": [float(v) for v in x], "weights": wk, "method": rng.choice(["lsq", "wlsq"]),
         "delta": rng.choice([None, None, 1.0, round(rng.uniform(0.5, 5), 3)])}
    if rng.random() < 0.2:
        # data as it comes out of a logger: whole numbers, handed over as an integer array or a list of ints
        scale = rng.choice([1, 10, 100])
        xi = np.round(x * scale)
        if len(set(xi[xi > 0])) >= 10 and xi.max() < 2 ** 31:   # (tiny-unit samples would round to all zeros: not a positive sample)
            c["x"] = [float(v) for v in xi]
            c["dtype"] = rng.choice(["int64", "int32", "list"])
    if wk == "array":
        kind = rng.randrange(3)
        w = np.random.default_rng(rng.randrange(10 ** 6)).uniform(0.2, 2.0, len(x))
        if kind == 1:
            w = x ** 2 + 0.1
        c["warr"] = [float(v) for v in w * rng.choice([1.0, 7.3, 0.01, 250.0, 1e-12, 1e-15, 1e-18, 1e15])]   # any positive array, whatever its scale
    return c


def fit(c, x=None, warr=None):
    from virocon import ExponentiatedWeibullDistribution as EW
    x = np.array(c["x"] if x is None else x, dtype=float)
    dt = c.get("dtype")
    if dt == "list":
        x = [int(v) for v in x]
    elif dt:
        x = x.astype(dt)
    w = c["weights"]
    if w == "array":
        w = np.array(c["warr"] if warr is None else warr, dtype=float)
    d = EW(f_delta=c["delta"]) if c["delta"] is not None else EW()
    with warnings.catch_warnings():
        warnings.simplefilter("ignore")
        d.fit(x, method=c["method"], weights=w)
    return float(d.alpha), float(d.beta), float(d.delta)


def reference(c, delta, x=None, warr=None):
    """independent weighted regression of the linearised quantile relation (numpy.polyfit)"""
    x = np.array(c["x"] if x is None else x, dtype=float)
    order = np.argsort(x)   # same tie order as the implementation sees for the same input (ties make the pairing ambiguous)
    xs = x[order]
    n = len(xs)
    p = (np.arange(1, n + 1) - 0.5) / n
    wk = c["weights"]
    if wk is None:
        w = np.ones(n)
    elif wk == "array":
        w = np.array(c["warr"] if warr is None else warr, dtype=float)[order]
    else:
        k = {"linear": 1, "quadratic": 2, "cubic": 3}[wk]
        w = xs ** k
    keep = xs != 0
    xs, p, w = xs[keep], p[keep], w[keep]
    xstar = np.log10(xs)
    pstar = np.log10(-np.log(1 - p ** (1 / delta)))
    b, a = np.polyfit(pstar, xstar, 1, w=np.sqrt(w))
    return 10 ** a, 1 / b, (w, pstar, xstar)


def wlsq_error(c, delta, alpha, beta):
    x = np.sort(np.array(c["x"], dtype=float))
    n = len(x)
    p = (np.arange(1, n + 1) - 0.5) / n
    keep = x != 0
    x, p = x[keep], p[keep]
    return x, p


def oracle(c):
    sig = {"weights": c["weights"] if c["weights"] != "array" else "array", "delta": "fixed" if c["delta"] is not None else "free"}
    if c.get("dtype"):
        sig["dtype"] = c["dtype"]
    try:
        a, b, d = fit(c)
    except Exception as e:  # noqa
        return (dict(sig, clause="exception", exc=type(e).__name__), "fit raised %s: %s" % (type(e).__name__, str(e)[:100]))
    if c["delta"] is not None and d != c["delta"]:
        return (dict(sig, clause="delta-fixed"), "delta changed from %r to %r" % (c["delta"], d))
    if not all(np.isfinite([a, b, d])):
        return (dict(sig, clause="nonfinite"), "non-finite estimate %r" % ((a, b, d),))
    ra, rb, _ = reference(c, d)
    if not (math.isclose(a, ra, rel_tol=1e-6) and math.isclose(b, rb, rel_tol=1e-6)):
        return (dict(sig, clause="regression"), "alpha, beta = %r, %r but the weighted regression of log10 x on p* (delta=%r) gives %r, %r" % (a, b, d, float(ra), float(rb)))
    x = np.array(c["x"], dtype=float)
    # result does not depend on how the weights are normalised
    if c["weights"] == "array" and c["delta"] is not None:
        a2, b2, _ = fit(c, warr=np.array(c["warr"]) * 3.7)
        if not (math.isclose(a, a2, rel_tol=1e-9) and math.isclose(b, b2, rel_tol=1e-9)):
            return (dict(sig, clause="scale"), "rescaling the weight array by 3.7 changes (alpha, beta): %r -> %r" % ((a, b), (a2, b2)))
    # result does not depend on the order of the data (array weights travel with their observation)
    if c["delta"] is not None and (c["weights"] != "array" or len(set(c["x"])) == len(c["x"])):
        asc = np.argsort(x, kind="stable")
        for oname, perm in (("shuffled", np.argsort(np.sin(np.arange(len(x)) * 7.77 + 0.3), kind="stable")),
                            ("ascending", asc), ("descending", asc[::-1])):    # already sorted input, either way, is an order too
            warr = np.array(c["warr"])[perm] if c["weights"] == "array" else None
            try:
                a3, b3, _ = fit(c, x=x[perm], warr=warr)
            except Exception as e:  # noqa
                return (dict(sig, clause="order", order=oname), "the same observations in %s order: fit raised %s: %s" % (oname, type(e).__name__, str(e)[:100]))
            if not (math.isclose(a, a3, rel_tol=1e-9) and math.isclose(b, b3, rel_tol=1e-9)):
                return (dict(sig, clause="order", order=oname),
                        "the same observations in %s order change (alpha, beta): %r -> %r" % (oname, (a, b), (a3, b3)))
    # free delta: local minimiser of the weighted x-space error
    if c["delta"] is None:
        from virocon import ExponentiatedWeibullDistribution as EW
        xs = np.sort(x)
        n = len(xs)
        p = (np.arange(1, n + 1) - 0.5) / n
        order = np.argsort(x)
        wk = c["weights"]
        w = np.ones(n) if wk is None else (np.array(c["warr"])[order] if wk == "array" else xs ** {"linear": 1, "quadratic": 2, "cubic": 3}[wk])
        w = w / w.sum()

        def xerr(delta):
            """weighted quantile error in x-space of the NON-ZERO observations, alpha and beta from the weighted regression at this
            delta -- written here independently of virocon"""
            keep = xs != 0
            xk, pk, wk_ = xs[keep], p[keep], w[keep]
            with np.errstate(all="ignore"):
                pstar = np.log10(-np.log(1 - pk ** (1 / delta)))
                if not np.all(np.isfinite(pstar)):
                    return float("nan")
                b_, a_ = np.polyfit(pstar, np.log10(xk), 1, w=np.sqrt(wk_))
                xhat = 10 ** a_ * (-np.log(1 - pk ** (1 / delta))) ** b_
            return float(np.sum(wk_ * (xk - xhat) ** 2))
        e0 = xerr(d)
        for f in (0.97, 1.03):
            e1 = xerr(d * f)
            if e1 < e0 * (1 - 1e-3) - 1e-12:
                # does the error function end in nan just below delta?  (1 - p**(1/delta) rounds to 1 for the smallest plotting
                # position: the optimiser cannot step into that region and stalls next to it)
                cliff = bool(np.any(~np.isfinite([xerr(d * g) for g in (0.96, 0.93, 0.9, 0.85, 0.8)])))
                return (dict(sig, clause="delta-local-min", nan_cliff=cliff),
                        "delta=%r is not a local minimiser: error %r at delta*%r < %r%s" % (d, float(e1), f, float(e0), " (the error function is nan just below delta)" if cliff else ""))
    return None


def replay(ctx, c):
    o = oracle(c)
    if o:
        print("  ", o[1])
    return o is not None


def shrink(c, sig):
    def fails(xs):
        if len(xs) < 5:
            return False
        c2 = dict(c, x=list(xs))
        if c["weights"] == "array":
            return False
        try:
            o = oracle(c2)
        except Exception:
            return False
        return o is not None and o[0].get("clause") == sig.get("clause")
    if c["weights"] == "array":
        return c
    return dict(c, x=vlib.shrink_list(c["x"], fails, min_len=5))


def run(ctx):
    from virocon import ExponentiatedWeibullDistribution as EW
    ctx.proof_gate()
    rng, nrng = ctx.rng, ctx.np_rng()
    cases = [gen_case(rng, nrng) for _ in range(ctx.n(120, 2500))]
    # EVERY run: integer-typed observations whose powers leave the integer type (millimetres as int32 under cubic weights: 1291**3 > 2**31;
    # int32 beyond 46340 under quadratic weights; int64 beyond 2.1e6 under cubic weights), as arrays and as lists of ints
    base_ = sts.weibull_min.rvs(1.6, scale=3.0, size=60, random_state=12345)
    for unit_, dt_, wk_ in ((1000, "int32", "cubic"), (20000, "int32", "quadratic"), (1000000, "int64", "cubic"), (1000, "list", "cubic"), (1000, "int32", "linear")):
        for dl_ in (1.0, 2.35):
            cases.insert(0, {"x": [float(v) for v in np.round(base_ * unit_)], "weights": wk_, "method": "wlsq", "delta": dl_, "dtype": dt_})
    # ---- correspondence: the closed-form estimate on the arrays the real code builds
    captured = []
    orig = EW._estimate_alpha_beta

    def spy(delta, x, p, w, *a, **k):
        r = orig(delta, x, p, w, *a, **k)
        captured.append((float(delta), np.array(x, dtype=float), np.array(p, dtype=float), np.array(w, dtype=float), (float(r[0]), float(r[1]))))
        return r
    lines, expect, dist = [], [], {}
    for c in cases:
        key = "%s/%s/%s" % (c["weights"], "fixed" if c["delta"] is not None else "free", c["method"])
        dist[key] = dist.get(key, 0) + 1
        ctx.count((tuple(c["x"][:8]), len(c["x"]), c["weights"], c["delta"], tuple(c.get("warr", [])[:3])), True)
        captured.clear()
        EW._estimate_alpha_beta = staticmethod(spy)
        try:
            fit(c)
        except Exception:
            pass
        finally:
            EW._estimate_alpha_beta = staticmethod(orig)
        if not captured:
            continue
        delta, x, p, w, (al, be) = captured[-1]
        if len(x) > 400:
            continue
        keep = x != 0
        xs, ps, ws = x[keep], p[keep], w[keep]
        # plotting positions and zero removal are compared exactly; the transcendental columns are oracle values
        n = len(x)
        if not np.array_equal(p, (np.arange(1, n + 1) - 0.5) / n):
            ctx.mismatch("plotting positions", "p is not (i-0.5)/n for case %r" % {k: v for k, v in c.items() if k != "x"})
        xstar = np.log10(xs)
        pstar = np.log10(-np.log(1 - ps ** (1 / delta)))
        lines.append("run %s %s %s" % (fl_list(ws), fl_list(pstar), fl_list(xstar)))
        expect.append((c, math.log10(al) if al > 0 else float("nan"), be))
    items = []
    shard = 40
    for s in range(0, len(lines), shard):
        items.append(("cases_%d" % (s // shard), PRELUDE + "Eval vm_compute in [\n" + ";\n".join(lines[s:s + shard]) + "].\n"))
    outs = ctx.coq_eval_many(items)
    idx, nclose = 0, 0
    suspects = []
    for o in outs:
        if o is None:
            idx += shard
            continue
        for a_hat, b_hat, beta in vlib.parse_term(o[0]):
            c, la, be = expect[idx]
            idx += 1
            if vlib.close(float(a_hat), la, 1e-7, 1e-9) and vlib.close(float(beta), be, 1e-7):
                nclose += 1
            else:
                ctx.mismatch("_estimate_alpha_beta", "model (normalised weights) gives log10 alpha=%r beta=%r, implementation %r %r (weights=%r, delta=%r, n=%d)" % (
                    a_hat, beta, la, be, c["weights"], c["delta"], len(c["x"])))
                suspects.append(c)
    ctx.cov["programs"] = 3
    ctx.notes["correspondence"] = {"cases": len(expect), "agree_1e-7": nclose}
    ctx.notes["input_distribution"] = dist
    # ---- search
    found = 0
    for c in suspects[:10] + cases[: ctx.n(90, 1510)]:
        try:
            o = oracle(c)
        except Exception as e:  # noqa
            o = ({"clause": "exception", "exc": type(e).__name__}, "%s: %s" % (type(e).__name__, e))
        if o is not None:
            small = shrink(c, o[0])
            o2 = oracle(small) or o
            if ctx.violation(o2[0], o2[1], small):
                found += 1
                if found >= 6:
                    break
    ctx.sample({k: (v if k != "x" else v[:6] + ["..."]) for k, v in cases[0].items() if k != "warr"})
    ctx.cov["rule"] = ("positive samples of 30..3000 points from 5 families (ties and zeros included) x weights none/linear/quadratic/cubic/positive arrays scaled by constants x "
                       "delta fixed/free x lsq/wlsq; non-trivial: all; distinct = (sample head, size, weights, delta)")
    ctx.cov["trusted_base"] = ["Coq kernel + vm_compute", "hand model model/EwLsq.v tied by this correspondence (1e-7: numpy sums pairwise, the model sequentially)",
                               "log10/ln/power columns are oracle values computed by numpy", "scipy.optimize.fmin for the free delta (oracle)"]
    ctx.assumptions += ["free-delta optimality is validated numerically only"]
