#!/usr/bin/env python3
"""py2v.py <repo> <outdir> -- fail-closed translator from a small Python subset (ast) to Gallina.

Translates, from the CURRENT sources of virocon:
  distributions.py   per family: record of attributes, __init__, `parameters`, properties (+setters), static
                     helpers, _get_scipy_parameters, cdf/icdf/pdf/draw_sample (as scipy call descriptors), _fit_mle
  variable_transform.py   all functions and module constants
  predefined.py      the nested _transform/_inv_transform/_jacobian triples of the transformed-model getters
Output: <outdir>/Distributions.v, VariableTransform.v, Predefined.v, written only when their content changes.
The code is emitted once, generic over `NumOps T` (coq/base/Num.v); theorems instantiate it with R, the
validation runs with binary64.  Any construct outside the subset rejects that function (line `REJECT ...` on
stdout, nothing emitted for it), so that whatever depends on it stops compiling: fail-closed.
Functions that are modelled by hand elsewhere are pinned by a hash of their (docstring-free) source.
"""
import ast
import hashlib
import os
import sys
from fractions import Fraction


class Reject(Exception):
    pass


KEYWORDS = {"fix", "in", "at", "as", "end", "fun", "let", "match", "with", "if", "then", "else", "return", "Type", "Set",
            "Prop", "forall", "exists", "where", "for", "using", "mod", "cofix", "struct"}


def ident(n):
    if n in KEYWORDS:
        return n + "_"
    if n == "_":
        return "_"
    return n


def strip_doc(node):
    body = node.body
    if body and isinstance(body[0], ast.Expr) and isinstance(getattr(body[0], "value", None), ast.Constant) \
            and isinstance(body[0].value.value, str):
        body = body[1:]
    return body


def src_hash(node):
    clone = ast.parse(ast.unparse(node)).body[0]
    for n in ast.walk(clone):
        if isinstance(n, (ast.FunctionDef, ast.ClassDef)):
            n.body = strip_doc(n) or [ast.Pass()]
    return hashlib.sha1(ast.unparse(clone).encode()).hexdigest()[:16]


def lit_float(v):
    fr = Fraction(repr(float(v))) if not float(v).is_integer() else Fraction(int(v))
    h = float(v).hex()
    if h.startswith("-"):
        h = "(-" + h[1:] + ")"
    return "(n_lit N (%d # %d) %s%%float)" % (fr.numerator, fr.denominator, h)


# ======================================================================================= class model
class ClassInfo:
    def __init__(self, node, bases):
        self.node = node
        self.name = node.name
        self.bases = bases  # list of ClassInfo (MRO tail)
        self.methods = {}
        self.getters = {}
        self.setters = {}
        self.static = set()
        for st in node.body:
            if isinstance(st, ast.FunctionDef):
                decs = [ast.unparse(d) for d in st.decorator_list]
                if "property" in decs:
                    self.getters[st.name] = st
                elif any(d.endswith(".setter") for d in decs):
                    self.setters[st.name] = st
                else:
                    self.methods[st.name] = st
                    if "staticmethod" in decs:
                        self.static.add(st.name)
        self.fields = []  # (name, 'opt'|'num')
        init = self.methods.get("__init__")
        if init is not None:
            optparams = {a.arg for a, d in zip(init.args.args[len(init.args.args) - len(init.args.defaults):], init.args.defaults)
                         if isinstance(d, ast.Constant) and d.value is None}
            for st in ast.walk(init):
                if isinstance(st, ast.Assign) and len(st.targets) == 1 and isinstance(st.targets[0], ast.Attribute) \
                        and isinstance(st.targets[0].value, ast.Name) and st.targets[0].value.id == "self":
                    nm = st.targets[0].attr
                    kind = "opt" if isinstance(st.value, ast.Name) and st.value.id in optparams else "num"
                    if nm not in [f for f, _ in self.fields]:
                        self.fields.append((nm, kind))

    def mro(self):
        return [self] + [c for b in self.bases for c in b.mro()]

    def find(self, table, name):
        for c in self.mro():
            t = getattr(c, table)
            if name in t:
                return c, t[name]
        return None, None

    def field_kind(self, name):
        for f, k in self.fields:
            if f == name:
                return k
        return None


# ======================================================================================= function translator
class FnTr:
    """Translate one function body to a Gallina term (CPS over statements)."""

    def __init__(self, unit, cls, fn, qualname):
        self.u = unit
        self.cls = cls
        self.fn = fn
        self.q = qualname
        self.res_mode = False
        self.uses_fit = False
        self.opt = set()      # local names currently option-typed
        self.narrow = {}      # 'name' or 'self.attr' -> coq var holding the unwrapped value
        self.static_dicts = {}
        self.dyn_dicts = set()
        self.fresh = 0
        self.ret_arity = None

    def rej(self, node, why):
        raise Reject("%s: line %s: %s" % (self.q, getattr(node, "lineno", "?"), why))

    def gensym(self, base):
        self.fresh += 1
        return "%s_%d" % (base, self.fresh)

    # ------------------------------------------------------------------ analysis
    def scan_mode(self):
        for n in ast.walk(self.fn):
            if isinstance(n, ast.Raise):
                self.res_mode = True
            if isinstance(n, ast.Call):
                f = ast.unparse(n.func)
                if f.startswith("sts.") and f.endswith(".fit"):
                    self.res_mode = True
                    self.uses_fit = True
                if f.startswith("self.") and self.cls is not None and f[5:] not in ("_get_rvs_size",):
                    callee = f[5:]
                    info = self.u.member_info(self.cls, callee)
                    if info and info["res"]:
                        self.res_mode = True
        for n in ast.walk(self.fn):
            if isinstance(n, ast.Assign) and isinstance(n.targets[0], ast.Subscript) and isinstance(n.targets[0].value, ast.Name):
                self.dyn_dicts.add(n.targets[0].value.id)

    # ------------------------------------------------------------------ expressions
    def expr(self, e, want="num"):
        """want: 'num' (a T value), 'opt' (option passed through), 'any'"""
        if isinstance(e, ast.Constant):
            if isinstance(e.value, bool) or e.value is None or isinstance(e.value, str):
                self.rej(e, "constant %r in value position" % (e.value,))
            if isinstance(e.value, int):
                return "(n_Z N (%d))" % e.value
            if isinstance(e.value, float):
                return lit_float(e.value)
            self.rej(e, "constant")
        if isinstance(e, ast.Name):
            key = e.id
            if key in self.narrow:
                return self.narrow[key]
            if key in self.opt:
                if want == "opt":
                    return ident(key)
                self.rej(e, "option-typed name %s used as a number without a None test" % key)
            if key in self.u.module_consts:
                return self.u.module_consts[key]
            if want == "opt":
                return "(Some %s)" % ident(key)
            return ident(key)
        if isinstance(e, ast.Attribute):
            s = ast.unparse(e)
            if s in self.narrow:
                return self.narrow[s]
            if isinstance(e.value, ast.Name) and e.value.id == "self":
                return self.self_attr(e, want)
            if s == "np.pi" or s == "math.pi":
                return "(n_pi N)"
            if s == "np.inf":
                self.rej(e, "np.inf")
            if s in self.u.module_consts:
                return self.u.module_consts[s]
            self.rej(e, "attribute %s" % s)
        if isinstance(e, ast.UnaryOp) and isinstance(e.op, ast.USub):
            return "(n_opp N %s)" % self.expr(e.operand)
        if isinstance(e, ast.BinOp):
            if isinstance(e.op, ast.Pow):
                if isinstance(e.right, ast.Constant) and isinstance(e.right.value, int) and e.right.value >= 0:
                    return "(n_powZ N %s (%d))" % (self.expr(e.left), e.right.value)
                return "(n_rpow N %s %s)" % (self.expr(e.left), self.expr(e.right))
            op = {ast.Add: "n_add", ast.Sub: "n_sub", ast.Mult: "n_mul", ast.Div: "n_div"}.get(type(e.op))
            if op is None:
                self.rej(e, "operator %s" % type(e.op).__name__)
            return "(%s N %s %s)" % (op, self.expr(e.left), self.expr(e.right))
        if isinstance(e, ast.IfExp):
            return self.cond(e.test, lambda: self.expr(e.body, want), lambda: self.expr(e.orelse, want))
        if isinstance(e, ast.Call):
            return self.call(e, want)
        if isinstance(e, ast.Subscript):
            return self.subscript(e)
        if isinstance(e, ast.Tuple):
            return "(" + ", ".join(self.expr(x) for x in e.elts) + ")"
        if isinstance(e, ast.Dict):
            return "[" + "; ".join('("%s"%%string, %s)' % (self.const_key(k), self.expr(v)) for k, v in zip(e.keys, e.values)) + "]"
        self.rej(e, "expression %s" % type(e).__name__)

    def const_key(self, k):
        if isinstance(k, ast.Constant) and isinstance(k.value, str):
            return k.value
        self.rej(k, "non-constant dict key")

    def subscript(self, e):
        if isinstance(e.value, ast.Name) and e.value.id in self.static_dicts:
            d = self.static_dicts[e.value.id]
            k = self.const_key(e.slice)
            if k not in d:
                self.rej(e, "key %s not in dict literal" % k)
            return d[k]
        # x[:, k] on a 2-column row argument
        if isinstance(e.slice, ast.Tuple) and len(e.slice.elts) == 2 and isinstance(e.slice.elts[0], ast.Slice) \
                and isinstance(e.slice.elts[1], ast.Constant) and e.slice.elts[1].value in (0, 1) and isinstance(e.value, ast.Name):
            s = e.slice.elts[0]
            if s.lower is None and s.upper is None and s.step is None:
                return "(%s %s)" % ("fst" if e.slice.elts[1].value == 0 else "snd", ident(e.value.id))
        # np.c_[a, b]
        if ast.unparse(e.value) == "np.c_" and isinstance(e.slice, ast.Tuple) and len(e.slice.elts) == 2:
            return "(%s, %s)" % (self.expr(e.slice.elts[0]), self.expr(e.slice.elts[1]))
        self.rej(e, "subscript %s" % ast.unparse(e))

    def self_attr(self, e, want):
        name = e.attr
        c, g = self.cls.find("getters", name)
        if g is not None:
            info = self.u.member_info(self.cls, name)
            if info["res"]:
                self.rej(e, "property %s can raise" % name)
            return "(%s self)" % info["coq"]
        k = self.cls.field_kind(name)
        if k is None:
            self.rej(e, "unknown attribute self.%s" % name)
        acc = "(%s_%s self)" % (self.cls.name, name)
        if k == "opt":
            if want == "opt" or want == "any":
                return acc
            self.rej(e, "option-typed attribute self.%s used as a number without a None test" % name)
        if want == "opt":
            return "(Some %s)" % acc
        return acc

    def call(self, e, want):
        f = ast.unparse(e.func)
        un = {"np.exp": "n_exp", "math.exp": "n_exp", "np.log": "n_log", "math.log": "n_log", "np.log10": "n_log10",
              "np.sqrt": "n_sqrt", "math.sqrt": "n_sqrt"}
        if f in un and len(e.args) == 1 and not e.keywords:
            return "(%s N %s)" % (un[f], self.expr(e.args[0]))
        if f == "np.square" and len(e.args) == 1 and not e.keywords:
            a = self.expr(e.args[0])
            return "(n_mul N %s %s)" % (a, a)
        if f.startswith("self.") and "." not in f[5:] and self.cls is not None:
            name = f[5:]
            info = self.u.member_info(self.cls, name)
            if info is None:
                self.rej(e, "unknown method %s" % f)
            if e.keywords or len(e.args) != len(info["params"]):
                self.rej(e, "call arity/keywords of %s" % f)
            args = [self.expr(a, "opt" if k == "opt" else "num") for a, (_, k) in zip(e.args, info["params"])]
            t = "(%s%s %s)" % (info["coq"], "" if info["static"] else " self", " ".join(args))
            if info["res"]:
                return ("RES", t)
            return t
        if f in self.u.module_funcs and not e.keywords:
            info = self.u.module_funcs[f]
            if len(e.args) != info["arity"]:
                self.rej(e, "arity of %s" % f)
            return "(%s %s)" % (info["coq"], " ".join(self.expr(a) for a in e.args))
        self.rej(e, "call of %s" % f)

    # conditions: None tests narrow; everything else is a boolean expression
    def none_test(self, t):
        """returns (key, coq_option_expr, positive_is_none) or None"""
        if isinstance(t, ast.Compare) and len(t.ops) == 1 and isinstance(t.comparators[0], ast.Constant) \
                and t.comparators[0].value is None and isinstance(t.ops[0], (ast.Is, ast.IsNot)):
            lhs = t.left
            key = ast.unparse(lhs)
            if isinstance(lhs, ast.Name) and lhs.id in self.opt:
                return key, ident(lhs.id), isinstance(t.ops[0], ast.Is)
            if isinstance(lhs, ast.Attribute) and isinstance(lhs.value, ast.Name) and lhs.value.id == "self" \
                    and self.cls.field_kind(lhs.attr) == "opt":
                return key, "(%s_%s self)" % (self.cls.name, lhs.attr), isinstance(t.ops[0], ast.Is)
            if key in self.narrow:
                self.rej(t, "None test on a value already known not to be None")
            self.rej(t, "None test on %s which is not option-typed" % key)
        return None

    def boolexpr(self, t):
        if isinstance(t, ast.Compare) and len(t.ops) == 1 and isinstance(t.ops[0], (ast.NotEq, ast.Eq)):
            a, b = t.left, t.comparators[0]
            na, nb = self.is_none_expr(a), self.is_none_expr(b)
            if na and nb:
                x = "(xorb %s %s)" % (na, nb)
                return x if isinstance(t.ops[0], ast.NotEq) else "(negb %s)" % x
        if isinstance(t, ast.Compare) and len(t.ops) == 1 and type(t.ops[0]) in (ast.LtE, ast.Lt, ast.GtE, ast.Gt):
            a, b = self.expr(t.left), self.expr(t.comparators[0])
            return {ast.LtE: "(n_leb N %s %s)" % (a, b), ast.Lt: "(n_ltb N %s %s)" % (a, b),
                    ast.GtE: "(n_leb N %s %s)" % (b, a), ast.Gt: "(n_ltb N %s %s)" % (b, a)}[type(t.ops[0])]
        self.rej(t, "condition %s" % ast.unparse(t))

    def is_none_expr(self, e):
        nt = self.none_test(e) if isinstance(e, ast.Compare) else None
        if nt:
            _, oe, pos = nt
            return "(is_none %s)" % oe if pos else "(negb (is_none %s))" % oe
        return None

    def cond(self, test, then_k, else_k):
        nt = self.none_test(test)
        if nt:
            key, oe, is_none = nt
            v = self.gensym(ident(key.replace("self.", "").replace(".", "_")) + "_v")
            saved_n, saved_o = dict(self.narrow), set(self.opt)

            def with_some(k):
                self.narrow[key] = v
                r = k()
                self.narrow, self.opt = dict(saved_n), set(saved_o)
                return r

            def with_none(k):
                r = k()
                self.narrow, self.opt = dict(saved_n), set(saved_o)
                return r
            if is_none:
                tn, ts = with_none(then_k), with_some(else_k)
            else:
                ts, tn = with_some(then_k), with_none(else_k)
            return "(match %s with None => %s | Some %s => %s end)" % (oe, tn, v, ts)
        b = self.boolexpr(test)
        saved_n, saved_o = dict(self.narrow), set(self.opt)
        t1 = then_k()
        self.narrow, self.opt = dict(saved_n), set(saved_o)
        t2 = else_k()
        self.narrow, self.opt = dict(saved_n), set(saved_o)
        return "(if %s then %s else %s)" % (b, t1, t2)

    # ------------------------------------------------------------------ statements (CPS)
    def assigned(self, stmts):
        out = []

        def add(x):
            if x not in out:
                out.append(x)
        for st in stmts:
            for n in ast.walk(st):
                if isinstance(n, ast.Assign):
                    for t in n.targets:
                        for tt in (t.elts if isinstance(t, ast.Tuple) else [t]):
                            if isinstance(tt, ast.Name) and tt.id != "_":
                                add(tt.id)
                            elif isinstance(tt, ast.Attribute) and isinstance(tt.value, ast.Name) and tt.value.id == "self":
                                add("self")
                            elif isinstance(tt, ast.Subscript) and isinstance(tt.value, ast.Name):
                                add(tt.value.id)
        return out

    def terminates(self, stmts):
        return bool(stmts) and isinstance(stmts[-1], (ast.Return, ast.Raise))

    def wrap_ok(self, t):
        return "(Ok %s)" % t if self.res_mode else t

    def stmts(self, ss, k):
        """k() -> term for falling off the end"""
        if not ss:
            return k()
        st, rest = ss[0], ss[1:]
        cont = lambda: self.stmts(rest, k)
        if isinstance(st, (ast.Pass, ast.Global)):
            return cont()
        if isinstance(st, ast.Expr):
            if isinstance(st.value, ast.Constant):
                return cont()
            self.rej(st, "expression statement")
        if isinstance(st, ast.Return):
            if st.value is None:
                self.rej(st, "bare return")
            v = st.value
            if isinstance(v, ast.Call) and ast.unparse(v.func).startswith("sts."):
                return self.sts_call(v)
            if isinstance(v, ast.Tuple):
                self.ret_arity = len(v.elts)
            t = self.expr(v, "any")
            if isinstance(t, tuple):
                return t[1]
            return self.wrap_ok(t)
        if isinstance(st, ast.Raise):
            exc = st.exc
            nm = ast.unparse(exc.func) if isinstance(exc, ast.Call) else ast.unparse(exc)
            return '(Err "%s"%%string)' % nm
        if isinstance(st, ast.Assign):
            if len(st.targets) != 1:
                self.rej(st, "chained assignment")
            return self.assign(st.targets[0], st.value, cont)
        if isinstance(st, ast.If):
            return self.if_stmt(st, rest, k)
        self.rej(st, "statement %s" % type(st).__name__)

    def bind_res(self, t, pat, cont):
        return "(bind %s (fun %s => %s))" % (t, pat, cont())

    def unsafe_opts(self, e, want="num"):
        out = []
        if isinstance(e, ast.Name):
            if e.id in self.opt and e.id not in self.narrow and want == "num":
                out.append(e.id)
            return out
        if isinstance(e, ast.Call):
            f = ast.unparse(e.func)
            if f.startswith("self.") and "." not in f[5:] and self.cls is not None and f[5:] != "_get_rvs_size":
                info = self.u.member_info(self.cls, f[5:])
                if info and len(info["params"]) == len(e.args):
                    for a, (_, k) in zip(e.args, info["params"]):
                        out += self.unsafe_opts(a, "opt" if k == "opt" else "num")
                    return out
            for a in e.args:
                out += self.unsafe_opts(a)
            return out
        if isinstance(e, (ast.Compare, ast.IfExp)):
            return out
        for ch in ast.iter_child_nodes(e):
            if isinstance(ch, ast.expr):
                out += self.unsafe_opts(ch)
        return out

    def assign(self, tgt, val, cont):
        bad = []
        for x in self.unsafe_opts(val):
            if x not in bad:
                bad.append(x)
        if bad:
            if not self.res_mode:
                self.rej(val, "option-typed name %s used as a number without a None test" % bad[0])
            x = bad[0]
            v = self.gensym(ident(x) + "_v")
            saved = dict(self.narrow)
            self.narrow[x] = v
            inner = self.assign(tgt, val, cont)
            self.narrow = saved
            return '(match %s with Some %s => %s | None => Err "TypeError"%%string end)' % (ident(x), v, inner)
        # self.a, self.b, _ = sts.fam.fit(...)
        if isinstance(val, ast.Call) and ast.unparse(val.func).startswith("sts.") and ast.unparse(val.func).endswith(".fit"):
            return self.fit_assign(tgt, val, cont)
        if isinstance(tgt, ast.Name):
            if isinstance(val, ast.Dict) and tgt.id not in self.dyn_dicts:
                self.static_dicts[tgt.id] = {self.const_key(k): self.expr(v) for k, v in zip(val.keys, val.values)}
                return cont()
            if isinstance(val, ast.Call) and ast.unparse(val.func) == "self._get_rvs_size":
                # hand-modelled (hash-pinned) helper: the rvs size is part of the call descriptor
                self.opt.discard(tgt.id)
                self.narrow.pop(tgt.id, None)
                return cont()
            t = self.expr(val, "any")
            self.opt.discard(tgt.id)
            self.narrow.pop(tgt.id, None)
            if isinstance(t, tuple):
                return self.bind_res(t[1], ident(tgt.id), cont)
            return "(let %s := %s in %s)" % (ident(tgt.id), t, cont())
        if isinstance(tgt, ast.Tuple) and all(isinstance(x, ast.Name) for x in tgt.elts):
            t = self.expr(val, "any")
            for x in tgt.elts:
                self.opt.discard(x.id)
                self.narrow.pop(x.id, None)
            pat = "'(" + ", ".join(ident(x.id) for x in tgt.elts) + ")"
            if isinstance(t, tuple):
                return self.bind_res(t[1], pat, cont)
            return "(let %s := %s in %s)" % (pat, t, cont())
        if isinstance(tgt, ast.Attribute) and isinstance(tgt.value, ast.Name) and tgt.value.id == "self":
            t = self.expr(val, "any")
            if isinstance(t, tuple):
                self.rej(tgt, "attribute assigned from a raising call")
            return self.set_attr(tgt.attr, t, cont)
        if isinstance(tgt, ast.Subscript) and isinstance(tgt.value, ast.Name) and tgt.value.id in self.dyn_dicts:
            d = ident(tgt.value.id)
            return '(let %s := %s ++ [("%s"%%string, %s)] in %s)' % (d, d, self.const_key(tgt.slice), self.expr(val), cont())
        self.rej(tgt, "assignment target %s" % ast.unparse(tgt))

    def set_attr(self, name, term, cont):
        c, setter = self.cls.find("setters", name)
        if setter is not None:
            # inline the setter body: def _scale(self, val): self.mu = np.log(val)
            body = strip_doc(setter)
            valname = setter.args.args[1].arg
            saved = self.narrow.get(valname)
            v = self.gensym(valname)
            self.narrow[valname] = v

            def k():
                if saved is None:
                    self.narrow.pop(valname, None)
                else:
                    self.narrow[valname] = saved
                return cont()
            inner = self.stmts(body, k)
            return "(let %s := %s in %s)" % (v, term, inner)
        kind = self.cls.field_kind(name)
        if kind is None:
            self.rej(self.fn, "assignment to unknown attribute self.%s" % name)
        if "self" not in self.bound_self:
            # inside __init__: collect field values
            self.init_fields[name] = term if kind == "num" or term.startswith("(Some") or True else term
            return cont()
        fields = "; ".join("%s_%s := %s" % (self.cls.name, f, term if f == name else "%s_%s self" % (self.cls.name, f))
                           for f, _ in self.cls.fields)
        return "(let self := {| %s |} in %s)" % (fields, cont())

    def fit_assign(self, tgt, val, cont):
        fam = ast.unparse(val.func).split(".")[1]
        if not isinstance(tgt, ast.Tuple):
            self.rej(tgt, "fit result must be unpacked")
        pos = [self.expr(a) for a in val.args[1:]]
        kws, star = [], None
        for kw in val.keywords:
            if kw.arg is None:
                if not (isinstance(kw.value, ast.Name) and kw.value.id in self.dyn_dicts):
                    self.rej(val, "**kwargs source")
                star = ident(kw.value.id)
            else:
                kws.append('("%s"%%string, %s)' % (kw.arg, self.expr(kw.value)))
        kwt = "[" + "; ".join(kws) + "]" + (" ++ " + star if star else "")
        names = [self.gensym("r") for _ in tgt.elts]
        body = cont_chain = None

        def chain(i):
            if i == len(tgt.elts):
                return cont()
            t = tgt.elts[i]
            if isinstance(t, ast.Name) and t.id == "_":
                return chain(i + 1)
            if isinstance(t, ast.Attribute) and isinstance(t.value, ast.Name) and t.value.id == "self":
                return self.set_attr(t.attr, names[i], lambda: chain(i + 1))
            self.rej(t, "fit unpack target")
        inner = chain(0)
        return '(match fit (mkfit "%s"%%string [%s] (%s)) with [%s] => %s | _ => Err "ValueError:unpack"%%string end)' % (
            fam, "; ".join(pos), kwt, "; ".join(names), inner)

    def sts_call(self, v):
        f = ast.unparse(v.func).split(".")
        if len(f) != 3:
            self.rej(v, "sts call")
        fam, meth = f[1], f[2]
        args = list(v.args)
        star = [a for a in args if isinstance(a, ast.Starred)]
        if len(star) != 1 or not isinstance(star[0].value, ast.Name):
            self.rej(v, "sts call without *scipy_par")
        sp = star[0].value.id
        if sp not in self.tuple_vars:
            self.rej(v, "*%s is not the result of _get_scipy_parameters" % sp)
        for kw in v.keywords:
            if kw.arg not in ("size", "random_state"):
                self.rej(v, "keyword %s" % kw.arg)
        return self.wrap_ok('(mkcall "%s"%%string "%s"%%string %s)' % (fam, meth, self.tuple_vars[sp]))

    def if_stmt(self, st, rest, k):
        body, orelse = st.body, st.orelse
        tb, te = self.terminates(body), self.terminates(orelse)
        if tb and (te or not orelse):
            if not orelse:
                return self.cond(st.test, lambda: self.stmts(body, lambda: self.rej(st, "fallthrough")),
                                 lambda: self.stmts(rest, k))
            return self.cond(st.test, lambda: self.stmts(body, lambda: self.rej(st, "fallthrough")),
                             lambda: self.stmts(orelse, lambda: self.rej(st, "fallthrough")))
        if tb or te:
            self.rej(st, "if with one terminating and one falling branch")
        av = self.assigned(body + orelse)
        later = set()
        for r in rest:
            for n in ast.walk(r):
                if isinstance(n, ast.Name):
                    later.add(n.id)
        av = [a for a in av if a == "self" or a in later]
        if not av:
            self.rej(st, "if without effect")
        # variables assigned in a branch are threaded through a tuple; an option-typed name that a branch leaves
        # untouched keeps its (narrowed) value
        pre_opt = set(self.opt)

        def branch(ss):
            def end():
                vals = []
                for a in av:
                    if a == "self":
                        vals.append("self")
                    elif a in self.narrow:
                        vals.append(self.narrow[a])
                    elif a in self.opt:
                        self.rej(st, "name %s may stay None after the if" % a)
                    else:
                        vals.append(ident(a))
                tup = vals[0] if len(vals) == 1 else "(" + ", ".join(vals) + ")"
                return "(Ok %s)" % tup if self.res_mode else tup
            return lambda: self.stmts(ss, end)
        for a in av:
            if a != "self" and a not in self.opt and a not in self.known and a not in self.dyn_dicts:
                # first assignment inside the branches: must be assigned in both
                if not (a in self.assigned(body) and a in self.assigned(orelse)):
                    self.rej(st, "name %s assigned in one branch only" % a)
        t = self.cond(st.test, branch(body), branch(orelse))
        for a in av:
            if a != "self":
                self.opt.discard(a)
                self.narrow.pop(a, None)
                self.known.add(a)
        pat = ("self" if av == ["self"] else ident(av[0])) if len(av) == 1 else "'(" + ", ".join("self" if a == "self" else ident(a) for a in av) + ")"
        if self.res_mode:
            return "(bind %s (fun %s => %s))" % (t, pat, self.stmts(rest, k))
        return "(let %s := %s in %s)" % (pat, t, self.stmts(rest, k))

    # ------------------------------------------------------------------ entry points
    def params(self):
        a = self.fn.args
        if a.vararg or a.kwarg:
            raise Reject("%s: *args/**kwargs" % self.q)
        ps = list(a.args)
        if self.cls is not None and ps and ps[0].arg == "self":
            ps = ps[1:]
        nd = len(a.defaults)
        out = []
        for i, p in enumerate(ps):
            di = i - (len(ps) - nd)
            d = a.defaults[di] if di >= 0 else None
            kind = "opt" if isinstance(d, ast.Constant) and d.value is None else "num"
            if d is None and p.arg in self.none_tested():
                kind = "opt"   # positional parameter that the body tests against None
            out.append((p.arg, kind))
        return out

    def none_tested(self):
        out = set()
        for n in ast.walk(self.fn):
            if isinstance(n, ast.Compare) and len(n.ops) == 1 and isinstance(n.ops[0], (ast.Is, ast.IsNot)) \
                    and isinstance(n.comparators[0], ast.Constant) and n.comparators[0].value is None and isinstance(n.left, ast.Name):
                out.add(n.left.id)
        return out

    def translate(self, drop_params=()):
        self.scan_mode()
        ps = [(n, k) for n, k in self.params() if n not in drop_params]
        self.known = {n for n, _ in ps}
        self.opt = {n for n, k in ps if k == "opt"}
        self.bound_self = {"self"}
        self.tuple_vars = {}
        body = strip_doc(self.fn)
        # cdf/icdf/pdf/draw_sample: `scipy_par = self._get_scipy_parameters(...)` feeds `*scipy_par`
        term = self.stmts_with_scipy_par(body)
        return ps, term

    def stmts_with_scipy_par(self, body):
        if body and isinstance(body[0], ast.Assign) and isinstance(body[0].value, ast.Call) \
                and ast.unparse(body[0].value.func) == "self._get_scipy_parameters" and isinstance(body[0].targets[0], ast.Name):
            info = self.u.member_info(self.cls, "_get_scipy_parameters")
            if info is None or info["ret_arity"] is None:
                self.rej(body[0], "_get_scipy_parameters not translated")
            names = [self.gensym("sp") for _ in range(info["ret_arity"])]
            self.tuple_vars[body[0].targets[0].id] = "[" + "; ".join(names) + "]"
            t = self.expr(body[0].value, "any")
            rest = lambda: self.stmts(body[1:], lambda: self.rej(self.fn, "function falls off the end"))
            pat = "'(" + ", ".join(names) + ")"
            if isinstance(t, tuple):
                return self.bind_res(t[1], pat, rest)
            return "(let %s := %s in %s)" % (pat, t, rest())
        return self.stmts(body, lambda: self.fall_off())

    def fall_off(self):
        if self.returns_self:
            return self.wrap_ok("self")
        self.rej(self.fn, "function falls off the end")

    returns_self = False


# ======================================================================================= unit
class Unit:
    def __init__(self):
        self.module_consts = {}
        self.module_funcs = {}
        self.members = {}   # (cls, name) -> info
        self.out = []
        self.rejects = []
        self.inprogress = set()

    def member_info(self, cls, name):
        key = (cls.name, name)
        if key in self.members:
            return self.members[key]
        if key in self.inprogress:
            return None
        self.inprogress.add(key)
        try:
            info = self.translate_member(cls, name)
        except Reject as r:
            self.rejects.append(str(r))
            info = None
        self.inprogress.discard(key)
        self.members[key] = info
        return info

    def translate_member(self, cls, name):
        c, g = cls.find("getters", name)
        static = False
        if g is not None:
            fn = g
        else:
            c, fn = cls.find("methods", name)
            if fn is None:
                return None
            static = name in c.static
        q = "distributions:%s.%s" % (cls.name, name)
        tr = FnTr(self, cls if not static else cls, fn, q)
        tr.returns_self = name in ("_fit_mle",)
        coq = "%s_%s" % (cls.name, name)
        ps, term = tr.translate(drop_params=("x", "prob", "n", "sample", "random_state") if name in ("cdf", "icdf", "pdf", "draw_sample", "_fit_mle") else ())
        args = "".join(" (%s : %s)" % (ident(n), "option T" if k == "opt" else "T") for n, k in ps)
        selfarg = "" if static else " (self : %s)" % cls.name
        fitarg = " (fit : fitcall T -> list T)" if tr.uses_fit else ""
        self.out.append("Definition %s%s%s%s :=\n  %s." % (coq, fitarg, selfarg, args, term))
        return {"coq": coq + (" fit" if tr.uses_fit else ""), "params": ps, "res": tr.res_mode, "static": static, "ret_arity": tr.ret_arity}

    def emit_record(self, cls):
        fs = "; ".join("%s_%s : %s" % (cls.name, f, "option T" if k == "opt" else "T") for f, k in cls.fields)
        self.out.append("Record %s := mk%s { %s }." % (cls.name, cls.name, fs))

    def emit_init(self, cls):
        c, fn = cls.find("methods", "__init__")
        q = "distributions:%s.__init__" % cls.name
        try:
            tr = FnTr(self, cls, fn, q)
            tr.scan_mode()
            ps = tr.params()
            tr.known = {n for n, _ in ps}
            tr.opt = {n for n, k in ps if k == "opt"}
            tr.bound_self = set()
            tr.init_fields = {}
            tr.tuple_vars = {}
            body = strip_doc(fn)

            def end():
                miss = [f for f, _ in cls.fields if f not in tr.init_fields]
                if miss:
                    tr.rej(fn, "fields not initialised: %s" % miss)
                return "{| " + "; ".join("%s_%s := %s" % (cls.name, f, tr.init_fields[f]) for f, _ in cls.fields) + " |}"
            # option-typed fields are assigned from option-typed names
            orig_expr = tr.expr

            def expr(e, want="num"):
                return orig_expr(e, want)
            term = None
            # assignments only
            for st in body:
                if not (isinstance(st, ast.Assign) and isinstance(st.targets[0], ast.Attribute)):
                    tr.rej(st, "__init__ statement")
                nm = st.targets[0].attr
                kind = cls.field_kind(nm)
                tr.init_fields[nm] = tr.expr(st.value, "opt" if kind == "opt" else "num")
            term = end()
            args = "".join(" (%s : %s)" % (ident(n), "option T" if k == "opt" else "T") for n, k in ps)
            self.out.append("Definition %s_init%s : %s :=\n  %s." % (cls.name, args, cls.name, term))
            # defaults
            a = fn.args
            nd = len(a.defaults)
            pnames = [p.arg for p in a.args[1:]]
            for i, p in enumerate(pnames):
                di = i - (len(pnames) - nd)
                if di >= 0 and isinstance(a.defaults[di], ast.Constant) and isinstance(a.defaults[di].value, (int, float)) \
                        and not isinstance(a.defaults[di].value, bool):
                    self.out.append("Definition %s_default_%s : T := %s." % (cls.name, p, tr.expr(a.defaults[di])))
        except Reject as r:
            self.rejects.append(str(r))


def write_if_changed(path, text):
    old = open(path).read() if os.path.exists(path) else None
    if old != text:
        with open(path, "w") as f:
            f.write(text)


HEADER = """(* GENERATED by tools/py2v.py from %s -- do not edit; regenerated on every run *)
From Coq Require Import ZArith QArith List String Bool PrimFloat.
From V.base Require Import Num.
Import ListNotations.
Set Implicit Arguments.
Section Gen.
Context {T : Type} (N : NumOps T).
"""

FAMILIES = ["WeibullDistribution", "LogNormalDistribution", "NormalDistribution", "LogNormalNormFitDistribution",
            "ExponentiatedWeibullDistribution", "GeneralizedGammaDistribution", "VonMisesDistribution"]
PINNED = [("ExponentiatedWeibullDistribution", "pdf"), ("LogNormalNormFitDistribution", "_fit_mle"), ("ExponentiatedWeibullDistribution", "_fit_lsq"),
          ("ExponentiatedWeibullDistribution", "_estimate_alpha_beta"), ("ExponentiatedWeibullDistribution", "_wlsq_error"),
          ("Distribution", "_get_rvs_size"), ("Distribution", "fit"),
          ("ConditionalDistribution", "__init__"), ("ConditionalDistribution", "_get_param_values"),
          ("ConditionalDistribution", "pdf"), ("ConditionalDistribution", "cdf"), ("ConditionalDistribution", "icdf"),
          ("ConditionalDistribution", "draw_sample"), ("ConditionalDistribution", "fit")]


def do_distributions(repo, outdir):
    src = open(os.path.join(repo, "virocon", "distributions.py")).read()
    mod = ast.parse(src)
    classes = {}
    for st in mod.body:
        if isinstance(st, ast.ClassDef):
            bases = [classes[ast.unparse(b)] for b in st.bases if ast.unparse(b) in classes]
            classes[st.name] = ClassInfo(st, bases)
    u = Unit()
    text = [HEADER % "virocon/distributions.py"]
    rejects = []
    for fam in FAMILIES:
        if fam not in classes:
            rejects.append("distributions:%s: class not found" % fam)
            continue
        cls = classes[fam]
        u.out = []
        u.emit_record(cls)
        u.emit_init(cls)
        todo = ["parameters"] + sorted(set(n for c in cls.mro() for n in c.getters if n != "parameters")) \
            + sorted(n for c in cls.mro() for n in c.static if n in ("calculate_mu", "calculate_sigma")) \
            + ["_get_scipy_parameters", "cdf", "icdf", "pdf", "draw_sample", "_fit_mle"]
        seen = set()
        for name in todo:
            if name in seen:
                continue
            seen.add(name)
            if (fam, name) in PINNED:
                continue
            if u.member_info(cls, name) is None:
                if not any(("%s.%s:" % (fam, name)) in r for r in u.rejects):
                    u.rejects.append("distributions:%s.%s: not translatable" % (fam, name))
        text.append("(* ---- %s *)" % fam)
        text += u.out
    rejects += u.rejects
    text.append("End Gen.")
    # pins of hand-modelled functions
    for cn, fn in PINNED:
        c = classes.get(cn)
        node = None
        if c:
            node = c.methods.get(fn) or c.getters.get(fn)
        if node is None:
            rejects.append("distributions:%s.%s: pinned function not found" % (cn, fn))
            continue
        text.append('Definition src_hash_%s_%s : string := "%s"%%string.' % (cn, fn.strip("_"), src_hash(node)))
    write_if_changed(os.path.join(outdir, "Distributions.v"), "\n".join(text) + "\n")
    return rejects


def do_module_functions(repo, outdir):
    """variable_transform.py (module constants + functions) and the nested transform triples of predefined.py"""
    rejects = []
    src = open(os.path.join(repo, "virocon", "variable_transform.py")).read()
    mod = ast.parse(src)
    u = Unit()
    text = [HEADER % "virocon/variable_transform.py"]
    for st in mod.body:
        if isinstance(st, ast.Assign) and isinstance(st.targets[0], ast.Name):
            nm = st.targets[0].id
            try:
                tr = FnTr(u, None, st, "variable_transform:%s" % nm)
                tr.known, tr.tuple_vars = set(), {}
                t = tr.expr(st.value)
                text.append("Definition vt_%s : T := %s." % (nm, t))
                u.module_consts[nm] = "vt_%s" % nm
            except Reject as r:
                rejects.append(str(r))
        elif isinstance(st, ast.FunctionDef):
            try:
                tr = FnTr(u, None, st, "variable_transform:%s" % st.name)
                ps, term = tr.translate()
                args = "".join(" (%s : T)" % ident(n) for n, _ in ps)
                text.append("Definition vt_%s%s :=\n  %s." % (st.name, args, term))
                u.module_funcs[st.name] = {"coq": "vt_%s" % st.name, "arity": len(ps)}
            except Reject as r:
                rejects.append(str(r))
    text.append("End Gen.")
    write_if_changed(os.path.join(outdir, "VariableTransform.v"), "\n".join(text) + "\n")
    # ---- predefined.py
    src = open(os.path.join(repo, "virocon", "predefined.py")).read()
    mod = ast.parse(src)
    text = [(HEADER % "virocon/predefined.py").replace("From V.base Require Import Num.", "From V.base Require Import Num.\nFrom V.gen Require Import VariableTransform.")]
    u2 = Unit()
    for nm, coq in u.module_consts.items():
        u2.module_consts["variable_transform." + nm] = "(%s N)" % coq
    for nm, info in u.module_funcs.items():
        u2.module_funcs["variable_transform." + nm] = {"coq": "%s N" % info["coq"], "arity": info["arity"]}
    found = 0
    for st in mod.body:
        if isinstance(st, ast.FunctionDef):
            for inner in st.body:
                if isinstance(inner, ast.FunctionDef) and inner.name in ("_transform", "_inv_transform", "_jacobian"):
                    found += 1
                    q = "predefined:%s.%s" % (st.name, inner.name)
                    try:
                        tr = FnTr(u2, None, inner, q)
                        ps, term = tr.translate()
                        args = "".join(" (%s : T * T)" % ident(n) for n, _ in ps)
                        text.append("Definition pd_%s%s%s :=\n  %s." % (st.name, inner.name, args, term))
                    except Reject as r:
                        rejects.append(str(r))
    if found == 0:
        rejects.append("predefined: no transform triples found")
    text.append("End Gen.")
    write_if_changed(os.path.join(outdir, "Predefined.v"), "\n".join(text) + "\n")
    return rejects


class VecTr:
    """straight-line numpy array code: every variable is a number ('num') or an equally long vector ('vec')"""

    def __init__(self, fn, q, types):
        self.fn, self.q, self.env = fn, q, dict(types)

    def rej(self, node, why):
        raise Reject("%s: line %s: %s" % (self.q, getattr(node, "lineno", "?"), why))

    def lift1(self, f, a):
        t, ty = a
        return ("(%s %s)" % (f, t), "num") if ty == "num" else ("(map (fun e_ => %s e_) %s)" % (f, t), "vec")

    def lift2(self, f, a, b):
        (ta, ya), (tb, yb) = a, b
        if ya == "num" and yb == "num":
            return "(%s %s %s)" % (f, ta, tb), "num"
        if ya == "vec" and yb == "vec":
            return "(vmap2 (%s) %s %s)" % (f, ta, tb), "vec"
        if ya == "vec":
            return "(map (fun e_ => %s e_ %s) %s)" % (f, tb, ta), "vec"
        return "(map (fun e_ => %s %s e_) %s)" % (f, ta, tb), "vec"

    def expr(self, e):
        if isinstance(e, ast.Constant) and isinstance(e.value, (int, float)) and not isinstance(e.value, bool):
            return ("(n_Z N (%d))" % e.value, "num") if isinstance(e.value, int) else (lit_float(e.value), "num")
        if isinstance(e, ast.Name):
            if e.id not in self.env:
                self.rej(e, "unknown name %s" % e.id)
            if self.env[e.id] == "idx":
                self.rej(e, "index array used as a value")
            return ident(e.id), self.env[e.id]
        if isinstance(e, ast.UnaryOp) and isinstance(e.op, ast.USub):
            return self.lift1("n_opp N", self.expr(e.operand))
        if isinstance(e, ast.BinOp):
            if isinstance(e.op, ast.Pow):
                if isinstance(e.right, ast.Constant) and isinstance(e.right.value, int) and e.right.value >= 0:
                    t, ty = self.expr(e.left)
                    k = e.right.value
                    return ("(n_powZ N %s (%d))" % (t, k), "num") if ty == "num" else ("(map (fun e_ => n_powZ N e_ (%d)) %s)" % (k, t), "vec")
                return self.lift2("n_rpow N", self.expr(e.left), self.expr(e.right))
            op = {ast.Add: "n_add N", ast.Sub: "n_sub N", ast.Mult: "n_mul N", ast.Div: "n_div N"}.get(type(e.op))
            if op is None:
                self.rej(e, "operator")
            return self.lift2(op, self.expr(e.left), self.expr(e.right))
        if isinstance(e, ast.Call):
            f = ast.unparse(e.func)
            un = {"np.log10": "n_log10 N", "np.log": "n_log N", "np.exp": "n_exp N", "np.sqrt": "n_sqrt N"}
            if f in un and len(e.args) == 1 and not e.keywords:
                return self.lift1(un[f], self.expr(e.args[0]))
            if f == "np.sum" and len(e.args) == 1 and not e.keywords:
                t, ty = self.expr(e.args[0])
                if ty != "vec":
                    self.rej(e, "np.sum of a number")
                return "(vsum N %s)" % t, "num"
            self.rej(e, "call of %s" % f)
        if isinstance(e, ast.Subscript) and isinstance(e.value, ast.Name) and isinstance(e.slice, ast.Name) \
                and self.env.get(e.slice.id) == "idx" and self.env.get(e.value.id) == "vec":
            return "(vnonzero N %s %s)" % (ident(e.slice.id), ident(e.value.id)), "vec"
        self.rej(e, "expression %s" % ast.unparse(e))

    def translate(self):
        body = strip_doc(self.fn)
        lets = []
        for st in body:
            if isinstance(st, ast.Assign) and len(st.targets) == 1 and isinstance(st.targets[0], ast.Name):
                nm = st.targets[0].id
                v = st.value
                if isinstance(v, ast.Call) and ast.unparse(v.func) == "np.nonzero" and len(v.args) == 1 and isinstance(v.args[0], ast.Name) \
                        and self.env.get(v.args[0].id) == "vec":
                    lets.append("let %s := %s in" % (ident(nm), ident(v.args[0].id)))   # the vector whose non-zero positions are meant
                    self.env[nm] = "idx"
                    continue
                t, ty = self.expr(v)
                lets.append("let %s := %s in" % (ident(nm), t))
                self.env[nm] = ty
            elif isinstance(st, ast.Return) and isinstance(st.value, ast.Tuple):
                parts = [self.expr(x) for x in st.value.elts]
                if any(ty != "num" for _, ty in parts):
                    self.rej(st, "vector returned")
                return "\n  ".join(lets) + "\n  (" + ", ".join(t for t, _ in parts) + ")"
            elif isinstance(st, ast.Return):
                t, ty = self.expr(st.value)
                return "\n  ".join(lets) + "\n  " + t
            else:
                self.rej(st, "statement %s" % type(st).__name__)
        self.rej(self.fn, "no return")


def do_ew_lsq(repo, outdir):
    """ExponentiatedWeibullDistribution._estimate_alpha_beta and _wlsq_error (numpy array code)"""
    rejects = []
    mod = ast.parse(open(os.path.join(repo, "virocon", "distributions.py")).read())
    text = [HEADER % "virocon/distributions.py (array code of the exponentiated Weibull least-squares fit)"]
    cls = [c for c in mod.body if isinstance(c, ast.ClassDef) and c.name == "ExponentiatedWeibullDistribution"]
    fns = {f.name: f for f in cls[0].body if isinstance(f, ast.FunctionDef)} if cls else {}
    fn = fns.get("_estimate_alpha_beta")
    if fn is None:
        rejects.append("distributions:ExponentiatedWeibullDistribution._estimate_alpha_beta: not found")
    else:
        try:
            tr = VecTr(fn, "distributions:ExponentiatedWeibullDistribution._estimate_alpha_beta",
                       {"delta": "num", "x": "vec", "p": "vec", "w": "vec"})
            term = tr.translate()
            text.append("Definition ew_estimate_alpha_beta (delta : T) (x p w : list T) : T * T :=\n  %s." % term)
        except Reject as r:
            rejects.append(str(r))
    text.append("End Gen.")
    write_if_changed(os.path.join(outdir, "EwLsqGen.v"), "\n".join(text) + "\n")
    return rejects


def do_contours(repo, outdir):
    """module-level algebra of contours.py: calculate_alpha"""
    rejects = []
    mod = ast.parse(open(os.path.join(repo, "virocon", "contours.py")).read())
    u = Unit()
    text = [HEADER % "virocon/contours.py"]
    found = False
    for st in mod.body:
        if isinstance(st, ast.FunctionDef) and st.name == "calculate_alpha":
            found = True
            try:
                tr = FnTr(u, None, st, "contours:calculate_alpha")
                ps, term = tr.translate()
                args = "".join(" (%s : T)" % ident(n) for n, _ in ps)
                text.append("Definition ct_calculate_alpha%s :=\n  %s." % (args, term))
            except Reject as r:
                rejects.append(str(r))
    if not found:
        rejects.append("contours:calculate_alpha: not found")
    text.append("End Gen.")
    write_if_changed(os.path.join(outdir, "Contours.v"), "\n".join(text) + "\n")
    return rejects


def main():
    repo, outdir = sys.argv[1], sys.argv[2]
    os.makedirs(outdir, exist_ok=True)
    rejects = []
    for f in (do_distributions, do_module_functions, do_contours, do_ew_lsq):
        try:
            rejects += f(repo, outdir)
        except SyntaxError as e:
            rejects.append("%s: syntax error %s" % (f.__name__, e))
    for r in rejects:
        print("REJECT " + r)
    print("py2v: %d rejects" % len(rejects))


if __name__ == "__main__":
    main()
