(* C19 -- evaluation is pure and repeatable; predefined models share no state.
   Property theorems only; the model is model/Heap.v, the proofs are in proofs/HeapProofs.v.

   PARTIAL by construction (DESIGN.md section 6, C19): the theorems are about the footprint semantics of
   model/Heap.v -- every operation changes at most its tabulated write set and computes from its tabulated
   read set.  That virocon's operations (and the numpy/scipy/matplotlib code under them) really stay inside
   these footprints, and that objects built from separate descriptions really share no mutable object, is
   validated on every run by tools/harness/c19.py (deep snapshots before/after every operation of random
   histories; id()-graph of repeated getter calls), not proved.  Clauses that rest on this are `_partial`. *)
From Coq Require Import List Arith Bool.
From V.model Require Import Heap.
From V.proofs Require Import HeapProofs.
Import ListNotations.

Section C19.
  Variable shape : nat -> list (option nat).     (* structure of every model in the pool *)
  Variable V : Type.                             (* values held by cells *)
  Variable result : op -> list V -> V.           (* the object an operation returns: a function of what it reads *)
  Variable effect : nat -> op -> list V -> cell -> V.

  (* frame: an operation changes only its write set *)
  Theorem C19_frame_partial : forall t o (h : heap V) c, ~ In c (wset shape t o) -> step shape V result effect t o h c = h c.
  Proof. exact (frame shape V result effect). Qed.

  (* evaluating a model / computing a contour / design conditions / plotting / saving -- and fitting ANOTHER
     model -- leaves the model's parameters unchanged: over a history of any length and any interleaving, the
     cells of model k other than the sample cache change only if the history fits model k itself *)
  Theorem C19_model_changes_only_at_own_fit_partial : forall ops t (h : heap V) k f, f <> SampleCache ->
    (forall o, In o ops -> ~ fits k o) -> run shape V result effect t ops h (M k f) = h (M k f).
  Proof. exact (model_changes_only_at_own_fit shape V result effect). Qed.

  (* ... and the cached sample of a TransformedModel only by empirical_cdf / fit of that model *)
  Theorem C19_cache_partial : forall ops t (h : heap V) k,
    (forall o, In o ops -> ~ fits k o /\ (forall args, o <> Eval k EmpiricalCdf args)) ->
    run shape V result effect t ops h (M k SampleCache) = h (M k SampleCache).
  Proof. exact (cache_changes_only_at_own_ops shape V result effect). Qed.

  (* the caller's arrays are unchanged by every history *)
  Theorem C19_arrays_unchanged_partial : forall ops t (h : heap V) a, run shape V result effect t ops h (Arr a) = h (Arr a).
  Proof. exact (arrays_untouched shape V result effect). Qed.

  (* fitting a conditional distribution does not alter its template's own parameters (nor the structure, nor the
     slicers) -- in any history, fits of that very model included *)
  Theorem C19_template_unchanged_partial : forall ops t (h : heap V) k f,
    (f = Struct \/ (exists i, f = Template i) \/ (exists i, f = Slicer i)) ->
    run shape V result effect t ops h (M k f) = h (M k f).
  Proof. exact (fixed_cells_untouched shape V result effect). Qed.

  (* models from separate descriptions have disjoint regions; fitting one never changes another *)
  Theorem C19_no_shared_state_partial : forall k k',
    (forall c, In c (region shape k) -> In c (region shape k') -> k = k') /\
    (forall d fd t (h : heap V) c, k <> k' -> In c (region shape k') -> step shape V result effect t (Fit k d fd) h c = h c).
  Proof. intros k k'. split; [exact (regions_disjoint shape k k')|exact (fun d fd t h c => fit_leaves_other_models shape V result effect k k' d fd t h c)]. Qed.

  (* a contour (or any returned object, or a written file) is never changed by a later operation: design
     conditions, plotting, saving, evaluations and fits leave the contour they are given as it was built *)
  Theorem C19_returned_objects_immutable_partial : forall ops t (h : heap V) c, c < t ->
    run shape V result effect t ops h (Obj c) = h (Obj c).
  Proof. exact (objects_immutable shape V result effect). Qed.

  (* exporting: the file of contour c changes only when contour c is saved, and a save OVERWRITES -- the content
     written is a function of the contour and the arguments, not of what the file held before nor of the position in
     the history: saving the same contour twice to the same path reproduces the file *)
  Theorem C19_file_changes_only_at_save_partial : forall ops t (h : heap V) c,
    (forall o args, In o ops -> o <> OnContour c SaveContour args) -> run shape V result effect t ops h (File c) = h (File c).
  Proof. exact (file_changes_only_at_save shape V result effect). Qed.
  Theorem C19_save_overwrites_partial : forall c args t t' (h h' : heap V),
    (forall x, In x (rset shape (OnContour c SaveContour args)) -> h x = h' x) ->
    step shape V result effect t (OnContour c SaveContour args) h (File c) =
    step shape V result effect t' (OnContour c SaveContour args) h' (File c).
  Proof. exact (save_overwrites shape V result effect). Qed.

  (* no operation writes module-level state of virocon (shared by every model) *)
  Theorem C19_module_state_untouched_partial : forall ops t (h : heap V) g, run shape V result effect t ops h (Glob g) = h (Glob g).
  Proof. exact (globals_untouched shape V result effect). Qed.

  (* numpy's global random state is advanced only by the unseeded Monte-Carlo entry points; seeded sampling and
     every random-free evaluation leave it alone.  matplotlib's registry changes only by plotting. *)
  Theorem C19_global_rng_partial : forall ops t (h : heap V),
    (forall o k e args, In o ops -> o = Eval k e args -> may_use_rng e = false) -> run shape V result effect t ops h Rng = h Rng.
  Proof. exact (rng_untouched shape V result effect). Qed.
  Theorem C19_figures_partial : forall ops t (h : heap V),
    (forall o k e args, In o ops -> o = Eval k e args -> plots e = false) ->
    (forall o x args, In o ops -> o <> OnContour x PlotContour args) -> run shape V result effect t ops h Figs = h Figs.
  Proof. exact (figs_untouched shape V result effect). Qed.

  (* unseeded Monte-Carlo operations read AND advance numpy's global generator (it is in their read and write sets); with
     the generator re-seeded to the same value before both occurrences (np.random.seed(s)) and nothing else they read
     written in between, they return the same object: unseeded sampling is reproducible through np.random.seed *)
  Theorem C19_reproducible_by_global_seed_partial : forall ops (h : heap V) i j a, same_result_if_reseeded shape ops i j = true ->
    nth_error ops i = Some a ->
    heap_before shape V result effect ops h j Rng = heap_before shape V result effect ops h i Rng ->
    result a (map (heap_before shape V result effect ops h j) (rset shape a)) =
    result a (map (heap_before shape V result effect ops h i) (rset shape a)).
  Proof. exact (repeatable_if_reseeded shape V result effect). Qed.
  Theorem C19_unseeded_uses_global_rng_partial : forall t k e args, may_use_rng e = true ->
    In Rng (wset shape t (Eval k e args)) /\ In Rng (rset shape (Eval k e args)).
  Proof.
    intros t k e args H. split; [exact (unseeded_writes_rng shape t k e args H)|].
    cbn [rset]. apply in_or_app. right. apply in_or_app. right. rewrite H. left. reflexivity.
  Qed.

  (* everything a fit writes lies in the region of the fitted model, except the defaults it fills into the caller's
     fit_descriptions *)
  Theorem C19_fit_footprint_partial : forall k d fd t c, In c (wset shape t (Fit k d fd)) ->
    In c (region shape k) \/ (exists a, fd = Some a /\ c = FitDesc a).
  Proof. exact (fit_footprint shape). Qed.

  (* repeatability: a deterministic operation repeated later in a history returns the same object whenever the
     executable test says that nothing it reads was written in between ... *)
  Theorem C19_repeatable_partial : forall ops (h : heap V) i j a, same_result_guaranteed shape ops i j = true ->
    nth_error ops i = Some a -> returns a = true ->
    step shape V result effect j a (heap_before shape V result effect ops h j) (Obj j) =
    step shape V result effect i a (heap_before shape V result effect ops h i) (Obj i).
  Proof. exact (repeated_evaluation_equal shape V result effect). Qed.

  (* ... and the test succeeds whenever the model is not fitted (and its cache not filled) in between: whatever
     else happens -- other models fitted, contours computed, files written -- a seeded or random-free evaluation
     of model k gives identical results *)
  Theorem C19_repeatable_unless_refitted_partial : forall ops i j k e args,
    nth_error ops i = Some (Eval k e args) -> may_use_rng e = false -> i < j ->
    (forall m o, i <= m < j -> nth_error ops m = Some o -> ~ fits k o /\ (forall a, o <> Eval k EmpiricalCdf a)) ->
    same_result_guaranteed shape ops i j = true.
  Proof. exact (eval_guaranteed_if_no_fit shape V effect). Qed.
End C19.

(* non-vacuity: two models (k = 0: unconditional + conditional with two dependence functions; k = 1 likewise),
   a history evaluate(0) / fit(1) / contour(0) / evaluate(0) / fit(0) / evaluate(0):
   the second evaluation of model 0 is guaranteed equal to the first although model 1 was fitted in between,
   the third is not (model 0 was re-fitted); fitting writes neither the template nor an array. *)
Example C19_nonvacuous :
  let shape := fun _ : nat => [None; Some 2] in
  let ops := [Eval 0 Pdf [0]; Fit 1 1 None; Eval 0 IFORM []; Eval 0 Pdf [0]; Fit 0 1 (Some 0); Eval 0 Pdf [0]] in
  same_result_guaranteed shape ops 0 3 = true /\ same_result_guaranteed shape ops 0 5 = false /\
  wset shape 4 (Fit 0 1 (Some 0)) = [M 0 (DistParams 0); M 0 (PerInterval 1); M 0 (DepFun 1 0); M 0 (DepFun 1 1); FitDesc 0] /\
  mem (M 0 (Template 1)) (region shape 0) = true /\ mem (M 0 (Template 1)) (wset shape 4 (Fit 0 1 (Some 0))) = false /\
  (* a seeded Monte-Carlo quantile is deterministic and leaves the global random state alone, the unseeded one does not;
     design conditions on the contour built at step 2 write only their own result *)
  same_result_guaranteed shape (Eval 0 MarginalIcdfSeeded [2] :: ops) 0 4 = true /\
  mem Rng (wset shape 0 (Eval 0 MarginalIcdfSeeded [2])) = false /\ mem Rng (wset shape 0 (Eval 0 MarginalIcdf [2])) = true /\
  wset shape 6 (OnContour 2 DesignConditions []) = [Obj 6].
Proof. repeat split; reflexivity. Qed.

Print Assumptions C19_frame_partial.
Print Assumptions C19_model_changes_only_at_own_fit_partial.
Print Assumptions C19_cache_partial.
Print Assumptions C19_arrays_unchanged_partial.
Print Assumptions C19_template_unchanged_partial.
Print Assumptions C19_no_shared_state_partial.
Print Assumptions C19_returned_objects_immutable_partial.
Print Assumptions C19_file_changes_only_at_save_partial.
Print Assumptions C19_save_overwrites_partial.
Print Assumptions C19_module_state_untouched_partial.
Print Assumptions C19_global_rng_partial.
Print Assumptions C19_figures_partial.
Print Assumptions C19_reproducible_by_global_seed_partial.
Print Assumptions C19_unseeded_uses_global_rng_partial.
Print Assumptions C19_fit_footprint_partial.
Print Assumptions C19_repeatable_partial.
Print Assumptions C19_repeatable_unless_refitted_partial.
