(* Lemmas for C02 (selection by sort + cumulative sum, mask, warning fallback) over an abstract ordered
   additive structure; the hypotheses on the order / addition are Section hypotheses, discharged for R
   in HdcRProofs.v.  The model is model/Hdc.v. *)
From Coq Require Import List Bool Arith ZArith Lia Permutation Sorted.
From V.model Require Import Hdc.
Import ListNotations.

(* ------------------------------------------------------------------ generic list facts *)
Lemma StronglySorted_app_inv {A} (R : A -> A -> Prop) : forall l m,
  StronglySorted R (l ++ m) -> StronglySorted R l /\ StronglySorted R m /\ (forall x y, In x l -> In y m -> R x y).
Proof.
  induction l as [|a l IH]; intros m H; simpl in *.
  - repeat split; auto. constructor. intros ? ? [].
  - inversion H; subst. destruct (IH _ H2) as [A1 [A2 A3]]. rewrite Forall_forall in H3. repeat split; auto.
    + constructor; auto. rewrite Forall_forall. intros x Hx. apply H3. apply in_or_app. auto.
    + intros x y [<-|Hx] Hy; auto. apply H3. apply in_or_app. auto.
Qed.

Lemma StronglySorted_app {A} (R : A -> A -> Prop) : forall l m,
  StronglySorted R l -> StronglySorted R m -> (forall x y, In x l -> In y m -> R x y) -> StronglySorted R (l ++ m).
Proof.
  induction l as [|a l IH]; intros m Hl Hm H; simpl; auto.
  inversion Hl; subst. constructor.
  - apply IH; auto. intros; apply H; simpl; auto.
  - rewrite Forall_forall in *. intros x Hx. apply in_app_or in Hx. destruct Hx; auto. apply H; simpl; auto.
Qed.

Lemma StronglySorted_rev {A} (R : A -> A -> Prop) : forall l,
  StronglySorted R l -> StronglySorted (fun a b => R b a) (rev l).
Proof.
  induction l as [|a l IH]; intros H; simpl; [constructor|]. inversion H; subst.
  apply StronglySorted_app; auto.
  - repeat constructor.
  - intros x y Hx [<-|[]]. rewrite Forall_forall in H3. apply H3. apply in_rev. exact Hx.
Qed.

Lemma firstn_skipn_in {A} (x : A) k l : In x l -> In x (firstn k l) \/ In x (skipn k l).
Proof. intros H. rewrite <- (firstn_skipn k l) in H. apply in_app_or in H. exact H. Qed.

Lemma in_firstn {A} (x : A) k l : In x (firstn k l) -> In x l.
Proof. intros H. rewrite <- (firstn_skipn k l). apply in_or_app. auto. Qed.
Lemma in_skipn' {A} (x : A) k l : In x (skipn k l) -> In x l.
Proof. intros H. rewrite <- (firstn_skipn k l). apply in_or_app. auto. Qed.

Lemma NoDup_app_l {A} : forall (l m : list A), NoDup (l ++ m) -> NoDup l.
Proof.
  induction l as [|a l IH]; intros m H; simpl in *; [constructor|]. inversion H; subst. constructor.
  - intro Hc. apply H2. apply in_or_app. auto.
  - apply (IH m); auto.
Qed.

Lemma last_rev_hd {A} (l : list A) d : last l d = hd d (rev l).
Proof.
  induction l as [|a l IH]; auto. simpl rev. destruct l as [|b l]; auto.
  change (last (a :: b :: l) d) with (last (b :: l) d). rewrite IH.
  simpl. destruct (rev l ++ [b]) eqn:E; auto. destruct (rev l); discriminate.
Qed.

Section Sel.
  Variable T : Type.
  Variable zero : T.
  Variable add : T -> T -> T.
  Variables leb ltb : T -> T -> bool.
  Variable isnan : T -> bool.
  Hypothesis leb_total : forall a b, leb a b = true \/ leb b a = true.
  Hypothesis leb_trans : forall a b c, leb a b = true -> leb b c = true -> leb a c = true.
  Hypothesis add_nonneg : forall a x, leb zero x = true -> leb a (add a x) = true.
  Hypothesis ltb_leb : forall a b, ltb a b = negb (leb b a).

  Notation insert := (insert T leb).
  Notation isort := (isort T leb).
  Notation index_from := (index_from T).
  Notation argsort_desc := (argsort_desc T leb).
  Notation cumsum_from := (cumsum_from T add).
  Notation cums := (cums T zero add leb).
  Notation selected := (selected T zero add leb).
  Notation cbu := (cumsum_biggest_until T zero add leb ltb isnan).

  Definition le1 (x y : T * Z) : Prop := leb (fst x) (fst y) = true.
  Definition ge1 (x y : T * Z) : Prop := leb (fst y) (fst x) = true.

  Lemma leb_refl a : leb a a = true.
  Proof. destruct (leb_total a a); auto. Qed.

  (* ---- sorting *)
  Lemma insert_perm x : forall l, Permutation (insert x l) (x :: l).
  Proof.
    induction l as [|y l IH]; simpl; auto. destruct (leb (fst x) (fst y)); auto.
    eapply perm_trans; [apply perm_skip, IH|apply perm_swap].
  Qed.
  Lemma isort_perm : forall l, Permutation (isort l) l.
  Proof. induction l as [|x l IH]; simpl; auto. eapply perm_trans; [apply insert_perm|]. auto. Qed.

  Lemma insert_sorted x : forall l, StronglySorted le1 l -> StronglySorted le1 (insert x l).
  Proof.
    induction l as [|y l IH]; intros H; simpl; [repeat constructor|].
    inversion H; subst. destruct (leb (fst x) (fst y)) eqn:E.
    - constructor; auto. constructor; [exact E|]. rewrite Forall_forall in *. intros z Hz.
      unfold le1 in *. eapply leb_trans; [exact E|]. apply H3; auto.
    - constructor; auto. rewrite Forall_forall in *. intros z Hz.
      apply (Permutation_in _ (insert_perm x l)) in Hz. destruct Hz as [<-|Hz]; auto.
      unfold le1. destruct (leb_total (fst x) (fst y)); [congruence|auto].
  Qed.
  Lemma isort_sorted : forall l, StronglySorted le1 (isort l).
  Proof. induction l; simpl; [constructor|]. apply insert_sorted; auto. Qed.

  Lemma argsort_sorted a : StronglySorted ge1 (argsort_desc a).
  Proof. unfold argsort_desc. apply (StronglySorted_rev le1). apply isort_sorted. Qed.
  Lemma argsort_perm a : Permutation (argsort_desc a) (index_from 0%Z a).
  Proof. unfold argsort_desc. eapply perm_trans; [symmetry; apply Permutation_rev|apply isort_perm]. Qed.

  (* ---- index_from: the flat positions with their values *)
  Definition pval (a : list T) (k : Z) : T := nth (Z.to_nat k) a zero.

  Lemma index_from_snd : forall a k0, map snd (index_from k0 a) = map (fun i => (k0 + Z.of_nat i)%Z) (seq 0 (length a)).
  Proof.
    induction a as [|x a IH]; intros k0; simpl; auto. f_equal; [lia|].
    rewrite IH. rewrite <- seq_shift. rewrite map_map. apply map_ext. intros i. lia.
  Qed.
  Lemma index_from_idx a : map snd (index_from 0%Z a) = zrange (length a).
  Proof. rewrite index_from_snd. unfold zrange. apply map_ext. intros; lia. Qed.

  Lemma index_from_val : forall a k0 v k, In (v, k) (index_from k0 a) ->
    (k0 <= k < k0 + Z.of_nat (length a))%Z /\ v = nth (Z.to_nat (k - k0)) a zero.
  Proof.
    induction a as [|x a IH]; intros k0 v k H; simpl in *; [contradiction|].
    destruct H as [E|H].
    - inversion E; subst. split; [lia|]. replace (k - k)%Z with 0%Z by lia. reflexivity.
    - apply IH in H. destruct H as [H1 H2]. split; [lia|].
      replace (Z.to_nat (k - k0)) with (S (Z.to_nat (k - (k0 + 1)))) by lia. exact H2.
  Qed.

  Lemma index_from_in : forall a k0 k, (k0 <= k < k0 + Z.of_nat (length a))%Z ->
    In (nth (Z.to_nat (k - k0)) a zero, k) (index_from k0 a).
  Proof.
    induction a as [|x a IH]; intros k0 k H; simpl in *; [lia|].
    destruct (Z.eq_dec k k0) as [->|Hn].
    - left. replace (k0 - k0)%Z with 0%Z by lia. reflexivity.
    - right. replace (Z.to_nat (k - k0)) with (S (Z.to_nat (k - (k0 + 1)))) by lia. apply IH. lia.
  Qed.

  Lemma zrange_in n k : In k (zrange n) <-> (0 <= k < Z.of_nat n)%Z.
  Proof.
    unfold zrange. rewrite in_map_iff. split.
    - intros [i [<- Hi]]. apply in_seq in Hi. lia.
    - intros H. exists (Z.to_nat k). split; [lia|]. apply in_seq. lia.
  Qed.
  Lemma zrange_nodup n : NoDup (zrange n).
  Proof. unfold zrange. apply FinFun.Injective_map_NoDup; [intros x y; lia|apply seq_NoDup]. Qed.

  Lemma argsort_idx_perm a : Permutation (map snd (argsort_desc a)) (zrange (length a)).
  Proof. rewrite <- index_from_idx. apply Permutation_map. apply argsort_perm. Qed.

  Lemma argsort_entry a v k : In (v, k) (argsort_desc a) -> (0 <= k < Z.of_nat (length a))%Z /\ v = pval a k.
  Proof.
    intros H. apply (Permutation_in _ (argsort_perm a)) in H. apply index_from_val in H.
    destruct H as [H1 H2]. split; [lia|]. unfold pval. rewrite H2. f_equal. lia.
  Qed.
  Lemma argsort_has a k : (0 <= k < Z.of_nat (length a))%Z -> In (pval a k, k) (argsort_desc a).
  Proof.
    intros H. apply (Permutation_in _ (Permutation_sym (argsort_perm a))).
    unfold pval. replace (Z.to_nat k) with (Z.to_nat (k - 0)) by lia. apply index_from_in. lia.
  Qed.
  Lemma argsort_nodup a : NoDup (map snd (argsort_desc a)).
  Proof. eapply Permutation_NoDup; [symmetry; apply argsort_idx_perm|apply zrange_nodup]. Qed.

  (* ---- cumulative sums: the boolean mask cum <= lim selects a prefix *)
  Definition sumv (l : list (T * Z)) (acc : T) : T := fold_left (fun a x => add a (fst x)) l acc.

  Fixpoint take_prefix (acc : T) (l : list (T * Z)) (lim : T) : list (T * (T * Z)) :=
    match l with
    | [] => []
    | x :: l' => let a := add acc (fst x) in if leb a lim then (a, x) :: take_prefix a l' lim else []
    end.

  Definition nonneg (l : list (T * Z)) : Prop := Forall (fun x => leb zero (fst x) = true) l.

  Lemma cums_ge : forall l acc, nonneg l -> Forall (fun c => leb acc (fst c) = true) (cumsum_from acc l).
  Proof.
    induction l as [|x l IH]; intros acc H; simpl; constructor; inversion H; subst.
    - simpl. apply add_nonneg; auto.
    - eapply Forall_impl; [|apply IH; auto]. simpl. intros c Hc. eapply leb_trans; [|exact Hc]. apply add_nonneg; auto.
  Qed.

  Lemma none_selected lim b : forall cs : list (T * (T * Z)), leb b lim = false ->
    Forall (fun c => leb b (fst c) = true) cs -> filter (fun c => leb (fst c) lim) cs = [].
  Proof.
    induction cs as [|c cs IH]; intros Hb G; simpl; auto. inversion G; subst.
    destruct (leb (fst c) lim) eqn:Ec; [|auto].
    rewrite (leb_trans _ _ _ H1 Ec) in Hb. discriminate.
  Qed.

  Lemma selected_is_prefix : forall l acc lim, nonneg l ->
    filter (fun c => leb (fst c) lim) (cumsum_from acc l) = take_prefix acc l lim.
  Proof.
    induction l as [|x l IH]; intros acc lim H; [reflexivity|]. inversion H; subst.
    simpl. destruct (leb (add acc (fst x)) lim) eqn:E.
    - f_equal. apply IH; auto.
    - apply (none_selected lim (add acc (fst x))); auto. apply cums_ge; auto.
  Qed.

  Lemma take_prefix_snd : forall l acc lim, map snd (take_prefix acc l lim) = firstn (length (take_prefix acc l lim)) l.
  Proof. induction l as [|x l IH]; intros; simpl; auto. destruct (leb (add acc (fst x)) lim); simpl; auto. f_equal. apply IH. Qed.

  Lemma take_prefix_last : forall l acc lim c d, take_prefix acc l lim <> [] -> last (take_prefix acc l lim) d = c ->
    fst c = sumv (map snd (take_prefix acc l lim)) acc /\ leb (fst c) lim = true.
  Proof.
    induction l as [|x l IH]; intros acc lim c d Hne Hl; simpl in *; [congruence|].
    destruct (leb (add acc (fst x)) lim) eqn:E; [|congruence].
    destruct (take_prefix (add acc (fst x)) l lim) as [|y r] eqn:Er.
    - simpl in Hl. subst c. simpl. auto.
    - assert (Hne' : take_prefix (add acc (fst x)) l lim <> []) by (rewrite Er; discriminate).
      change (last ((add acc (fst x), x) :: y :: r) d) with (last (y :: r) d) in Hl. rewrite <- Er in Hl.
      destruct (IH _ _ _ _ Hne' Hl) as [A B]. split; auto. rewrite A. rewrite Er. reflexivity.
  Qed.

  Lemma take_prefix_sum_le : forall l acc lim, leb acc lim = true ->
    leb (sumv (map snd (take_prefix acc l lim)) acc) lim = true.
  Proof.
    induction l as [|x l IH]; intros acc lim H; simpl; auto.
    destruct (leb (add acc (fst x)) lim) eqn:E; simpl; auto.
  Qed.

  Lemma take_prefix_overshoot : forall l acc lim e,
    nth_error l (length (take_prefix acc l lim)) = Some e ->
    leb (add (sumv (map snd (take_prefix acc l lim)) acc) (fst e)) lim = false.
  Proof.
    induction l as [|x l IH]; intros acc lim e He; simpl in *; [discriminate|].
    destruct (leb (add acc (fst x)) lim) eqn:E; simpl in *.
    - apply IH. exact He.
    - inversion He; subst. exact E.
  Qed.

  (* ---- statements about the model's selection *)
  Definition sel_idx (a : list T) (lim : T) : list Z := map (fun c => snd (snd c)) (selected a lim).
  Definition sum_sel (a : list T) (lim : T) : T := sumv (map snd (selected a lim)) zero.
  Definition nsel (a : list T) (lim : T) : nat := length (selected a lim).
  Definition all_nonneg (a : list T) : Prop := Forall (fun x => leb zero x = true) a.

  Lemma argsort_nonneg a : all_nonneg a -> nonneg (argsort_desc a).
  Proof.
    intros H. unfold nonneg. rewrite Forall_forall. intros [v k] Hin. simpl.
    destruct (argsort_entry _ _ _ Hin) as [Hk ->]. unfold all_nonneg in H. rewrite Forall_forall in H.
    apply H. unfold pval. apply nth_In. lia.
  Qed.

  Lemma selected_eq a lim : all_nonneg a -> selected a lim = take_prefix zero (argsort_desc a) lim.
  Proof. intros H. unfold Hdc.selected, Hdc.cums. apply selected_is_prefix. apply argsort_nonneg; auto. Qed.

  (* (a) the selection is a prefix of the descending order *)
  Lemma selected_prefix a lim : all_nonneg a ->
    map snd (selected a lim) = firstn (nsel a lim) (argsort_desc a).
  Proof. intros H. unfold nsel. rewrite (selected_eq a lim H). apply take_prefix_snd. Qed.

  Lemma sel_idx_prefix a lim : all_nonneg a -> sel_idx a lim = map snd (firstn (nsel a lim) (argsort_desc a)).
  Proof. intros H. unfold sel_idx. rewrite <- (selected_prefix a lim H). rewrite map_map. reflexivity. Qed.

  (* (a') content <= limit *)
  Lemma content_le a lim : all_nonneg a -> leb zero lim = true -> leb (sum_sel a lim) lim = true.
  Proof. intros H H0. unfold sum_sel. rewrite (selected_eq a lim H). apply take_prefix_sum_le. exact H0. Qed.

  (* (b) the first excluded cell overshoots *)
  Lemma first_excluded_overshoots a lim e : all_nonneg a ->
    nth_error (argsort_desc a) (nsel a lim) = Some e -> ltb lim (add (sum_sel a lim) (fst e)) = true.
  Proof.
    intros H He. rewrite ltb_leb. unfold sum_sel, nsel in *. rewrite (selected_eq a lim H) in *.
    rewrite (take_prefix_overshoot _ _ _ _ He). reflexivity.
  Qed.

  (* (c) sorted descending: everything in the prefix is at least as big as everything after it *)
  Lemma prefix_denser : forall (l : list (T * Z)) k c e, StronglySorted ge1 l ->
    In c (firstn k l) -> In e (skipn k l) -> leb (fst e) (fst c) = true.
  Proof.
    intros l k c e S Hc He. rewrite <- (firstn_skipn k l) in S.
    destruct (StronglySorted_app_inv _ _ _ S) as [_ [_ H]]. apply (H c e Hc He).
  Qed.

  Lemma in_sel_idx a lim k : all_nonneg a ->
    In k (sel_idx a lim) <-> In (pval a k, k) (firstn (nsel a lim) (argsort_desc a)).
  Proof.
    intros H. rewrite (sel_idx_prefix a lim H). rewrite in_map_iff. split.
    - intros [[v k'] [E Hin]]. simpl in E. subst k'.
      destruct (argsort_entry a v k (in_firstn _ _ _ Hin)) as [_ ->]. exact Hin.
    - intros Hin. exists (pval a k, k). auto.
  Qed.

  Lemma sel_idx_range a lim k : all_nonneg a -> In k (sel_idx a lim) -> (0 <= k < Z.of_nat (length a))%Z.
  Proof. intros H Hin. apply (in_sel_idx a lim k H) in Hin. apply in_firstn in Hin. apply argsort_entry in Hin. tauto. Qed.

  Lemma sel_idx_nodup a lim : all_nonneg a -> NoDup (sel_idx a lim).
  Proof.
    intros H. rewrite (sel_idx_prefix a lim H). pose proof (argsort_nodup a) as ND.
    rewrite <- (firstn_skipn (nsel a lim) (argsort_desc a)) in ND. rewrite map_app in ND.
    apply NoDup_app_l in ND. exact ND.
  Qed.

  Lemma excluded_in_tail a lim k : all_nonneg a -> (0 <= k < Z.of_nat (length a))%Z -> ~ In k (sel_idx a lim) ->
    In (pval a k, k) (skipn (nsel a lim) (argsort_desc a)).
  Proof.
    intros H Hk Hn. destruct (firstn_skipn_in (pval a k, k) (nsel a lim) _ (argsort_has a k Hk)) as [Hf|Hs]; auto.
    exfalso. apply Hn. apply (in_sel_idx a lim k H). exact Hf.
  Qed.

  Lemma selected_denser a lim c e : all_nonneg a -> In c (sel_idx a lim) ->
    (0 <= e < Z.of_nat (length a))%Z -> ~ In e (sel_idx a lim) -> leb (pval a e) (pval a c) = true.
  Proof.
    intros H Hc He Hne. apply (in_sel_idx a lim c H) in Hc. pose proof (excluded_in_tail a lim e H He Hne) as Ht.
    apply (prefix_denser _ _ _ _ (argsort_sorted a) Hc Ht).
  Qed.

  (* the first excluded cell is the densest excluded cell *)
  Lemma first_excluded_densest a lim e k : all_nonneg a ->
    nth_error (argsort_desc a) (nsel a lim) = Some e ->
    (0 <= k < Z.of_nat (length a))%Z -> ~ In k (sel_idx a lim) -> leb (pval a k) (fst e) = true.
  Proof.
    intros H He Hk Hn. pose proof (excluded_in_tail a lim k H Hk Hn) as Ht.
    pose proof (argsort_sorted a) as S. rewrite <- (firstn_skipn (nsel a lim) (argsort_desc a)) in S.
    destruct (StronglySorted_app_inv _ _ _ S) as [_ [S2 _]].
    assert (Hsk : exists r, skipn (nsel a lim) (argsort_desc a) = e :: r).
    { clear -He. revert He. generalize (argsort_desc a) as l. induction (nsel a lim) as [|n IH]; intros l He.
      - destruct l; simpl in *; [discriminate|]. inversion He; subst. eauto.
      - destruct l; simpl in *; [discriminate|]. apply IH. exact He. }
    destruct Hsk as [r Er]. rewrite Er in *. destruct Ht as [Ht|Ht]; [rewrite Ht; simpl; apply leb_refl|].
    inversion S2; subst. rewrite Forall_forall in H3. apply (H3 _ Ht).
  Qed.

  (* ---- the result of cumsum_biggest_until *)
  Lemma rev_cons_inv {A} (l : list A) x r : rev l = x :: r -> l = rev r ++ [x].
  Proof. intros H. rewrite <- (rev_involutive l). rewrite H. reflexivity. Qed.

  Lemma cumsum_last : forall l acc front c, cumsum_from acc l = front ++ [c] -> fst c = sumv l acc.
  Proof.
    induction l as [|x l IH]; intros acc front c H; simpl in *.
    - destruct front; discriminate.
    - destruct front as [|f front]; simpl in H.
      + inversion H; subst. destruct l; [reflexivity|discriminate].
      + inversion H; subst. apply (IH _ _ _ H2).
  Qed.

  Definition total (a : list T) : T := sumv (argsort_desc a) zero.

  Lemma cbu_ok a lim sel lastv warn : cbu a lim = CbuOk sel lastv warn ->
    sel = sel_idx a lim /\ warn = ltb (total a) lim /\
    exists front c, selected a lim = front ++ [c] /\ lastv = fst (snd c).
  Proof.
    unfold Hdc.cumsum_biggest_until. destruct (existsb isnan a); [discriminate|].
    destruct (rev (cums a)) as [|[tot x] r] eqn:Er; [discriminate|].
    fold (selected a lim). destruct (rev (selected a lim)) as [|[cm [v k]] r'] eqn:Es; [discriminate|].
    intros H. inversion H; subst. split; [reflexivity|]. split.
    - apply rev_cons_inv in Er. unfold Hdc.cums in Er. apply cumsum_last in Er. simpl in Er. unfold total. rewrite <- Er. reflexivity.
    - apply rev_cons_inv in Es. exists (rev r'), (cm, (lastv, k)). auto.
  Qed.

  Lemma cbu_error_cases a lim :
    (cbu a lim = CbuNan <-> existsb isnan a = true) /\
    (cbu a lim = CbuIndexError <-> existsb isnan a = false /\ (a = [] \/ selected a lim = [])).
  Proof.
    unfold Hdc.cumsum_biggest_until. destruct (existsb isnan a) eqn:En.
    - split; split; try tauto; try discriminate. intros [? _]; discriminate.
    - fold (selected a lim). split; [split; [|discriminate]|].
      + destruct (rev (cums a)) as [|[tot x] r]; [discriminate|]. destruct (rev (selected a lim)) as [|[cm [v k]] r']; discriminate.
      + destruct (rev (cums a)) as [|[tot x] r] eqn:Er.
        * split; auto. intros _. split; auto. left.
          assert (E : cums a = []) by (rewrite <- (rev_involutive (cums a)), Er; reflexivity).
          unfold Hdc.cums in E. assert (L : length (argsort_desc a) = 0).
          { destruct (argsort_desc a); [reflexivity|discriminate]. }
          rewrite (Permutation_length (argsort_perm a)) in L.
          destruct a; [reflexivity|discriminate].
        * destruct (rev (selected a lim)) as [|[cm [v k]] r'] eqn:Es.
          -- split; auto. intros _. split; auto. right. rewrite <- (rev_involutive (selected a lim)), Es. reflexivity.
          -- split; [discriminate|]. intros [_ [->|E]].
             ++ discriminate.
             ++ rewrite E in Es. discriminate.
  Qed.

  (* (d) the reported value is the value of the last selected cell, and it is the minimum over the selection *)
  Lemma last_is_min a lim sel lastv warn : all_nonneg a -> cbu a lim = CbuOk sel lastv warn ->
    (exists k, In k sel /\ last sel 0%Z = k /\ lastv = pval a k) /\
      (forall c, In c sel -> leb lastv (pval a c) = true).
  Proof.
    intros H Hc. destruct (cbu_ok _ _ _ _ _ Hc) as [-> [_ [front [c [Es ->]]]]].
    assert (Hp := selected_prefix a lim H). rewrite Es in Hp. rewrite map_app in Hp. simpl in Hp.
    destruct c as [cm [v k]]. simpl in *.
    assert (Hin : In (v, k) (firstn (nsel a lim) (argsort_desc a))).
    { rewrite <- Hp. apply in_or_app. right. left. reflexivity. }
    destruct (argsort_entry a v k (in_firstn _ _ _ Hin)) as [_ Ev]. split.
    - exists k. unfold sel_idx. rewrite Es. rewrite map_app. simpl. split; [apply in_or_app; right; left; reflexivity|].
      split; [|exact Ev]. rewrite last_last. reflexivity.
    - intros c0 Hc0. apply (in_sel_idx a lim c0 H) in Hc0. rewrite <- Hp in Hc0.
      pose proof (argsort_sorted a) as S. rewrite <- (firstn_skipn (nsel a lim) (argsort_desc a)) in S.
      destruct (StronglySorted_app_inv _ _ _ S) as [S1 _]. rewrite <- Hp in S1.
      destruct (StronglySorted_app_inv _ _ _ S1) as [_ [_ S3]].
      apply in_app_or in Hc0. destruct Hc0 as [Hf|[E|[]]].
      + apply (S3 _ _ Hf (or_introl eq_refl)).
      + inversion E; subst. apply leb_refl.
  Qed.

  (* (e) the selection is the super-level set {p >= last} up to excluded cells that tie with the threshold *)
  Lemma superlevel a lim sel lastv warn : all_nonneg a -> cbu a lim = CbuOk sel lastv warn ->
    forall k, (0 <= k < Z.of_nat (length a))%Z ->
      (In k sel -> leb lastv (pval a k) = true) /\
      (~ In k sel -> leb lastv (pval a k) = true -> leb (pval a k) lastv = true).
  Proof.
    intros H Hc k Hk. destruct (last_is_min _ _ _ _ _ H Hc) as [[k0 [Hk0 [_ ->]]] Hmin]. split; [apply Hmin|].
    intros Hn _. destruct (cbu_ok _ _ _ _ _ Hc) as [-> _]. apply (selected_denser a lim k0 k H Hk0 Hk Hn).
  Qed.

  Lemma superlevel_no_ties a lim sel lastv warn : all_nonneg a -> cbu a lim = CbuOk sel lastv warn ->
    (forall e, (0 <= e < Z.of_nat (length a))%Z -> ~ In e sel -> ltb (pval a e) lastv = true) ->
    forall k, (0 <= k < Z.of_nat (length a))%Z -> (In k sel <-> leb lastv (pval a k) = true).
  Proof.
    intros H Hc Hnt k Hk. destruct (superlevel _ _ _ _ _ H Hc k Hk) as [A B]. split; auto.
    intros Hl. destruct (in_dec Z.eq_dec k sel) as [|Hn]; auto. exfalso.
    specialize (Hnt k Hk Hn). rewrite ltb_leb in Hnt. rewrite Hl in Hnt. discriminate.
  Qed.

  (* (f) the flat mask *)
  Lemma memZ_spec k l : memZ k l = true <-> In k l.
  Proof.
    unfold memZ. rewrite existsb_exists. split.
    - intros [x [Hx E]]. apply Z.eqb_eq in E. subst. exact Hx.
    - intros Hx. exists k. split; auto. apply Z.eqb_refl.
  Qed.
  Lemma mask_of_length n sel : length (mask_of n sel) = n.
  Proof. unfold mask_of, zrange. rewrite !map_length. apply seq_length. Qed.
  Lemma mask_of_nth n sel k : k < n -> (nth k (mask_of n sel) false = true <-> In (Z.of_nat k) sel).
  Proof.
    intros Hk. unfold mask_of, zrange. rewrite map_map.
    rewrite (nth_indep _ false (memZ (Z.of_nat 0) sel)) by (rewrite map_length, seq_length; exact Hk).
    rewrite (map_nth (fun i => memZ (Z.of_nat i) sel) (seq 0 n) 0 k). rewrite seq_nth by exact Hk. simpl.
    apply memZ_spec.
  Qed.

  (* (g) the warning and the fallback of _compute *)
  Lemma hdr_select_spec cp lim m pm w :
    hdr_select T zero add leb ltb isnan cp lim = HdrOk m pm w ->
    exists sel lastv, cbu cp lim = CbuOk sel lastv (ltb (total cp) lim) /\ w = ltb (total cp) lim /\
      (w = true -> m = map (fun _ => true) cp /\ pm = zero) /\
      (w = false -> m = mask_of (length cp) sel /\ pm = lastv).
  Proof.
    unfold hdr_select. destruct (cbu cp lim) as [| |sel lastv warn] eqn:E; try discriminate.
    destruct (cbu_ok _ _ _ _ _ E) as [_ [Ew _]]. subst warn. intros H.
    exists sel, lastv. destruct (ltb (total cp) lim) eqn:Ew; injection H as H1 H2 H3; subst m pm w;
      (split; [reflexivity|]); (split; [reflexivity|]); split; intros Hw; try discriminate Hw; split; reflexivity.
  Qed.
  (* ---- forms used by the property theorems *)
  Lemma content_le_ok a lim sel lastv warn : all_nonneg a -> cbu a lim = CbuOk sel lastv warn ->
    leb (sum_sel a lim) lim = true.
  Proof.
    intros H Hc. destruct (cbu_ok _ _ _ _ _ Hc) as [_ [_ [front [c [Es _]]]]].
    unfold sum_sel. rewrite (selected_eq a lim H) in *.
    assert (Hne : take_prefix zero (argsort_desc a) lim <> []) by (rewrite Es; destruct front; discriminate).
    assert (Hl : last (take_prefix zero (argsort_desc a) lim) c = c) by (rewrite Es; apply last_last).
    destruct (take_prefix_last _ _ _ _ _ Hne Hl) as [A B]. rewrite <- A. exact B.
  Qed.

  Lemma NoDup_app_disjoint {A} : forall (l m : list A) x, NoDup (l ++ m) -> In x l -> In x m -> False.
  Proof.
    induction l as [|a l IH]; intros m x ND Hl Hm; simpl in *; [contradiction|]. inversion ND; subst.
    destruct Hl as [<-|Hl]; [apply H1; apply in_or_app; auto|]. apply (IH m x); auto.
  Qed.

  Lemma first_excluded_exists a lim k : all_nonneg a ->
    (0 <= k < Z.of_nat (length a))%Z -> ~ In k (sel_idx a lim) ->
    exists e, nth_error (argsort_desc a) (nsel a lim) = Some (pval a e, e) /\
              (0 <= e < Z.of_nat (length a))%Z /\ ~ In e (sel_idx a lim).
  Proof.
    intros H Hk Hn. pose proof (excluded_in_tail a lim k H Hk Hn) as Ht.
    destruct (skipn (nsel a lim) (argsort_desc a)) as [|[v e] r] eqn:Es; [contradiction|].
    assert (Hin : In (v, e) (argsort_desc a)) by (apply (in_skipn' _ (nsel a lim)); rewrite Es; left; reflexivity).
    destruct (argsort_entry a v e Hin) as [He ->]. exists e. split; [|split; [exact He|]].
    - clear -Es. revert Es. generalize (argsort_desc a) as l. induction (nsel a lim) as [|m IH]; intros l Es.
      + simpl in Es. subst l. reflexivity.
      + destruct l; simpl in *; [discriminate|]. apply IH. exact Es.
    - intros Hc. rewrite (sel_idx_prefix a lim H) in Hc. pose proof (argsort_nodup a) as ND.
      rewrite <- (firstn_skipn (nsel a lim) (argsort_desc a)) in ND. rewrite map_app in ND.
      apply (NoDup_app_disjoint _ _ e ND Hc). rewrite Es. left. reflexivity.
  Qed.

  (* sums over the selected flat indices, in selection order *)
  Definition sum_at (a : list T) (ks : list Z) (acc : T) : T := fold_left (fun s k => add s (pval a k)) ks acc.

  Lemma sumv_sum_at a : forall l acc, (forall v k, In (v, k) l -> v = pval a k) -> sumv l acc = sum_at a (map snd l) acc.
  Proof.
    induction l as [|[v k] l IH]; intros acc H; simpl; auto. rewrite (H v k) by (left; reflexivity).
    apply IH. intros v' k' Hin. apply H. right. exact Hin.
  Qed.

  Lemma sum_sel_sum_at a lim : all_nonneg a -> sum_sel a lim = sum_at a (sel_idx a lim) zero.
  Proof.
    intros H. unfold sum_sel. rewrite (sumv_sum_at a).
    - unfold sel_idx. rewrite map_map. reflexivity.
    - intros v k Hin. rewrite (selected_prefix a lim H) in Hin. apply in_firstn in Hin. apply argsort_entry in Hin. tauto.
  Qed.

  Lemma total_sum_at a : total a = sum_at a (map snd (argsort_desc a)) zero.
  Proof. unfold total. apply sumv_sum_at. intros v k Hin. apply argsort_entry in Hin. tauto. Qed.
End Sel.

(* ------------------------------------------------------------------ the IndexError branch: nothing can be selected *)
Section SelErrors.
  Variable T : Type.
  Variable zero : T.
  Variable add : T -> T -> T.
  Variables leb ltb : T -> T -> bool.
  Variable isnan : T -> bool.
  Hypothesis leb_total : forall a b, leb a b = true \/ leb b a = true.
  Hypothesis leb_trans : forall a b c, leb a b = true -> leb b c = true -> leb a c = true.
  Hypothesis add_nonneg : forall a x, leb zero x = true -> leb a (add a x) = true.

  (* nothing selected: the densest cell alone (added to zero) already exceeds the limit *)
  Lemma nothing_selected a lim : all_nonneg T zero leb a ->
    (selected T zero add leb a lim = [] <->
     match argsort_desc T leb a with [] => True | x :: _ => leb (add zero (fst x)) lim = false end).
  Proof.
    intros H. rewrite (selected_eq T zero add leb leb_trans add_nonneg a lim H).
    destruct (argsort_desc T leb a) as [|x l]; simpl; [tauto|].
    destruct (leb (add zero (fst x)) lim); split; intros; try discriminate; auto.
  Qed.

  (* the head of the descending order is a cell of the array and at least as big as every cell *)
  Lemma argsort_head_max a x l : argsort_desc T leb a = x :: l ->
    (0 <= snd x < Z.of_nat (length a))%Z /\ fst x = pval T zero a (snd x) /\
    forall k, (0 <= k < Z.of_nat (length a))%Z -> leb (pval T zero a k) (fst x) = true.
  Proof.
    intros E. destruct x as [v i].
    destruct (argsort_entry T zero leb a v i) as [Hi Hv]; [rewrite E; left; reflexivity|].
    split; [exact Hi|]. split; [exact Hv|]. intros k Hk.
    pose proof (argsort_has T zero leb a k Hk) as Hin. rewrite E in Hin.
    pose proof (argsort_sorted T leb leb_total leb_trans a) as S. rewrite E in S. inversion S; subst.
    destruct Hin as [Eq|Hin].
    - inversion Eq; subst. simpl. destruct (leb_total (pval T zero a k) (pval T zero a k)); assumption.
    - rewrite Forall_forall in H2. apply (H2 _ Hin).
  Qed.
End SelErrors.
