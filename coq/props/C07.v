(* C07 -- samples follow the model they are drawn from and are reproducible by seed.  PARTIAL property:
   no probability theory is available, so the theorems are the data-flow clauses of draw_sample
   (model/Joint.v, proofs/JointProofs.v).  NOT proved here, validated statistically by
   tools/harness/c07.py (DKW / Hoeffding bands at error probability <= 1e-12, as support only):
     - scipy's rvs draws from the distribution whose cdf virocon evaluates, element r of a call with
       parameter vectors is drawn with the r-th parameters (the array-parameter clause of `loc_scale`),
       elements are independent (so that the Rosenblatt transform of a sample is independent uniform);
     - different seeds give different samples (a property of numpy's bit generator).
   Oracle contracts used as hypotheses: rvs_len (rvs honours the requested size). *)
From Coq Require Import List Bool Arith ZArith PrimFloat Lia.
From V.base Require Import FloatBits.
From V.model Require Import Joint.
From V.proofs Require Import JointProofs RosenblattSample.
Import ListNotations.

Section Abstract.
  Variable T : Type.
  Variable zero : T.
  Variables G P : Type.
  Variable seed_state : Z -> G.

  (* (a) row pairing: for a conditional column i = length ds1 with conditional_on[i] = j < i, the ONE rvs call
     made for the column receives, at position r, the parameters computed from row r of column j of the
     returned sample, and the column is what that call returned; n parameter tuples for n rows *)
  Theorem C07_row_pairing : forall (ds1 : list (sdim T G P)) d ds2 n g cols' tr' g' j,
    (forall d', In d' (ds1 ++ d :: ds2) -> rvs_len T G P d') ->
    draw_cols T zero G P (ds1 ++ d :: ds2) n g [] [] = (cols', tr', g') ->
    scond d = Some j -> j < length ds1 ->
    let rows := rows_of_cols T zero n cols' in
    exists gi,
      nth_error tr' (length ds1) = Some (CallPar (map (fun row => theta d (nth j row zero)) rows) gi) /\
      map (fun row => nth (length ds1) row zero) rows =
        fst (rvs_par d (map (fun row => theta d (nth j row zero)) rows) gi) /\
      length (map (fun row => theta d (nth j row zero)) rows) = n.
  Proof. exact (draw_row_pairing T zero G P). Qed.

  (* (a) "each conditional variable is drawn from its conditional distribution given the sampled value of its
     conditioning variable in the same row", for ANY elementwise relation Drawn between parameters and value
     that the engine guarantees position by position.
     PARTIAL: Drawn cannot express a probability law or independence; see the header. *)
  Theorem C07_conditional_draw_same_row_partial : forall (Drawn : P -> T -> Prop) (ds1 : list (sdim T G P)) d ds2 n g cols' tr' g' j,
    (forall d', In d' (ds1 ++ d :: ds2) -> rvs_len T G P d') ->
    (forall ps gi r dP dT, r < length ps -> Drawn (nth r ps dP) (nth r (fst (rvs_par d ps gi)) dT)) ->
    draw_cols T zero G P (ds1 ++ d :: ds2) n g [] [] = (cols', tr', g') ->
    scond d = Some j -> j < length ds1 ->
    forall r row, nth_error (rows_of_cols T zero n cols') r = Some row ->
      Drawn (theta d (nth j row zero)) (nth (length ds1) row zero).
  Proof. exact (draw_elementwise T zero G P). Qed.

  (* (a) "so the Rosenblatt transform of the sample is independent standard normal" -- the deterministic core.
     Contract pit_engine: the probability-integral transform of what one rvs call returns, element r taken with
     ITS OWN parameter tuple, is a stream U n g of the requested count and the generator state only.
     Then entry (r, k) of the Rosenblatt image of the sample -- the cdf of variable k with the parameters its
     dependence functions give at row r's own value of the conditioning variable -- is element r of the stream of
     the state the k-th call received: families, parameters and dependence functions cancel out, for every
     admissible hierarchy of any dimension.
     PARTIAL: that successive streams are independent and uniform is numpy's generator contract (see the header). *)
  Theorem C07_rosenblatt_image_is_generator_stream_partial :
    forall (cdf : sdim T G P -> P -> T -> T) (U : nat -> G -> list T) (ds : list (sdim T G P)) n g cols' tr' g',
    (forall d, In d ds -> rvs_len T G P d) -> (forall d, In d ds -> pit_engine T zero G P cdf U d) ->
    wf_sfrom T G P 0 ds ->
    draw_cols T zero G P ds n g [] [] = (cols', tr', g') ->
    forall r row, nth_error (rows_of_cols T zero n cols') r = Some row ->
      length (rosenblatt T zero G P cdf ds row) = length ds /\
      forall k, k < length ds ->
        exists c, nth_error tr' k = Some c /\
                  nth k (rosenblatt T zero G P cdf ds row) zero = nth r (U n (call_state G P c)) zero.
  Proof. exact (rosenblatt_of_sample T zero G P). Qed.

  (* unconditional column: one call with the distribution's own parameters and size n *)
  Theorem C07_unconditional_column : forall (ds1 : list (sdim T G P)) d ds2 n g cols' tr' g',
    draw_cols T zero G P (ds1 ++ d :: ds2) n g [] [] = (cols', tr', g') -> scond d = None ->
    exists gi, nth_error tr' (length ds1) = Some (CallN (own d) n gi) /\
               nth_error cols' (length ds1) = Some (fst (rvs_n d (own d) n gi)).
  Proof. exact (draw_unconditional T zero G P). Qed.

  (* (b) the generator is threaded: the first call sees the initial state, call i+1 the state call i left,
     the final state is the one the last call left (no re-seeding per dimension) *)
  Theorem C07_generator_threaded : forall (ds : list (sdim T G P)) n g cols tr cols' tr' g',
    draw_cols T zero G P ds n g cols tr = (cols', tr', g') ->
    exists nt, tr' = tr ++ nt /\ length nt = length ds /\
      (forall c0, nth_error nt 0 = Some c0 -> call_state G P c0 = g) /\
      (forall i d c c', nth_error ds i = Some d -> nth_error nt i = Some c -> nth_error nt (S i) = Some c' ->
                        call_state G P c' = snd (run_call T G P d c)) /\
      (match ds with [] => g' = g | _ => forall d c, nth_error ds (length ds - 1) = Some d ->
                                         nth_error nt (length ds - 1) = Some c -> g' = snd (run_call T G P d c) end).
  Proof. exact (draw_threading T zero G P). Qed.

  (* the first k columns are what the first k dimensions alone draw from the same initial state: later dimensions
     neither change nor influence them (variables are sampled in model order, unconditional first) *)
  Theorem C07_prefix_independent : forall (ds1 ds2 : list (sdim T G P)) n g cols' tr' g',
    draw_cols T zero G P (ds1 ++ ds2) n g [] [] = (cols', tr', g') ->
    exists g1, draw_cols T zero G P ds1 n g [] [] = (firstn (length ds1) cols', firstn (length ds1) tr', g1) /\
               draw_cols T zero G P ds2 n g1 (firstn (length ds1) cols') (firstn (length ds1) tr') = (cols', tr', g').
  Proof. exact (draw_prefix_independent T zero G P). Qed.

  (* (b) the sample (with the calls made and the final state) is a function of (model, n, initial state): an int
     seed and a Generator in the state default_rng(seed) produces give identical results, whatever the global
     state; two calls with the same int seed give identical results *)
  Theorem C07_seed_reproducible : forall (ds : list (sdim T G P)) n glob glob' s,
    draw_full T zero G P seed_state ds n glob (RSInt s) = draw_full T zero G P seed_state ds n glob' (RSGen (seed_state s)) /\
    draw_full T zero G P seed_state ds n glob (RSInt s) = draw_full T zero G P seed_state ds n glob' (RSInt s).
  Proof. exact (draw_seed_reproducible T zero G P seed_state). Qed.
  Theorem C07_function_of_initial_state : forall (ds : list (sdim T G P)) n glob glob' rs rs',
    initial_state G seed_state glob rs = initial_state G seed_state glob' rs' ->
    draw_full T zero G P seed_state ds n glob rs = draw_full T zero G P seed_state ds n glob' rs'.
  Proof. exact (draw_function_of_state T zero G P seed_state). Qed.

  (* the requested size and the (n, n_dim) shape are honoured; entry (r, i) is element r of column i *)
  Theorem C07_shape : forall (ds : list (sdim T G P)) n glob rs,
    let s := draw_sample T zero G P seed_state ds n glob rs in
    length s = n /\ forall row, In row s -> length row = length ds.
  Proof. exact (draw_sample_shape T zero G P seed_state). Qed.
  Theorem C07_entries : forall n (cols : list (list T)) r i, r < n ->
    nth i (nth r (rows_of_cols T zero n cols) []) zero = nth r (nth i cols []) zero.
  Proof. exact (sample_entry T zero). Qed.

  (* _get_rvs_size: n for scalar parameters, (n, L) as soon as one parameter is a vector (of the common length L) *)
  Theorem C07_rvs_size : forall n L (pars : list (par T)),
    (forall v, In (PVec v) pars -> length v = L) ->
    get_rvs_size n pars = if existsb (is_vec T) pars then SizeNL n L else SizeN n.
  Proof. exact (get_rvs_size_spec T). Qed.
End Abstract.

(* the binary64 entry point evaluated by the correspondence check IS the generic definition *)
Theorem C07_float_entry_point : forall seeds ds n glob rs,
  fdraw_full seeds ds n glob rs = draw_full float 0%float nat (list float) (fseed_state seeds) ds n glob rs.
Proof. reflexivity. Qed.

(* non-vacuity: a 3-dimensional model over nat (variable 1 given 0, variable 2 given 0); the "generator" is a
   counter, rvs returns state-dependent values so that pairing and threading are visible *)
Example C07_nonvacuous :
  let rn := fun (p : nat) (n : nat) (g : nat) => (map (fun r => p + g + r) (seq 0 n), S g) in
  let rp := fun (ps : list nat) (g : nat) => (map (fun p => 100 * p + g) ps, S g) in
  let d0 := mksdim None 7 (fun x => x) rn rp in
  let d1 := mksdim (Some 0) 0 (fun x => 2 * x) rn rp in
  let d2 := mksdim (Some 0) 0 (fun x => x + 1) rn rp in
  draw_full nat 0 nat nat (fun s => Z.to_nat s) [d0; d1; d2] 2 50 (RSInt 3) =
    ([[10; 2004; 1105]; [11; 2204; 1205]], [CallN 7 2 3; CallPar [20; 22] 4; CallPar [11; 12] 5], 6) /\
  rvs_len nat nat nat d1 /\
  draw_full nat 0 nat nat (fun s => Z.to_nat s) [d0; d1; d2] 2 50 (RSInt 3) =
  draw_full nat 0 nat nat (fun s => Z.to_nat s) [d0; d1; d2] 2 99 (RSGen 3).
Proof.
  cbn zeta. split; [reflexivity|]. split; [|reflexivity].
  split; intros; cbn; now rewrite map_length, ?seq_length.
Qed.

(* non-vacuity of the Rosenblatt theorem: an inverse-transform engine over nat ("cdf p x = x - p", "icdf p u = p + u",
   the stream of state g and count n is g, g+1, ..., g+n-1) meets pit_engine, the 3-dimensional hierarchy is
   admissible, and the image of the sample is the streams of states 3, 4, 5 whatever the dependence functions are *)
Lemma nth_map_seq0 (f : nat -> nat) r n : r < n -> nth r (map f (seq 0 n)) 0 = f r.
Proof.
  intros H. rewrite (nth_indep _ 0 (f 0)) by (now rewrite map_length, seq_length).
  rewrite map_nth, seq_nth by exact H. reflexivity.
Qed.
Example C07_rosenblatt_nonvacuous :
  let U := fun (n g : nat) => map (fun r => g + r) (seq 0 n) in
  let rn := fun (p : nat) (n : nat) (g : nat) => (map (fun r => p + (g + r)) (seq 0 n), S g) in
  let rp := fun (ps : list nat) (g : nat) => (map (fun pr => fst pr + (g + snd pr)) (combine ps (seq 0 (length ps))), S g) in
  let cdf := fun (_ : sdim nat nat nat) (p x : nat) => x - p in
  let d0 := mksdim None 7 (fun x => x) rn rp in
  let d1 := mksdim (Some 0) 0 (fun x => 2 * x) rn rp in
  let d2 := mksdim (Some 1) 0 (fun x => x + 1) rn rp in
  pit_engine nat 0 nat nat cdf U d1 /\ wf_sfrom nat nat nat 0 [d0; d1; d2] /\
  map (rosenblatt nat 0 nat nat cdf [d0; d1; d2]) (draw_sample nat 0 nat nat (fun s => Z.to_nat s) [d0; d1; d2] 2 50 (RSInt 3))
    = [[3; 4; 5]; [4; 5; 6]].
Proof.
  cbn zeta. split; [|split; [|reflexivity]].
  - split.
    + intros p n g r Hr. cbn [fst rvs_n]. rewrite !nth_map_seq0 by exact Hr. cbn beta. lia.
    + intros ps g r dP Hr. cbn [fst rvs_par]. rewrite nth_map_seq0 by exact Hr.
      rewrite (nth_indep _ 0 ((fun pr => fst pr + (g + snd pr)) (dP, 0))) by (now rewrite map_length, combine_length, seq_length, Nat.min_id).
      rewrite (map_nth (fun pr => fst pr + (g + snd pr))), combine_nth by (now rewrite seq_length).
      rewrite seq_nth by exact Hr. cbn. lia.
  - cbn. repeat split; intros j Hj; inversion Hj; lia.
Qed.

Print Assumptions C07_row_pairing.
Print Assumptions C07_conditional_draw_same_row_partial.
Print Assumptions C07_rosenblatt_image_is_generator_stream_partial.
Print Assumptions C07_unconditional_column.
Print Assumptions C07_generator_threaded.
Print Assumptions C07_prefix_independent.
Print Assumptions C07_seed_reproducible.
Print Assumptions C07_function_of_initial_state.
Print Assumptions C07_shape.
Print Assumptions C07_entries.
Print Assumptions C07_rvs_size.
Print Assumptions C07_float_entry_point.
