(* Executable model of virocon/jointmodels.py GlobalHierarchicalModel.pdf / marginal_pdf /
   marginal_cdf / marginal_icdf / draw_sample, MultivariateModel.cdf / marginal_icdf, and of
   virocon/distributions.py Distribution._get_rvs_size.  NO proofs here.

   Section Gen is generic in the value type T (theorems: any T, R in props/C06.v), in the
   generator state G and in the parameter tuple type P.  External engines enter as Section
   variables / record fields: the per-dimension density / cdf / icdf of (value, given)
   (Distribution.pdf or ConditionalDistribution.pdf -- C05/C08 are about what is inside),
   scipy.integrate.nquad, numpy.quantile, scipy's rvs, numpy's default_rng.

   The model is the code after the minimal repair of lead L11 (the containers that receive
   densities / integrals are float arrays whatever the dtype of the input): integer input is
   converted exactly (of_int) and nothing is truncated.  [pdf_stored] keeps the shape of the
   unrepaired code (np.empty_like(x): every factor goes through the cast of the container). *)
From Coq Require Import List Bool Arith ZArith PrimFloat.
From V.base Require Import FloatBits.
Import ListNotations.

Section Gen.
  Variable T : Type.
  Variables zero one inf : T.           (* 0, 1, np.inf *)
  Variable mul : T -> T -> T.
  Variable of_int : Z -> T.             (* exact conversion of an integer array element *)

  (* ------------------------------------------------------------------ pdf *)
  (* one dimension: conditional_on[i] and the three methods of distributions[i] as functions of
     (argument, value of the conditioning variable or None) *)
  Record dim := mkdim { cond : option nat;
                        dpdf : T -> option T -> T;
                        dcdf : T -> option T -> T;
                        dicdf : T -> option T -> T }.

  (* given = x[:, cond_idx] of the same row *)
  Definition given_of (c : option nat) (row : list T) : option T :=
    match c with None => None | Some j => Some (nth j row zero) end.

  (* the (argument, given) pairs at which the per-dimension densities are evaluated for one row *)
  Fixpoint keys_from (i : nat) (ds : list dim) (row : list T) : list (T * option T) :=
    match ds with
    | [] => []
    | d :: ds' => (nth i row zero, given_of (cond d) row) :: keys_from (S i) ds' row
    end.
  Definition keys (ds : list dim) (row : list T) := keys_from 0 ds row.

  (* fs[r, i] *)
  Fixpoint factors_from (i : nat) (ds : list dim) (row : list T) : list T :=
    match ds with
    | [] => []
    | d :: ds' => dpdf d (nth i row zero) (given_of (cond d) row) :: factors_from (S i) ds' row
    end.
  Definition factors (ds : list dim) (row : list T) := factors_from 0 ds row.

  (* np.prod(fs, axis=-1): sequential product *)
  Definition prod (l : list T) : T := fold_left mul l one.

  Definition pdf_row (ds : list dim) (row : list T) : T := prod (factors ds row).
  Definition pdf (ds : list dim) (rows : list (list T)) : list T := map (pdf_row ds) rows.

  (* shape of the unrepaired code: every factor is stored through the container's cast *)
  Definition pdf_stored (store : T -> T) (ds : list dim) (rows : list (list T)) : list T :=
    map (fun row => prod (map store (factors ds row))) rows.

  (* what the caller may hand in: a row vector / list, or an (n, n_dim) array, float or integer dtype *)
  Inductive input := VecF (v : list T) | MatF (m : list (list T)) | VecI (v : list Z) | MatI (m : list (list Z)).
  Definition as_rows (x : input) : list (list T) :=
    match x with
    | VecF v => [v]
    | MatF m => m
    | VecI v => [map of_int v]
    | MatI m => map (map of_int) m
    end.
  Definition pdf_in (ds : list dim) (x : input) : list T := pdf ds (as_rows x).

  (* ------------------------------------------------------------------ nquad integrand wrappers *)
  (* np.argsort of a list of naturals: stable insertion sort of (value, position) *)
  Fixpoint ins (p : nat * nat) (l : list (nat * nat)) : list (nat * nat) :=
    match l with
    | [] => [p]
    | q :: l' => if fst p <=? fst q then p :: l else q :: ins p l'
    end.
  Definition sort_pairs (l : list (nat * nat)) : list (nat * nat) := fold_right ins [] l.
  Definition argsort (l : list nat) : list nat := map snd (sort_pairs (combine l (seq 0 (length l)))).

  (* np.array(args)[np.argsort(arg_order)] *)
  Definition reorder (arg_order : list nat) (args : list T) : list T :=
    map (fun j => nth j args zero) (argsort arg_order).

  (* one call of integrate.nquad(func, ranges, args): the row handed to self.pdf for an argument
     vector (nquad's variables followed by the extra args), the ranges, the extra args *)
  Record nq_call := mknq { nq_row : list T -> list T; nq_ranges : list (T * T); nq_args : list T }.
  Definition nq_f (ds : list dim) (c : nq_call) : list T -> T := fun a => pdf_row ds (nq_row c a).

  Variable nquad : (list T -> T) -> list (T * T) -> list T -> T.
  Definition run_nq (ds : list dim) (c : nq_call) : T := nquad (nq_f ds c) (nq_ranges c) (nq_args c).

  (* MultivariateModel.cdf: arg_order = [0..n-1], ranges (0, x_j), no extra args *)
  Definition cdf_order (n : nat) : list nat := seq 0 n.
  Definition cdf_call (n : nat) (x : list T) : nq_call :=
    mknq (reorder (cdf_order n)) (map (fun j => (zero, nth j x zero)) (seq 0 n)) [].
  Definition cdf (ds : list dim) (rows : list (list T)) : list T :=
    map (fun x => run_nq ds (cdf_call (length ds) x)) rows.
  Definition cdf_in (ds : list dim) (x : input) : list T := cdf ds (as_rows x).

  (* integral_order: range(n) without dim, reversed; the dim-th variable comes last *)
  Fixpoint remove_at {A} (k : nat) (l : list A) : list A :=
    match l, k with
    | [], _ => []
    | _ :: l', O => l'
    | a :: l', S k' => a :: remove_at k' l'
    end.
  Definition marg_order (n dimi : nat) : list nat := rev (remove_at dimi (seq 0 n)) ++ [dimi].

  (* marginal_pdf: the others over (0, inf), the dim-th variable fixed to x through args=[x] *)
  Definition mpdf_call (n dimi : nat) (x : T) : nq_call :=
    mknq (reorder (marg_order n dimi)) (repeat (zero, inf) (n - 1)) [x].
  (* marginal_cdf: the others over (0, inf), then the dim-th variable over (0, x) *)
  Definition mcdf_call (n dimi : nat) (x : T) : nq_call :=
    mknq (reorder (marg_order n dimi)) (repeat (zero, inf) (n - 1) ++ [(zero, x)]) [].

  (* the 1-dimensional argument of the marginal_* methods, float or integer dtype *)
  Inductive input1 := ArrF (v : list T) | ArrI (v : list Z).
  Definition as_vals (x : input1) : list T := match x with ArrF v => v | ArrI v => map of_int v end.

  Definition marginal_pdf (ds : list dim) (x : input1) (dimi : nat) : option (list T) :=
    match nth_error ds dimi with
    | None => None                                       (* IndexError *)
    | Some d =>
        match cond d with
        | None => Some (map (fun v => dpdf d v None) (as_vals x))
        | Some _ => Some (map (fun v => run_nq ds (mpdf_call (length ds) dimi v)) (as_vals x))
        end
    end.
  Definition marginal_cdf (ds : list dim) (x : input1) (dimi : nat) : option (list T) :=
    match nth_error ds dimi with
    | None => None
    | Some d =>
        match cond d with
        | None => Some (map (fun v => dcdf d v None) (as_vals x))
        | Some _ => Some (map (fun v => run_nq ds (mcdf_call (length ds) dimi v)) (as_vals x))
        end
    end.

  (* ------------------------------------------------------------------ draw_sample *)
  Variables G P : Type.               (* generator state; scipy parameter tuple of one row *)

  (* one dimension for sampling: conditional_on[i]; the scipy parameter tuple of an unconditional
     distribution; the tuple at a conditioning value (dependence functions + _get_scipy_parameters);
     scipy.rvs(tuple..., size=n, random_state=g) and scipy.rvs(tuple vectors..., size=(1, len), random_state=g) *)
  Record sdim := mksdim { scond : option nat;
                          own : P;
                          theta : T -> P;
                          rvs_n : P -> nat -> G -> list T * G;
                          rvs_par : list P -> G -> list T * G }.

  Inductive random_state := RSNone | RSInt (s : Z) | RSGen (g : G).
  Variable seed_state : Z -> G.       (* state of np.random.default_rng(s) *)
  (* random_state=None: every rvs call uses scipy's global RandomState, whose state is threaded
     in the same way; int: one Generator made once; Generator: used as it is *)
  Definition initial_state (global : G) (rs : random_state) : G :=
    match rs with RSNone => global | RSInt s => seed_state s | RSGen g => g end.

  (* samples[:, j]: np.zeros if the column has not been written *)
  Definition column (j n : nat) (cols : list (list T)) : list T := nth j cols (repeat zero n).

  Inductive call := CallN (p : P) (n : nat) (g : G) | CallPar (ps : list P) (g : G).
  Definition call_state (c : call) : G := match c with CallN _ _ g => g | CallPar _ g => g end.
  Definition run_call (d : sdim) (c : call) : list T * G :=
    match c with CallN p n g => rvs_n d p n g | CallPar ps g => rvs_par d ps g end.
  (* dist.draw_sample(n, random_state) / ConditionalDistribution.draw_sample(1, samples[:, cond_idx], random_state) *)
  Definition call_of (d : sdim) (n : nat) (g : G) (cols : list (list T)) : call :=
    match scond d with
    | None => CallN (own d) n g
    | Some j => CallPar (map (theta d) (column j n cols)) g
    end.

  (* the loop over the dimensions: columns, the rvs calls made, the generator state *)
  Fixpoint draw_cols (ds : list sdim) (n : nat) (g : G) (cols : list (list T)) (trace : list call)
    : list (list T) * list call * G :=
    match ds with
    | [] => (cols, trace, g)
    | d :: ds' =>
        let c := call_of d n g cols in
        let '(col, g') := run_call d c in
        draw_cols ds' n g' (cols ++ [col]) (trace ++ [c])
    end.

  Definition rows_of_cols (n : nat) (cols : list (list T)) : list (list T) :=
    map (fun r => map (fun c => nth r c zero) cols) (seq 0 n).

  Definition draw_full (ds : list sdim) (n : nat) (global : G) (rs : random_state)
    : list (list T) * list call * G :=
    let '(cols, trace, g') := draw_cols ds n (initial_state global rs) [] [] in
    (rows_of_cols n cols, trace, g').
  Definition draw_sample (ds : list sdim) (n : nat) (global : G) (rs : random_state) : list (list T) :=
    fst (fst (draw_full ds n global rs)).

  (* MultivariateModel.marginal_icdf(p, dim, precision_factor, random_state): exact for an unconditional variable,
     else the numpy.quantile of column dim of a Monte-Carlo sample drawn with the caller's random_state;
     mc_size = max(int(100*precision_factor/min(p_min, 1-p_max)), 100000) (binary64 instance: fmc_size below) *)
  Variable quantile : list T -> list T -> list T.
  Definition marginal_icdf (ds : list dim) (sds : list sdim) (ps : list T) (dimi : nat) (mc_size : nat) (global : G)
             (rs : random_state) : option (list T) :=
    match nth_error ds dimi with
    | None => None
    | Some d =>
        match cond d with
        | None => Some (map (fun p => dicdf d p None) ps)
        | Some _ => Some (quantile (map (fun row => nth dimi row zero) (draw_sample sds mc_size global rs)) ps)
        end
    end.
End Gen.

Arguments mkdim {T}. Arguments cond {T}. Arguments dpdf {T}. Arguments dcdf {T}. Arguments dicdf {T}.
Arguments mknq {T}. Arguments nq_row {T}. Arguments nq_ranges {T}. Arguments nq_args {T}.
Arguments VecF {T}. Arguments MatF {T}. Arguments VecI {T}. Arguments MatI {T}.
Arguments ArrF {T}. Arguments ArrI {T}.
Arguments mksdim {T G P}. Arguments scond {T G P}. Arguments own {T G P}. Arguments theta {T G P}.
Arguments rvs_n {T G P}. Arguments rvs_par {T G P}.
Arguments RSNone {G}. Arguments RSInt {G}. Arguments RSGen {G}.
Arguments CallN {G P}. Arguments CallPar {G P}.

(* Distribution._get_rvs_size(n, pars): (n, len of the last iterable parameter) if any parameter is
   iterable, else n *)
Section RvsSize.
  Variable T : Type.
  Inductive par := PScal (x : T) | PVec (v : list T).
  Inductive rsize := SizeN (n : nat) | SizeNL (n len : nat).
  Definition get_rvs_size (n : nat) (pars : list par) : rsize :=
    fold_left (fun acc p => match p with PScal _ => acc | PVec v => SizeNL n (length v) end) pars (SizeN n).
End RvsSize.
Arguments PScal {T}. Arguments PVec {T}. Arguments get_rvs_size {T}.

(* ------------------------------------------------------------------ binary64 instance *)
Local Open Scope float_scope.

(* recorded tables of one distribution's pdf: (argument, given, result) *)
Definition ftab := list (float * option float * float).
Definition okey_eq (a b : option float) : bool :=
  match a, b with None, None => true | Some x, Some y => fbits_eq x y | _, _ => false end.
Fixpoint flook (t : ftab) (x : float) (g : option float) : option float :=
  match t with
  | [] => None
  | (a, b, r) :: t' => if fbits_eq a x && okey_eq b g then Some r else flook t' x g
  end.
Definition flook_nan (t : ftab) (x : float) (g : option float) : float :=
  match flook t x g with Some r => r | None => nan end.
Definition fdim (c : option nat) (tpdf tcdf ticdf : ftab) : dim float :=
  mkdim c (flook_nan tpdf) (flook_nan tcdf) (flook_nan ticdf).

Definition fpdf_in (ds : list (dim float)) (x : input float) : list float :=
  pdf_in float 0 1 PrimFloat.mul FloatBits.of_Z ds x.
(* every (argument, given) pair the model needs was asked for by the implementation *)
Definition fkeys_found (tabs : list ftab) (ds : list (dim float)) (x : input float) : bool :=
  forallb (fun row => forallb (fun tk => match flook (fst tk) (fst (snd tk)) (snd (snd tk)) with Some _ => true | None => false end)
                              (combine tabs (keys float 0 ds row)))
          (as_rows float FloatBits.of_Z x).

(* nquad replaced by the probing stub: its result for a call is looked up by (ranges, extra args) *)
Definition nqtab := list (list (float * float) * list float * float).
Fixpoint all2 {A B} (f : A -> B -> bool) (a : list A) (b : list B) : bool :=
  match a, b with [], [] => true | x :: a', y :: b' => f x y && all2 f a' b' | _, _ => false end.
Definition franges_eq := all2 (fun (a b : float * float) => fbits_eq (fst a) (fst b) && fbits_eq (snd a) (snd b)).
Definition fnquad (t : nqtab) : (list float -> float) -> list (float * float) -> list float -> float :=
  fun _ ranges args =>
    (fix look (t : nqtab) : float :=
       match t with
       | [] => nan
       | (r, a, v) :: t' => if franges_eq r ranges && all2 fbits_eq a args then v else look t'
       end) t.
Definition fcdf_in (t : nqtab) (ds : list (dim float)) (x : input float) : list float :=
  cdf_in float 0 1 PrimFloat.mul FloatBits.of_Z (fnquad t) ds x.
Definition fmarginal_pdf (t : nqtab) (ds : list (dim float)) (x : input1 float) (dimi : nat) : option (list float) :=
  marginal_pdf float 0 1 infinity PrimFloat.mul FloatBits.of_Z (fnquad t) ds x dimi.
Definition fmarginal_cdf (t : nqtab) (ds : list (dim float)) (x : input1 float) (dimi : nat) : option (list float) :=
  marginal_cdf float 0 1 infinity PrimFloat.mul FloatBits.of_Z (fnquad t) ds x dimi.
Definition fcdf_call := cdf_call float 0.
Definition fmpdf_call := mpdf_call float 0 infinity.
Definition fmcdf_call := mcdf_call float 0 infinity.
Definition fnq_f (ds : list (dim float)) := nq_f float 0 1 PrimFloat.mul ds.

(* draw_sample: generator states are numbered by the harness (0 = unknown); parameter tuples are
   lists of floats; the rvs tables hold the calls the implementation made *)
Definition fclose (a b : float) : bool :=
  fbits_eq a b || (PrimFloat.leb (abs (a - b)) (0x1.12e0be826d695p-30 * (if PrimFloat.ltb (abs a) (abs b) then abs b else abs a))).
Definition ptuple_close := all2 fclose.
(* (state before, n or 0 for a vector call, parameter tuples, values, state after) *)
Definition rvstab := list (nat * nat * list (list float) * list float * nat).
Fixpoint rvs_look (t : rvstab) (g n : nat) (ps : list (list float)) : list float * nat :=
  match t with
  | [] => ([], O)
  | (g0, n0, ps0, vals, g1) :: t' =>
      if Nat.eqb g0 g && Nat.eqb n0 n && all2 ptuple_close ps0 ps then (vals, g1) else rvs_look t' g n ps
  end.
Definition thetatab := list (float * list float).
Fixpoint theta_look (t : thetatab) (x : float) : list float :=
  match t with [] => [nan] | (a, p) :: t' => if fbits_eq a x then p else theta_look t' x end.
Definition fsdim (c : option nat) (ownp : list float) (tt : thetatab) (rt : rvstab) : sdim float nat (list float) :=
  mksdim c ownp (theta_look tt)
         (fun p n g => rvs_look rt g n [p])
         (fun ps g => rvs_look rt g O ps).
Definition fseed_state (seeds : list (Z * nat)) (s : Z) : nat :=
  (fix look (l : list (Z * nat)) := match l with [] => O | (a, g) :: l' => if Z.eqb a s then g else look l' end) seeds.
(* the Monte-Carlo sample size of marginal_icdf: n = int((1 / p_small) * (100 * precision_factor)); max(n, 100000) *)
Definition fmc_size (ps : list float) (pf : float) : option Z :=
  let p_small := let a := fmin ps in let b := 1 - fmax ps in if PrimFloat.ltb b a then b else a in
  match truncZ ((1 / p_small) * (100 * pf)) with Some n => Some (Z.max n 100000) | None => None end.

Definition fdraw_full (seeds : list (Z * nat)) (ds : list (sdim float nat (list float))) (n : nat) (global : nat)
           (rs : random_state nat) :=
  draw_full float 0 nat (list float) (fseed_state seeds) ds n global rs.
