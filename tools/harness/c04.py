"""C04 -- AND/OR contour points have empirical exceedance alpha within allowed_error (DESIGN.md section 6, C04).

proof gate: props/C04.v (exit invariant of the ray search: vector and pe of the same iteration, not warned => within
            tolerance, positive distance on the ray, closure lists, the loop body runs at least once)
correspondence: binary64 model model/AndOr.v evaluated by vm_compute vs virocon.contours.AndContour / OrContour run on
            stub models (fixed marginal_icdf, supplied sample); the exceedance count of every iteration (recorded from
            np.logical_and / np.logical_or), the number of warnings and error-vs-result are compared exactly,
            coordinates to 1e-9
search: property oracle on the real contours (recount at every returned point with strict >, ray angle, closure,
            range filter)
"""
import math
import struct
import warnings

import numpy as np

import vlib
from vlib import fl

WARN_TEXT = "Could not achieve the required precision"


def _bits(x):
    return struct.unpack("<q", struct.pack("<d", float(x)))[0]


def f24(v):
    """nearest number with a 24-bit significand: its square is exact in binary64, so `v**2` (C pow) equals v*v"""
    return float(np.float32(v))


# ------------------------------------------------------------------ recording numpy's engines from outside
class NpRecorder:
    """Stands in for `np` inside virocon.contours: cos / sin values and the exceedance count of every iteration."""

    def __init__(self, real):
        self._real = real
        self.cos_tab, self.sin_tab = {}, {}
        self.traces = []        # per ray: counts of successive iterations
        self.wl = None          # the list warnings.catch_warnings(record=True) appends to
        self.warn_marks = []    # number of warnings emitted before each ray starts

    def __getattr__(self, name):
        return getattr(self._real, name)

    def cos(self, x, *a, **k):
        v = self._real.cos(x, *a, **k)
        self.cos_tab.setdefault(_bits(x), (float(x), float(v)))
        self.traces.append([])          # a ray starts with its np.cos call
        self.warn_marks.append(len(self.wl) if self.wl is not None else 0)
        return v

    def sin(self, x, *a, **k):
        v = self._real.sin(x, *a, **k)
        self.sin_tab.setdefault(_bits(x), (float(x), float(v)))
        return v

    def logical_and(self, a, b, *r, **k):
        v = self._real.logical_and(a, b, *r, **k)
        self.traces[-1].append(int(v.sum()))
        return v

    def logical_or(self, a, b, *r, **k):
        v = self._real.logical_or(a, b, *r, **k)
        self.traces[-1].append(int(v.sum()))
        return v


class StubModel:
    """2-D model with a fixed marginal_icdf (the real one is unseeded Monte Carlo) and a prepared sample."""

    n_dim = 2

    def __init__(self, xm, ym, sample=None):
        self.xm, self.ym, self._sample = xm, ym, sample
        self.asked = []

    def marginal_icdf(self, p, dim, *a, **k):
        self.asked.append((float(p), dim))
        return np.float64(self.xm if dim == 0 else self.ym)

    def draw_sample(self, n, *a, **k):
        self.requested = getattr(self, "requested", []) + [n]
        return np.array(self._sample[:n], dtype=float)


def cell(v):
    return float(np.asarray(v, dtype=float).reshape(-1)[0])


def as_array(c):
    """the supplied sample in the dtype / memory layout of the case (same values)"""
    arr = np.array(c["sample"], dtype=float).astype(c.get("dtype") or float)
    lay = c.get("layout")
    if lay == "F":
        arr = np.asfortranarray(arr)
    elif lay == "strided":
        big = np.full((2 * len(arr), 4), -777, dtype=arr.dtype)
        big[::2, ::2] = arr
        arr = big[::2, ::2]
    elif lay == "readonly":
        arr.setflags(write=False)
    return arr


def run_impl(c, model=None, record=True):
    import virocon.contours as vc
    rec = NpRecorder(np)
    m = model if model is not None else StubModel(c["xm"], c["ym"], c["sample"])
    old = vc.np
    if record:
        vc.np = rec
    out = {"rec": rec, "model": m}
    try:
        with warnings.catch_warnings(record=True) as wl:
            warnings.simplefilter("always")
            rec.wl = wl
            try:
                smp = None if c.get("drawn") else as_array(c)
                if c["mode"] == "and":
                    ct = vc.AndContour(m, c["alpha"], n=c.get("n"), deg_step=c["deg_step"], sample=smp, allowed_error=c["allowed_error"])
                else:
                    ct = vc.OrContour(m, c["alpha"], n=c.get("n"), deg_step=c["deg_step"], sample=smp, allowed_error=c["allowed_error"],
                                      lowest_theta=c["lowest"], highest_theta=c["highest"])
                co = ct.coordinates
                out["contour"] = ct
                out["n_attr"] = ct.n
                out["sample_attr"] = np.array(ct.sample, dtype=float)
                out["requested"] = getattr(m, "requested", [])
                out["coords"] = [(cell(co[i, 0]), cell(co[i, 1])) for i in range(co.shape[0])]
            except Exception as e:  # noqa
                out["err"] = type(e).__name__
        out["nwarn"] = sum(1 for w in wl if issubclass(w.category, UserWarning) and WARN_TEXT in str(w.message))
        if record:
            # which ray emitted a warning (observed: the count of recorded warnings grows while that ray is searched)
            marks = rec.warn_marks + [len(wl)]
            out["ray_warned"] = [any(issubclass(w.category, UserWarning) and WARN_TEXT in str(w.message) for w in wl[marks[i]:marks[i + 1]])
                                 for i in range(len(rec.warn_marks))]
    finally:
        vc.np = old
    return out


# ------------------------------------------------------------------ case generation
def gen_sample(rng, nprng, n):
    kind = rng.choice(["seastate", "seastate", "lognormal", "expo", "zeros", "rounded", "windwave"])
    if kind == "seastate":
        x = 0.9 + 2.8 * nprng.weibull(1.5, n)
        y = np.exp(0.1 + 1.49 * x ** 0.19 + (0.04 + 0.175 * np.exp(-0.224 * x)) * nprng.standard_normal(n))
    elif kind == "lognormal":
        x = np.exp(nprng.standard_normal(n) * rng.uniform(0.2, 0.9))
        y = np.exp(nprng.standard_normal(n) * rng.uniform(0.2, 0.9) + rng.uniform(0, 0.8) * np.log(x))
    elif kind == "expo":
        x = nprng.exponential(rng.uniform(0.5, 5), n)
        y = nprng.exponential(rng.uniform(0.5, 5), n) + rng.choice([0.0, 0.5]) * x
    elif kind == "zeros":
        # calm periods: a share of exact zeros in either variable (ties with the axis rays)
        x = nprng.weibull(1.3, n) * 3
        y = nprng.weibull(1.8, n) * 5
        y[nprng.random(n) < rng.uniform(0.05, 0.4)] = 0.0
        x[nprng.random(n) < rng.uniform(0.0, 0.2)] = 0.0
    elif kind == "rounded":
        x = np.round(nprng.weibull(1.5, n) * 3, 1)
        y = np.round(nprng.weibull(2.0, n) * 6, 1)
    else:
        x = 10 * nprng.weibull(2.0, n)
        y = np.abs(0.5 + 0.02 * x ** 2 + 0.3 * nprng.standard_normal(n) * (1 + 0.1 * x))
    return kind, np.column_stack([x, y]).astype(float)


def gen_cases(ctx):
    rng, nprng = ctx.rng, ctx.np_rng(0)
    cases = []
    n_samples = ctx.n(120, 1500)
    for si in range(n_samples):
        r = rng.random()
        nmax = ctx.n(5000, 12000)
        n = rng.randrange(200, 500) if r < 0.6 else (rng.randrange(500, 1500) if r < 0.9 else rng.randrange(1500, nmax))
        alpha = rng.choice([0.2, 0.1, 0.05, 0.02, 0.01]) if rng.random() < 0.4 else math.exp(rng.uniform(math.log(1e-3), math.log(0.2)))
        reachable = rng.random() < 0.8      # most samples are large enough for the requested precision to be reachable
        if reachable:
            n = max(n, min(int(2.0 / (alpha * 0.2)) + 1, nmax))
        kind, smp = gen_sample(rng, nprng, n)
        # marginal quantiles as the model would give them (not tied to this sample), 24-bit significands
        xm = f24(np.quantile(smp[:, 0], 1 - alpha) * rng.uniform(0.7, 1.6) + 1e-3)
        ym = f24(np.quantile(smp[:, 1], 1 - alpha) * rng.uniform(0.7, 1.6) + 1e-3)
        nvar = 2 if n <= 1500 else 1
        first_and = True
        for v in range(nvar):
            big = n > 1500
            ds = rng.choice([5, 10, 15, 20, 30] if big else [1, 2, 3, 3, 5, 6, 7, 10, 13, 15, 20, 30])
            if rng.random() < 0.3:
                ds = rng.choice([2.5, 7.5, 4.5, 12.5, 22.5, 1.5 if not big else 9.5])
            allowed = rng.choice([0.005, 0.01, 0.01, 0.02, 0.05, 0.1, 0.2]) if rng.random() < 0.6 else math.exp(rng.uniform(math.log(0.005), math.log(0.2)))
            if reachable and alpha * n * allowed < 1.5:
                allowed = min(0.2, 1.5 / (alpha * n) * rng.uniform(1.0, 2.0))
            smp_v = smp
            if rng.random() < 0.25:
                # plant observations exactly on the first probe (rel_dist 0.2) of a few rays: x == v_x or y == v_y
                smp_v = smp.copy()
                maxd = np.sqrt(np.float64(xm) ** 2 + np.float64(ym) ** 2)
                for th in [0, ds, 2 * ds, 3 * ds]:
                    u0, u1 = np.cos(th / 180 * np.pi), np.sin(th / 180 * np.pi)
                    vx, vy = u0 * (0.2 * maxd), u1 * (0.2 * maxd)
                    idx = nprng.integers(0, n, 4)
                    smp_v[idx[:2], 0] = vx
                    smp_v[idx[2:], 1] = vy
            mode = "and" if (first_and and v == 0) or rng.random() < 0.4 else "or"
            c = {"sid": None, "kind": kind, "sample": smp_v, "alpha": alpha, "deg_step": ds, "allowed_error": allowed, "xm": xm, "ym": ym,
                 "mode": mode, "lowest": None, "highest": None}
            if mode == "or":
                c["lowest"] = rng.choice([10, 10, 0, 5, 20, 12.5])
                c["highest"] = rng.choice([80, 80, 90, 85, 60, 77.5])
            cases.append(c)
    # outside the property's quantifier but inside the model: the error branches
    kind, smp = gen_sample(rng, nprng, 200)
    for mode in ("and", "or"):
        # allowed_error >= 1: the loop body never runs
        cases.append({"sid": None, "kind": kind, "sample": smp, "alpha": 0.05, "deg_step": 30, "allowed_error": 1.5, "xm": 3.0, "ym": 4.0,
                      "mode": mode, "lowest": 10, "highest": 80})
    # every OR point beyond 1.1 * max: nothing is kept
    cases.append({"sid": None, "kind": kind, "sample": smp, "alpha": 0.05, "deg_step": 30, "allowed_error": 0.1,
                  "xm": f24(40 * smp[:, 0].max()), "ym": f24(40 * smp[:, 1].max()), "mode": "or", "lowest": 10, "highest": 80})
    cases += edge_cases(ctx, rng, nprng)
    return cases


def edge_cases(ctx, rng, nprng):
    """on the rim of and beyond the property's quantifier, inside the model: sample drawn instead of supplied, dtypes and memory
    layouts, angle grids (lowest_theta / highest_theta / deg_step) incl. empty, beyond the first quadrant and single-ray grids,
    allowed_error 0 / negative / tiny / >= 1, tiny and empty samples, negative observations, alpha beyond its range, zero marginals"""
    out = []
    for rep in range(ctx.n(1, 5)):
        n = rng.randrange(250, 450)
        kind, smp = gen_sample(rng, nprng, n)
        alpha0 = rng.choice([0.1, 0.05, 0.2])
        xm = f24(np.quantile(smp[:, 0], 1 - alpha0) * rng.uniform(0.8, 1.4) + 1e-3)
        ym = f24(np.quantile(smp[:, 1], 1 - alpha0) * rng.uniform(0.8, 1.4) + 1e-3)
        base = {"sid": None, "kind": kind, "sample": smp, "alpha": alpha0, "deg_step": rng.choice([10, 15, 7.5]), "allowed_error": rng.choice([0.1, 0.2]),
                "xm": xm, "ym": ym, "mode": "and", "lowest": 10, "highest": 80}

        def add(tag, **kw):
            c = dict(base)
            c.update(kw)
            c["kind"] = tag
            out.append(c)

        # sample drawn by the model: n = int(100/alpha) unless n is given; the case's sample is exactly what will be drawn
        for mode in ("and", "or"):
            for a, n_given in [(0.25, None), (0.3, None), (0.35, None), (0.15, 250), (0.07, 200)]:
                want = int(100 / a) if n_given is None else n_given
                add("drawn", mode=mode, alpha=a, n=n_given, drawn=True, sample=smp[:want], allowed_error=0.2)
            add("n-given-with-sample", mode=mode, n=rng.choice([1, 17, 10 ** 6]))
        # dtypes / memory layouts of the supplied array (values representable in every dtype)
        smp_i = np.round(smp * 8)
        for mode in ("and", "or"):
            for dt, lay in [("int64", None), ("int32", "F"), ("float32", None), ("float32", "strided"), (None, "F"), (None, "strided"), (None, "readonly")]:
                add("array", mode=mode, sample=smp_i, dtype=dt, layout=lay, xm=f24(8 * xm), ym=f24(8 * ym))
        # angle grids
        for lo, hi in [(0, 90), (-10, 100), (45, 45), (80, 10), (0, 91), (89, 90), (0, 180), (30, 60.0), (12.5, 77.5), (0, 1)]:
            add("or-grid", mode="or", lowest=lo, highest=hi)
        for ds in [0.5, 45, 89, 90, 91, 200]:
            add("and-step", deg_step=ds)
            add("or-step", mode="or", deg_step=ds)
        # allowed_error beyond [0.005, 0.2]
        for ae in [0.0, -0.1, 1e-6, 0.999, 1.0, 5]:
            add("allowed-error", allowed_error=ae, deg_step=30)
            add("allowed-error", mode="or", allowed_error=ae, deg_step=30)
        # tiny / empty samples
        for m in [0, 1, 2, 5, 50, 199]:
            add("tiny", sample=smp[:m], deg_step=30)
            add("tiny", mode="or", sample=smp[:m], deg_step=30)
        # negative observations, alpha beyond its range, zero marginals
        add("negative", sample=smp - np.median(smp, axis=0))
        add("negative", mode="or", sample=smp - np.median(smp, axis=0))
        for a in [0.5, 0.9, 1e-4, 1.0, 0.001, 0.2]:
            add("alpha-rim", alpha=a, deg_step=30)
            add("alpha-rim", mode="or", alpha=a, deg_step=30)
        add("zero-marginals", xm=0.0, ym=0.0, deg_step=30)
        add("zero-marginals", mode="or", xm=0.0, ym=0.0, deg_step=30)
    return out


def corpus_cases():
    """minimised past failures (corpus/C04/*.json, replay dictionaries): always run first through the oracle"""
    import glob
    import json
    import os
    out = []
    for fn in sorted(glob.glob(os.path.join(vlib.VERIF, "corpus", "C04", "*.json"))):
        d = json.load(open(fn))
        d = d.get("replay", d)
        out.append(dict(d, kind="corpus/" + os.path.basename(fn), sample=np.array(d["sample"], dtype=float).reshape(-1, 2)))
    return out


# ------------------------------------------------------------------ Coq side
PRELUDE = """From V.base Require Import FloatBits.
From V.model Require Import AndOr.
Local Open Scope float_scope.
Definition fclose (a b : float) : bool :=
  fbits_eq a b || (PrimFloat.leb (abs (a - b)) (0x1.12e0be826d695p-30 * (if PrimFloat.ltb (abs a) (abs b) then abs b else abs a))).
Fixpoint all2 {A B} (f : A -> B -> bool) (a : list A) (b : list B) : bool :=
  match a, b with [], [] => true | x :: a', y :: b' => f x y && all2 f a' b' | _, _ => false end.
Definition pclose (a b : float * float) := fclose (fst a) (fst b) && fclose (snd a) (snd b).
Definition pexact (a b : float * float) := fbits_eq (fst a) (fst b) && fbits_eq (snd a) (snd b).
Definition nwarned (rs : list (ray float)) : nat := List.length (filter (fun r => r_warned r) rs).
(* 0 bit-exact; 1 coordinates within 1e-9; 2 error vs result; 3 number of points; 4 iteration counts differ;
   5 number of warnings differs; 6 coordinates differ; 7 attribute n differs from int(100/alpha) / the given n *)
Definition check (res : option (list (float * float)) * list (ray float)) (coords : option (list (float * float)))
           (traces : list (list nat)) (nwarn : nat) (n_opt : option Z) (alpha : float) (n_attr : Z) : Z :=
  let '(co, rs) := res in
  match co, coords with
  | None, None => 0%Z
  | Some p, Some q =>
      if negb (Z.eqb (sample_size_f n_opt alpha) n_attr) then 7%Z
      else if negb (all2 (fun r t => all2 Nat.eqb (r_trace r) t) rs traces) then 4%Z
      else if negb (Nat.eqb (nwarned rs) nwarn) then 5%Z
      else if negb (Nat.eqb (List.length p) (List.length q)) then 3%Z
      else if all2 pexact p q then 0%Z else if all2 pclose p q then 1%Z else 6%Z
  | _, _ => 2%Z
  end.
"""
CODES = {2: "error vs result", 3: "number of points", 4: "exceedance counts per iteration", 5: "number of warnings", 6: "coordinates",
         7: "attribute n (int(100/alpha) or the given n)"}


def tab_lit(tab):
    return "[" + "; ".join("(%s, %s)" % (fl(a), fl(b)) for a, b in tab.values()) + "]"


def pts_lit(pts):
    return "[" + "; ".join("(%s, %s)" % (fl(a), fl(b)) for a, b in pts) + "]"


def coq_case(c, r):
    rec = r["rec"]
    if c["mode"] == "and":
        call = "and_contour_f %s %s smp_%d %s %s %s %s %s" % (tab_lit(rec.cos_tab), tab_lit(rec.sin_tab), c["sid"], fl(c["alpha"]),
                                                            fl(c["allowed_error"]), fl(c["xm"]), fl(c["ym"]), fl(c["deg_step"]))
    else:
        call = "or_contour_f %s %s smp_%d %s %s %s %s %s %s %s" % (tab_lit(rec.cos_tab), tab_lit(rec.sin_tab), c["sid"], fl(c["alpha"]),
                                                                  fl(c["allowed_error"]), fl(c["xm"]), fl(c["ym"]), fl(c["lowest"]), fl(c["highest"]), fl(c["deg_step"]))
    coords = "None" if "err" in r else "(Some %s)" % pts_lit(r["coords"])
    traces = "[" + "; ".join("[" + "; ".join("%d" % k for k in t) + "]" for t in rec.traces) + "]%nat"
    nopt = "None" if c.get("n") is None else "(Some %d%%Z)" % c["n"]
    return "(check (%s) %s %s %d%%nat %s %s %d%%Z)" % (call, coords, traces, r["nwarn"], nopt, fl(c["alpha"]), int(r.get("n_attr", 0)))


# ------------------------------------------------------------------ property oracle (search)
def thresholds(mode, smp, theta_deg):
    """distance along the ray up to which each observation exceeds the ray point (strictly beyond: no longer)"""
    t = math.radians(theta_deg)
    cx, sy = math.cos(t), math.sin(t)
    with np.errstate(divide="ignore", invalid="ignore"):
        tx = np.where(cx > 0, smp[:, 0] / cx, np.inf) if cx > 1e-300 else np.full(len(smp), np.inf)
        ty = np.where(sy > 0, smp[:, 1] / sy, np.inf) if sy > 1e-300 else np.full(len(smp), np.inf)
    return np.minimum(tx, ty) if mode == "and" else np.maximum(tx, ty)


def oracle(c, r=None):
    """None if the property holds on this configuration, else (signature, message)."""
    if r is None:
        r = run_impl(c)
    cls = "AndContour" if c["mode"] == "and" else "OrContour"
    smp = np.asarray(c["sample"], dtype=float).reshape(-1, 2)
    x, y = smp[:, 0], smp[:, 1]
    n = len(smp)
    alpha, allowed, ds = c["alpha"], c["allowed_error"], c["deg_step"]
    # which sample the contour is computed from: n = int(100/alpha) points drawn unless n or the sample is given
    if "err" not in r and "sample_attr" in r:
        if c.get("drawn"):
            want = int(100 / alpha) if c.get("n") is None else c["n"]
            if r["requested"] != [want] or r["n_attr"] != want or len(r["sample_attr"]) != min(want, n):
                return ({"class": cls, "clause": "sample-size"}, "no sample supplied, alpha=%r, n=%r: draw_sample asked for %r points, attribute n = %r, expected %d" % (
                    alpha, c.get("n"), r["requested"], r["n_attr"], want))
        elif r["requested"] or r["sample_attr"].shape != smp.shape or not np.array_equal(r["sample_attr"], np.asarray(as_array(c), dtype=float)):
            return ({"class": cls, "clause": "sample-size"}, "a sample was supplied but the contour drew %r points / stores another sample" % (r["requested"],))
    if n == 0 or (c.get("xm") == 0 and c.get("ym") == 0):
        return None      # nothing to exceed / no ray to move along (max_distance = 0)
    if not (0 < allowed < 1):
        return None      # outside the property (the search loop is documented for a precision below 1)
    lo, hi = (0, 90) if c["mode"] == "and" else (c["lowest"], c["highest"])
    thetas = np.arange(lo, hi, ds)
    if "err" in r:
        if c["mode"] == "or":
            # legitimately empty after the range filter? then the documented closure cannot be formed: not judged
            return None if r["err"] == "IndexError" else ({"class": cls, "clause": "exception"}, "%s raised %s" % (cls, r["err"]))
        return ({"class": cls, "clause": "exception"}, "%s raised %s" % (cls, r["err"]))
    pts = r["coords"]
    warned = r["nwarn"] > 0
    ray_warned = r.get("ray_warned")
    if ray_warned is not None and len(ray_warned) != len(thetas):
        ray_warned = None

    def count_at(p):
        if c["mode"] == "and":
            return int(np.sum((x > p[0]) & (y > p[1])))
        return int(np.sum((x > p[0]) | (y > p[1])))

    def judge(p, theta, what, j):
        d = math.hypot(p[0], p[1])
        if not (d > 0) or not math.isfinite(d):
            return ({"class": cls, "clause": "on-ray"}, "%s %r is not at a positive finite distance from the origin" % (what, p))
        ang = math.degrees(math.atan2(p[1], p[0]))
        if abs(ang - float(theta)) > 1e-7:
            return ({"class": cls, "clause": "on-ray"}, "%s %r lies at %.9g deg, not on the ray of %.9g deg" % (what, p, ang, float(theta)))
        if not (ray_warned[j] if ray_warned is not None else warned):
            pe = count_at(p) / n
            if abs(pe - alpha) / alpha > allowed * (1 + 1e-9) + 1e-13:
                return ({"class": cls, "clause": "exceedance"},
                        "%s %r (theta=%.6g): %s exceedance fraction %d/%d = %.6g differs from alpha=%.6g by %.4g*alpha > allowed_error=%.4g, no warning was emitted for this ray" % (
                            what, p, float(theta), c["mode"].upper(), count_at(p), n, pe, alpha, abs(pe - alpha) / alpha, allowed))
        return None

    if c["mode"] == "and":
        if len(pts) != len(thetas) + 1:
            return ({"class": cls, "clause": "closure"}, "%d coordinates for %d rays (expected the rays' points and the origin)" % (len(pts), len(thetas)))
        if pts[-1] != (0.0, 0.0):
            return ({"class": cls, "clause": "closure"}, "the contour does not end in (0, 0) but in %r" % (pts[-1],))
        for i, th in enumerate(thetas):
            o = judge(pts[i], th, "point %d" % i, i)
            if o:
                return o
        return None
    # OR
    if len(pts) < 4:
        return ({"class": cls, "clause": "closure"}, "only %d coordinates" % len(pts))
    body, clos = pts[:-3], pts[-3:]
    want = [(0.0, body[-1][1]), (0.0, 0.0), (body[0][0], 0.0)]
    if list(clos) != want:
        return ({"class": cls, "clause": "closure"}, "closure points are %r, documented: (0, y_last), (0, 0), (x_first, 0) = %r" % (clos, want))
    xmax, ymax = 1.1 * float(np.max(x)), 1.1 * float(np.max(y))
    j = 0
    kept_idx = []
    for k, p in enumerate(body):
        ang = math.degrees(math.atan2(p[1], p[0]))
        while j < len(thetas) and abs(ang - float(thetas[j])) > 1e-7:
            j += 1
        if j == len(thetas):
            return ({"class": cls, "clause": "on-ray"}, "point %d %r (%.9g deg) is on none of the remaining rays (order kept?)" % (k, p, ang))
        o = judge(p, thetas[j], "point %d" % k, j)
        if o:
            return o
        if not (p[0] < xmax and p[1] < ymax):
            return ({"class": cls, "clause": "range-filter"}, "point %d %r is beyond 1.1 x the sample maximum (%r, %r) but was kept" % (k, p, xmax, ymax))
        kept_idx.append(j)
        j += 1
    if not warned or ray_warned is not None:
        # a ray whose every admissible point is well inside the range must not be dropped
        lo_c, hi_c = alpha * n * (1 - allowed), alpha * n * (1 + allowed)
        for jj, th in enumerate(thetas):
            if jj in kept_idx or (ray_warned is not None and ray_warned[jj]):
                continue
            t = np.sort(thresholds("or", smp, float(th)))[::-1]
            c_lo = max(int(math.ceil(lo_c - 1e-9)), 1)
            if c_lo > n or c_lo > hi_c + 1e-9:
                continue
            d_sup = t[c_lo - 1]       # count(d) >= c_lo  iff  d < t[c_lo-1]
            if not math.isfinite(d_sup):
                continue
            tt = math.radians(float(th))
            if d_sup * math.cos(tt) < xmax * (1 - 1e-9) and d_sup * math.sin(tt) < ymax * (1 - 1e-9):
                return ({"class": cls, "clause": "range-filter"},
                        "no point for the ray of %.6g deg although every point of that ray with exceedance within tolerance lies inside 1.1 x the sample maximum" % float(th))
    return None


def shrink(c, sig):
    def fails(rows):
        if len(rows) < 200:
            return False
        o = oracle(dict(c, sample=np.array(rows, dtype=float)))
        return o is not None and o[0].get("clause") == sig.get("clause")
    rows = [list(map(float, p)) for p in c["sample"]]
    if len(rows) > 200 and fails(rows[:1000]):
        rows = vlib.shrink_list(rows[:1000], fails, min_len=200)
    return dict(c, sample=np.array(rows, dtype=float))


def to_replay(c):
    d = {k: v for k, v in c.items() if k not in ("sample", "sid")}
    d["sample"] = [[float(a), float(b)] for a, b in c["sample"]]
    return d


def replay(ctx, d):
    if "history" in d:
        _, v = run_history(d["history"])
        if v:
            print("  ", v[1])
        return v is not None
    c = dict(d, sample=np.array(d["sample"], dtype=float))
    o = oracle(c)
    if o:
        print("  ", o[1])
    return o is not None


def seastate_model(rng=None):
    """a fitted two-variable virocon model (Weibull Hs, log-normal Tz conditional on Hs; Vanem & Bitner-Gregersen 2012,
    the model of virocon's own contour tests), parameters varied a little when rng is given"""
    from virocon import GlobalHierarchicalModel, WeibullDistribution, LogNormalDistribution, DependenceFunction
    j = (lambda v, s=0.1: v * (1 + s * (rng.random() - 0.5))) if rng is not None else (lambda v, s=0.1: v)
    a1, b1, c1 = j(0.1), j(1.489), j(0.1901)
    a2, b2, c2 = j(0.04), j(0.1748), j(-0.2243)

    def _power3(x, a=a1, b=b1, c=c1):
        return a + b * x ** c

    def _exp3(x, a=a2, b=b2, c=c2):
        return a + b * np.exp(c * x)

    bounds = [(0, None), (0, None), (None, None)]
    d0 = {"distribution": WeibullDistribution(alpha=j(2.776), beta=j(1.471), gamma=j(0.8888))}
    d1 = {"distribution": LogNormalDistribution(), "conditional_on": 0,
          "parameters": {"mu": DependenceFunction(_power3, bounds), "sigma": DependenceFunction(_exp3, bounds)}}
    return GlobalHierarchicalModel([d0, d1])


class RecordingModel:
    """hands every call through to the real model object (same arrays, no copies) and records the sizes asked of draw_sample"""

    def __init__(self, real):
        self._real = real
        self.n_dim = real.n_dim
        self.requested = []

    def draw_sample(self, n, *a, **k):
        self.requested = self.requested + [n]
        return self._real.draw_sample(n, *a, **k)

    def marginal_icdf(self, *a, **k):
        return self._real.marginal_icdf(*a, **k)


def run_history(spec):
    """Several contours with sample=None from ONE model object (same alpha, hence the same n).  Each contour is judged when it is
    built; after every later construction every earlier contour is judged again against its own .sample as it is then, and its
    .sample and .coordinates must still be what they were right after construction.  Returns (n_judgements, violation or None)."""
    np.random.seed(spec["seed"] % (2 ** 32))
    if spec.get("model") == "independent":
        # both variables unconditional: marginal_icdf is the distribution's icdf, the model draws nothing besides the contour's sample
        from virocon import GlobalHierarchicalModel, WeibullDistribution, LogNormalDistribution
        real = GlobalHierarchicalModel([{"distribution": WeibullDistribution(alpha=2.776, beta=1.471, gamma=0.8888)},
                                        {"distribution": LogNormalDistribution(mu=1.9, sigma=0.25)}])
    else:
        real = seastate_model()
    built = []
    judged = 0

    def judge(k, when):
        c, r = built[k]
        ct = r["contour"]
        cls = "AndContour" if c["mode"] == "and" else "OrContour"
        live = np.asarray(ct.sample, dtype=float)
        o = oracle(dict(c, sample=live.copy()), r)
        if o is not None:
            o[0]["history"] = "same-model"
            changed = live.shape != r["sample_attr"].shape or not np.array_equal(live, r["sample_attr"])
            return (o[0], "contour %d (%s) %s, judged in its own .sample%s: %s" % (
                k, cls, when, " (which is no longer the array contents it was computed from)" if changed else "", o[1]))
        if live.shape != r["sample_attr"].shape or not np.array_equal(live, r["sample_attr"]):
            nch = int(np.sum(np.any(live != r["sample_attr"], axis=1))) if live.shape == r["sample_attr"].shape else -1
            return ({"class": cls, "clause": "sample-mutated", "history": "same-model"},
                    "contour %d (%s) %s: its .sample is no longer the sample it was computed from (%d of %d rows changed)" % (k, cls, when, nch, len(live)))
        now = [(cell(ct.coordinates[i, 0]), cell(ct.coordinates[i, 1])) for i in range(ct.coordinates.shape[0])]
        if now != r["coords"]:
            return ({"class": cls, "clause": "coordinates-mutated", "history": "same-model"}, "contour %d (%s) %s: its coordinates changed" % (k, cls, when))
        return None

    for k, mode in enumerate(spec["modes"]):
        c = {"sid": None, "kind": "history", "sample": np.zeros((1, 2)), "alpha": spec["alpha"], "deg_step": spec["deg_step"], "allowed_error": spec["allowed_error"],
             "xm": None, "ym": None, "mode": mode, "lowest": 10, "highest": 80, "drawn": True, "n": spec.get("n")}
        r = run_impl(c, model=RecordingModel(real))
        if "err" in r:
            return judged, ({"class": "AndContour" if mode == "and" else "OrContour", "clause": "exception", "history": "same-model"}, "contour %d raised %s" % (k, r["err"]))
        c["sample"] = r["sample_attr"]
        built.append((c, r))
        for j in range(len(built)):
            judged += 1
            v = judge(j, "right after construction" if j == k else "after contour %d (%s) was built from the same model" % (k, mode))
            if v is not None:
                return judged, v
    return judged, None


def history_specs(ctx):
    out = []
    for k in range(ctx.n(4, 12)):
        out.append({"model": "independent" if k % 2 == 0 else "seastate", "n": None if k % 4 < 2 else ctx.rng.choice([2000, 4000]),
                    "seed": ctx.rng.randrange(2 ** 31), "alpha": ctx.rng.choice([0.05, 0.1, 0.02]), "deg_step": ctx.rng.choice([10, 15, 30]),
                    "allowed_error": ctx.rng.choice([0.02, 0.05, 0.1]), "modes": [["and", "or", "and"], ["or", "or"], ["and", "and", "or"]][k % 3]})
    return out


def real_model_cases(ctx):
    """a few runs with a real virocon model (sample drawn from it, its own Monte-Carlo marginal_icdf): oracle only"""
    out = []
    for k in range(ctx.n(2, 10)):
        model = seastate_model(ctx.rng if k else None)
        seed = ctx.rng.randrange(2 ** 31)
        smp = model.draw_sample(ctx.rng.choice([400, 1000, 3000]), random_state=seed)
        np.random.seed(seed % (2 ** 32))      # marginal_icdf of the conditional variable draws from the global generator
        c = {"sid": None, "kind": "virocon-model", "sample": smp, "alpha": ctx.rng.choice([0.1, 0.05, 0.02]), "deg_step": ctx.rng.choice([5, 10, 15]),
             "allowed_error": ctx.rng.choice([0.05, 0.1]), "xm": None, "ym": None, "mode": "and" if k % 2 == 0 else "or", "lowest": 10, "highest": 80}
        out.append((c, run_impl(c, model=model)))
    return out


# ------------------------------------------------------------------ run
def run(ctx):
    ctx.proof_gate()
    cases = gen_cases(ctx)
    results = []
    dist = {}
    stats = {"warned_contours": 0, "errors": 0, "rays": 0, "iterations": 0, "or_points_dropped": 0}
    sid_of = {}
    for c in cases:
        c["sid"] = sid_of.setdefault(id(c["sample"]), len(sid_of))
        r = run_impl(c)
        results.append(r)
        key = "%s/%s" % (c["mode"], c["kind"])
        dist[key] = dist.get(key, 0) + 1
        stats["warned_contours"] += r["nwarn"] > 0
        stats["errors"] += "err" in r
        if "err" in r:
            stats.setdefault("error_kinds", {})
            stats["error_kinds"][c["mode"] + "/" + r["err"]] = stats["error_kinds"].get(c["mode"] + "/" + r["err"], 0) + 1
        stats["rays"] += len(r["rec"].traces)
        stats["iterations"] += sum(len(t) for t in r["rec"].traces)
        if c["mode"] == "or" and "err" not in r:
            stats["or_points_dropped"] += len(r["rec"].traces) - (len(r["coords"]) - 3)
        ctx.count((c["mode"], c["sid"], c["alpha"], float(c["deg_step"]), c["allowed_error"], c["lowest"], c["highest"]),
                  "err" in r or any(len(t) >= 3 for t in r["rec"].traces))
    ctx.notes["input_distribution"] = dist
    ctx.notes["search_statistics"] = stats
    ctx.notes["sample_sizes"] = {"min": min(len(c["sample"]) for c in cases), "max": max(len(c["sample"]) for c in cases)}
    ctx.notes["ranges"] = {"alpha": [min(c["alpha"] for c in cases), max(c["alpha"] for c in cases)],
                           "allowed_error": [min(c["allowed_error"] for c in cases), max(c["allowed_error"] for c in cases)],
                           "deg_step": sorted({float(c["deg_step"]) for c in cases})}
    for c, r in list(zip(cases, results))[:2]:
        ctx.sample({"mode": c["mode"], "n": len(c["sample"]), "alpha": c["alpha"], "deg_step": c["deg_step"], "allowed_error": c["allowed_error"],
                    "coordinates_head": r.get("coords", [])[:3], "iteration_counts_first_ray": r["rec"].traces[:1], "warnings": r["nwarn"]})
    # ---- correspondence
    shards, cur, vol, defined = [], [], 0, set()
    for idx, (c, r) in enumerate(zip(cases, results)):
        w = 0 if c["sid"] in defined else 2 * len(c["sample"])
        work = len(c["sample"]) * sum(len(t) for t in r["rec"].traces)
        if cur and (vol + w + work // 40 > 120000 or len(cur) >= 400):
            shards.append(cur)
            cur, vol, defined = [], 0, set()
            w = 2 * len(c["sample"])
        head = ""
        if c["sid"] not in defined:
            defined.add(c["sid"])
            head = "Definition smp_%d : list (float * float) := %s.\n" % (c["sid"], pts_lit(np.asarray(c["sample"], dtype=float).reshape(-1, 2)))
        cur.append((idx, head, coq_case(c, r)))
        vol += w + work // 40
    if cur:
        shards.append(cur)
    items = [("cases_%d" % k, PRELUDE + "".join(h for _, h, _ in sh) + "Definition results : list Z := [\n" + ";\n".join(t for _, _, t in sh) + "].\nEval vm_compute in results.\n")
             for k, sh in enumerate(shards)]
    outs = ctx.coq_eval_many(items, jobs=12)
    ncmp = nexact = 0
    suspects = []
    for sh, o in zip(shards, outs):
        if o is None:
            continue
        codes = vlib.parse_term(o[0])
        for (idx, _, _), code in zip(sh, codes):
            ncmp += 1
            nexact += code == 0
            if code >= 2:
                c = cases[idx]
                ctx.mismatch("%s contour case %d" % (c["mode"], idx), "%s differ (n=%d, alpha=%r, deg_step=%r, allowed_error=%r, marginals=(%r, %r), thetas=%r..%r)" % (
                    CODES.get(code, code), len(c["sample"]), c["alpha"], c["deg_step"], c["allowed_error"], c["xm"], c["ym"], c["lowest"], c["highest"]))
                suspects.append(idx)
    ctx.cov["programs"] = 2
    ctx.notes["correspondence"] = {"cases_compared": ncmp, "bit_exact": nexact, "mismatches": len(suspects), "shards": len(shards)}
    # ---- search: property oracle, disagreeing inputs first
    found = 0
    seen = set()
    stream = [(c, run_impl(c)) for c in corpus_cases()]
    ctx.notes["corpus_cases"] = len(stream)
    ctx.cov["evaluations"] += len(stream)
    stream += [(cases[i], results[i]) for i in suspects] + [(c, r) for i, (c, r) in enumerate(zip(cases, results)) if i not in set(suspects)]
    try:
        stream += real_model_cases(ctx)
    except Exception as e:  # noqa
        ctx.notes["real_model_cases_error"] = repr(e)[:300]
    unjudged = 0
    for c, r in stream:
        if found >= 8:
            break
        unjudged += sum(r.get("ray_warned", [])) if "ray_warned" in r else (len(r["rec"].traces) if r["nwarn"] else 0)
        o = oracle(c, r)
        if o is None:
            continue
        key = tuple(sorted(o[0].items()))
        if key in seen:
            continue
        seen.add(key)
        shrinkable = c["xm"] is not None and not c.get("drawn") and o[0].get("clause") != "sample-size"
        small = shrink(c, o[0]) if shrinkable else c
        o2 = (oracle(small) if shrinkable else None) or o
        if ctx.violation(o2[0], o2[1], to_replay(small)):
            found += 1
    ctx.notes["rays_with_warning_exceedance_not_judged"] = unjudged
    # ---- histories: several contours drawn from one model object, earlier contours re-judged after each later construction
    try:
        nj = 0
        for spec in history_specs(ctx):
            if found >= 8:
                break
            done, v = run_history(spec)
            nj += done
            if v is not None and ctx.violation(v[0], v[1], {"history": spec}):
                found += 1
        ctx.cov["evaluations"] += nj
        ctx.notes["history_judgements_same_model"] = nj
    except Exception:  # noqa
        import traceback
        ctx.broken.append(("harness-crash", "C04 history cases", traceback.format_exc()[-1500:]))
    ctx.cov["evaluations"] += len(stream) - len(cases)
    ctx.cov["rule"] = ("non-negative samples (sea-state like Weibull/log-normal, log-normal pairs, exponential, wind-wave, exact zeros, values rounded to 0.1, observations "
                       "planted exactly on the first probe of some rays; n 200..5000 quick / ..12000 thorough) x alpha in [1e-3, 0.2] x deg_step in [1, 30] (int and float) x "
                       "allowed_error in [0.005, 0.2] x lowest/highest_theta variations, AND and OR; stub marginals near the sample quantile x [0.7, 1.6]; plus error branches and real "
                       "virocon models (oracle only); non-trivial = some ray needs >= 3 iterations or an error is raised; distinct = hash of (mode, sample, options)")
    ctx.cov["trusted_base"] = ["Coq 8.16.1 kernel + vm_compute (primitive floats)", "harness tools/harness/c04.py (generators, recorder, comparison)",
                               "np.cos / np.sin as recorded tables (oracles); np.sqrt = IEEE sqrt; np.arange reproduced by base/FloatBits.v",
                               "x_marginal**2 modelled as x*x (stub marginals have 24-bit significands, for which C pow is exact)"]
    ctx.assumptions += ["theorems (c), (e) are over exact reals; binary64 rounding is modelled (bit-exact correspondence), not bounded",
                        "the statistical meaning of the empirical fraction (Monte-Carlo error of the sample) is outside the proof",
                        "model.marginal_icdf is a stub in the correspondence (the real one is unseeded Monte Carlo); real models run through the oracle only"]
