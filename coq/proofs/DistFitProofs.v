(* Fit/constructor lemmas about the GENERATED code (coq/gen/Distributions.v), exact reals.
   Used by C05 (documented formula, override law, one map for all methods), C08, C11 (fixed
   parameters at construction and through fitting), C12 (glue round trip). *)
From Coq Require Import Reals List String Bool Lra Lia.
From V.base Require Import Num.
From V.gen Require Import Distributions.
From V.proofs Require Import DistProofs.
Import ListNotations.
Local Open Scope R_scope.
Local Open Scope string_scope.
Local Open Scope list_scope.


(* ------------------------------------------------------------------ contract of scipy's fit *)
Definition n_shapes (fam : string) : nat :=
  if fam =? "weibull_min" then 1 else if fam =? "lognorm" then 1 else if fam =? "norm" then 0
  else if fam =? "exponweib" then 2 else if fam =? "gengamma" then 2 else if fam =? "vonmises" then 1 else 0.
Definition shape_names (fam : string) : list string :=
  if fam =? "weibull_min" then ["c"] else if fam =? "lognorm" then ["s"] else if fam =? "norm" then []
  else if fam =? "exponweib" then ["a"; "c"] else if fam =? "gengamma" then ["a"; "c"]
  else if fam =? "vonmises" then ["kappa"] else [].
Fixpoint index_of (s : string) (l : list string) (i : nat) : option nat :=
  match l with [] => None | x :: l' => if s =? x then Some i else index_of s l' (S i) end.
(* position in the returned tuple that a keyword fixes; None = not a fix-keyword of that family
   (scipy raises TypeError "Unknown arguments" for those, unless it is a start value loc/scale) *)
Definition fixed_pos (fam key : string) : option nat :=
  let k := n_shapes fam in
  if key =? "floc" then Some k else if key =? "fscale" then Some (S k)
  else if key =? "f0" then (if 0 <? k then Some 0 else None)%nat
  else if key =? "f1" then (if 1 <? k then Some 1 else None)%nat
  else match index_of key (map (fun n => ("f" ++ n)%string) (shape_names fam)) 0 with
       | Some i => Some i
       | None => index_of key (map (fun n => ("fix_" ++ n)%string) (shape_names fam)) 0
       end.
Definition key_ok (fam key : string) : bool :=
  (key =? "loc") || (key =? "scale") || match fixed_pos fam key with Some _ => true | None => false end.

Record fit_contract (fit : fitcall R -> list R) : Prop := {
  fit_len : forall fc, List.length (fit fc) = (n_shapes (f_family fc) + 2)%nat;
  fit_fixed : forall fc key v pos, In (key, v) (f_kw fc) -> fixed_pos (f_family fc) key = Some pos ->
                                   nth_error (fit fc) pos = Some v
}.

Ltac list_of_len H :=
  repeat match type of H with
         | List.length ?l = S _ => let x := fresh "r" in destruct l as [|x l]; [discriminate H|cbn [List.length] in H; apply eq_add_S in H]
         | List.length ?l = O => destruct l; [|discriminate H]
         end.

Definition okw (k : string) (o : option R) : list (string * R) := match o with Some v => [(k, v)] | None => [] end.
(* ================================================================== Weibull *)
Section WeibullFit.
  Notation D := (@WeibullDistribution R).
  Lemma W_init_fixed a b g fa fb fg :
    let s := WeibullDistribution_init a b g fa fb fg in
    WeibullDistribution_alpha s = ov fa a /\ WeibullDistribution_beta s = ov fb b /\ WeibullDistribution_gamma s = ov fg g /\
    WeibullDistribution_f_alpha s = fa /\ WeibullDistribution_f_beta s = fb /\ WeibullDistribution_f_gamma s = fg.
  Proof. destruct fa, fb, fg; repeat split; reflexivity. Qed.

  Definition W_call (s : D) : fitcall R :=
    mkfit "weibull_min" [WeibullDistribution_beta s]
          ([("loc", WeibullDistribution_gamma s); ("scale", WeibullDistribution_alpha s)]
             ++ (okw "f0" (WeibullDistribution_f_beta s) ++ okw "floc" (WeibullDistribution_f_gamma s) ++ okw "fscale" (WeibullDistribution_f_alpha s))).
  Lemma W_fit_unfold fit s :
    WeibullDistribution__fit_mle fit s =
    match fit (W_call s) with
    | [b; g; a] => Ok {| WeibullDistribution_alpha := a; WeibullDistribution_beta := b; WeibullDistribution_gamma := g;
                         WeibullDistribution_f_alpha := WeibullDistribution_f_alpha s; WeibullDistribution_f_beta := WeibullDistribution_f_beta s;
                         WeibullDistribution_f_gamma := WeibullDistribution_f_gamma s |}
    | _ => Err "ValueError:unpack"
    end.
  Proof. destruct s as [a b g [fa|] [fb|] [fg|]]; reflexivity. Qed.
  Lemma W_keys_valid s : forallb (fun kv => key_ok "weibull_min" (fst kv)) (f_kw (W_call s)) = true.
  Proof. destruct s as [a b g [fa|] [fb|] [fg|]]; reflexivity. Qed.
  Lemma W_fit_fixed fit s : fit_contract fit ->
    exists s', WeibullDistribution__fit_mle fit s = Ok s' /\
      (forall v, WeibullDistribution_f_alpha s = Some v -> WeibullDistribution_alpha s' = v) /\
      (forall v, WeibullDistribution_f_beta s = Some v -> WeibullDistribution_beta s' = v) /\
      (forall v, WeibullDistribution_f_gamma s = Some v -> WeibullDistribution_gamma s' = v) /\
      WeibullDistribution_f_alpha s' = WeibullDistribution_f_alpha s /\ WeibullDistribution_f_beta s' = WeibullDistribution_f_beta s /\
      WeibullDistribution_f_gamma s' = WeibullDistribution_f_gamma s /\
      (* glue round trip: what scipy returned is what every later evaluation uses *)
      c_params (WeibullDistribution_cdf s' None None None) = fit (W_call s).
  Proof.
    intros [HL HF]. rewrite W_fit_unfold. pose proof (HL (W_call s)) as L. pose proof (HF (W_call s)) as F.
    destruct (fit (W_call s)) as [|r1 [|r2 [|r3 [|r4 l]]]]; try discriminate L.
    eexists. split; [reflexivity|]. cbn [WeibullDistribution_alpha WeibullDistribution_beta WeibullDistribution_gamma WeibullDistribution_f_alpha WeibullDistribution_f_beta WeibullDistribution_f_gamma].
    repeat split.
    - intros v E. specialize (F "fscale" v 2%nat). cbn in F. rewrite E in F. cbn in F.
      assert (X : Some r3 = Some v) by (apply F; [|reflexivity]; destruct (WeibullDistribution_f_beta s), (WeibullDistribution_f_gamma s); cbn; auto 8). now inversion X.
    - intros v E. specialize (F "f0" v 0%nat). cbn in F. rewrite E in F. cbn in F.
      assert (X : Some r1 = Some v) by (apply F; [|reflexivity]; auto 8). now inversion X.
    - intros v E. specialize (F "floc" v 1%nat). cbn in F. rewrite E in F. cbn in F.
      assert (X : Some r2 = Some v) by (apply F; [|reflexivity]; destruct (WeibullDistribution_f_beta s); cbn; auto 8). now inversion X.
  Qed.
  (* start values handed to scipy are the current parameters under the same map *)
  Lemma W_start_values s :
    f_pos (W_call s) ++ map snd (firstn 2 (f_kw (W_call s))) = c_params (WeibullDistribution_cdf s None None None).
  Proof. reflexivity. Qed.

End WeibullFit.


Definition okwf (k : string) (f : R -> R) (o : option R) : list (string * R) := match o with Some v => [(k, f v)] | None => [] end.

Ltac fixed_case F key v pos E :=
  specialize (F key v pos); cbn in F; rewrite E in F; cbn in F.
Ltac solve_in := unfold okw, okwf; repeat match goal with |- context [match ?o with Some _ => _ | None => _ end] => destruct o end; cbn; auto 12.

(* ================================================================== LogNormal *)
Section LogNormalFit.
  Notation D := (@LogNormalDistribution R).
  Lemma LN_init_fixed m sg fm fs :
    let s := LogNormalDistribution_init m sg fm fs in
    LogNormalDistribution_mu s = ov fm m /\ LogNormalDistribution_sigma s = ov fs sg /\
    LogNormalDistribution_f_mu s = fm /\ LogNormalDistribution_f_sigma s = fs.
  Proof. destruct fm, fs; repeat split; reflexivity. Qed.
  Definition LN_call (s : D) : fitcall R :=
    mkfit "lognorm" [LogNormalDistribution_sigma s]
          ([("scale", exp (LogNormalDistribution_mu s))]
             ++ ([("floc", 0)] ++ okw "f0" (LogNormalDistribution_f_sigma s) ++ okwf "fscale" exp (LogNormalDistribution_f_mu s))).
  Lemma LN_fit_unfold fit s :
    LogNormalDistribution__fit_mle RN fit s =
    match fit (LN_call s) with
    | [sg; _; sc] => Ok {| LogNormalDistribution_mu := ln sc; LogNormalDistribution_sigma := sg;
                           LogNormalDistribution_f_mu := LogNormalDistribution_f_mu s; LogNormalDistribution_f_sigma := LogNormalDistribution_f_sigma s |}
    | _ => Err "ValueError:unpack"
    end.
  Proof. destruct s as [m sg [fm|] [fs|]]; reflexivity. Qed.
  Lemma LN_keys_valid s : forallb (fun kv => key_ok "lognorm" (fst kv)) (f_kw (LN_call s)) = true.
  Proof. destruct s as [m sg [fm|] [fs|]]; reflexivity. Qed.
  Lemma LN_fit_fixed fit s : fit_contract fit ->
    exists s', LogNormalDistribution__fit_mle RN fit s = Ok s' /\
      (forall v, LogNormalDistribution_f_mu s = Some v -> LogNormalDistribution_mu s' = v) /\
      (forall v, LogNormalDistribution_f_sigma s = Some v -> LogNormalDistribution_sigma s' = v) /\
      LogNormalDistribution_f_mu s' = LogNormalDistribution_f_mu s /\ LogNormalDistribution_f_sigma s' = LogNormalDistribution_f_sigma s /\
      (0 < nth 2 (fit (LN_call s)) 1 -> c_params (LogNormalDistribution_cdf RN s' None None) = fit (LN_call s)).
  Proof.
    intros [HL HF]. rewrite LN_fit_unfold. pose proof (HL (LN_call s)) as L. pose proof (HF (LN_call s)) as F.
    destruct (fit (LN_call s)) as [|r1 [|r2 [|r3 [|r4 l]]]]; try discriminate L.
    eexists. split; [reflexivity|]. cbn [LogNormalDistribution_mu LogNormalDistribution_sigma LogNormalDistribution_f_mu LogNormalDistribution_f_sigma].
    repeat split.
    - intros v E. fixed_case F "fscale" (exp v) 2%nat E.
      assert (X : Some r3 = Some (exp v)) by (apply F; [|reflexivity]; solve_in). inversion X. apply ln_exp.
    - intros v E. fixed_case F "f0" v 0%nat E.
      assert (X : Some r1 = Some v) by (apply F; [|reflexivity]; solve_in). now inversion X.
    - intros P. cbn in P. cbn. specialize (F "floc" 0 1%nat). cbn in F.
      assert (X : Some r2 = Some 0) by (apply F; [|reflexivity]; solve_in). inversion X. rewrite exp_ln by exact P. reflexivity.
  Qed.
  Lemma LN_start_values s :
    f_pos (LN_call s) ++ [0] ++ map snd (firstn 1 (f_kw (LN_call s))) = c_params (LogNormalDistribution_cdf RN s None None).
  Proof. reflexivity. Qed.

End LogNormalFit.


(* ================================================================== Normal *)
Section NormalFit.
  Notation D := (@NormalDistribution R).
  Lemma N_init_fixed m sg fm fs :
    let s := NormalDistribution_init m sg fm fs in
    NormalDistribution_mu s = ov fm m /\ NormalDistribution_sigma s = ov fs sg /\
    NormalDistribution_f_mu s = fm /\ NormalDistribution_f_sigma s = fs.
  Proof. destruct fm, fs; repeat split; reflexivity. Qed.
  Definition N_call (s : D) : fitcall R :=
    mkfit "norm" [] ([("loc", NormalDistribution_mu s); ("scale", NormalDistribution_sigma s)]
                       ++ (okw "floc" (NormalDistribution_f_mu s) ++ okw "fscale" (NormalDistribution_f_sigma s))).
  Lemma N_fit_unfold fit s :
    NormalDistribution__fit_mle fit s =
    match fit (N_call s) with
    | [m; sg] => Ok {| NormalDistribution_mu := m; NormalDistribution_sigma := sg;
                       NormalDistribution_f_mu := NormalDistribution_f_mu s; NormalDistribution_f_sigma := NormalDistribution_f_sigma s |}
    | _ => Err "ValueError:unpack"
    end.
  Proof. destruct s as [m sg [fm|] [fs|]]; reflexivity. Qed.
  Lemma N_keys_valid s : forallb (fun kv => key_ok "norm" (fst kv)) (f_kw (N_call s)) = true.
  Proof. destruct s as [m sg [fm|] [fs|]]; reflexivity. Qed.
  Lemma N_fit_fixed fit s : fit_contract fit ->
    exists s', NormalDistribution__fit_mle fit s = Ok s' /\
      (forall v, NormalDistribution_f_mu s = Some v -> NormalDistribution_mu s' = v) /\
      (forall v, NormalDistribution_f_sigma s = Some v -> NormalDistribution_sigma s' = v) /\
      NormalDistribution_f_mu s' = NormalDistribution_f_mu s /\ NormalDistribution_f_sigma s' = NormalDistribution_f_sigma s /\
      c_params (NormalDistribution_cdf s' None None) = fit (N_call s).
  Proof.
    intros [HL HF]. rewrite N_fit_unfold. pose proof (HL (N_call s)) as L. pose proof (HF (N_call s)) as F.
    destruct (fit (N_call s)) as [|r1 [|r2 [|r3 l]]]; try discriminate L.
    eexists. split; [reflexivity|]. cbn [NormalDistribution_mu NormalDistribution_sigma NormalDistribution_f_mu NormalDistribution_f_sigma].
    repeat split.
    - intros v E. fixed_case F "floc" v 0%nat E.
      assert (X : Some r1 = Some v) by (apply F; [|reflexivity]; solve_in). now inversion X.
    - intros v E. fixed_case F "fscale" v 1%nat E.
      assert (X : Some r2 = Some v) by (apply F; [|reflexivity]; solve_in). now inversion X.
  Qed.
  Lemma N_start_values s : map snd (firstn 2 (f_kw (N_call s))) = c_params (NormalDistribution_cdf s None None).
  Proof. reflexivity. Qed.

End NormalFit.


(* ================================================================== ExponentiatedWeibull *)
Section EWFit.
  Notation D := (@ExponentiatedWeibullDistribution R).
  Notation fa := ExponentiatedWeibullDistribution_alpha. Notation fb := ExponentiatedWeibullDistribution_beta.
  Notation fd := ExponentiatedWeibullDistribution_delta.
  Notation ffa := ExponentiatedWeibullDistribution_f_alpha. Notation ffb := ExponentiatedWeibullDistribution_f_beta.
  Notation ffd := ExponentiatedWeibullDistribution_f_delta.
  Lemma EW_init_fixed a b d xa xb xd :
    let s := ExponentiatedWeibullDistribution_init a b d xa xb xd in
    fa s = ov xa a /\ fb s = ov xb b /\ fd s = ov xd d /\ ffa s = xa /\ ffb s = xb /\ ffd s = xd.
  Proof. destruct xa, xb, xd; repeat split; reflexivity. Qed.
  Definition EW_call (s : D) : fitcall R :=
    mkfit "exponweib" [fd s; fb s]
          ([("scale", fa s)] ++ ([("floc", 0)] ++ okw "f0" (ffd s) ++ okw "f1" (ffb s) ++ okw "fscale" (ffa s))).
  Lemma EW_fit_unfold fit s :
    ExponentiatedWeibullDistribution__fit_mle RN fit s =
    match fit (EW_call s) with
    | [d; b; _; a] => Ok {| ExponentiatedWeibullDistribution_alpha := a; ExponentiatedWeibullDistribution_beta := b;
                            ExponentiatedWeibullDistribution_delta := d; ExponentiatedWeibullDistribution_f_alpha := ffa s;
                            ExponentiatedWeibullDistribution_f_beta := ffb s; ExponentiatedWeibullDistribution_f_delta := ffd s |}
    | _ => Err "ValueError:unpack"
    end.
  Proof. destruct s as [a b d [xa|] [xb|] [xd|]]; reflexivity. Qed.
  Lemma EW_keys_valid s : forallb (fun kv => key_ok "exponweib" (fst kv)) (f_kw (EW_call s)) = true.
  Proof. destruct s as [a b d [xa|] [xb|] [xd|]]; reflexivity. Qed.
  Lemma EW_fit_fixed fit s : fit_contract fit ->
    exists s', ExponentiatedWeibullDistribution__fit_mle RN fit s = Ok s' /\
      (forall v, ffa s = Some v -> fa s' = v) /\ (forall v, ffb s = Some v -> fb s' = v) /\ (forall v, ffd s = Some v -> fd s' = v) /\
      ffa s' = ffa s /\ ffb s' = ffb s /\ ffd s' = ffd s /\
      c_params (ExponentiatedWeibullDistribution_cdf RN s' None None None) = fit (EW_call s).
  Proof.
    intros [HL HF]. rewrite EW_fit_unfold. pose proof (HL (EW_call s)) as L. pose proof (HF (EW_call s)) as F.
    destruct (fit (EW_call s)) as [|r1 [|r2 [|r3 [|r4 [|r5 l]]]]]; try discriminate L.
    eexists. split; [reflexivity|]. cbn [fa fb fd ffa ffb ffd].
    repeat split.
    - intros v E. fixed_case F "fscale" v 3%nat E.
      assert (X : Some r4 = Some v) by (apply F; [|reflexivity]; solve_in). now inversion X.
    - intros v E. fixed_case F "f1" v 1%nat E.
      assert (X : Some r2 = Some v) by (apply F; [|reflexivity]; solve_in). now inversion X.
    - intros v E. fixed_case F "f0" v 0%nat E.
      assert (X : Some r1 = Some v) by (apply F; [|reflexivity]; solve_in). now inversion X.
    - cbn. specialize (F "floc" 0 2%nat). cbn in F.
      assert (X : Some r3 = Some 0) by (apply F; [|reflexivity]; solve_in). inversion X. reflexivity.
  Qed.
  Lemma EW_start_values s :
    f_pos (EW_call s) ++ [0] ++ map snd (firstn 1 (f_kw (EW_call s))) = c_params (ExponentiatedWeibullDistribution_cdf RN s None None None).
  Proof. reflexivity. Qed.

End EWFit.


(* ================================================================== GeneralizedGamma *)
Section GGFit.
  Notation D := (@GeneralizedGammaDistribution R).
  Notation gm := GeneralizedGammaDistribution_m. Notation gc := GeneralizedGammaDistribution_c. Notation gl := GeneralizedGammaDistribution_lambda_.
  Notation gfm := GeneralizedGammaDistribution_f_m. Notation gfc := GeneralizedGammaDistribution_f_c. Notation gfl := GeneralizedGammaDistribution_f_lambda_.
  Lemma GG_init_fixed m c l xm xc xl :
    let s := GeneralizedGammaDistribution_init m c l xm xc xl in
    gm s = ov xm m /\ gc s = ov xc c /\ gl s = ov xl l /\ gfm s = xm /\ gfc s = xc /\ gfl s = xl.
  Proof. destruct xm, xc, xl; repeat split; reflexivity. Qed.
  Definition GG_call (s : D) : fitcall R :=
    mkfit "gengamma" [gm s; gc s]
          ([("scale", 1 / gl s)] ++ ([("floc", 0)] ++ okw "f0" (gfm s) ++ okw "f1" (gfc s) ++ okwf "fscale" (fun v => 1 / v) (gfl s))).
  Lemma GG_fit_unfold fit s :
    GeneralizedGammaDistribution__fit_mle RN fit s =
    match fit (GG_call s) with
    | [m; c; _; sc] => Ok {| GeneralizedGammaDistribution_m := m; GeneralizedGammaDistribution_c := c;
                             GeneralizedGammaDistribution_lambda_ := 1 / sc; GeneralizedGammaDistribution_f_m := gfm s;
                             GeneralizedGammaDistribution_f_c := gfc s; GeneralizedGammaDistribution_f_lambda_ := gfl s |}
    | _ => Err "ValueError:unpack"
    end.
  Proof. destruct s as [m c l [xm|] [xc|] [xl|]]; reflexivity. Qed.
  Lemma GG_keys_valid s : forallb (fun kv => key_ok "gengamma" (fst kv)) (f_kw (GG_call s)) = true.
  Proof. destruct s as [m c l [xm|] [xc|] [xl|]]; reflexivity. Qed.
  Lemma GG_fit_fixed fit s : fit_contract fit ->
    exists s', GeneralizedGammaDistribution__fit_mle RN fit s = Ok s' /\
      (forall v, gfm s = Some v -> gm s' = v) /\ (forall v, gfc s = Some v -> gc s' = v) /\
      (forall v, v <> 0 -> gfl s = Some v -> gl s' = v) /\
      gfm s' = gfm s /\ gfc s' = gfc s /\ gfl s' = gfl s /\
      (nth 3 (fit (GG_call s)) 1 <> 0 -> c_params (GeneralizedGammaDistribution_cdf RN s' None None None) = fit (GG_call s)).
  Proof.
    intros [HL HF]. rewrite GG_fit_unfold. pose proof (HL (GG_call s)) as L. pose proof (HF (GG_call s)) as F.
    destruct (fit (GG_call s)) as [|r1 [|r2 [|r3 [|r4 [|r5 l]]]]]; try discriminate L.
    eexists. split; [reflexivity|]. cbn [gm gc gl gfm gfc gfl].
    repeat split.
    - intros v E. fixed_case F "f0" v 0%nat E.
      assert (X : Some r1 = Some v) by (apply F; [|reflexivity]; solve_in). now inversion X.
    - intros v E. fixed_case F "f1" v 1%nat E.
      assert (X : Some r2 = Some v) by (apply F; [|reflexivity]; solve_in). now inversion X.
    - intros v Hv E. fixed_case F "fscale" (1 / v) 3%nat E.
      assert (X : Some r4 = Some (1 / v)) by (apply F; [|reflexivity]; solve_in). inversion X. field. exact Hv.
    - intros P. cbn in P. cbn. specialize (F "floc" 0 2%nat). cbn in F.
      assert (X : Some r3 = Some 0) by (apply F; [|reflexivity]; solve_in). inversion X.
      replace (1 / (1 / r4)) with r4 by (field; exact P). reflexivity.
  Qed.
  Lemma GG_start_values s :
    f_pos (GG_call s) ++ [0] ++ map snd (firstn 1 (f_kw (GG_call s))) = c_params (GeneralizedGammaDistribution_cdf RN s None None None).
  Proof. reflexivity. Qed.

End GGFit.


(* ================================================================== VonMises *)
Section VMFit.
  Notation D := (@VonMisesDistribution R).
  Notation vk := VonMisesDistribution_kappa. Notation vm := VonMisesDistribution_mu.
  Notation vfk := VonMisesDistribution_f_kappa. Notation vfm := VonMisesDistribution_f_mu.
  Lemma VM_init_fixed k m xk xm :
    let s := VonMisesDistribution_init k m xk xm in
    vk s = ov xk k /\ vm s = ov xm m /\ vfk s = xk /\ vfm s = xm.
  Proof. destruct xk, xm; repeat split; reflexivity. Qed.
  Definition VM_call (s : D) : fitcall R :=
    mkfit "vonmises" [vk s] ([("loc", vm s); ("scale", 1)] ++ ([("fscale", 1)] ++ okw "floc" (vfm s) ++ okw "f0" (vfk s))).
  Definition VM_fix_mu (s : D) (m : R) : R := match vfm s with Some v => v | None => m end.
  Lemma VM_fit_unfold fit s :
    VonMisesDistribution__fit_mle RN fit s =
    match fit (VM_call s) with
    | [k; m; _] => Ok {| VonMisesDistribution_kappa := k; VonMisesDistribution_mu := VM_fix_mu s m;
                         VonMisesDistribution_f_kappa := vfk s; VonMisesDistribution_f_mu := vfm s |}
    | _ => Err "ValueError:unpack"
    end.
  Proof. destruct s as [k m [xk|] [xm|]]; cbn; destruct (fit _) as [|r1 [|r2 [|r3 [|r4 l]]]]; reflexivity. Qed.
  Lemma VM_keys_valid s : forallb (fun kv => key_ok "vonmises" (fst kv)) (f_kw (VM_call s)) = true.
  Proof. destruct s as [k m [xk|] [xm|]]; reflexivity. Qed.
  (* scipy's vonmises.fit returns the location WRAPPED into [-pi, pi], so the
     "a fixed floc comes back exactly" clause of fit_contract is false for this
     family (found by the C11 correspondence, repaired in /repo by re-assigning
     f_mu after the fit).  The theorem therefore uses only the length clause and
     the f0 clause of the oracle contract; the fixed mu is kept by the CODE. *)
  Definition vm_contract (fit : fitcall R -> list R) : Prop :=
    (forall fc, List.length (fit fc) = 3%nat) /\
    (forall fc v, In ("f0", v) (f_kw fc) -> nth_error (fit fc) 0 = Some v).
  Lemma fit_contract_vm fit : fit_contract fit ->
    (forall fc, f_family fc = "vonmises" -> List.length (fit fc) = 3%nat) /\
    (forall fc v, f_family fc = "vonmises" -> In ("f0", v) (f_kw fc) -> nth_error (fit fc) 0 = Some v).
  Proof.
    intros [HL HF]. split.
    - intros fc E. rewrite HL, E. reflexivity.
    - intros fc v E I. apply (HF fc "f0" v 0%nat I). rewrite E. reflexivity.
  Qed.
  Lemma VM_fit_fixed fit s : vm_contract fit ->
    exists s', VonMisesDistribution__fit_mle RN fit s = Ok s' /\
      (forall v, vfk s = Some v -> vk s' = v) /\ (forall v, vfm s = Some v -> vm s' = v) /\
      vfk s' = vfk s /\ vfm s' = vfm s /\
      c_params (VonMisesDistribution_cdf s' None None) =
        [nth 0 (fit (VM_call s)) 0; VM_fix_mu s (nth 1 (fit (VM_call s)) 0)].
  Proof.
    intros [HL HF]. rewrite VM_fit_unfold. pose proof (HL (VM_call s)) as L. pose proof (HF (VM_call s)) as F.
    destruct (fit (VM_call s)) as [|r1 [|r2 [|r3 [|r4 l]]]]; try discriminate L.
    eexists. split; [reflexivity|]. cbn [vk vm vfk vfm].
    repeat split.
    - intros v E.
      assert (X : Some r1 = Some v).
      { apply F. unfold VM_call. cbn [f_kw]. rewrite E. destruct (vfm s); cbn; auto 10. }
      now inversion X.
    - intros v E. unfold VM_fix_mu. now rewrite E.
  Qed.

End VMFit.


(* ================================================================== LogNormalNormFit (closed-form fit is hand-modelled, see model/DistHand.v) *)
Section NFFit.
  Notation D := (@LogNormalNormFitDistribution R).
  Notation nm := LogNormalNormFitDistribution_mu_norm. Notation ns := LogNormalNormFitDistribution_sigma_norm.
  Lemma NF_init_fixed m sg fm fs :
    let s := LogNormalNormFitDistribution_init m sg fm fs in
    nm s = ov fm m /\ ns s = ov fs sg /\ LogNormalNormFitDistribution_f_mu_norm s = fm /\ LogNormalNormFitDistribution_f_sigma_norm s = fs.
  Proof. destruct fm, fs; repeat split; reflexivity. Qed.
End NFFit.

