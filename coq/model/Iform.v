(* Executable model of virocon/contours.py IFORMContour._compute / ISORMContour._compute /
   calculate_alpha, of the icdf/cdf forwarding of distributions.py (ConditionalDistribution)
   and of virocon/_nsphere.py (NSphere).  NO proofs here.

   One generic Section over the value type T: arithmetic, the scipy/numpy engines as oracle
   functions (Phi = norm.cdf, Phiinv = norm.ppf, chi2ppf, cos, sin; per template distribution
   its icdf / cdf as functions of the full parameter vector; the dependence functions; for the
   NSphere the seeded normal draws, the Coulomb forces and the potential energy).  The theorems
   (proofs/IformProofs.v, props/C01.v) are about these definitions, over an abstract T or over
   R; the binary64 instance below runs the same definitions with recorded oracle tables
   against the real IFORMContour / ISORMContour / NSphere (tools/harness/c01.py). *)
From Coq Require Import List Bool Arith ZArith PrimFloat.
From V.base Require Import FloatBits.
Import ListNotations.

Section Gen.
  Variable T : Type.
  Variable dflt : T.   (* what reading a column that has not been written yet yields (np.empty_like) *)
  Variables zero one three two_pi c365_25 c24 : T.
  Variables add sub mul div : T -> T -> T.
  Variable sqrt : T -> T.
  Variable ltb : T -> T -> bool.
  Variable of_nat : nat -> T.
  (* engines (oracles) *)
  Variables Phi Phiinv cosf sinf : T -> T.            (* sts.norm.cdf, sts.norm.ppf, np.cos, np.sin *)
  Variable chi2ppf : T -> nat -> T.                   (* sts.chi2.ppf(p, df) *)
  Variable randn : nat -> nat -> list (list T).       (* RandomState(43).normal(size=(n, dim)) *)
  Variable forces : list (list T) -> list (list T).   (* NSphere._get_forces of a state *)
  Variable pot : list (list T) -> T.                  (* NSphere._pot_energy of a state *)

  (* ---------------------------------------------------------------- calculate_alpha *)
  Definition calculate_alpha (state_duration return_period : T) : T :=
    div state_duration (mul (mul return_period c365_25) c24).

  (* ---------------------------------------------------------------- distributions *)
  (* a parameter of a ConditionalDistribution: fixed value or dependence function of `given` *)
  Inductive psrc := PFix (v : T) | PDep (f : T -> T).
  (* one dimension of a GlobalHierarchicalModel: conditional_on, the parameter sources in
     param_names order, and the template's icdf / cdf as functions of (parameter values, argument);
     an unconditional distribution is called without parameter values ([]) *)
  Record dist := mkdist { cond : option nat; params : list psrc;
                          t_icdf : list T -> T -> T; t_cdf : list T -> T -> T }.

  (* ConditionalDistribution._get_param_values *)
  Definition theta (d : dist) (g : option T) : list T :=
    match g with
    | None => []
    | Some gv => map (fun s => match s with PFix v => v | PDep f => f gv end) (params d)
    end.
  (* (Conditional)Distribution.icdf / .cdf : the template at the dependence values *)
  Definition icdf (d : dist) (p : T) (g : option T) : T := t_icdf d (theta d g) p.
  Definition cdf (d : dist) (x : T) (g : option T) : T := t_cdf d (theta d g) x.

  (* given = coordinates[:, cond_idx] of the row under construction *)
  Definition given_of (d : dist) (coords : list T) : option T :=
    match cond d with None => None | Some j => Some (nth j coords dflt) end.

  (* sequential inverse Rosenblatt transformation of one row: coordinates built left to right *)
  Fixpoint chain (ds : list dist) (ps : list T) (acc : list T) : list T :=
    match ds, ps with
    | d :: ds', p :: ps' => chain ds' ps' (acc ++ [icdf d p (given_of d acc)])
    | _, _ => acc
    end.

  (* IFORMContour._compute evaluates COLUMN-wise: coordinates[:, i] = distributions[i].icdf(p[:, i], given=coordinates[:, cond_idx])
     for all points at once (a column that has not been written yet reads as dflt in every row) *)
  Definition col_of (d : dist) (pcol : list T) (cols : list (list T)) : list T :=
    match cond d with
    | None => map (fun p => icdf d p None) pcol
    | Some j => map (fun pg => icdf d (fst pg) (Some (snd pg))) (combine pcol (nth j cols (map (fun _ => dflt) pcol)))
    end.
  Fixpoint chain_cols (ds : list dist) (pcols : list (list T)) (cols : list (list T)) : list (list T) :=
    match ds, pcols with
    | d :: ds', pc :: pcs => chain_cols ds' pcs (cols ++ [col_of d pc cols])
    | _, _ => cols
    end.
  Definition cols_of (n_dim : nat) (rows : list (list T)) : list (list T) :=
    map (fun i => map (fun r => nth i r dflt) rows) (seq 0 n_dim).
  Definition rows_of_cols (n : nat) (cols : list (list T)) : list (list T) :=
    map (fun k => map (fun c => nth k c dflt) cols) (seq 0 n).

  (* Rosenblatt transformation of a complete row through the model's own cdfs *)
  Fixpoint rosen_from (ds : list dist) (i : nat) (full : list T) : list T :=
    match ds with
    | [] => []
    | d :: ds' => cdf d (nth i full dflt) (given_of d full) :: rosen_from ds' (S i) full
    end.
  Definition rosen (ds : list dist) (x : list T) : list T := rosen_from ds 0 x.

  (* ---------------------------------------------------------------- the sphere *)
  (* np.linspace(0, 2*np.pi, num=n, endpoint=False)[k] = k * ((2pi - 0)/n) + 0 *)
  Definition angle (n k : nat) : T := add (mul (of_nat k) (div (sub two_pi zero) (of_nat n))) zero.
  Definition circle (n : nat) : list (list T) := map (fun k => [cosf (angle n k); sinf (angle n k)]) (seq 0 n).
  Definition scale (beta : T) (units : list (list T)) : list (list T) := map (map (mul beta)) units.

  (* vectors: numpy reduces short rows left to right, starting with the first element *)
  Definition sum (l : list T) : T := match l with [] => zero | x :: l' => fold_left add l' x end.
  Definition sumsq (v : list T) : T := sum (map (fun a => mul a a) v).
  Definition norm (v : list T) : T := sqrt (sumsq v).                       (* np.linalg.norm(axis=1) *)
  Definition dot (x y : list T) : T := sum (map (fun p => mul (fst p) (snd p)) (combine x y)).
  Definition normalize (v : list T) : list T := let r := norm v in map (fun a => div a r) v.
  Definition maxl (l : list T) : T :=
    match l with [] => zero | x :: l' => fold_left (fun m y => if ltb m y then y else m) l' x end.

  (* NSphere._tangential_forces for one point: F - <F, x> x *)
  Definition tangential (F x : list T) : list T :=
    let s := dot F x in map (fun p => sub (fst p) (mul s (snd p))) (combine F x).
  (* one iteration of NSphere._relax_points: t /= max|t| ; x += t * tau ; x /= |x| *)
  Definition relax_step (tau : T) (Fs xs : list (list T)) : list (list T) :=
    let ts := map (fun p => tangential (fst p) (snd p)) (combine Fs xs) in
    let m := maxl (map norm ts) in
    map (fun p => normalize (map (fun q => add (fst q) (mul (div (snd q) m) tau)) (combine (fst p) (snd p))))
        (combine xs ts).
  Definition tau_of (iteration : nat) : T := div three (of_nat iteration).
  (* state = (current points, best points, best potential) *)
  Definition relax_iter (st : list (list T) * list (list T) * T) (iteration : nat) :=
    let '(xs, best, bestpot) := st in
    let xs' := relax_step (tau_of iteration) (forces xs) xs in
    let p := pot xs' in
    if ltb p bestpot then (xs', xs', p) else (xs', best, bestpot).
  Definition relax_loop (its : list nat) (st : list (list T) * list (list T) * T) := fold_left relax_iter its st.
  Definition max_iters (n : nat) : nat := Nat.max 10 (100 * 100 / n).
  Definition init_points (rand : list (list T)) : list (list T) := map normalize rand.
  (* NSphere(dim, n_samples).unit_sphere_points *)
  Definition nsphere (dim n : nat) : list (list T) :=
    let x0 := init_points (randn n dim) in
    snd (fst (relax_loop (seq 1 (max_iters n - 1)) (x0, x0, pot x0))).

  (* ---------------------------------------------------------------- the contours *)
  Record contour := mkcontour { beta : T; sphere_points : list (list T); coordinates : list (list T) }.

  (* unit directions: the circle for two variables, otherwise what the NSphere class hands over *)
  Definition units_of (nsph : nat -> nat -> list (list T)) (n_dim n : nat) : list (list T) :=
    if n_dim =? 2 then circle n else nsph n_dim n.

  Definition contour_of (ds : list dist) (b : T) (units : list (list T)) : contour :=
    let sp := scale b units in
    mkcontour b sp (map (fun u => chain ds (map Phi u) []) sp).

  (* the same contour, evaluated the way IFORMContour does it: norm.cdf of the whole matrix, then column by column *)
  Definition contour_vec_of (ds : list dist) (b : T) (units : list (list T)) : contour :=
    let sp := scale b units in
    mkcontour b sp (rows_of_cols (length sp) (chain_cols ds (cols_of (length ds) (map (map Phi) sp)) [])).

  Definition beta_iform (alpha : T) : T := Phiinv (sub one alpha).
  Definition beta_isorm (alpha : T) (n_dim : nat) : T := sqrt (chi2ppf (sub one alpha) n_dim).

  Definition iform_with nsph (ds : list dist) (alpha : T) (n : nat) : contour :=
    contour_of ds (beta_iform alpha) (units_of nsph (length ds) n).
  Definition iform_vec_with nsph (ds : list dist) (alpha : T) (n : nat) : contour :=
    contour_vec_of ds (beta_iform alpha) (units_of nsph (length ds) n).
  Definition isorm_with nsph (ds : list dist) (alpha : T) (n : nat) : contour :=
    contour_of ds (beta_isorm alpha (length ds)) (units_of nsph (length ds) n).
  (* IFORMContour(model, alpha, n_points) / ISORMContour(model, alpha, n_points) *)
  Definition iform := iform_with nsphere.
  Definition isorm := isorm_with nsphere.
End Gen.

Arguments PFix {T}. Arguments PDep {T}.
Arguments mkdist {T}. Arguments cond {T}. Arguments params {T}. Arguments t_icdf {T}. Arguments t_cdf {T}.
Arguments mkcontour {T}. Arguments beta {T}. Arguments sphere_points {T}. Arguments coordinates {T}.

(* ------------------------------------------------------------------ binary64 instance *)
Local Open Scope float_scope.

Definition fclose (a b : float) : bool :=
  if fbits_eq a b then true else
  PrimFloat.leb (abs (a - b)) (0x1.12e0be826d695p-30 * (if PrimFloat.ltb (abs a) (abs b) then abs b else abs a)).

(* bit equality (all nan identified), cheap on the common path; lazy list comparison (vm_compute is strict) *)
Definition feq (a b : float) : bool :=
  if PrimFloat.eqb a b then (if PrimFloat.eqb a 0 then fbits_eq a b else true)
  else if PrimFloat.eqb a a then false else negb (PrimFloat.eqb b b).
Fixpoint list_eqb {A} (e : A -> A -> bool) (a b : list A) : bool :=
  match a, b with
  | [] , [] => true
  | x :: a', y :: b' => if e x y then list_eqb e a' b' else false
  | _, _ => false
  end.

(* recorded oracle tables; a key is looked up bit-exactly first, then to 1e-9 relative; a key the
   implementation never asked for yields nan (reported as a structural disagreement by the harness) *)
Section Tables.
  Variable K : Type.
  Variable V : Type.
  Variable miss : V.
  Fixpoint look_by (e : K -> K -> bool) (t : list (K * V)) (k : K) : option V :=
    match t with [] => None | (a, r) :: t' => if e a k then Some r else look_by e t' k end.
  Definition look2 (exact near : K -> K -> bool) (t : list (K * V)) (k : K) : V :=
    match look_by exact t k with
    | Some r => r
    | None => match look_by near t k with Some r => r | None => miss end
    end.
End Tables.

Definition tab1 := list (float * float).
Definition flook (t : tab1) (k : float) : float := look2 float float nan feq fclose t k.
(* template table: ((parameter values, argument), result) *)
Definition tabT := list ((list float * float) * float).
Definition keyT_eq (e : float -> float -> bool) (a b : list float * float) : bool :=
  if e (snd a) (snd b) then list_eqb e (fst a) (fst b) else false.
Definition tlook (t : tabT) (th : list float) (k : float) : float :=
  look2 (list float * float) float nan (keyT_eq feq) (keyT_eq fclose) t (th, k).
Definition chi2look (t : list ((float * nat) * float)) (p : float) (df : nat) : float :=
  look2 (float * nat) float nan (fun a b => feq (fst a) (fst b) && Nat.eqb (snd a) (snd b))
        (fun a b => fclose (fst a) (fst b) && Nat.eqb (snd a) (snd b)) t (p, df).
(* tables keyed by a whole NSphere state *)
Definition state_eq (e : float -> float -> bool) (a b : list (list float)) : bool := list_eqb (list_eqb e) a b.
Definition slook {V} (miss : V) (t : list (list (list float) * V)) (k : list (list float)) : V :=
  look2 (list (list float)) V miss (state_eq feq) (state_eq fclose) t k.
Definition nsph_look (t : list ((nat * nat) * list (list float))) (dim n : nat) : list (list float) :=
  look2 (nat * nat) (list (list float)) [] (fun a b => Nat.eqb (fst a) (fst b) && Nat.eqb (snd a) (snd b))
        (fun _ _ => false) t (dim, n).

Definition fdist := dist float.
Definition tab_dist (c : option nat) (ps : list (psrc float)) (ticdf tcdf : tabT) : fdist :=
  mkdist c ps (tlook ticdf) (tlook tcdf).
Definition dep_tab (t : tab1) : psrc float := PDep (flook t).
(* a distribution whose template needs only + * / (harness class AlgDistribution):
   F(x; a) = x/(x+a), Q(p; a) = a*p/(1-p); evaluated here, no table *)
Definition alg_dist (c : option nat) (ps : list (psrc float)) (a_self : float) : fdist :=
  let a_of th := match th with a :: _ => a | [] => a_self end in
  mkdist c ps (fun th p => a_of th * p / (1 - p)) (fun th x => x / (x + a_of th)).

(* all engines of one recorded run *)
Record ftables := mkft { ft_phi : tab1; ft_phiinv : tab1; ft_cos : tab1; ft_sin : tab1;
                         ft_chi2 : list ((float * nat) * float);
                         ft_nsph : list ((nat * nat) * list (list float)) }.

Definition two_piF : float := 0x1.921fb54442d18p+2.

Definition iformF (ft : ftables) (ds : list fdist) (alpha : float) (n : nat) : contour float :=
  iform_with float nan 0 1 two_piF PrimFloat.add PrimFloat.sub PrimFloat.mul PrimFloat.div FloatBits.of_nat
             (flook (ft_phi ft)) (flook (ft_phiinv ft)) (flook (ft_cos ft)) (flook (ft_sin ft))
             (nsph_look (ft_nsph ft)) ds alpha n.
Definition iform_vecF (ft : ftables) (ds : list fdist) (alpha : float) (n : nat) : contour float :=
  iform_vec_with float nan 0 1 two_piF PrimFloat.add PrimFloat.sub PrimFloat.mul PrimFloat.div FloatBits.of_nat
             (flook (ft_phi ft)) (flook (ft_phiinv ft)) (flook (ft_cos ft)) (flook (ft_sin ft))
             (nsph_look (ft_nsph ft)) ds alpha n.
Definition isormF (ft : ftables) (ds : list fdist) (alpha : float) (n : nat) : contour float :=
  isorm_with float nan 0 1 two_piF PrimFloat.add PrimFloat.sub PrimFloat.mul PrimFloat.div PrimFloat.sqrt
             FloatBits.of_nat (flook (ft_phi ft)) (flook (ft_cos ft)) (flook (ft_sin ft)) (chi2look (ft_chi2 ft))
             (nsph_look (ft_nsph ft)) ds alpha n.
Definition rosenF (ds : list fdist) (x : list float) : list float := rosen float nan ds x.
Definition calculate_alphaF (sd rp : float) : float :=
  calculate_alpha float 365.25 24 PrimFloat.mul PrimFloat.div sd rp.

(* NSphere(dim, n).unit_sphere_points with the recorded normal draws and ONE table keyed by the state:
   state |-> (forces of the state, potential energy of the state) *)
Definition nstab := list (list (list float) * (list (list float) * float)).
Definition nsphereF (rand : list (list float)) (tab : nstab) (dim n : nat) : list (list float) :=
  nsphere float 0 3 PrimFloat.add PrimFloat.sub PrimFloat.mul PrimFloat.div PrimFloat.sqrt PrimFloat.ltb
          FloatBits.of_nat (fun n' d' => if Nat.eqb n' n && Nat.eqb d' dim then rand else [])
          (fun st => fst (slook ([], nan) tab st)) (fun st => snd (slook ([], nan) tab st)) dim n.
