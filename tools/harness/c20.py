"""C20 -- exported, plotted and loaded data are exactly the computed / stored values (partial;
DESIGN.md section 6, C20).

proof gate: props/C20.v (path rule, header, line counting/order/parse-back, closed polyline with
    swap_axis, scatter data, reader round trip; engines as contracts)
correspondence (exact): model/Export.v evaluated by vm_compute against
    - the bytes of the file written by virocon.contours.save_contour_coordinates and the path it created,
    - Line2D.get_xydata() / PathCollection.get_offsets() of virocon.plotting.plot_2D_contour (bit-exact floats),
    - the DataFrame returned by virocon.utils.read_ec_benchmark_dataset (tokenizing by the model, leaf
      values rendered back with the format they were written in);
search: property oracle on the same objects (file parsed back to 5e-7, artists, DataFrame rows) plus the
    other plot functions (pdf curves, dependence-function curves, per-interval estimates, isodensity grid,
    QQ lines), whose tie is this exact comparison only.

plot_2D_contour is modelled AS REPAIRED (fixes/C20-*.patch): an ndarray passed as design_conditions is
drawn as supplied.  On the unrepaired tree that call raises ValueError and is reported.
"""
import datetime
import math
import os
import re
import shutil

import numpy as np

import vlib
from vlib import fl

OUT = os.path.join(vlib.BUILD, "C20", "out")


def _imp():
    import matplotlib
    matplotlib.use("Agg")
    import matplotlib.pyplot as plt
    import virocon
    import virocon.contours as vc
    import virocon.plotting as vp
    import virocon.utils as vu
    return virocon, vc, vp, vu, plt


class _Contour:
    def __init__(self, coords, object_cells=False):
        self.coordinates = np.array(coords, dtype=float)
        if object_cells:   # the layout OrContour produces: dtype=object, cells are 1-element arrays or the int 0
            a = np.empty(self.coordinates.shape, dtype=object)
            for i in range(a.shape[0]):
                for j in range(a.shape[1]):
                    v = self.coordinates[i, j]
                    a[i, j] = 0 if v == 0 else np.array([v])
            self.coordinates = a


def float_coords(contour):
    c = contour.coordinates
    if getattr(c, "dtype", None) == object:
        return np.array([[float(np.ravel(v)[0]) for v in row] for row in c], dtype=float)
    return np.asarray(c, dtype=float)


# ------------------------------------------------------------------ generators
ALPH = "abcdefghijklmnopqrstuvwxyzABCDEFGHIJKLMNOPQRSTUVWXYZ0123456789 _-.,:/()[]%$\\^{}\"'#+*=<>|~&!?@"
UNI = "äöüéèµ°²Ωσλ€ßÅ℃√∞≤日本\U0001F30A\u0301\u00a0\t"   # incl. CJK, a non-BMP symbol, a combining accent, NBSP, TAB


def rand_word(rng, lo=0, hi=14, allow_semicolon=False):
    n = rng.randrange(lo, hi + 1)
    chars = ALPH + (UNI if rng.random() < 0.4 else "") + (";" if allow_semicolon else "")
    return "".join(rng.choice(chars) for _ in range(n))


def rand_semantics(rng, n_dim):
    r = rng.random()
    if r < 0.25:
        return None
    if r < 0.4 and n_dim <= 3:
        return {"names": ["Significant wave height", "Zero-up-crossing period", "Wind speed"][:n_dim],
                "symbols": ["H_s", "T_z", "V"][:n_dim], "units": ["m", "s", "m s$^{-1}$"][:n_dim]}
    semi = rng.random() < 0.1
    return {"names": [rand_word(rng, 0, 20, semi) for _ in range(n_dim)],
            "symbols": [rand_word(rng, 1, 5) for _ in range(n_dim)],
            "units": [rand_word(rng, 0, 8, semi) for _ in range(n_dim)]}


def rand_coords(rng, nprng, n_dim, n=None):
    n = n or rng.choice([1, 2, 3, 5, 17, 60, 180])
    mode = rng.choice(["ellipse", "uniform", "wide", "halves", "negative"])
    if mode == "ellipse" and n_dim == 2:
        t = np.linspace(0, 2 * np.pi, n, endpoint=False) + rng.uniform(0, 1)
        c = np.c_[rng.uniform(2, 9) + rng.uniform(1, 2) * np.cos(t), rng.uniform(5, 12) + rng.uniform(1, 4) * np.sin(t)]
    elif mode == "wide":
        c = nprng.uniform(-1, 1, (n, n_dim)) * 10.0 ** nprng.integers(-8, 9, (n, n_dim))
    elif mode == "halves":
        # decimals whose 7th digit is a 5: the rounding case of "%1.6f"
        c = np.round(nprng.uniform(0, 20, (n, n_dim)), 5) + 5e-7
    elif mode == "negative":
        c = nprng.uniform(-30, -1, (n, n_dim))
    else:
        c = nprng.uniform(0, 25, (n, n_dim))
    return np.asarray(c, dtype=float)


PATHS = ["contour", "contour.txt", "contour.csv", "c.dat.bak", ".hidden", "sub.dir/contour", "sub.dir/contour.dat",
         "trailing.", "a b/c d", "a b/c d.txt", "..double", "x.y.z/..", "name.with.dots", "sub/.cfg.bak", "UPPER.TXT",
         "üml/äö", "üml/äö.é"]


def rand_path(rng):
    if rng.random() < 0.6:
        return rng.choice(PATHS)
    comps = []
    for _ in range(rng.randrange(1, 4)):
        w = "".join(rng.choice("abcXYZ019 _-." + ("é" if rng.random() < 0.2 else "")) for _ in range(rng.randrange(1, 9)))
        if w.strip(".") == "":   # "." / ".." components are path navigation, not names
            w = "d" + w
        comps.append(w)
    return "/".join(comps)


def real_contours_2d(ctx, rng, want):
    """contours of every class for random 2-D models (a few; the HDC one is the slow one)"""
    import virocon as v
    from harness.c17 import random_model
    out = []
    kinds = ["IFORM", "ISORM", "DirectSampling", "And", "Or", "HDC"]
    for k in range(want):
        m = random_model(rng)
        kind = kinds[k % len(kinds)]
        alpha = 10 ** rng.uniform(-3, -1.3)
        try:
            if kind == "IFORM":
                c = v.IFORMContour(m, alpha, n_points=rng.choice([9, 30, 90]))
            elif kind == "ISORM":
                c = v.ISORMContour(m, alpha, n_points=rng.choice([9, 30, 90]))
            elif kind == "HDC":
                c = v.HighestDensityContour(m, alpha, limits=[(0, 14), (0, 22)], deltas=[0.25, 0.25])
            else:
                sample = m.draw_sample(4000, random_state=ctx.np_rng(500 + k))
                if kind == "DirectSampling":
                    c = v.DirectSamplingContour(m, max(alpha, 0.01), sample=sample, deg_step=rng.choice([6, 10, 30]))
                elif kind == "And":
                    c = v.AndContour(m, max(alpha, 0.02), deg_step=rng.choice([3, 6]), sample=sample, allowed_error=0.05)
                else:
                    c = v.OrContour(m, max(alpha, 0.02), deg_step=rng.choice([3, 6]), sample=sample, allowed_error=0.05)
        except Exception as e:  # noqa  (contour construction is not the subject here)
            continue
        if not (isinstance(c.coordinates, np.ndarray) and c.coordinates.ndim == 2):
            # HighestDensityContour with several disconnected parts stores a list of parts (its TODO): no (n, 2) array
            ctx.notes["contours_without_coordinate_array_skipped"] = ctx.notes.get("contours_without_coordinate_array_skipped", 0) + 1
            continue
        out.append((kind, m, c))
    return out


# ------------------------------------------------------------------ Coq literals
def cs(s):
    """Python str -> Coq string literal (bytes = UTF-8)"""
    return '"' + s.replace('"', '""') + '"'


def cs_list(xs):
    return "[" + "; ".join("T " + cs(x) for x in xs) + "]"


def fpts(a):
    a = np.asarray(a, dtype=float).reshape(-1, 2)
    return "[" + "; ".join("(%s, %s)" % (fl(x), fl(y)) for x, y in a) + "]"


PRELUDE = """From V.base Require Import FloatBits.
From V.model Require Import Export.
Open Scope string_scope.
Local Open Scope float_scope.
Fixpoint all2 {A B} (f : A -> B -> bool) (a : list A) (b : list B) : bool :=
  match a, b with [], [] => true | x :: a', y :: b' => f x y && all2 f a' b' | _, _ => false end.
Definition text_eqb (a b : text) : bool := all2 Ascii.eqb a b.
Definition texts_eqb (a b : list text) : bool := all2 text_eqb a b.
Definition fpt_eqb (a b : float * float) : bool := fbits_eq (fst a) (fst b) && fbits_eq (snd a) (snd b).
Definition fpts_eqb (a b : list (float * float)) : bool := all2 fpt_eqb a b.
Definition idt (s : text) : text := s.
(* save: 0 ok; 1 path; 2 file bytes *)
Definition cmp_save (path : text) (names units : list text) (n_dim : nat) (coords : list (list text))
           (created : text) (content : text) : Z :=
  if negb (text_eqb (out_path path) created) then 1%Z
  else if negb (text_eqb (file_text (file_lines text idt names units n_dim coords)) content) then 2%Z else 0%Z.
(* plot: 0 ok; 3 line; 4 collections *)
Definition cmp_plot (swap : bool) (coords : list (float * float)) (computed : list (float * float)) (a : dc_arg float)
           (sample : option (list (float * float))) (line : list (float * float)) (colls : list (list (float * float))) : Z :=
  if negb (fpts_eqb (polyline float swap coords) line) then 3%Z
  else if negb (all2 fpts_eqb (collections float swap computed a sample) colls) then 4%Z else 0%Z.
(* reader: 0 ok; 5 columns; 6 number of rows; 7 a time stamp; 8 a value *)
Definition lines_of (content : text) : list text := removelast (split newline content).
Definition cmp_read (content : text) (cols : list text) (rows : list (text * list text)) : Z :=
  let '(c, r) := read_dataset text text idt idt (lines_of content) in
  if negb (texts_eqb c cols) then 5%Z
  else if negb (Nat.eqb (List.length r) (List.length rows)) then 6%Z
  else if negb (all2 (fun a b => text_eqb (fst a) (fst b)) r rows) then 7%Z
  else if negb (all2 (fun a b => texts_eqb (snd a) (snd b)) r rows) then 8%Z else 0%Z.
"""


# ------------------------------------------------------------------ save_contour_coordinates
def label_defaults(n_dim):
    return ["Variable %d" % (d + 1) for d in range(n_dim)], ["arb. unit"] * n_dim


def has_extension(path):
    """independent restatement: the file name, leading dots aside, contains a dot"""
    name = path.rsplit("/", 1)[-1]
    return "." in name.lstrip(".")


def run_save(vc, case, k):
    d = os.path.join(OUT, "s%d" % k)
    shutil.rmtree(d, ignore_errors=True)
    os.makedirs(d)
    rel = case["path"]
    sub = os.path.dirname(rel)
    if sub:
        os.makedirs(os.path.join(d, sub), exist_ok=True)
    before = set()
    for root, _, files in os.walk(d):
        before |= {os.path.relpath(os.path.join(root, f), d) for f in files}
    cont = case.get("contour") or _Contour(case["coords"], case.get("object_cells", False))
    if case.get("ints"):
        cont.coordinates = cont.coordinates.astype(np.int64)
    cwd = os.getcwd()
    try:
        # "relative": the path is handed over as the user typed it (possibly a bare file name), from inside the directory
        if case.get("relative"):
            os.chdir(d)
        vc.save_contour_coordinates(cont, rel if case.get("relative") else os.path.join(d, rel), case["semantics"])
    except Exception as e:  # noqa
        return {"err": type(e).__name__ + ": " + str(e)[:100]}
    finally:
        os.chdir(cwd)
    after = set()
    for root, _, files in os.walk(d):
        after |= {os.path.relpath(os.path.join(root, f), d) for f in files}
    new = sorted(after - before)
    res = {"created": new}
    if len(new) == 1:
        with open(os.path.join(d, new[0]), "rb") as f:
            res["bytes"] = f.read()
        try:     # write -> read round trip with numpy's own reader
            res["loadtxt"] = np.loadtxt(os.path.join(d, new[0]), delimiter=";", skiprows=1, ndmin=2, encoding="utf-8")
        except Exception as e:  # noqa
            res["loadtxt"] = "loadtxt raises %s" % type(e).__name__
    shutil.rmtree(d, ignore_errors=True)
    return res


NUM6 = re.compile(r"^-?\d+\.\d{6}$")


def oracle_save(case, res):
    base = {"function": "save_contour_coordinates"}
    if "err" in res:
        return dict(base, clause="raises"), "save_contour_coordinates raises %s" % res["err"]
    want = case["path"] if has_extension(case["path"]) else case["path"] + ".txt"
    if res["created"] != [want]:
        return dict(base, clause="path", has_extension=has_extension(case["path"])), \
            "path %r: created %r, expected %r" % (case["path"], res["created"], want)
    try:
        content = res["bytes"].decode("utf-8")
    except UnicodeDecodeError:
        return dict(base, clause="encoding"), "file is not UTF-8"
    coords = np.asarray(case["coords"], dtype=float)
    n, n_dim = coords.shape
    if not content.endswith("\n") or "\r" in content:
        return dict(base, clause="lines"), "file does not consist of newline-terminated lines"
    lines = content[:-1].split("\n")
    sem = case["semantics"]
    names, units = (sem["names"], sem["units"]) if sem is not None else label_defaults(n_dim)
    header = ";".join("%s (%s)" % (names[d], units[d]) for d in range(n_dim))
    if len(lines) != 1 + n:
        return dict(base, clause="lines"), "%d lines for %d contour points (expected 1 header + one per point)" % (len(lines), n)
    if lines[0] != header:
        return dict(base, clause="header"), "header %r, expected %r" % (lines[0], header)
    if res.get("loadtxt") is not None:
        back = res["loadtxt"]
        want6 = np.array([[float("%1.6f" % v) for v in row] for row in coords], dtype=float).reshape(n, n_dim)
        if isinstance(back, str) or back.shape != want6.shape or not np.array_equal(back, want6, equal_nan=True):
            return dict(base, clause="roundtrip"), "np.loadtxt of the written file does not give back the coordinates rounded to 6 decimals (%s)" % (
                back if isinstance(back, str) else "shape %r" % (back.shape,))
    for i in range(n):
        f = lines[1 + i].split(";")
        if len(f) != n_dim:
            return dict(base, clause="fields"), "row %d has %d fields, expected %d (%r)" % (i, len(f), n_dim, lines[1 + i])
        for d in range(n_dim):
            v = coords[i, d]
            if not math.isfinite(v):
                continue
            if not NUM6.match(f[d]):
                return dict(base, clause="format"), "row %d field %d is %r, not a number with 6 decimals" % (i, d, f[d])
            if abs(float(f[d]) - v) > 5e-7 + 4e-16 * abs(v):
                return dict(base, clause="values"), "row %d field %d reads %r but the coordinate is %r" % (i, d, f[d], float(v))
    return None, None


def coq_save(case, res):
    coords = np.asarray(case["coords"], dtype=float)
    n, n_dim = coords.shape
    sem = case["semantics"]
    names, units = (sem["names"], sem["units"]) if sem is not None else label_defaults(n_dim)
    rows = "[" + "; ".join("[" + "; ".join("T " + cs("%1.6f" % v) for v in r) + "]" for r in coords) + "]"
    created = res["created"][0] if len(res.get("created", [])) == 1 else "<%d files>" % len(res.get("created", []))
    content = res.get("bytes", b"").decode("utf-8", "replace")
    return "cmp_save (T %s) %s %s %d%%nat %s (T %s) (T %s)" % (
        cs(case["path"]), cs_list(names), cs_list(units), n_dim, rows, cs(created), cs(content))


# ------------------------------------------------------------------ plot_2D_contour
def plot_objects(case):
    """the objects the caller hands to plot_2D_contour: contour, sample, design_conditions"""
    cont = case.get("contour") or _Contour(case["coords"], case.get("object_cells", False))
    dc = case["dc"]
    arg = None if dc == "none" else (True if dc == "true" else np.array(case["dc_array"], dtype=float))
    sample = None if case["sample"] is None else np.array(case["sample"], dtype=float)
    if sample is not None and case.get("sample_type") == "list":
        sample = sample.tolist()                      # array-like, as the docstring allows
    elif sample is not None and case.get("sample_type") == "dataframe":
        import pandas as pd
        sample = pd.DataFrame(sample, columns=["a", "b"])
    if case.get("ints"):                             # whole numbers held in integer arrays
        cont = _Contour(case["coords"])
        cont.coordinates = cont.coordinates.astype(np.int64)
        if arg is not None and arg is not True:
            arg = arg.astype(np.int64)
    return {"cont": cont, "sample": sample, "arg": arg}


def _snapshot(objs):
    import copy
    return {"contour coordinates": copy.deepcopy(objs["cont"].coordinates),
            "sample": copy.deepcopy(objs["sample"]),
            "design_conditions": copy.deepcopy(objs["arg"])}


def _changed(before, objs):
    """names of the caller's objects that differ from the copies taken before the call"""
    now = {"contour coordinates": objs["cont"].coordinates, "sample": objs["sample"], "design_conditions": objs["arg"]}
    out = []
    for k, b in before.items():
        a = now[k]
        try:
            if b is None or isinstance(b, bool):
                same = a is b
            elif hasattr(b, "equals"):
                same = bool(b.equals(a))
            elif isinstance(b, list):
                same = a == b
            else:
                same = np.asarray(a).dtype == np.asarray(b).dtype and np.asarray(a).shape == np.asarray(b).shape and all(
                    (x is y) or np.array_equal(np.asarray(x, dtype=float), np.asarray(y, dtype=float), equal_nan=True)
                    for x, y in zip(np.asarray(a, dtype=object).ravel(), np.asarray(b, dtype=object).ravel()))
        except Exception:  # noqa
            same = False
        if not same:
            out.append(k)
    return out


def run_plot(vp, vu, plt, case, objs=None, keep_open=False):
    """one call of plot_2D_contour; `objs` = the caller's objects when they are reused over several calls;
    keep_open: the figures are NOT closed afterwards (a user session in which earlier figures still exist)"""
    objs = objs or plot_objects(case)
    cont, sample, arg = objs["cont"], objs["sample"], objs["arg"]
    dc = case["dc"]
    before = _snapshot(objs)
    ax_in = None
    if case["own_ax"]:
        _, ax_in = plt.subplots()
    try:
        ret = vp.plot_2D_contour(cont, sample=sample, design_conditions=arg, semantics=case["semantics"],
                                 swap_axis=case["swap"], ax=ax_in)
    except Exception as e:  # noqa
        plt.close("all")
        if dc == "true":
            try:
                vu.calculate_design_conditions(cont, swap_axis=case["swap"])
            except Exception:
                return {"skip": "calculate_design_conditions itself raises on this contour (property C17)"}
        return {"err": type(e).__name__, "msg": str(e)[:120]}
    if isinstance(ret, tuple):
        ax, ret_dc = ret
    else:
        ax, ret_dc = ret, None
    res = {"inputs_modified": _changed(before, objs), "n_lines": len(ax.lines),
           "line": np.asarray(ax.lines[0].get_xydata(), dtype=float) if ax.lines else np.zeros((0, 2)),
           "colls": [np.asarray(np.ma.filled(c.get_offsets(), np.nan), dtype=float) for c in ax.collections],
           "ret_dc": None if ret_dc is None else np.asarray(ret_dc, dtype=float),
           "same_ax": (ax_in is None) or (ax is ax_in), "ax_id": id(ax), "fig_id": id(ax.figure)}
    if keep_open:
        res["_ax"] = ax          # keeps the Axes alive so that ids stay distinct
    else:
        plt.close("all")
    computed = None
    if dc == "true":
        try:
            computed = np.asarray(vu.calculate_design_conditions(cont, swap_axis=case["swap"]), dtype=float)
        except Exception:
            computed = None
    res["computed"] = computed
    return res


def _same(a, b):
    a, b = np.asarray(a, dtype=float), np.asarray(b, dtype=float)
    return a.shape == b.shape and np.array_equal(a, b, equal_nan=True)


def oracle_plot(case, res):
    base = {"function": "plot_2D_contour"}
    if "skip" in res:
        return None, None
    if "err" in res:
        return dict(base, clause="raises", exception=res["err"], design_conditions={"none": "None", "true": "True", "array": "array"}[case["dc"]],
                    coordinates="object-cells" if case.get("object_cells") else "float"), \
            "plot_2D_contour(design_conditions=%s) raises %s: %s" % ("<ndarray %s>" % (np.shape(case.get("dc_array")),) if case["dc"] == "array" else case["dc"], res["err"], res["msg"])
    coords = np.asarray(case["coords"], dtype=float)
    xi, yi = (1, 0) if case["swap"] else (0, 1)
    want = np.c_[np.r_[coords[:, xi], coords[0, xi]], np.r_[coords[:, yi], coords[0, yi]]]
    if res["n_lines"] != 1:
        return dict(base, clause="line"), "%d lines drawn, expected the one contour line" % res["n_lines"]
    if not _same(res["line"], want):
        got = res["line"]
        what = "has %d points for %d contour points" % (len(got), len(coords)) if len(got) != len(want) else \
            ("is not closed" if not np.array_equal(got[0], got[-1]) else "does not pass through the contour points in order (swap_axis=%r)" % case["swap"])
        return dict(base, clause="line", swap=case["swap"]), "the contour line %s" % what
    colls = []
    if case["dc"] == "array":
        colls.append(np.asarray(case["dc_array"], dtype=float))
    elif case["dc"] == "true":
        if res["computed"] is None:
            return None, None   # calculate_design_conditions itself fails: property C17, not judged here
        colls.append(res["computed"])
    if case["sample"] is not None:
        s = np.asarray(case["sample"], dtype=float)
        colls.append(np.c_[s[:, xi], s[:, yi]])
    if len(res["colls"]) != len(colls):
        return dict(base, clause="scatter"), "%d point collections drawn, expected %d" % (len(res["colls"]), len(colls))
    for k, (g, w) in enumerate(zip(res["colls"], colls)):
        if not _same(g, w):
            which = "design conditions" if (k == 0 and case["dc"] != "none") else "sample"
            return dict(base, clause="scatter", which=which, swap=case["swap"]), "the %s drawn are not the ones supplied/computed" % which
    if case["dc"] != "none" and (res["ret_dc"] is None or not _same(res["ret_dc"], colls[0])):
        return dict(base, clause="returned-design-conditions"), "the design conditions returned are not the ones drawn"
    if not res["same_ax"]:
        return dict(base, clause="axes"), "did not draw into the axes passed in"
    if res.get("inputs_modified"):
        return dict(base, clause="inputs-modified", which=res["inputs_modified"][0], swap=case["swap"]), \
            "plotting changed the caller's %s (swap_axis=%r)" % (" and ".join(res["inputs_modified"]), case["swap"])
    return None, None


def plot_history(vp, vu, plt, case, swaps):
    """plot the SAME contour / sample / design-condition objects several times (swap_axis as given) WITHOUT closing
    the figures in between, as in a user session; every plot is judged against the values supplied at the start,
    and a call without ax= must draw into a figure of its own.  None or (index, signature, message)"""
    plt.close("all")
    objs = plot_objects(case)
    seen_axes = []
    found = None
    for j, sw in enumerate(swaps):
        c = dict(case, swap=sw)
        r = run_plot(vp, vu, plt, c, objs, keep_open=True)
        s, msg = oracle_plot(c, r)
        if s is None and "ax_id" in r and not c.get("own_ax") and r["ax_id"] in [a for a, _ in seen_axes]:
            s, msg = {"function": "plot_2D_contour", "clause": "axes-reused"}, "a call without ax= returned the axes of an earlier call instead of a new figure"
        if "ax_id" in r:
            seen_axes.append((r["ax_id"], r.get("_ax")))
        if s is not None:
            found = (j, c, s, msg)
            break
    plt.close("all")
    if found is None:
        return None
    j, c, s, msg = found
    alone, _ = oracle_plot(c, run_plot(vp, vu, plt, c))
    if alone is not None and alone.get("clause") == s.get("clause"):
        return None      # fails on fresh objects in a fresh session too: not a matter of history (the case stream reports it)
    return j, dict(s, history=True), "plot %d of %d with the same objects, earlier figures still open (swap_axis history %r): %s" % (j + 1, len(swaps), swaps[:j + 1], msg)


def coq_plot(case, res):
    dc = case["dc"]
    computed = fpts(res["computed"]) if res.get("computed") is not None else "[]"
    arg = "DcNone" if dc == "none" else ("DcTrue" if dc == "true" else "(DcArray %s)" % fpts(case["dc_array"]))
    sample = "None" if case["sample"] is None else "(Some %s)" % fpts(case["sample"])
    colls = "[" + "; ".join(fpts(c) for c in res["colls"]) + "]"
    return "cmp_plot %s %s %s %s %s %s %s" % ("true" if case["swap"] else "false", fpts(case["coords"]), computed, arg, sample,
                                              fpts(res["line"]), colls)


# ------------------------------------------------------------------ read_ec_benchmark_dataset
FMTS = ["%.4f", "%.4f", "%.2f", "%.6f", "%.1f", "%d"]


def gen_dataset(rng, nprng, n):
    ncol = rng.choice([1, 2, 2, 2, 3, 4])
    fmts = [rng.choice(FMTS) for _ in range(ncol)]
    if rng.random() < 0.12:
        # full binary64 precision (shortest round-trip decimal, up to 17 significant digits) in one column
        fmts[rng.randrange(ncol)] = "%r"
    names = ["time (YYYY-MM-DD-HH)"] + [rng.choice(["significant wave height (m)", "zero-up-crossing period (s)", "wind speed (m/s)",
                                                    "col %d" % j, (rand_word(rng, 1, 12).replace('"', "").replace("'", "").strip() or "x")]) + ("" if rng.random() < 0.7 else " %d" % j)
                                        for j in range(ncol)]
    while len(set(names)) < len(names):   # pandas renames duplicate columns: not part of the format
        names = [names[0]] + ["%s_%d" % (nm, j) for j, nm in enumerate(names[1:])]
    t0 = datetime.datetime(rng.randrange(1950, 2030), rng.randrange(1, 13), rng.randrange(1, 28), rng.randrange(0, 24))
    mode = rng.choice(["hourly", "hourly", "3hourly", "gaps", "shuffled", "repeated", "repeated", "overlap"])
    ts, t = [], t0
    for i in range(n):
        ts.append(t)
        t = t + datetime.timedelta(hours={"hourly": 1, "3hourly": 3}.get(mode, rng.choice([1, 1, 2, 24, 700])))
    if mode == "shuffled":
        rng.shuffle(ts)
    elif mode == "repeated" and n >= 2:
        # an hour logged twice (or more): every row is a data row of its own
        for _ in range(max(1, n // 10)):
            i = rng.randrange(1, n)
            ts[i] = ts[i - 1]
    elif mode == "overlap" and n >= 2:
        # two overlapping records in one file: the second half starts again inside the first
        h = n // 2
        back = rng.randrange(1, h + 1)
        ts = ts[:h] + [ts[h - back] + (x - ts[h]) for x in ts[h:]]
    vals = nprng.uniform(0, 30, (n, ncol))
    neg = rng.random() < 0.2
    if neg:
        vals = vals - 15
    sep = rng.choice(["; ", "; ", ";", ";  "])
    lines = [sep.join(names)]
    cells = []
    for i in range(n):
        row = [f % (int(vals[i, j]) if f == "%d" else float(vals[i, j])) for j, f in enumerate(fmts)]
        cells.append(row)
        lines.append(sep.join([ts[i].strftime("%Y-%m-%d-%H")] + row))
    return {"content": "\n".join(lines) + "\n", "names": names, "fmts": fmts, "ts": ts, "cells": cells, "n": n, "sep": sep}


def run_read(vu, case, k):
    """write the file, read it with the real reader.  `k` names the path: cases given the same k are
    written one after the other to the SAME path (a history of rewrites of one file)"""
    os.makedirs(OUT, exist_ok=True)
    p = os.path.join(OUT, "d%s.txt" % k)
    with open(p, "w", encoding="utf-8", newline="") as f:
        f.write(case["content"])
    try:
        df = vu.read_ec_benchmark_dataset(p)
    except Exception as e:  # noqa
        os.remove(p)
        return {"err": type(e).__name__ + ": " + str(e)[:100]}
    os.remove(p)
    return {"df": df}


def _compact_read(c):
    return {"content": c["content"], "names": c["names"], "fmts": c["fmts"], "n": c["n"], "sep": c["sep"], "cells": c["cells"],
            "ts": [t.strftime("%Y-%m-%d-%H") if not isinstance(t, str) else t for t in c["ts"]]}


def _expand_read(r):
    return dict(r, ts=[datetime.datetime.strptime(t, "%Y-%m-%d-%H") if isinstance(t, str) else t for t in r["ts"]])


def history_fails(vu, cases, name):
    """write the files one after the other to one path, read after each write; first failing read"""
    for i, c in enumerate(cases):
        s, msg = oracle_read(c, run_read(vu, c, name))
        if s is not None:
            return i, s, msg
    return None


def oracle_read(case, res):
    base = {"function": "read_ec_benchmark_dataset"}
    if "err" in res:
        return dict(base, clause="raises"), "read_ec_benchmark_dataset raises %s" % res["err"]
    df = res["df"]
    n = case["n"]
    if list(df.columns) != [c.strip() for c in case["names"][1:]]:
        return dict(base, clause="columns"), "columns %r, expected %r" % (list(df.columns), case["names"][1:])
    if len(df) != n:
        return dict(base, clause="rows"), "%d rows returned for %d data rows in the file" % (len(df), n)
    idx = [t.to_pydatetime() for t in df.index]
    if idx != case["ts"]:
        i = next(i for i in range(n) if idx[i] != case["ts"][i])
        return dict(base, clause="index"), "row %d has index %r, its time stamp is %r" % (i, idx[i], case["ts"][i])
    want = np.array([[float(c) for c in row] for row in case["cells"]], dtype=float).reshape(n, -1)
    got = np.asarray(df.values, dtype=float)
    if got.shape != want.shape or not np.array_equal(got, want):
        bad = np.argwhere(got != want) if got.shape == want.shape else []
        i = int(bad[0][0]) if len(bad) else -1
        if len(bad) and all(case["fmts"][int(j)] == "%r" for _, j in bad) and \
                all(abs(float(got[a, b]) - float(want[a, b])) <= 1e-11 * abs(float(want[a, b])) for a, b in bad):
            # only full-precision fields are off, in the last digits (relative error up to ~1e-12 observed): pandas' default (fast) float parser
            return dict(base, clause="values-full-precision"), \
                "%d of %d full-precision fields are read back with the last digits off, e.g. row %d: file %s, DataFrame %r" % (
                    len(bad), n, i, case["cells"][i][int(bad[0][1])], float(got[i, int(bad[0][1])]))
        return dict(base, clause="values"), "row %d reads %r, the file says %r" % (i, got[i].tolist() if i >= 0 else got.shape, case["cells"][i] if i >= 0 else want.shape)
    return None, None


def coq_read(case, res):
    df = res["df"]
    cols = cs_list([str(c) for c in df.columns])
    rows = []
    vals = df.values
    for i, t in enumerate(df.index):
        cells = []
        for j, f in enumerate(case["fmts"]):
            if j < vals.shape[1]:
                v = vals[i, j]
                try:
                    cells.append(f % (int(v) if f == "%d" else float(v)))
                except (TypeError, ValueError):
                    cells.append(repr(v))
        rows.append("(T %s, %s)" % (cs(t.strftime("%Y-%m-%d-%H")), cs_list(cells)))
    return "cmp_read (T %s) %s [%s]" % (cs(case["content"]), cols, "; ".join(rows))


# ------------------------------------------------------------------ the other plot functions (oracle only)
def check_dependence_axes(vp, plt, name, model, semantics, out, own_axes=False):
    """every axes of plot_dependence_functions, in the order (conditional dimension, conditional parameter):
    exactly one curve (x, f(x)) of THAT parameter's dependence function over [0, max conditioning value]
    (or [0, 10] when never fitted), y label = the parameter, and for fitted models exactly one scatter of
    (conditioning value, that parameter's per-interval estimate), none otherwise"""
    panels = []
    for dim in range(model.n_dim):
        if model.conditional_on[dim] is None:
            continue
        dist = model.distributions[dim]
        for par, dep in dist.conditional_parameters.items():
            panels.append((dim, par, dep, dist))
    base = {"function": "plot_dependence_functions"}
    desc = "%s (%d-D, conditional parameters per dimension %s, %s)" % (
        name, model.n_dim, [len(model.distributions[d].conditional_parameters) if model.conditional_on[d] is not None else 0 for d in range(model.n_dim)],
        "fitted" if any(p[3].conditioning_values is not None for p in panels) else "not fitted")
    axes_in = None
    if own_axes:
        axes_in = [plt.subplots()[1] for _ in panels]
    try:
        axes = vp.plot_dependence_functions(model, semantics, axes=axes_in)
    except Exception as e:  # noqa
        plt.close("all")
        out.append((dict(base, clause="raises", exception=type(e).__name__), "%s: plot_dependence_functions raises %s: %s" % (desc, type(e).__name__, str(e)[:80])))
        return len(panels)
    if len(axes) != len(panels):
        out.append((dict(base, clause="axes-count"), "%s: %d axes for %d dependence functions" % (desc, len(axes), len(panels))))
    for i, (dim, par, dep, dist) in enumerate(panels[:len(axes)]):
        ax = axes[i]
        tag = "%s: axes[%d] (dimension %d, parameter %r)" % (desc, i, dim, par)
        cv = dist.conditioning_values
        lines = ax.get_lines()
        if len(lines) != 1:
            out.append((dict(base, clause="curve"), "%s: %d curves drawn, expected exactly one" % (tag, len(lines))))
        else:
            xy = np.asarray(lines[0].get_xydata(), dtype=float)
            xs = np.linspace(0, max(cv)) if cv is not None else np.linspace(0, 10)
            if not (np.array_equal(xy[:, 0], xs) and np.array_equal(xy[:, 1], np.asarray(dep(xy[:, 0]), dtype=float), equal_nan=True)):
                out.append((dict(base, clause="curve"), "%s: the curve is not (x, f(x)) of this parameter's dependence function" % tag))
        if ax.get_ylabel() != par:
            out.append((dict(base, clause="label"), "%s: y label is %r" % (tag, ax.get_ylabel())))
        offs = [np.asarray(np.ma.filled(c.get_offsets(), np.nan), dtype=float) for c in ax.collections]
        if cv is None:
            if offs:
                out.append((dict(base, clause="estimates"), "%s: %d scatters drawn for a model that was never fitted" % (tag, len(offs))))
        else:
            want = np.c_[np.asarray(cv, dtype=float), np.array([p[par] for p in dist.parameters_per_interval], dtype=float)]
            if len(offs) != 1 or not _same(offs[0], want):
                out.append((dict(base, clause="estimates"), "%s: the per-interval estimates drawn are not (conditioning value, estimate of this parameter); %d scatters" % (tag, len(offs))))
    plt.close("all")
    return len(panels)


def random_nd_model(rng, n_dim, fitted, nprng, force=None):
    """hierarchical model with 2-4 dimensions whose conditional dimensions have DIFFERENT numbers of conditional
    parameters (2, 1, 2, ...), conditional on random lower dimensions; optionally fitted to a sample of itself"""
    import virocon as v

    def power3(x, a=0.1, b=1.489, c=0.1901):
        return a + b * x ** c

    def exp3(x, a=0.04, b=0.1748, c=-0.2243):
        return a + b * np.exp(c * x)

    def lin(x, a=1.0, b=0.5):
        return a + b * x

    def lin_b(x, a=1.5, b=0.1):
        return a + b * x

    b3, b2 = [(0, None), (0, None), (None, None)], [(0, None), (0, None)]

    def build(with_slicers):
        descs = [{"distribution": v.WeibullDistribution(alpha=2.776, beta=1.471, gamma=0.8888) if not with_slicers else v.WeibullDistribution()}]
        if with_slicers:
            descs[0]["intervals"] = v.NumberOfIntervalsSlicer(6, min_n_points=30)
        return descs

    kinds = []
    for d in range(1, n_dim):
        kinds.append(rng.choice(["ln2", "w1", "w2", "ln1", "lns", "wb", "none"] if d > 1 else ["ln2", "ln2", "w1", "ln1"]))
    if n_dim >= 3 and len({k for k in kinds if k != "none"}) < 2:
        kinds[0], kinds[1] = "ln2", "w1"          # make the counts differ
    if force:          # a FIXED parameter that precedes the conditional one in the distribution's parameter order
        kinds[0] = force
    cond = [rng.randrange(0, d) for d in range(1, n_dim)]

    def descriptions(with_slicers):
        descs = build(with_slicers)
        for d, (k, c) in enumerate(zip(kinds, cond), start=1):
            if k == "ln2":
                dd = {"distribution": v.LogNormalDistribution(), "conditional_on": c,
                      "parameters": {"mu": v.DependenceFunction(power3, b3), "sigma": v.DependenceFunction(exp3, b3)}}
            elif k == "ln1":
                dd = {"distribution": v.LogNormalDistribution(f_sigma=0.25), "conditional_on": c,
                      "parameters": {"mu": v.DependenceFunction(power3, b3)}}
            elif k == "lns":
                dd = {"distribution": v.LogNormalDistribution(f_mu=1.2), "conditional_on": c,
                      "parameters": {"sigma": v.DependenceFunction(exp3, b3)}}
            elif k == "wb":
                dd = {"distribution": v.WeibullDistribution(f_alpha=3.0, f_gamma=0.0), "conditional_on": c,
                      "parameters": {"beta": v.DependenceFunction(lin_b, b2)}}
            elif k == "w1":
                dd = {"distribution": v.WeibullDistribution(f_beta=2.0, f_gamma=0.0), "conditional_on": c,
                      "parameters": {"alpha": v.DependenceFunction(lin, b2)}}
            elif k == "w2":
                dd = {"distribution": v.WeibullDistribution(f_gamma=0.0), "conditional_on": c,
                      "parameters": {"alpha": v.DependenceFunction(lin, b2), "beta": v.DependenceFunction(lin_b, b2)}}
            else:
                dd = {"distribution": v.WeibullDistribution(alpha=2.0, beta=1.5, gamma=0.1) if not with_slicers else v.WeibullDistribution()}
            if with_slicers:
                dd["intervals"] = v.NumberOfIntervalsSlicer(rng.choice([4, 5, 6]), min_n_points=20)
            descs.append(dd)
        return descs

    m = v.GlobalHierarchicalModel(descriptions(False))
    if not fitted:
        return m, kinds
    sample = m.draw_sample(6000, random_state=nprng)
    mf = v.GlobalHierarchicalModel(descriptions(True))
    mf.fit(sample)
    return mf, kinds


def hist_matches(ax, data):
    """the stepfilled histogram drawn in `ax` is the density histogram (Doane bins) of `data`"""
    if not ax.patches:
        return False
    xy = np.asarray(ax.patches[0].get_xy(), dtype=float)
    h, edges = np.histogram(np.asarray(data, dtype=float), bins="doane", density=True)
    ys = np.unique(np.round(xy[:, 1], 12))
    want = np.unique(np.round(np.r_[h, 0.0], 12))
    return len(ys) == len(want) and np.allclose(ys, want, rtol=1e-10, atol=1e-12) and \
        np.isclose(xy[:, 0].min(), edges[0]) and np.isclose(xy[:, 0].max(), edges[-1])


def fitted_predefined_models(virocon, rng, which):
    """(name, fitted GlobalHierarchicalModel, data frame used, semantics) for predefined models on shipped datasets"""
    import pandas as pd
    from virocon import variable_transform
    R = os.path.join(vlib.REPO, "datasets")

    def data(name):
        d = virocon.read_ec_benchmark_dataset(os.path.join(R, name))
        lo = rng.randrange(0, max(1, len(d) // 5))      # a random contiguous part, so that runs differ
        return d.iloc[lo:]

    def hs_s(d):
        hs, tz = d.iloc[:, 0], d.iloc[:, 1]
        _, st = variable_transform.hs_tz_to_hs_s(hs, tz)
        st.name = "steepness"
        return pd.concat([hs, st], axis=1)

    specs = {"DNVGL_Hs_Tz": (virocon.get_DNVGL_Hs_Tz, lambda: data("ec-benchmark_dataset_A_1year.txt")),
             "OMAE2020_Hs_Tz": (virocon.get_OMAE2020_Hs_Tz, lambda: data("ec-benchmark_dataset_%s_1year.txt" % rng.choice("ABC"))),
             "OMAE2020_V_Hs": (virocon.get_OMAE2020_V_Hs, lambda: data("ec-benchmark_dataset_D_1year.txt")),
             "DNVGL_Hs_U": (virocon.get_DNVGL_Hs_U, lambda: data("ec-benchmark_dataset_D_1year.txt").iloc[:, [1, 0]]),
             "Windmeier_EW_Hs_S": (virocon.get_Windmeier_EW_Hs_S, lambda: hs_s(data("ec-benchmark_dataset_C_1year.txt"))),
             "Nonzero_EW_Hs_S": (virocon.get_Nonzero_EW_Hs_S, lambda: hs_s(data("ec-benchmark_dataset_A_1year.txt")))}
    for name in which:
        getter, mk = specs[name]
        r = getter()
        d = mk()
        m = virocon.GlobalHierarchicalModel(r[0])
        m.fit(d, r[1])
        yield name, m, d, r[2]


PREDEFINED = ["DNVGL_Hs_Tz", "OMAE2020_Hs_Tz", "OMAE2020_V_Hs", "DNVGL_Hs_U", "Windmeier_EW_Hs_S", "Nonzero_EW_Hs_S"]


def check_fitted(ctx, vp, plt, rng, name, model, data, sem, out):
    n_eval = 0
    for swap_sem in (None, sem):
        n_eval += check_dependence_axes(vp, plt, name, model, swap_sem, out)
    # ---- histograms with pdf curves
    sample = np.asarray(data)
    for plot_pdf in (True, False):
        figs, axes_list = vp.plot_histograms_of_interval_distributions(model, data, sem, plot_pdf=plot_pdf)
        ax0 = axes_list[0]
        d0 = sample[:, 0]
        n_eval += 1
        if plot_pdf:
            xy = np.asarray(ax0.lines[0].get_xydata(), dtype=float)
            if not (np.array_equal(xy[:, 0], np.linspace(d0.min(), d0.max())) and np.array_equal(xy[:, 1], model.distributions[0].pdf(xy[:, 0]))):
                out.append(({"function": "plot_histograms_of_interval_distributions", "clause": "pdf"}, "marginal pdf curve is not (x, pdf(x)) over the data range"))
        elif len(ax0.lines) != 0:
            out.append(({"function": "plot_histograms_of_interval_distributions", "clause": "pdf"}, "pdf drawn although plot_pdf=False"))
        if not hist_matches(ax0, d0):
            out.append(({"function": "plot_histograms_of_interval_distributions", "clause": "histogram"}, "%s: the marginal histogram is not the density histogram of the first column" % name))
        cd = model.distributions[1]
        axs = axes_list[1]
        for i, dist_i in enumerate(cd.distributions_per_interval):
            di = np.asarray(cd.data_intervals[i], dtype=float)
            n_eval += 1
            if plot_pdf:
                xy = np.asarray(axs[i].lines[0].get_xydata(), dtype=float)
                if not (np.array_equal(xy[:, 0], np.linspace(di.min(), di.max())) and np.array_equal(xy[:, 1], dist_i.pdf(xy[:, 0]))):
                    out.append(({"function": "plot_histograms_of_interval_distributions", "clause": "pdf", "interval": i},
                                "pdf curve of interval %d is not that interval distribution's pdf over that interval's data range" % i))
            if not hist_matches(axs[i], di):
                out.append(({"function": "plot_histograms_of_interval_distributions", "clause": "histogram", "interval": i},
                            "%s: the histogram of interval %d is not the density histogram of that interval's data" % (name, i)))
            if "n=%d" % len(di) not in axs[i].get_title():
                out.append(({"function": "plot_histograms_of_interval_distributions", "clause": "title"}, "interval %d title %r does not carry n=%d" % (i, axs[i].get_title(), len(di))))
        plt.close("all")
    # ---- isodensity: the grid handed to contour() is the model's pdf on that grid
    for swap in (False, True):
        _, ax = plt.subplots()
        rec = {}
        orig = ax.contour

        def spy(X, Y, Z, *a, _orig=orig, _rec=rec, **kw):
            _rec["XYZ"] = (np.array(X), np.array(Y), np.array(Z))
            return _orig(X, Y, Z, *a, **kw)
        ax.contour = spy
        sub = np.ascontiguousarray(sample[:: max(1, len(sample) // 400)])
        sub0 = sub.copy()
        ng = rng.choice([15, 24, 40])
        limits = None if rng.random() < 0.5 else [(0.0, rng.uniform(1.1, 1.5) * float(sample[:, 0].max())), (0.0, rng.uniform(1.1, 1.5) * float(sample[:, 1].max()))]
        levels = None if rng.random() < 0.4 else [1e-4, 1e-3, 1e-2]
        try:
            vp.plot_2D_isodensity(model, sub, sem, swap_axis=swap, limits=limits, levels=levels, ax=ax, n_grid_steps=ng)
        except Exception as e:  # noqa  (level selection / drawing is matplotlib's business; the grid was recorded before)
            d = ctx.notes.setdefault("isodensity_calls_that_raised_after_the_grid_was_computed", {})
            d["%s/levels=%s/%s" % (name, "None" if levels is None else "list", type(e).__name__)] = 1
            if "XYZ" not in rec:
                raise
        n_eval += 1
        X, Y, Z = rec["XYZ"]
        pts = np.c_[Y.ravel(), X.ravel()] if swap else np.c_[X.ravel(), Y.ravel()]
        if not np.array_equal(Z.ravel(), model.pdf(pts), equal_nan=True):
            out.append(({"function": "plot_2D_isodensity", "clause": "density", "swap": swap}, "the grid values handed to contour() are not model.pdf at the plotted positions (swap_axis=%r)" % swap))
        offs = np.asarray(np.ma.filled(ax.collections[0].get_offsets(), np.nan), dtype=float) if ax.collections else np.zeros((0, 2))
        want = np.c_[sub[:, 1], sub[:, 0]] if swap else sub[:, :2]
        if not _same(offs, want):
            out.append(({"function": "plot_2D_isodensity", "clause": "scatter", "swap": swap}, "sample scatter is not the sample (swap_axis=%r)" % swap))
        if not np.array_equal(sub, sub0):
            out.append(({"function": "plot_2D_isodensity", "clause": "inputs-modified", "swap": swap}, "plot_2D_isodensity changed the caller's sample array (swap_axis=%r)" % swap))
        plt.close("all")
    # ---- QQ plots: ordered sample vs the model's own marginal icdf
    sub = sample[rng.randrange(0, 50):: max(1, len(sample) // 150)]
    calls = []
    orig_icdf = model.marginal_icdf

    def rec_icdf(p, dim, *a, **kw):
        r = orig_icdf(p, dim, *a, **kw)
        calls.append((dim, np.array(r, dtype=float)))
        return r
    model.marginal_icdf = rec_icdf
    try:
        axes = vp.plot_marginal_quantiles(model, sub, sem)
    finally:
        del model.marginal_icdf
    for dim, ax in enumerate(axes):
        n_eval += 1
        xy = np.asarray(ax.lines[0].get_xydata(), dtype=float)
        theo = [r for d, r in calls if d == dim]
        if not np.array_equal(xy[:, 1], np.sort(sub[:, dim])):
            out.append(({"function": "plot_marginal_quantiles", "clause": "ordered-values", "dim": dim}, "ordinates are not the ordered sample of dimension %d" % dim))
        if not theo or not any(np.array_equal(xy[:, 0], t) for t in theo):
            out.append(({"function": "plot_marginal_quantiles", "clause": "theoretical-quantiles", "dim": dim}, "abscissae are not the model's marginal_icdf values of dimension %d" % dim))
    plt.close("all")
    return n_eval


def check_other_plots(ctx, virocon, vp, plt, rng):
    """returns list of (signature, message); counts evaluations"""
    out = []
    from harness.c17 import random_model
    n_eval = 0
    # ---- dependence functions of random 2-D models and of 2- to 4-dimensional models whose conditional
    #      dimensions have different numbers of conditional parameters, never fitted and fitted
    for k in range(ctx.n(2, 10)):
        n_eval += check_dependence_axes(vp, plt, "random 2-D model", random_model(rng), None, out)
    nprng = ctx.np_rng(31)
    for k in range(ctx.n(6, 40)):
        n_dim = [3, 3, 4, 2][k % 4]
        fitted = k % 2 == 1
        try:
            m, kinds = random_nd_model(rng, n_dim, fitted, nprng, force={1: "lns", 3: "wb", 5: "lns"}.get(k % 6))
        except Exception as e:  # noqa  (fitting a random structure may fail: not the subject here)
            ctx.notes["nd_models_not_built"] = ctx.notes.get("nd_models_not_built", 0) + 1
            continue
        ctx.notes.setdefault("nd_models_plotted", []).append("%d-D %s %s" % (n_dim, "/".join(kinds), "fitted" if fitted else "unfitted"))
        n_eval += check_dependence_axes(vp, plt, "hierarchical model %s" % "/".join(kinds), m, None, out, own_axes=rng.random() < 0.3)
    # ---- predefined models fitted to the shipped datasets (random contiguous parts of them)
    which = PREDEFINED if not ctx.quick() else [PREDEFINED[(ctx.seed + t) % 6] for t in (0, 2, 3)] + [rng.choice(PREDEFINED)]
    for name, model, data, sem in fitted_predefined_models(virocon, rng, list(dict.fromkeys(which))):
        n_eval += check_fitted(ctx, vp, plt, rng, name, model, data, sem, out)
        ctx.notes.setdefault("predefined_models_plotted", []).append(name)
    return out, n_eval


# ------------------------------------------------------------------ replay
def replay(ctx, r):
    virocon, vc, vp, vu, plt = _imp()
    fn = r.get("function")
    if fn == "save_contour_coordinates":
        res = run_save(vc, r, 0)
        s, msg = oracle_save(r, res)
    elif fn == "plot_2D_contour" and "swap_history" in r:
        f = plot_history(vp, vu, plt, r, r["swap_history"])
        s, msg = (f[1], f[2]) if f else (None, None)
    elif fn == "plot_2D_contour":
        res = run_plot(vp, vu, plt, r)
        s, msg = oracle_plot(r, res)
    elif fn == "read_ec_benchmark_dataset" and "history" in r:
        f = history_fails(vu, [_expand_read(x) for x in r["history"]], "replay")
        s, msg = (f[1], "read %d of the history: %s" % (f[0] + 1, f[2])) if f else (None, None)
    elif fn == "read_ec_benchmark_dataset":
        r = _expand_read(r)
        res = run_read(vu, r, 0)
        s, msg = oracle_read(r, res)
    else:
        out, _ = check_other_plots(ctx, virocon, vp, plt, ctx.rng)
        s, msg = (out[0] if out else (None, None))
    if s:
        print("  ", msg)
    return s is not None


def _clean_case(c):
    return {k: (np.asarray(v).tolist() if isinstance(v, np.ndarray) else v) for k, v in c.items() if k not in ("contour", "model")}


def shrink_plot(vp, vu, plt, case, sig):
    def fails(c):
        try:
            s, _ = oracle_plot(c, run_plot(vp, vu, plt, c))
        except Exception:
            return False
        return s is not None and s.get("clause") == sig.get("clause")
    c = {k: v for k, v in case.items() if k != "contour"}
    for key, val in (("sample", None), ("semantics", None), ("own_ax", False), ("swap", False)):
        c2 = dict(c, **{key: val})
        if c2 != c and fails(c2):
            c = c2
    co = vlib.shrink_list([list(map(float, p)) for p in np.asarray(c["coords"]).tolist()], lambda ps: fails(dict(c, coords=list(ps))), min_len=1)
    c = dict(c, coords=co)
    if c["dc"] == "array":
        da = vlib.shrink_list([list(map(float, p)) for p in np.asarray(c["dc_array"]).tolist()], lambda ps: fails(dict(c, dc_array=list(ps))), min_len=1)
        c = dict(c, dc_array=da)
    return c


# ------------------------------------------------------------------ run
def run(ctx):
    virocon, vc, vp, vu, plt = _imp()
    ctx.proof_gate(need_gen=False)
    rng = ctx.rng
    nprng = ctx.np_rng(0)
    shutil.rmtree(OUT, ignore_errors=True)
    os.makedirs(OUT, exist_ok=True)
    reals = real_contours_2d(ctx, rng, ctx.n(12, 48))
    dist = {}

    # ---- save cases
    save_cases = []
    for k in range(ctx.n(240, 1500)):
        n_dim = rng.choice([2, 2, 2, 3, 3, 1, 4])
        save_cases.append({"function": "save_contour_coordinates", "kind": "synthetic", "coords": rand_coords(rng, nprng, n_dim),
                           "semantics": rand_semantics(rng, n_dim), "path": rand_path(rng)})
        if k < 4:       # EVERY run: bare file names relative to the working directory, with and without extension
            save_cases[-1].update(path=["contour", "contour.txt", "c.dat.bak", "UPPER.TXT"][k], relative=True)
        elif rng.random() < 0.3:
            save_cases[-1]["relative"] = True
        if rng.random() < 0.1:
            save_cases[-1]["ints"] = True
            save_cases[-1]["coords"] = np.round(save_cases[-1]["coords"]) + 0.0
    for kind, m, c in reals:
        save_cases.append({"function": "save_contour_coordinates", "kind": kind, "coords": float_coords(c), "contour": c,
                           "object_cells": c.coordinates.dtype == object, "semantics": rand_semantics(rng, 2), "path": rand_path(rng)})
    try:   # a 3-D contour for saving
        dd, fd, sem3 = virocon.get_DNVGL_Hs_Tz()
        from harness.c17 import random_model
        m2 = random_model(rng)
        m3 = virocon.GlobalHierarchicalModel([{"distribution": m2.distributions[0]},
                                              {"distribution": virocon.WeibullDistribution(alpha=2.0, beta=1.5, gamma=0.1)},
                                              {"distribution": virocon.WeibullDistribution(alpha=5.0, beta=2.5, gamma=0.0)}])
        c3 = virocon.IFORMContour(m3, 0.01, n_points=20)
        save_cases.append({"function": "save_contour_coordinates", "kind": "IFORM-3D", "coords": np.asarray(c3.coordinates, dtype=float), "contour": c3,
                           "semantics": rand_semantics(rng, 3), "path": "three.d/contour3"})
    except Exception as e:  # noqa
        ctx.notes["no_3d_contour"] = repr(e)[:200]
    save_res = [run_save(vc, c, k) for k, c in enumerate(save_cases)]
    save_or = [oracle_save(c, r) for c, r in zip(save_cases, save_res)]
    for c in save_cases:
        k = "save/%s/%dD/%s/%s" % (c["kind"] if c["kind"] != "synthetic" else "synthetic", np.asarray(c["coords"]).shape[1],
                                   "default-semantics" if c["semantics"] is None else "semantics", ("ext" if has_extension(c["path"]) else "no-ext") + ("/relative" if c.get("relative") else ""))
        dist[k] = dist.get(k, 0) + 1
        ctx.count(("save", np.asarray(c["coords"]).tolist(), str(c["semantics"]), c["path"]), len(c["coords"]) >= 2)

    # ---- plot cases
    plot_cases = []
    for k in range(ctx.n(240, 1200)):
        coords = rand_coords(rng, nprng, 2, n=rng.choice([1, 2, 3, 4, 7, 30, 180]))
        dc = rng.choice(["none", "true", "array", "array"])
        case = {"function": "plot_2D_contour", "kind": "synthetic", "coords": coords, "swap": rng.random() < 0.5, "dc": dc,
                "sample": None if rng.random() < 0.4 else nprng.uniform(0, 20, (rng.choice([1, 2, 10, 200]), 2)),
                "semantics": rand_semantics(rng, 2), "own_ax": rng.random() < 0.3}
        if dc == "array":
            case["dc_array"] = nprng.uniform(0, 20, (rng.choice([1, 2, 3, 10]), 2))
        if dc == "true" and len(coords) < 3:
            case["dc"] = "none"
        case["sample_type"] = rng.choice(["ndarray", "ndarray", "list", "dataframe"])
        if rng.random() < 0.12:
            case["ints"] = True
            case["coords"] = np.round(np.asarray(coords) * (1 if np.abs(coords).max() > 5 else 10)) + 0.0   # + 0.0: no negative zeros
            if dc == "array":
                case["dc_array"] = np.round(case["dc_array"]) + 0.0
        plot_cases.append(case)
    for kind, m, c in reals:
        for dc in ("true", "array", "none"):
            case = {"function": "plot_2D_contour", "kind": kind, "coords": float_coords(c), "contour": c, "swap": rng.random() < 0.5,
                    "object_cells": c.coordinates.dtype == object, "dc": dc, "sample": m.draw_sample(rng.choice([50, 300]), random_state=ctx.np_rng(77)), "semantics": None, "own_ax": False}
            if dc == "array":
                case["dc_array"] = nprng.uniform(1, 12, (rng.choice([2, 5, 10]), 2))
            plot_cases.append(case)
    plot_res = [run_plot(vp, vu, plt, c) for c in plot_cases]
    plot_or = [oracle_plot(c, r) for c, r in zip(plot_cases, plot_res)]
    for c in plot_cases:
        k = "plot/%s/dc=%s/swap=%s/sample=%s" % (c["kind"] if c["kind"] != "synthetic" else "synthetic", c["dc"], c["swap"], c["sample"] is not None)
        dist[k] = dist.get(k, 0) + 1
        ctx.count(("plot", np.asarray(c["coords"]).tolist(), c["dc"], c["swap"], None if c["sample"] is None else np.asarray(c["sample"]).tolist()),
                  len(c["coords"]) >= 3 and (c["swap"] or c["dc"] != "none" or c["sample"] is not None))

    # ---- histories of plots: the same contour / sample ndarray / design-condition array plotted several times
    hist_plot = None
    n_hp = ctx.n(30, 300)
    for h in range(n_hp):
        coords = rand_coords(rng, nprng, 2, n=rng.choice([3, 4, 7, 30]))
        dc = rng.choice(["none", "array", "array", "true"])
        case = {"function": "plot_2D_contour", "kind": "history", "coords": coords, "swap": True, "dc": dc,
                "sample": nprng.uniform(0, 20, (rng.choice([1, 2, 10, 200]), 2)) if rng.random() < 0.85 else None,
                "semantics": None, "own_ax": False, "sample_type": rng.choice(["ndarray", "ndarray", "ndarray", "list", "dataframe"])}
        if dc == "array":
            case["dc_array"] = nprng.uniform(0, 20, (rng.choice([1, 2, 3, 10]), 2))
        swaps = [True, True] if h % 3 == 0 else [rng.random() < 0.6 for _ in range(rng.randrange(2, 5))]
        ctx.count(("plot-history", np.asarray(coords).tolist(), dc, str(swaps)), any(swaps))
        f = plot_history(vp, vu, plt, case, swaps)
        if f is not None and hist_plot is None:
            hist_plot = (case, swaps, f)
    ctx.notes["plot_histories_on_the_same_objects"] = n_hp
    if hist_plot is not None:
        case, swaps, (j, sig, msg) = hist_plot
        small, sw = _clean_case(case), swaps[:j + 1]
        for i in range(j):                      # the shortest failing history: one earlier plot + the failing one
            f2 = plot_history(vp, vu, plt, small, [swaps[i], swaps[j]])
            if f2 is not None and f2[1].get("clause") == sig.get("clause"):
                sw, (j, sig, msg) = [swaps[i], swaps[j]], f2
                break
        for key_, val in (("dc", "none"), ("coords", np.asarray(small["coords"])[:3].tolist()),
                          ("sample", np.asarray(small["sample"])[:2].tolist() if small.get("sample") is not None else None)):
            c2 = dict(small, **{key_: val})
            f2 = plot_history(vp, vu, plt, c2, sw)
            if f2 is not None and f2[1].get("clause") == sig.get("clause"):
                small, (j, sig, msg) = c2, f2
        ctx.violation(sig, "plot_2D_contour, the same contour (%d points), sample (%s, %s rows) and design_conditions (%s) plotted %d times: %s" % (
            len(small["coords"]), small.get("sample_type"), "no" if small.get("sample") is None else len(small["sample"]), small["dc"], len(sw), msg),
            dict(small, swap_history=sw))

    # ---- reader cases
    sizes = [1, 2, 3, 5, 10, 37, 100, 400, 1000] * ctx.n(6, 30) + [10000] * ctx.n(3, 12)
    read_cases = [dict(gen_dataset(rng, nprng, n), function="read_ec_benchmark_dataset") for n in sizes]
    # a few paths only: successive, different files are written to the same path and read after each write
    n_paths = 7
    read_res = [run_read(vu, c, k % n_paths) for k, c in enumerate(read_cases)]
    read_or = [oracle_read(c, r) for c, r in zip(read_cases, read_res)]
    for c in read_cases:
        k = "read/rows=%d/cols=%d/sep=%r" % (c["n"], len(c["fmts"]), c["sep"])
        dist[k] = dist.get(k, 0) + 1
        ctx.count(("read", c["content"][:2000], c["n"]), c["n"] >= 2)
    # the shipped ec-benchmark files against an independent line-based parse (all rows, order, index, values)
    ddir = os.path.join(vlib.REPO, "datasets")
    names = sorted(f for f in os.listdir(ddir) if f.startswith("ec-benchmark_dataset_") and os.path.getsize(os.path.join(ddir, f)) > 0) \
        if os.path.isdir(ddir) else []
    if ctx.quick():
        names = [f for f in names if "1year" in f]
    ship_v = None
    ctx.notes["shipped_files_read"] = []
    for shipped in names:
        sp = os.path.join(ddir, shipped)
        what = None
        try:
            df = vu.read_ec_benchmark_dataset(sp)
            with open(sp) as f:
                raw = [l for l in f.read().split("\n") if l.strip()]
            body = [[x.strip() for x in l.split(";")] for l in raw[1:]]
            hdr = [x.strip() for x in raw[0].split(";")]
            if list(df.columns) != hdr[1:]:
                what = "columns %r, header says %r" % (list(df.columns), hdr[1:])
            elif len(df) != len(body):
                what = "%d rows returned, the file has %d data rows" % (len(df), len(body))
            elif [t.strftime("%Y-%m-%d-%H") for t in df.index] != [b[0] for b in body]:
                what = "index differs from the time stamps of the file"
            elif not np.array_equal(np.asarray(df.values, dtype=float), np.array([[float(x) for x in b[1:]] for b in body])):
                what = "values differ from the file's fields"
        except Exception as e:  # noqa
            what = "raises %s" % type(e).__name__
        ctx.count(("shipped", shipped), True)
        ctx.notes["shipped_files_read"].append(shipped)
        if what and ship_v is None:
            ship_v = ({"function": "read_ec_benchmark_dataset", "clause": "shipped-file"}, "%s: %s" % (shipped, what))
    # file_path=None is documented to read the example dataset A
    pa = os.path.join(ddir, "ec-benchmark_dataset_A.txt")
    if os.path.exists(pa) and os.path.getsize(pa) > 0 and ship_v is None:
        try:
            d0, dA = vu.read_ec_benchmark_dataset(), vu.read_ec_benchmark_dataset(pa)
            if not (d0.equals(dA) and list(d0.columns) == list(dA.columns)):
                ship_v = ({"function": "read_ec_benchmark_dataset", "clause": "default-path"}, "file_path=None does not return the example dataset A")
        except Exception as e:  # noqa
            ship_v = ({"function": "read_ec_benchmark_dataset", "clause": "default-path"}, "file_path=None raises %s" % type(e).__name__)
        ctx.count(("shipped", "default"), True)
    ctx.notes["input_distribution"] = dist
    ctx.notes["unjudgeable"] = {"plot_cases_where_calculate_design_conditions_raises(C17)": sum(1 for r in plot_res if "skip" in r)}

    # ---- correspondence
    entries = []   # (kind, index, coq text)
    for i, (c, r) in enumerate(zip(save_cases, save_res)):
        if "err" not in r:
            entries.append(("save", i, coq_save(c, r)))
    for i, (c, r) in enumerate(zip(plot_cases, plot_res)):
        if "err" not in r and "skip" not in r and not (c["dc"] == "true" and r.get("computed") is None):
            entries.append(("plot", i, coq_plot(c, r)))
    coq_rows_budget = 1500   # larger files: property oracle only (a 10^4-row file is a 1 MB Coq term)
    for i, (c, r) in enumerate(zip(read_cases, read_res)):
        if "err" not in r and c["n"] <= coq_rows_budget and "%r" not in c["fmts"]:
            entries.append(("read", i, coq_read(c, r)))
    nshards = max(12, len(entries) // 40)
    items, index = [], []
    for s in range(nshards):
        part = entries[s::nshards]
        if not part:
            continue
        body = PRELUDE + "Definition results : list Z := [\n" + ";\n".join(t for _, _, t in part) + "].\nEval vm_compute in results.\n"
        items.append(("cases_%d" % s, body))
        index.append(part)
    outs = ctx.coq_eval_many(items, jobs=12)
    names = {1: "created path", 2: "file bytes", 3: "contour line (Line2D.get_xydata)", 4: "point collections (PathCollection.get_offsets)",
             5: "column names", 6: "number of rows", 7: "a time stamp", 8: "a value"}
    ncmp, nmis = 0, 0
    suspects = {"save": [], "plot": [], "read": []}
    for o, part in zip(outs, index):
        if o is None:
            continue
        codes = vlib.parse_term(o[0])
        for code, (kind, i, _) in zip(codes, part):
            ncmp += 1
            if code != 0:
                nmis += 1
                ctx.mismatch("%s case %d" % (kind, i), "model and implementation differ in: %s" % names.get(code, code))
                suspects[kind].append(i)
    raised = [("save", i) for i, r in enumerate(save_res) if "err" in r] + [("plot", i) for i, r in enumerate(plot_res) if "err" in r] + \
             [("read", i) for i, r in enumerate(read_res) if "err" in r]
    for kind, i in raised[:3]:
        ctx.mismatch("%s case %d" % (kind, i), "implementation raised, the model returns a result")
    ctx.cov["programs"] = 3
    ctx.notes["correspondence"] = {"cases_compared": ncmp, "mismatches": nmis, "implementation_raised": len(raised),
                                   "reader_cases_by_oracle_only(rows > budget or full-precision column)": sum(1 for c in read_cases if c["n"] > coq_rows_budget or "%r" in c["fmts"])}

    # ---- search: concrete failing inputs
    seen = set()

    def key(s):
        return tuple(sorted((k, str(v)) for k, v in s.items()))

    for i in suspects["save"] + list(range(len(save_cases))):
        s, msg = save_or[i]
        if s is None or key(s) in seen:
            continue
        seen.add(key(s))
        c = save_cases[i]
        small = dict(_clean_case(c), coords=np.asarray(c["coords"])[:3].tolist())
        s2, msg2 = oracle_save(small, run_save(vc, small, 9999))
        if s2 is None or s2.get("clause") != s.get("clause"):
            small, s2, msg2 = _clean_case(c), s, msg
        ctx.violation(s2, "save_contour_coordinates(path=%r, semantics=%r, %d points): %s" % (small["path"], small["semantics"], len(small["coords"]), msg2), small)
    for i in suspects["plot"] + list(range(len(plot_cases))):
        s, msg = plot_or[i]
        if s is None or key(s) in seen:
            continue
        seen.add(key(s))
        small = shrink_plot(vp, vu, plt, _clean_case(plot_cases[i]), s)
        s2, msg2 = oracle_plot(small, run_plot(vp, vu, plt, small))
        if s2 is None:
            small, s2, msg2 = _clean_case(plot_cases[i]), s, msg
        ctx.violation(s2, "plot_2D_contour(coords=%r, design_conditions=%s, sample=%s, swap_axis=%r): %s" % (
            small["coords"] if len(small["coords"]) <= 6 else "<%d points>" % len(small["coords"]),
            small.get("dc_array") if small["dc"] == "array" else small["dc"], "None" if small["sample"] is None else "<array>", small["swap"], msg2), small)
    for i in suspects["read"] + list(range(len(read_cases))):
        s, msg = read_or[i]
        if s is None or key(s) in seen:
            continue
        c = read_cases[i]
        alone, _ = oracle_read(c, run_read(vu, c, "alone%d" % i))
        if alone is None and i >= n_paths:
            # the file reads correctly on a fresh path: the failure depends on what was at that path before
            s = dict(s, history="same path rewritten")
            if key(s) in seen:
                continue
            seen.add(key(s))
            tiny = [dict(gen_dataset(rng, nprng, n), function="read_ec_benchmark_dataset") for n in (1, 3)]
            hist = None
            for cand, nm in ((tiny, "hist_a"), ([read_cases[i - n_paths], c], "hist_b"), (read_cases[i % n_paths:i + 1:n_paths], "hist_c")):
                f = history_fails(vu, cand, nm)
                if f is not None and f[0] > 0:
                    hist = (cand[:f[0] + 1], f)
                    break
            if hist is None:
                hist = ([read_cases[i - n_paths], c], (1, s, msg))
            cand, (j, s2, msg2) = hist
            ctx.violation(dict(s2, history="same path rewritten"),
                          "read_ec_benchmark_dataset: files of %s rows written one after the other to the same path and read after each write; read %d: %s" % (
                              [x["n"] for x in cand], j + 1, msg2),
                          {"function": c["function"], "history": [_compact_read(x) for x in cand]})
            continue
        seen.add(key(s))
        # shrink to one data row when a single row already shows the failure
        lines = c["content"].split("\n")
        for r_i in range(min(c["n"], 1500)):
            one = dict(c, content=lines[0] + "\n" + lines[1 + r_i] + "\n", ts=[c["ts"][r_i]], cells=[c["cells"][r_i]], n=1)
            s1, msg1 = oracle_read(one, run_read(vu, one, "one"))
            if s1 is not None and s1.get("clause") == s.get("clause"):
                c, s, msg = one, s1, msg1
                break
        if c["n"] > 2:
            # ... or to two data rows (e.g. two rows with the same time stamp)
            first = {}
            pairs = []
            for r_i, t in enumerate(c["ts"][:3000]):
                if t in first:
                    pairs.append((first[t], r_i))
                else:
                    first[t] = r_i
            pairs = pairs[:40] + [(r_i, r_i + 1) for r_i in range(min(c["n"], 200) - 1)]
            for a_, b_ in pairs:
                two = dict(c, content="\n".join([lines[0], lines[1 + a_], lines[1 + b_]]) + "\n", ts=[c["ts"][a_], c["ts"][b_]],
                           cells=[c["cells"][a_], c["cells"][b_]], n=2)
                s2_, msg2_ = oracle_read(two, run_read(vu, two, "two"))
                if s2_ is not None and s2_.get("clause") == s.get("clause"):
                    c, s, msg = two, s2_, msg2_
                    break
        rep = {"function": c["function"], "content": c["content"] if c["n"] <= 50 else "\n".join(c["content"].split("\n")[:51]) + "\n",
               "names": c["names"], "fmts": c["fmts"], "ts": [t.strftime("%Y-%m-%d-%H") for t in c["ts"][:50]], "cells": c["cells"][:50], "n": min(c["n"], 50), "sep": c["sep"]}
        ctx.violation(s, "read_ec_benchmark_dataset(file of %d rows, separator %r): %s" % (c["n"], c["sep"], msg), rep)
    if ship_v:
        ctx.violation(ship_v[0], ship_v[1], {"function": "shipped"})
    try:
        other, n_eval = check_other_plots(ctx, virocon, vp, plt, rng)
    except Exception as e:  # noqa
        import traceback
        other, n_eval = [({"function": "other-plots", "clause": "raises", "exception": type(e).__name__}, "a plot function raised: %s" % traceback.format_exc()[-600:])], 0
    ctx.cov["evaluations"] += n_eval
    ctx.notes["other_plot_functions_axes_checked"] = n_eval
    for s, msg in other:
        if key(s) not in seen:
            seen.add(key(s))
            ctx.violation(s, msg, {"function": "other-plots"})
    shutil.rmtree(OUT, ignore_errors=True)

    for c, r in ((save_cases[0], save_res[0]),):
        ctx.sample({"case": {"path": c["path"], "semantics": c["semantics"], "n_points": len(c["coords"])},
                    "created": r.get("created"), "first_bytes": r.get("bytes", b"")[:120].decode("utf-8", "replace")})
    ctx.sample({"case": {k: (np.asarray(v)[:3].tolist() if isinstance(v, np.ndarray) else v) for k, v in plot_cases[0].items() if k != "contour"},
                "line_first_points": plot_res[0].get("line", np.zeros((0, 2)))[:3].tolist() if "err" not in plot_res[0] else plot_res[0]})
    ctx.sample({"reader_file_head": read_cases[4]["content"][:200], "rows": read_cases[4]["n"]})
    ctx.cov["rule"] = ("save: synthetic coordinate arrays (1-4 columns, 1-180 rows, wide magnitudes, negative values, 7th-decimal halves) and contours of all six classes "
                       "(2-D) plus a 3-D IFORM contour, semantics None / predefined / random strings (ASCII punctuation, UTF-8 letters, sometimes ';'), paths with and without "
                       "extension, dotted directories, hidden names; plot_2D_contour: the same coordinates, swap_axis both ways, design_conditions None / True / ndarray, sample "
                       "None / array, own axes or not; reader: benchmark-format files of 1..1e4 rows, 1-4 columns, separators ';' '; ' ';  ', ordered / gapped / shuffled time stamps, "
                       "every file is written to one of 7 paths, so each path is rewritten with different content and read after each write; plus a shipped dataset. non-trivial = >= 2 rows (save, reader) or a polygon with swap / design conditions / sample (plot); distinct = hash of the inputs")
    ctx.cov["trusted_base"] = ["Coq 8.16.1 kernel + vm_compute (strings as byte lists, primitive floats compared by bits)",
                               "harness tools/harness/c20.py (generators, literal printers, reading artists back through matplotlib's public getters)",
                               "printf '%1.6f' (Python's % operator supplies the formatted fields to the model): contract |parse(fmt v) - v| <= 5e-7, validated on every field by the oracle",
                               "numpy.savetxt, matplotlib (Agg), pandas.read_csv / to_datetime: engines, not modelled; their observable results are what the model is compared with",
                               "the other plot functions are tied by the Python oracle only (curve / scatter data read back and compared exactly with the model's own values)"]
    ctx.assumptions += ["semantics strings contain no newline (a newline in a name makes the header span two lines)",
                        "coordinates are finite for the 6-decimal clause (nan/inf are written as 'nan'/'inf')",
                        "dataset files: fields contain no ';' and no quoting; numbers written with at most 6 decimals (pandas' fast float parser is exact there)"]
