#!/usr/bin/env python3
"""seedimport.py <src-dir> <k> <seed-id> <property> "<needs>" -- confirm a seeded change (demo passes on the unchanged
tree, fails with the change, the existing tests pass with it) in a scratch worktree and store it under seeded/<seed-id>/."""
import json, os, shutil, subprocess, sys, time
V = os.path.dirname(os.path.dirname(os.path.abspath(__file__)))
src, k, sid, prop, needs = sys.argv[1:6]
patch = os.path.join(src, "mutation_%s.diff" % k)
demo = os.path.join(src, "demo_%s.py" % k)
wt = "/tmp/imp-%d" % os.getpid()
subprocess.run(["git", "-C", "/repo", "worktree", "add", "--detach", wt, "HEAD", "-q"], check=True)
env = dict(os.environ, PYTHONPATH=wt, MPLBACKEND="Agg", PYTHONHASHSEED="0")
ran = []
try:
    shutil.copy(demo, os.path.join(wt, "_demo.py"))
    r0 = subprocess.run(["/venv/bin/python", "-W", "ignore", "_demo.py"], cwd=wt, env=env, capture_output=True, text=True, timeout=3000)
    ran.append("demo on unchanged tree: exit %d" % r0.returncode)
    a = subprocess.run(["git", "-C", wt, "apply", os.path.abspath(patch)], capture_output=True, text=True)
    if a.returncode != 0:
        print("patch does not apply to current HEAD:", a.stderr[:300]); sys.exit(2)
    r1 = subprocess.run(["/venv/bin/python", "-W", "ignore", "_demo.py"], cwd=wt, env=env, capture_output=True, text=True, timeout=3000)
    ran.append("demo with the change: exit %d" % r1.returncode)
    t0 = time.time()
    rt = subprocess.run(["/venv/bin/python", "-m", "pytest", "-q", "-p", "no:cacheprovider", "-n", "6", "--timeout=900", "tests/"],
                        cwd=wt, env=env, capture_output=True, text=True, timeout=3000)
    tail = [l for l in rt.stdout.splitlines() if "passed" in l or "failed" in l][-1:]
    failed = [l for l in rt.stdout.splitlines() if l.startswith("FAILED")]
    ran.append("pytest tests/ with the change: %s ; FAILED lines: %s" % (tail, failed))
    ok = r0.returncode == 0 and r1.returncode != 0 and all("test_v_hs_hd_contour" in f for f in failed)
    print("\n".join(ran)); print("CONFIRMED" if ok else "NOT CONFIRMED")
    if ok:
        d = os.path.join(V, "seeded", sid)
        os.makedirs(d, exist_ok=True)
        shutil.copy(patch, os.path.join(d, "patch.diff")); shutil.copy(demo, os.path.join(d, "demo.py"))
        json.dump({"id": sid, "property": prop, "needs": needs, "ran": ran,
                   "demo_output_with_change": (r1.stdout + r1.stderr)[-600:]}, open(os.path.join(d, "meta.json"), "w"), indent=1)
finally:
    subprocess.run(["git", "-C", "/repo", "worktree", "remove", "--force", wt])
