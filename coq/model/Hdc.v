(* Executable model of virocon/contours.py HighestDensityContour:
     _check_grid, the grid of _compute, cell_averaged_pdf, cell_averaged_joint_pdf,
     cumsum_biggest_until, the RuntimeWarning fallback, fm,
     boundary = HDR - binary_erosion(HDR, 3^n structure), per-label coordinate sets.
   Generic parts (Sections) are the objects of the C02 / C15 theorems; the binary64 instances at the
   end are what the correspondence check runs with vm_compute against the real code.
   No proofs in this file. *)
From Coq Require Import List Bool Arith ZArith PrimFloat.
From V.base Require Import FloatBits.
Import ListNotations.

(* ------------------------------------------------------------------ row-major n-D arrays *)
Definition prod (sh : list nat) : nat := fold_right Nat.mul 1 sh.

(* np.ravel_multi_index / C order *)
Fixpoint ravel (sh idx : list nat) : nat :=
  match sh, idx with
  | _ :: sh', i :: idx' => i * prod sh' + ravel sh' idx'
  | _, _ => 0
  end.

(* np.unravel_index *)
Fixpoint unravel (sh : list nat) (k : nat) : list nat :=
  match sh with [] => [] | _ :: sh' => (k / prod sh') :: unravel sh' (k mod prod sh') end.

(* all multi-indices of a shape in C (row-major) order *)
Fixpoint all_idx (sh : list nat) : list (list nat) :=
  match sh with
  | [] => [[]]
  | n :: sh' => flat_map (fun i => map (cons i) (all_idx sh')) (seq 0 n)
  end.

Definition in_shape (sh idx : list nat) : Prop := Forall2 (fun i n => i < n) idx sh.

Record arr (T : Type) := mkarr { a_shape : list nat; a_data : list T }.
Arguments mkarr {T}. Arguments a_shape {T}. Arguments a_data {T}.

(* numpy broadcasting of equal-rank arrays: an axis of length 1 is read at position 0 *)
Definition clip (sh idx : list nat) : list nat :=
  map (fun p => if fst p =? 1 then 0 else snd p) (combine sh idx).
Definition aget {T} (d : T) (a : arr T) (idx : list nat) : T :=
  nth (ravel (a_shape a) (clip (a_shape a) idx)) (a_data a) d.
Definition bshape (s1 s2 : list nat) : list nat := map (fun p => Nat.max (fst p) (snd p)) (combine s1 s2).
Definition bmul {T} (mul : T -> T -> T) (d : T) (a b : arr T) : arr T :=
  let sh := bshape (a_shape a) (a_shape b) in
  mkarr sh (map (fun idx => mul (aget d a idx) (aget d b idx)) (all_idx sh)).

Fixpoint map2 {A B C} (f : A -> B -> C) (l : list A) (m : list B) : list C :=
  match l, m with x :: l', y :: m' => f x y :: map2 f l' m' | _, _ => [] end.

Definition memZ (k : Z) (l : list Z) : bool := existsb (Z.eqb k) l.
Definition zrange (n : nat) : list Z := map Z.of_nat (seq 0 n).

Inductive cbu_result (T : Type) :=
| CbuNan                                   (* ValueError: array contains nan *)
| CbuIndexError                            (* empty array, or nothing selected: summed_flat_inds[-1] *)
| CbuOk (sel : list Z) (last : T) (warn : bool).
Arguments CbuNan {T}. Arguments CbuIndexError {T}. Arguments CbuOk {T}.

Inductive hdr_result (T : Type) :=
| HdrNan | HdrIndexError
| HdrOk (mask : list bool) (prob_m : T) (warned : bool).
Arguments HdrNan {T}. Arguments HdrIndexError {T}. Arguments HdrOk {T}.

Section Num.
  Variable T : Type.
  Variables zero one half : T.
  Variables add sub mul div : T -> T -> T.
  Variables leb ltb : T -> T -> bool.
  Variable isnan : T -> bool.

  (* ---------------------------------------------------------------- cumsum_biggest_until *)
  (* np.argsort(kind="mergesort")[::-1]: stable ascending sort of (value, flat index), reversed *)
  Fixpoint insert (x : T * Z) (l : list (T * Z)) : list (T * Z) :=
    match l with
    | [] => [x]
    | y :: l' => if leb (fst x) (fst y) then x :: l else y :: insert x l'
    end.
  Fixpoint isort (l : list (T * Z)) : list (T * Z) :=
    match l with [] => [] | x :: l' => insert x (isort l') end.
  Fixpoint index_from (k : Z) (l : list T) : list (T * Z) :=
    match l with [] => [] | x :: l' => (x, k) :: index_from (k + 1)%Z l' end.
  Definition argsort_desc (a : list T) : list (T * Z) := rev (isort (index_from 0%Z a)).

  (* np.cumsum: sequential; entries are (cumulative sum, (value, flat index)) *)
  Fixpoint cumsum_from (acc : T) (l : list (T * Z)) : list (T * (T * Z)) :=
    match l with [] => [] | x :: l' => let a := add acc (fst x) in (a, x) :: cumsum_from a l' end.

  (* selection order is kept: sort_inds[cum_sum <= limit] *)
  Definition cums (a : list T) : list (T * (T * Z)) := cumsum_from zero (argsort_desc a).
  Definition selected (a : list T) (lim : T) : list (T * (T * Z)) :=
    filter (fun c => leb (fst c) lim) (cums a).

  Definition cumsum_biggest_until (a : list T) (lim : T) : cbu_result T :=
    if existsb isnan a then CbuNan else
    let cs := cums a in
    match rev cs with
    | [] => CbuIndexError
    | (tot, _) :: _ =>
        let sel := filter (fun c => leb (fst c) lim) cs in
        match rev sel with
        | [] => CbuIndexError
        | (_, (v, _)) :: _ => CbuOk (map (fun c => snd (snd c)) sel) v (ltb tot lim)
        end
    end.

  (* summed_fields, flat (row-major) view: entry k is set iff k was selected *)
  Definition mask_of (n : nat) (sel : list Z) : list bool := map (fun k => memZ k sel) (zrange n).

  (* the try/except around cumsum_biggest_until in _compute: a RuntimeWarning turns into
     HDR = all ones, prob_m = 0, and the warning is raised again (flag) *)
  Definition hdr_select (cell_prob : list T) (lim : T) : hdr_result T :=
    match cumsum_biggest_until cell_prob lim with
    | CbuNan => HdrNan
    | CbuIndexError => HdrIndexError
    | CbuOk sel last warn =>
        if warn then HdrOk (map (fun _ => true) cell_prob) zero true
        else HdrOk (mask_of (length cell_prob) sel) last false
    end.

  (* cell_prob = f; for delta in deltas: cell_prob *= delta     fm = prob_m; for delta in deltas: fm /= delta *)
  Definition scale_cells (f : list T) (deltas : list T) : list T :=
    fold_left (fun data dl => map (fun v => mul v dl) data) deltas f.
  Definition fm_of (prob_m : T) (deltas : list T) : T := fold_left div deltas prob_m.

  (* ---------------------------------------------------------------- cell averaged pdfs *)
  (* the distributions' cdf as it is called: one vectorised call per (distribution, given) *)
  Variable cdfv : nat -> option T -> list T -> list T.

  Definition set_nth {A} (k : nat) (v : A) (l : list A) : list A :=
    map (fun p => if fst p =? k then v else snd p) (combine (seq 0 (length l)) l).

  Definition dx_of (c : list T) : T := sub (nth 1 c zero) (nth 0 c zero).
  Definition lower_of (c : list T) : list T := map (fun x => sub x (mul half (dx_of c))) c.
  Definition upper_of (c : list T) : list T := map (fun x => add x (mul half (dx_of c))) c.

  (* cell_averaged_pdf(dist_idx, coords): buffer (n_cond, n_dist) filled row by row, reshaped row-major
     to fbar_out_shape, divided by dx *)
  Definition cell_averaged_pdf (cond : list (option nat)) (coords : list (list T)) (d : nat) : arr T :=
    let n := length coords in
    let c := nth d coords [] in
    let dx := dx_of c in
    let ones := repeat 1 n in
    match nth d cond None with
    | None =>
        let fbar := map2 sub (cdfv d None (upper_of c)) (cdfv d None (lower_of c)) in
        mkarr (set_nth d (length c) ones) (map (fun v => div v dx) fbar)
    | Some ci =>
        let cc := nth ci coords [] in
        let fbar := flat_map (fun g => map2 sub (cdfv d (Some g) (upper_of c)) (cdfv d (Some g) (lower_of c))) cc in
        mkarr (set_nth ci (length cc) (set_nth d (length c) ones)) (map (fun v => div v dx) fbar)
    end.

  (* cell_averaged_joint_pdf: fbar = ones((1,)*n); for d: fbar = np.multiply(fbar, cell_averaged_pdf(d)) *)
  Definition cell_averaged_joint_pdf (cond : list (option nat)) (coords : list (list T)) : arr T :=
    let n := length coords in
    fold_left (fun acc d => bmul mul zero acc (cell_averaged_pdf cond coords d)) (seq 0 n) (mkarr (repeat 1 n) [one]).

  (* _compute up to HDR and fm, from the grid *)
  Definition hdc_region (cond : list (option nat)) (coords : list (list T)) (deltas : list T) (alpha : T)
    : hdr_result T * T :=
    (* cell_averaged_pdf reads coords[d][1]: an axis with fewer than two cells raises IndexError *)
    if existsb (fun c => length c <? 2) coords then (HdrIndexError, zero) else
    let f := cell_averaged_joint_pdf cond coords in
    if existsb isnan (a_data f) then (HdrNan, zero) else
    let r := hdr_select (scale_cells (a_data f) deltas) (sub one alpha) in
    (r, match r with HdrOk _ pm _ => fm_of pm deltas | _ => zero end).
End Num.

(* ------------------------------------------------------------------ boundary cells (C15) *)
(* one axis of a neighbour offset: 0 = -1, 1 = same, 2 = +1; None = outside the grid *)
Definition shift1 (n i o : nat) : option nat :=
  match o with
  | 0 => match i with 0 => None | S i' => Some i' end
  | 1 => Some i
  | _ => if S i <? n then Some (S i) else None
  end.
Fixpoint neighbour (sh idx off : list nat) : option (list nat) :=
  match sh, idx, off with
  | n :: sh', i :: idx', o :: off' =>
      match shift1 n i o, neighbour sh' idx' off' with
      | Some j, Some r => Some (j :: r)
      | _, _ => None
      end
  | [], [], [] => Some []
  | _, _, _ => None
  end.
(* the full 3^n structuring element np.ones((3,)*n) *)
Definition offsets (n : nat) : list (list nat) := all_idx (repeat 3 n).
Definition centre (n : nat) : list nat := repeat 1 n.

Definition mget (sh : list nat) (m : list bool) (idx : list nat) : bool := nth (ravel sh idx) m false.

(* scipy.ndimage.binary_erosion(HDR, structure=ones, border_value=0) at one cell *)
Definition erode_at (sh : list nat) (m : list bool) (idx : list nat) : bool :=
  forallb (fun off => match neighbour sh idx off with None => false | Some j => mget sh m j end)
          (offsets (length sh)).
Definition erode (sh : list nat) (m : list bool) : list bool := map (erode_at sh m) (all_idx sh).
(* HDC = HDR - binary_erosion(HDR) *)
Definition boundary_at (sh : list nat) (m : list bool) (idx : list nat) : bool :=
  mget sh m idx && negb (erode_at sh m idx).
Definition boundary (sh : list nat) (m : list bool) : list bool := map (boundary_at sh m) (all_idx sh).

(* np.nonzero(labeled_array == i) in C order, one index set per label 1..n_modes; labels are the
   oracle's (scipy.ndimage.label) flat label array *)
Definition region_cells (labels : list nat) (i : nat) : list nat :=
  filter (fun k => nth k labels 0 =? i) (seq 0 (length labels)).
Definition regions (labels : list nat) (n_modes : nat) : list (list nat) :=
  map (region_cells labels) (seq 1 n_modes).

(* coordinates of a cell: cell_center_coordinates[d][idx_d] *)
Definition centre_of {T} (d0 : T) (coords : list (list T)) (idx : list nat) : list T :=
  map2 (fun c j => nth j c d0) coords idx.
Definition region_coords {T} (d0 : T) (sh : list nat) (coords : list (list T)) (cells : list nat) : list (list T) :=
  map (fun k => centre_of d0 coords (unravel sh k)) cells.

(* what _compute stores in self.coordinates *)
Inductive hdc_coords (T : Type) :=
| SortedLine (pts : list (list T))     (* one region, 2-D: handed to sort_points_to_form_continuous_line *)
| OneRegion (pts : list (list T))      (* one region, n-D *)
| ManyRegions (sets : list (list (list T))).
Arguments SortedLine {T}. Arguments OneRegion {T}. Arguments ManyRegions {T}.

Definition dispatch {T} (n_dim : nat) (sets : list (list (list T))) : hdc_coords T :=
  match sets with
  | [pts] => if n_dim =? 2 then SortedLine pts else OneRegion pts
  | _ => ManyRegions sets
  end.

(* ------------------------------------------------------------------ binary64 instance *)
Local Open Scope float_scope.

Definition fisnan (x : float) : bool := negb (PrimFloat.eqb x x).

Definition f_cbu := cumsum_biggest_until float 0 PrimFloat.add PrimFloat.leb PrimFloat.ltb fisnan.
Definition f_hdr_select := hdr_select float 0 PrimFloat.add PrimFloat.leb PrimFloat.ltb fisnan.
Definition f_joint := cell_averaged_joint_pdf float 0 1 0.5 PrimFloat.add PrimFloat.sub PrimFloat.mul PrimFloat.div.
Definition f_region := hdc_region float 0 1 0.5 PrimFloat.add PrimFloat.sub PrimFloat.mul PrimFloat.div
                                  PrimFloat.leb PrimFloat.ltb fisnan.

(* _check_grid + the grid of _compute.  limits: None = default (0, marginal_icdf(1 - 0.2^n*alpha, d)) with the
   Monte-Carlo / icdf values supplied as oracle values; deltas: None = 0.25 % of the range *)
Inductive deltas_arg := DNone | DScalar (d : float) | DList (l : list float).

Definition grid_limits (n_dim : nat) (limits : option (list (float * float))) (marg : list float)
  : list (float * float) :=
  match limits with Some l => l | None => map (fun m => (0, m)) (firstn n_dim marg) end.
Definition grid_deltas (n_dim : nat) (lims : list (float * float)) (deltas : deltas_arg) : list float :=
  match deltas with
  | DNone => map (fun l => (snd l - fst l) * 0x1.47ae147ae147bp-9) lims    (* 0.0025 *)
  | DScalar d => repeat d n_dim
  | DList l => l
  end.
(* Python min / max of a 2-tuple *)
Definition pymin (a b : float) : float := if PrimFloat.ltb b a then b else a.
Definition pymax (a b : float) : float := if PrimFloat.ltb a b then b else a.
Definition grid_coords (lims : list (float * float)) (deltas : list float) : list (list float) :=
  map2 (fun l dl => arange (pymin (fst l) (snd l)) (pymax (fst l) (snd l) + dl) dl) lims deltas.
