(* Hand model of ScipyDistribution (virocon/distributions.py): parameter merging of _get_scipy_parameters and the
   fit dispatch of _fit_mle.  Tied to the code by the correspondence run in tools/harness/c05.py (scipydist cases). *)
From Coq Require Import List String Bool Arith.
From V.base Require Import Num.
Import ListNotations.
Set Implicit Arguments.

Section SD.
  Variable T : Type.
  (* positional overrides: None keeps the stored value, surplus positional values are ignored by zip-like enumerate *)
  Fixpoint merge_pos (stored : list T) (args : list (option T)) : list T :=
    match stored, args with
    | s :: st, a :: ar => (match a with Some v => v | None => s end) :: merge_pos st ar
    | st, [] => st
    | [], _ :: _ => []
    end.
  Fixpoint index_of (n : string) (names : list string) : option nat :=
    match names with [] => None | x :: l => if String.eqb n x then Some 0 else option_map S (index_of n l) end.
  Fixpoint set_nth (i : nat) (v : T) (l : list T) : list T :=
    match l, i with [], _ => [] | _ :: l', O => v :: l' | x :: l', S i' => x :: set_nth i' v l' end.
  (* keyword overrides: by parameter name, unknown names raise ValueError *)
  Fixpoint merge_kw (names : list string) (vals : list T) (kw : list (string * T)) : res (list T) :=
    match kw with
    | [] => Ok vals
    | (k, v) :: kw' => match index_of k names with
                       | None => Err "ValueError"%string
                       | Some i => merge_kw names (set_nth i v vals) kw'
                       end
    end.
  Definition sd_params (names : list string) (stored : list T) (args : list (option T)) (kw : list (string * T)) : res (list T) :=
    merge_kw names (merge_pos stored args) kw.

  (* _fit_mle: f<name> keywords for the fixed parameters; nothing to do iff EVERY parameter is fixed *)
  Definition sd_fkw (names : list string) (fixed : list (option T)) : list (string * T) :=
    flat_map (fun nf => match snd nf with Some v => [(("f" ++ fst nf)%string, v)] | None => [] end) (combine names fixed).
  Variable dflt : T.   (* never read: the parameter list always ends with loc, scale *)
  Definition sd_fit (fit : fitcall T -> list T) (fam : string) (names : list string) (stored : list T) (fixed : list (option T)) : list T :=
    let fkw := sd_fkw names fixed in
    if Nat.eqb (List.length fkw) (List.length names) then stored
    else let nshape := List.length names - 2 in
         fit (mkfit fam (firstn nshape stored)
                    ([("loc"%string, nth nshape stored dflt); ("scale"%string, nth (S nshape) stored dflt)] ++ fkw)).
End SD.
