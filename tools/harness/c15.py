"""C15 -- HDC coordinates are exactly the boundary cells; the line sorter returns a permutation (DESIGN.md section 6, C15).

proof gate: props/C15.v (boundary characterisation for any number of dimensions, 3^n neighbourhood, per-label index sets
    partition the boundary, single/many dispatch, sorter = permutation for ANY neighbour graph incl. fuel sufficiency)
correspondence (binary64 / exact, vm_compute):
    A. sort_points_to_form_continuous_line on generated planar point sets (recorded kNN lists): the returned ORDER
    B. scipy.ndimage.binary_erosion / label contracts on generated masks of 1-4 dimensions (oracle validation)
    C. whole contours: recorded HDR -> erosion, boundary, label contract, per-region coordinate sets, dispatch, sorted line:
       `coordinates` compared element by element
search: property oracle on the real objects -- returned points = input points as multisets (sorter); coordinates = centres of
    the boundary cells, each exactly once, one set per connected component (contours), on disagreeing inputs first
"""
import itertools
import math
import time
import warnings

import numpy as np

import vlib
from vlib import fl, fl_list, bool_list

from harness import _c02_models as M


def _sorter():
    import virocon.utils as vu
    return vu.sort_points_to_form_continuous_line


# ------------------------------------------------------------------ part A: the sorter
def gen_points(rng, big=False):
    n = rng.randrange(60, 150) if big else rng.randrange(3, 36)
    kind = rng.choice(["circle", "clusters", "lattice", "uniform", "ellipse", "line", "contourlike"])
    if kind == "circle":
        phi = sorted(rng.uniform(0, 2 * math.pi) for _ in range(n))
        pts = [(math.cos(p), math.sin(p)) for p in phi]
    elif kind == "ellipse":
        a, b = rng.choice([(1, 10), (5, 1), (1, 3)])
        pts = [(a * math.cos(2 * math.pi * k / n), b * math.sin(2 * math.pi * k / n)) for k in range(n)]
    elif kind == "clusters":
        k = rng.randrange(2, 5)
        cs = [(rng.uniform(0, 10), rng.uniform(0, 10)) for _ in range(k)]
        pts = [(c[0] + rng.gauss(0, 0.3), c[1] + rng.gauss(0, 0.3)) for c in (rng.choice(cs) for _ in range(n))]
    elif kind == "lattice":
        dx, dy = rng.choice([(0.05, 0.25), (0.1, 0.1), (1.0, 3.0), (0.25, 0.05), (0.05, 0.5)])
        m = int(math.sqrt(n)) + 3
        s = set()
        while len(s) < n:
            s.add((rng.randrange(0, m), rng.randrange(0, m)))
        pts = [(i * dx, j * dy) for i, j in sorted(s)]
    elif kind == "line":
        pts = [(float(i) * rng.choice([1.0, 1.0, 2.5]), rng.choice([0.0, 0.0, 0.1])) for i in range(n)]
        pts = list(dict.fromkeys(pts))
        while len(pts) < 3:
            pts.append((float(len(pts)) + 0.5, 1.0))
    elif kind == "contourlike":       # cells on the rim of an ellipse on an anisotropic grid (what an HDC hands over)
        dx, dy = rng.choice([(0.05, 0.25), (0.2, 0.1), (0.1, 0.1), (0.25, 0.05), (0.1, 1.0)])
        rx, ry = rng.uniform(3, 8) * dx * 3, rng.uniform(3, 8) * dy * 3
        cells = set()
        nx_, ny_ = int(2 * rx / dx) + 3, int(2 * ry / dy) + 3
        inside = np.zeros((nx_, ny_), dtype=bool)
        for i in range(nx_):
            for j in range(ny_):
                x, y = (i - nx_ // 2) * dx, (j - ny_ // 2) * dy
                inside[i, j] = (x / rx) ** 2 + (y / ry) ** 2 <= 1
        for i in range(nx_):
            for j in range(ny_):
                if inside[i, j]:
                    nb = [inside[a, b] if 0 <= a < nx_ and 0 <= b < ny_ else False
                          for a in (i - 1, i, i + 1) for b in (j - 1, j, j + 1)]
                    if not all(nb):
                        cells.add((i * dx, j * dy))
        pts = sorted(cells)
        if len(pts) > (150 if big else 60):
            pts = pts[: (150 if big else 60)]
        while len(pts) < 3:
            pts.append((float(len(pts)) + 0.5, 7.0))
    else:
        pts = [(rng.uniform(0, 10), rng.uniform(0, 10)) for _ in range(n)]
    pts = list(dict.fromkeys((float(a), float(b)) for a, b in pts))
    while len(pts) < 3:
        pts.append((float(len(pts)) + 0.25, -3.0))
    if kind not in ("contourlike",) or rng.random() < 0.5:
        rng.shuffle(pts)
    c = {"kind": "points", "x": [p[0] for p in pts], "y": [p[1] for p in pts], "search": rng.random() < 0.7, "gen": kind,
         "container": rng.choice(CONTAINERS)}
    r = rng.random()
    if r < 0.08:                                 # repeated points
        k = rng.randrange(1, max(2, len(pts) // 3))
        for _ in range(k):
            j = rng.randrange(len(c["x"]))
            c["x"].append(c["x"][j])
            c["y"].append(c["y"][j])
        c["gen"] = kind + "+dups"
    elif r < 0.12:                               # fewer than three points
        k = rng.choice([1, 2])
        c["x"], c["y"] = c["x"][:k], c["y"][:k]
        c["gen"] = "tiny"
    if c["container"] == "int":
        c["x"] = [float(round(v * 4)) for v in c["x"]]
        c["y"] = [float(round(v * 4)) for v in c["y"]]
    return c


CONTAINERS = ["ndarray"] * 10 + ["int", "int", "series", "series", "list", "tuple", "series_shifted"]


def as_container(vals, kind):
    """the array_like forms the docstring admits for x and y"""
    if kind == "list":
        return [float(v) for v in vals]
    if kind == "tuple":
        return tuple(float(v) for v in vals)
    if kind == "series":
        import pandas as pd
        return pd.Series([float(v) for v in vals])
    if kind == "series_shifted":
        import pandas as pd
        return pd.Series([float(v) for v in vals], index=range(100, 100 + len(vals)))
    if kind == "int":
        return np.array([int(v) for v in vals], dtype=np.int64)
    return np.array(vals, dtype=float)


def run_sorter(c):
    f = _sorter()
    kind = c.get("container", "ndarray")
    out = {}
    with M.Recording() as rec:
        try:
            xx, yy = f(as_container(c["x"], kind), as_container(c["y"], kind), search_for_optimal_start=c["search"])
            out["xx"] = [float(v) for v in np.asarray(xx).ravel()]
            out["yy"] = [float(v) for v in np.asarray(yy).ravel()]
        except Exception as e:  # noqa
            out["err"] = type(e).__name__
            out["err_msg"] = str(e)[:200]
    out["knn"] = rec.knn
    return out


def knn_rows(k, n):
    return [[int(v) for v in k["indices"][k["indptr"][j]:k["indptr"][j + 1]]] for j in range(n)]


def order_of(c, out):
    """indices of the returned points in the input (points are distinct); None if a returned point is not an input point"""
    lookup = {(a, b): j for j, (a, b) in enumerate(zip(c["x"], c["y"]))}
    try:
        return [lookup[(a, b)] for a, b in zip(out["xx"], out["yy"])]
    except KeyError:
        return None


def oracle_points(c, out=None):
    out = out or run_sorter(c)
    n = len(c["x"])
    sig = {"site": "sort_points_to_form_continuous_line", "clause": "permutation"}
    kind = c.get("container", "ndarray")
    if "err" in out:
        if n < 3:
            return (dict(sig, clause="fewer-than-three-points"), "a set of %d point(s) is rejected: %s: %s" % (n, out["err"], out.get("err_msg", "")[:80]))
        if kind not in ("ndarray", "int") and out["err"] in ("TypeError", "KeyError", "IndexError"):
            return (dict(sig, clause="input-type"), "x, y given as %s (array_like): %s: %s" % (kind, out["err"], out.get("err_msg", "")[:80]))
        return (dict(sig, clause="unexpected-exception"), "sorter raised %s: %s" % (out["err"], out.get("err_msg", "")))
    inp = sorted(zip(c["x"], c["y"]))
    ret = sorted(zip(out["xx"], out["yy"]))
    cl = "permutation" if kind in ("ndarray", "int") else "input-type"
    if len(ret) != len(inp):
        return (dict(sig, clause=cl), "%d of %d points returned (search_for_optimal_start=%r, container %s)" % (len(ret), len(inp), c["search"], kind))
    if ret != inp:
        return (dict(sig, clause=cl), "returned points are not a permutation of the input points (container %s)" % kind)
    return None


SORT_PRELUDE = """From V.base Require Import FloatBits.
From V.model Require Import Hdc Sorter.
Local Open Scope float_scope.
Fixpoint all2 {A B} (f : A -> B -> bool) (a : list A) (b : list B) : bool :=
  match a, b with [], [] => true | x :: a', y :: b' => f x y && all2 f a' b' | _, _ => false end.
Definition beq_list := all2 Bool.eqb.
Definition knn_ok (n : nat) (nbr : list (list Z)) : bool :=
  Nat.eqb (List.length nbr) n && forallb (fun r => Nat.eqb (List.length r) 2 && forallb (fun j => (0 <=? j)%Z && (j <? Z.of_nat n)%Z) r) nbr.
(* 0 same order; 1 different order; 2 model None; 3 kNN contract (2 neighbours per point, indices in range) broken *)
Definition cmp_sort (xs ys : list float) (nbr : list (list Z)) (search : bool) (exx eyy : list float) : Z :=
  if negb (knn_ok (List.length xs) nbr) then 3%Z else
  match f_sort_points xs ys nbr search with
  | None => 2%Z
  | Some r => if all2 fbits_eq (map (fun k => nth (Z.to_nat k) xs nan) r) exx && all2 fbits_eq (map (fun k => nth (Z.to_nat k) ys nan) r) eyy
              then 0%Z else 1%Z
  end.
"""


def zrows(rows):
    return "[" + "; ".join(vlib.z_list(r) + "%Z" for r in rows) + "]"


def coq_sort_case(c, out, order=None):
    n = len(c["x"])
    rows = knn_rows(out["knn"][0], n)
    return "cmp_sort %s %s %s %s %s %s" % (fl_list(c["x"]), fl_list(c["y"]), zrows(rows), "true" if c["search"] else "false",
                                          fl_list(out["xx"]), fl_list(out["yy"]))


# ------------------------------------------------------------------ part B: masks (contracts of the scipy engines)
def gen_mask(rng, overlap=False):
    if overlap:
        m, k = overlap_mask(rng)
        if rng.random() < 0.35:        # extruded to 3-D (along a middle or last axis)
            reps = rng.randrange(2, 4)
            pad = np.zeros_like(m)
            m = np.stack([pad] + [m] * reps + [pad], axis=rng.choice([1, 2]))
        return {"kind": "mask", "shape": list(m.shape), "mask": [bool(v) for v in m.ravel()], "gen": "overlap/" + k}
    nd = rng.choice([1, 2, 2, 2, 3, 3, 4])
    top = {1: 30, 2: 14, 3: 7, 4: 4}[nd]
    shape = [rng.randrange(1, top + 1) for _ in range(nd)]
    kind = rng.choice(["noise", "blob", "blobs", "full", "empty", "frame", "dense"])
    grid = np.indices(shape).reshape(nd, -1).T
    n = len(grid)
    if kind == "noise":
        m = np.array([rng.random() < 0.5 for _ in range(n)])
    elif kind == "dense":
        m = np.array([rng.random() < 0.9 for _ in range(n)])
    elif kind == "full":
        m = np.ones(n, dtype=bool)
    elif kind == "empty":
        m = np.zeros(n, dtype=bool)
    elif kind == "frame":
        m = np.array([any(g[k] in (0, shape[k] - 1) for k in range(nd)) for g in grid])
    else:
        k = 1 if kind == "blob" else rng.randrange(2, 4)
        m = np.zeros(n, dtype=bool)
        for _ in range(k):
            c = [rng.uniform(0, s) for s in shape]
            r = [max(0.8, rng.uniform(0.15, 0.5) * s) for s in shape]
            m |= np.array([sum(((g[a] - c[a]) / r[a]) ** 2 for a in range(nd)) <= 1 for g in grid])
    return {"kind": "mask", "shape": shape, "mask": [bool(v) for v in m]}


def run_mask(c):
    import scipy.ndimage as ndi
    nd = len(c["shape"])
    m = np.array(c["mask"], dtype=float).reshape(c["shape"])
    st = np.ones((3,) * nd, dtype=bool)
    er = ndi.binary_erosion(m, structure=st)
    hdc = m - er
    lab, nm = ndi.label(hdc, structure=st)
    return {"erosion": [bool(v) for v in er.ravel()], "hdc": [bool(v) for v in (hdc != 0).ravel()],
            "labels": [int(v) for v in lab.ravel()], "n_modes": int(nm)}


def components(cells, nd):
    """connected components (3^n connectivity) of a set of index tuples -- own union-find"""
    cells = list(cells)
    idx = {c: i for i, c in enumerate(cells)}
    parent = list(range(len(cells)))

    def find(a):
        while parent[a] != a:
            parent[a] = parent[parent[a]]
            a = parent[a]
        return a
    offs = [o for o in itertools.product((-1, 0, 1), repeat=nd) if any(o)]
    for c in cells:
        for o in offs:
            d = tuple(a + b for a, b in zip(c, o))
            if d in idx:
                ra, rb = find(idx[c]), find(idx[d])
                if ra != rb:
                    parent[ra] = rb
    groups = {}
    for c in cells:
        groups.setdefault(find(idx[c]), []).append(c)
    return sorted(sorted(g) for g in groups.values())


def boundary_cells(mask):
    """region cells with at least one of the 3^n - 1 neighbours outside the region or outside the grid (own loops)"""
    nd = mask.ndim
    shape = mask.shape
    offs = [o for o in itertools.product((-1, 0, 1), repeat=nd) if any(o)]
    out = []
    for c in zip(*np.nonzero(mask)):
        c = tuple(int(v) for v in c)
        for o in offs:
            d = tuple(a + b for a, b in zip(c, o))
            if any(v < 0 or v >= s for v, s in zip(d, shape)) or not mask[d]:
                out.append(c)
                break
    return out


MASK_PRELUDE = SORT_PRELUDE + """
Definition label_contract (bnd : list bool) (labels : list nat) (m : nat) : bool :=
  Nat.eqb (List.length labels) (List.length bnd) &&
  all2 (fun b l => Bool.eqb b (negb (Nat.eqb l 0)) && Nat.leb l m) bnd labels.
(* 0 ok; 1 erosion differs; 2 boundary (HDC) differs; 3 label contract broken *)
Definition cmp_mask (sh : list nat) (m : list bool) (eer ehdc : list bool) (labels : list nat) (nm : nat) : Z :=
  if negb (beq_list (erode sh m) eer) then 1%Z
  else if negb (beq_list (boundary sh m) ehdc) then 2%Z
  else if negb (label_contract ehdc labels nm) then 3%Z else 0%Z.
"""


def coq_mask_case(c, r):
    return "cmp_mask %s %s %s %s %s %d%%nat" % (M.nat_list(c["shape"]), bool_list(c["mask"]), bool_list(r["erosion"]),
                                               bool_list(r["hdc"]), M.nat_list(r["labels"]), r["n_modes"])


def oracle_mask(c, r):
    """the scipy engines against the documented semantics (own loops): used to validate the oracle contracts"""
    m = np.array(c["mask"], dtype=bool).reshape(c["shape"])
    nd = m.ndim
    want = sorted(boundary_cells(m))
    got = sorted(tuple(int(v) for v in idx) for idx in zip(*np.nonzero(np.array(r["hdc"]).reshape(c["shape"]))))
    if want != got:
        return "HDR - binary_erosion(HDR) is not the set of boundary cells"
    lab = np.array(r["labels"]).reshape(c["shape"])
    comps = components(want, nd)
    got_c = sorted(sorted(tuple(int(v) for v in idx) for idx in zip(*np.nonzero(lab == i))) for i in range(1, r["n_modes"] + 1))
    if comps != got_c:
        return "label classes are not the connected components"
    return None


# ------------------------------------------------------------------ regions with overlapping bounding boxes
def _bboxes_overlap(comps):
    """do the bounding boxes of at least two of the given cell sets intersect?"""
    boxes = []
    for comp in comps:
        arr = np.array(comp)
        boxes.append((arr.min(axis=0), arr.max(axis=0)))
    for a in range(len(boxes)):
        for b in range(a + 1, len(boxes)):
            if np.all(boxes[a][0] <= boxes[b][1]) and np.all(boxes[b][0] <= boxes[a][1]):
                return True
    return False


def overlap_mask(rng, kind=None):
    """2-D boolean mask with at least two regions (separated by empty cells) whose bounding boxes overlap:
    parallel diagonal ridges, a region nested in the hollow of another, interleaved L-shapes, a mode in the mouth of an arc"""
    for _ in range(50):
        k = kind or rng.choice(["ridges", "ridges", "nested", "lshapes", "arc"])
        if k == "ridges":
            n0, n1 = rng.randrange(12, 22), rng.randrange(14, 26)
            wdt, gap, nb = rng.randrange(2, 5), rng.randrange(2, 5), rng.choice([2, 2, 3])
            slope = rng.choice([1.0, 0.5, 2.0, 1.5])
            off0 = rng.randrange(-3, 3)
            m = np.zeros((n0, n1), dtype=bool)
            for i in range(n0):
                for j in range(n1):
                    t = j - int(round(slope * i)) - off0
                    for b in range(nb):
                        lo = b * (wdt + gap)
                        if lo <= t < lo + wdt:
                            m[i, j] = True
            m[0, :] = m[-1, :] = False
            m[:, 0] = m[:, -1] = False
        elif k == "nested":
            n0, n1 = rng.randrange(16, 24), rng.randrange(16, 24)
            th = rng.randrange(2, 4)
            g = rng.randrange(1, 3)
            m = np.zeros((n0, n1), dtype=bool)
            m[1:n0 - 1, 1:n1 - 1] = True
            m[1 + th:n0 - 1 - th, 1 + th:n1 - 1 - th] = False
            a0, a1 = 1 + th + g, 1 + th + g
            m[a0:n0 - a0, a1:n1 - a1] = True
            if rng.random() < 0.5 and n0 - 2 * a0 >= 5 and n1 - 2 * a1 >= 5:      # a third level: hollow inner region
                m[a0 + 2:n0 - a0 - 2, a1 + 2:n1 - a1 - 2] = False
        elif k == "lshapes":
            n = rng.randrange(14, 22)
            th = rng.randrange(2, 4)
            m = np.zeros((n, n), dtype=bool)
            m[1:n - 4, 1:1 + th] = True
            m[n - 4 - th:n - 4, 1:n - 4] = True
            o = 1 + th + rng.randrange(1, 3)
            m[1:1 + th, o:n - 1] = True
            m[1:n - 4 - th - rng.randrange(1, 3), n - 1 - th:n - 1] = True
        else:
            n0, n1 = rng.randrange(15, 22), rng.randrange(15, 22)
            th = rng.randrange(2, 4)
            m = np.zeros((n0, n1), dtype=bool)
            m[1:n0 - 1, 1:n1 - 1] = True
            m[1 + th:n0 - 1 - th, 1 + th:n1 - 1] = False          # a C opened towards +axis1
            g = rng.randrange(1, 3)
            m[1 + th + g:n0 - 1 - th - g, 1 + th + g + rng.randrange(0, 3):n1 - 1 - rng.randrange(0, 4)] = True
        if rng.random() < 0.5:
            m = m.T
        if rng.random() < 0.5:
            m = m[::-1, :]
        if rng.random() < 0.5:
            m = m[:, ::-1]
        m = np.ascontiguousarray(m)
        comps = components([tuple(int(v) for v in c) for c in zip(*np.nonzero(m))], 2)
        if len(comps) >= 2 and _bboxes_overlap(comps):
            return m, k
    raise RuntimeError("could not generate a mask with overlapping bounding boxes")


def island_mask(rng):
    """a large region plus islands of ONE and TWO cells (every island cell is a boundary cell), separated by empty cells"""
    n0, n1 = rng.randrange(12, 20), rng.randrange(12, 20)
    m = np.zeros((n0, n1), dtype=bool)
    a0, a1 = rng.randrange(4, 7), rng.randrange(4, 7)
    m[a0:n0 - 2, a1:n1 - 2] = True                      # the main region
    spots = [(1, 1), (1, n1 - 3), (n0 - 3, 1), (1, n1 // 2)]
    rng.shuffle(spots)
    k = rng.choice([1, 2, 2, 3])
    sizes = [1, 2, 1][:k] if rng.random() < 0.5 else [2, 1, 2][:k]
    for (i, j), sz in zip(spots, sizes):
        if i >= a0 - 1 and j >= a1 - 1:
            continue
        m[i, j] = True
        if sz == 2:
            if rng.random() < 0.5 and not (i + 1 >= a0 - 1 and j >= a1 - 1):
                m[i + 1, j] = True
            elif not (i >= a0 - 1 and j + 1 >= a1 - 1):
                m[i, j + 1] = True
    if rng.random() < 0.3:
        m[a0:n0 - 2, a1:n1 - 2] = False                # only islands: after dropping small regions at most one is left
        m[a0 + 1:a0 + 4, a1 + 1:a1 + 5] = True
    if rng.random() < 0.5:
        m = m.T
    if rng.random() < 0.5:
        m = m[::-1, ::-1]
    return np.ascontiguousarray(m)


def gen_island_case(rng, n_dim=2):
    m = island_mask(rng)
    w = np.where(m, 1.0 + 0.2 * np.array([[rng.random() for _ in range(m.shape[1])] for _ in range(m.shape[0])]), 1e-4)
    d = [rng.choice([0.05, 0.1, 0.25, 0.5, 1.0, 2.0]) for _ in range(n_dim)]
    if rng.random() < 0.5:
        d = [d[0]] * n_dim
    extrude = None
    if n_dim == 3:
        extrude = [1e-4] * rng.randrange(1, 3) + [1.0] * rng.choice([1, 2]) + [1e-4] * rng.randrange(1, 3)
    return table_case(w, d, extrude, "islands")


def hole_mask(rng):
    """a region that is not simply connected: one block with enclosed holes (single cells, pairs, a 2 x 2 hole, two holes
    touching only diagonally)"""
    n0, n1 = rng.randrange(10, 18), rng.randrange(10, 18)
    m = np.zeros((n0, n1), dtype=bool)
    m[1:n0 - 1, 1:n1 - 1] = True
    if rng.random() < 0.4:                       # rounded outline
        for i in range(n0):
            for j in range(n1):
                if ((i - (n0 - 1) / 2) / (n0 / 2 - 1)) ** 2 + ((j - (n1 - 1) / 2) / (n1 / 2 - 1)) ** 2 > 1:
                    m[i, j] = False
    kind = rng.choice(["single", "pair", "block", "diagonal", "several"])
    ci, cj = n0 // 2, n1 // 2
    if kind == "single":
        m[ci, cj] = False
    elif kind == "pair":
        m[ci, cj] = m[ci, cj + 1] = False
    elif kind == "block":
        m[ci - 1:ci + 1, cj - 1:cj + 1] = False
    elif kind == "diagonal":
        m[ci, cj] = m[ci - 1, cj - 1] = False
    else:
        m[ci, cj] = False
        m[ci - 2, cj + 2] = False
        m[ci + 2, cj - 2] = m[ci + 2, cj - 1] = False
    if rng.random() < 0.5:
        m = m.T
    return np.ascontiguousarray(m), kind


def gen_hole_case(rng, n_dim=2):
    d = [rng.choice([0.05, 0.1, 0.25, 0.5, 1.0, 2.0]) for _ in range(n_dim)]
    if rng.random() < 0.5:
        d = [d[0]] * n_dim
    if n_dim == 2:
        m, k = hole_mask(rng)
        w = np.where(m, 1.0 + 0.2 * np.array([[rng.random() for _ in range(m.shape[1])] for _ in range(m.shape[0])]), 1e-4)
        return table_case(w, d, None, "hole/" + k)
    # 3-D shell around a cavity: independent axes whose cell masses dip in the middle; a cell is excluded iff all three
    # coordinates are "low" (the cavity) or one of them lies in the empty margin
    masses = []
    for _ in range(3):
        k_hi, k_lo = rng.randrange(1, 3), rng.randrange(1, 3)
        masses.append([1e-6] * rng.randrange(1, 3) + [1.0] * k_hi + [0.1] * k_lo + [1.0] * k_hi + [1e-6] * rng.randrange(1, 3))
    t = {"masses": masses, "deltas": d}
    full = np.einsum("i,j,k->ijk", *[np.array(mm) / np.sum(mm) for mm in masses])
    H = full > 0.5 * (0.1 * 0.1 * 1.0) / np.prod([np.sum(mm) for mm in masses])
    lim = float(full[H].sum() + 0.5 * full[~H].max())
    limits, dl = M.product_grid(t)
    return {"kind": "contour", "desc": {"product": t, "dims": [{"family": "table"}] * 3}, "alpha": float(1 - lim),
            "limits": limits, "deltas": dl, "shape_kind": "hole/cavity"}


def table_case(weights, deltas, extrude=None, shape_kind="table"):
    """contour case on a TableModel: the enclosed region is exactly {weights > 1/2} (x the extruded range)"""
    w = np.asarray(weights, dtype=float)
    t = {"weights": [[float(v) for v in r] for r in w], "deltas": [float(d) for d in deltas], "extrude": None if extrude is None else [float(v) for v in extrude]}
    if extrude is None:
        full = w
        dims = [{"family": "table"}, {"family": "table", "cond": 0}]
    else:
        e = np.asarray(extrude, dtype=float)
        full = w[:, None, :] * e[None, :, None]
        dims = [{"family": "table"}, {"family": "table"}, {"family": "table", "cond": 0}]
    P = full / full.sum()
    H = full > 0.5
    lim = float(P[H].sum() + 0.5 * P[~H].max()) if (~H).any() else 1.0 - 1e-6
    limits, dl = M.table_grid(t)
    return {"kind": "contour", "desc": {"table": t, "dims": dims}, "alpha": float(1 - lim), "limits": limits, "deltas": dl, "shape_kind": shape_kind}


def gen_table_case(rng, n_dim=2, kind=None):
    m, k = overlap_mask(rng, kind)
    w = np.where(m, 1.0, 1e-4) * (1 + 0.2 * np.array([[rng.random() for _ in range(m.shape[1])] for _ in range(m.shape[0])]))
    w = np.where(m, w, 1e-4)
    d = [rng.choice([0.05, 0.1, 0.25, 0.5, 1.0, 2.0]) for _ in range(n_dim)]
    if rng.random() < 0.5:
        d = [d[0]] * n_dim
    extrude = None
    if n_dim == 3:
        on = rng.randrange(2, 5)
        extrude = [1e-4] * rng.randrange(1, 3) + [1.0] * on + [1e-4] * rng.randrange(1, 3)
    return table_case(w, d, extrude, "overlap/" + k)


def gen_ridge_case(rng, n_dim=2):
    """two or three parallel tilted ridges: Y | X is a mixture of normals with parallel linear means (virocon's own
    NormalDistribution / ConditionalDistribution objects); 3-D: an independent third variable"""
    sig = r3(rng, 0.3, 0.5)
    b = rng.choice([1, -1]) * r3(rng, 0.5, 1.1)
    gap = sig * rng.uniform(7.5, 9.5)
    nb = rng.choice([2, 2, 3])
    lo = 2.5 if b > 0 else 2.5 - b * 9.0
    comps = [{"w": 1.0, "mu": ["lin", float(lo + k * gap), float(b), 0.0], "sigma": float(sig)} for k in range(nb)]
    dims = [{"family": "weibull", "params": {"alpha": r3(rng, 4.0, 5.5), "beta": r3(rng, 2.2, 3.0), "gamma": 0.0}},
            {"family": "mixture", "cond": 0, "components": comps}]
    ymax = lo + (nb - 1) * gap + abs(b) * 9.0 + 4 * sig
    nx_, ny_ = (rng.randrange(24, 34), rng.randrange(44, 64)) if n_dim == 2 else (rng.randrange(12, 16), rng.randrange(26, 32))
    limits = [[0.0, 10.0], [0.0, float(round(ymax, 1))]]
    deltas = [10.0 / nx_, float(round(ymax, 1)) / ny_]
    if n_dim == 3:
        dims.append({"family": "normal", "params": {"mu": 5.0, "sigma": 1.0}})
        limits.append([0.0, 10.0])
        deltas.append(10.0 / rng.randrange(5, 8))
    return {"kind": "contour", "desc": {"dims": dims}, "alpha": float(rng.choice([0.05, 0.1, 0.02])), "limits": limits, "deltas": deltas,
            "shape_kind": "overlap/mixture-ridges"}


def r3(rng, lo, hi):
    return round(rng.uniform(lo, hi), 3)


def label_bboxes_overlap(out):
    """do two of the labelled boundary components of this run have intersecting bounding boxes?"""
    if not out.get("labels"):
        return False
    lab = out["labels"][0][2]
    nm = out["labels"][0][3]
    if nm < 2:
        return False
    comps = [list(zip(*np.nonzero(lab == i))) for i in range(1, nm + 1)]
    return _bboxes_overlap([c for c in comps if c])


def shrink_table(c, sig):
    """drop whole regions, then crop empty margins, while the oracle keeps failing in the same clause"""
    t = c["desc"]["table"]
    w = np.asarray(t["weights"], dtype=float)

    def still(w2):
        c2 = table_case(w2, t["deltas"], t.get("extrude"), c.get("shape_kind", "table"))
        try:
            o = oracle_contour(c2)
        except Exception:
            return None
        return c2 if (isinstance(o, tuple) and o[0].get("clause") == sig.get("clause")) else None
    cur = c
    changed = True
    while changed:
        changed = False
        m = w > 0.5
        comps = components([tuple(int(v) for v in x) for x in zip(*np.nonzero(m))], 2)
        if len(comps) <= 1:
            break
        for comp in comps:
            w2 = w.copy()
            for cell in comp:
                w2[cell] = 1e-4
            c2 = still(w2)
            if c2 is not None:
                w, cur, changed = w2, c2, True
                break
    m = w > 0.5
    if m.any():
        ii, jj = np.nonzero(m)
        i0, i1 = max(0, ii.min() - 1), min(w.shape[0], ii.max() + 2)
        j0, j1 = max(0, jj.min() - 1), min(w.shape[1], jj.max() + 2)
        c2 = still(w[i0:i1, j0:j1])
        if c2 is not None:
            cur = c2
    return cur


# ------------------------------------------------------------------ part C: whole contours
def gen_contour_case(rng, max_cells, big=False, multimodal=False):
    n = 2 if (multimodal or rng.random() < 0.65) else 3
    desc = M.gen_model_desc(rng, n, multimodal=multimodal)
    model = M.build_model(desc)
    alpha = float(10 ** rng.uniform(-6, math.log10(0.3)))
    g = M.gen_grid(rng, model, desc, max_cells, alpha=alpha, min_axis=(25 if big else 6))
    return {"kind": "contour", "desc": desc, "alpha": alpha, "limits": g["limits"], "deltas": g["deltas"],
            "lim_form": g["lim_form"], "dl_form": g["dl_form"]}


def gen_special_contour(rng, what, max_cells):
    """default limits (Monte-Carlo marginal_icdf, seeded), 4-D models, the predefined model structures"""
    if what == "default-limits":
        n = rng.choice([2, 2, 3])
        desc = M.gen_model_desc(rng, n)
        model = M.build_model(desc)
        alpha = float(10 ** rng.uniform(-2.3, math.log10(0.3)))
        ups = M.typical_upper(model, desc, 1 - 0.04 * alpha)
        per = 24 if n == 2 else 10
        return {"kind": "contour", "desc": desc, "alpha": alpha, "limits": None,
                "deltas": [float(u / rng.randrange(per // 2, per)) for u in ups], "np_seed": rng.randrange(2 ** 31)}
    if what == "4d":
        desc = M.gen_model_desc(rng, 4)
    else:
        desc = M.predefined_desc(what)
    model = M.build_model(desc)
    alpha = float(10 ** rng.uniform(-6, math.log10(0.3)))
    g = M.gen_grid(rng, model, desc, min(max_cells, 800) if what == "4d" else max_cells, alpha=alpha, min_axis=(5 if what == "4d" else 8))
    return {"kind": "contour", "desc": desc, "alpha": alpha, "limits": g["limits"], "deltas": g["deltas"],
            "lim_form": g["lim_form"], "dl_form": g["dl_form"]}


def gen_int_axis_contour(rng):
    """2-D single region on a grid whose one axis is an INTEGER np.arange grid (whole-number limits and delta given as
    Python ints) while the other axis has a fractional cell size"""
    while True:
        desc = M.gen_model_desc(rng, 2)
        if all(d["family"] not in ("vonmises",) for d in desc["dims"]):
            break
    model = M.build_model(desc)
    alpha = float(10 ** rng.uniform(-3, math.log10(0.3)))
    ups = M.typical_upper(model, desc, min(1 - 1e-10, 1 - alpha / 30.0))
    k = rng.choice([0, 0, 1])                       # the integer axis
    lims, dls = [], []
    for d in range(2):
        hi = max(6, int(math.ceil(ups[d])))
        lims.append([0, hi])
        if d == k:
            dls.append(max(1, hi // rng.randrange(10, 30)))
        else:
            dls.append(rng.choice([0.25, 0.5, 0.1, 0.3]) if hi <= 40 else hi / 64.0)
    return {"kind": "contour", "desc": desc, "alpha": alpha, "limits": lims, "deltas": dls, "lim_form": rng.choice(["tuples", "lists"]),
            "dl_form": "asis", "shape_kind": "int-axis"}


def gen_history_contours(rng, max_cells):
    """two or three contours in a row of one model object on one explicit grid (several return periods, also the same alpha
    twice): returns one case per LATER contour, each with the earlier ones as its history"""
    n = rng.choice([2, 2, 3])
    desc = M.gen_model_desc(rng, n, multimodal=(n == 2 and rng.random() < 0.25))
    model = M.build_model(desc)
    alphas = [float(10 ** rng.uniform(-5, math.log10(0.3))) for _ in range(rng.choice([2, 3]))]
    if rng.random() < 0.5:
        alphas[-1] = alphas[0]                       # the same alpha again
    g = M.gen_grid(rng, model, desc, max_cells, alpha=min(alphas), min_axis=8)
    out = []
    for k in range(1, len(alphas)):
        out.append({"kind": "contour", "desc": desc, "alpha": alphas[k], "prior_alphas": alphas[:k], "limits": g["limits"], "deltas": g["deltas"],
                    "lim_form": g["lim_form"], "dl_form": g["dl_form"], "shape_kind": "history"})
    return out


def l7_case():
    """the anisotropic grid of lead L7 on the sea state model of the test-suite (scaled down)"""
    desc = {"dims": [{"family": "weibull", "params": {"alpha": 2.776, "beta": 1.471, "gamma": 0.8888}},
                     {"family": "lognormal", "cond": 0, "params": {},
                      "dep": {"mu": ["power3", 0.1, 1.489, 0.1901], "sigma": ["exp3", 0.04, 0.1748, -0.2243]}}]}
    return {"kind": "contour", "desc": desc, "alpha": 1.0 / (25 * 365.25 * 24 / 3), "limits": [[0, 20], [0, 18]], "deltas": [0.25, 1.25]}


def run_contour(c):
    model = M.build_model(c["desc"])
    if c.get("np_seed") is not None:
        np.random.seed(c["np_seed"])
    if c.get("prior_alphas"):
        # history: earlier contours of the SAME model object on the same explicit limits and deltas
        import virocon as vc
        lim, dl = M.apply_forms(c["limits"], c["deltas"], c.get("lim_form", "tuples"), c.get("dl_form", "asis"))
        with warnings.catch_warnings():
            warnings.simplefilter("ignore")
            for a in c["prior_alphas"]:
                try:
                    vc.HighestDensityContour(model, a, lim, dl)
                except Exception:  # noqa
                    pass
    out = M.run_hdc(model, c["alpha"], c["limits"], c["deltas"], c.get("lim_form", "tuples"), c.get("dl_form", "asis"))
    out["model"] = model
    return out


def plot_check(c, out):
    """plot_2D_contour of a highest-density contour: the drawn line is `coordinates` in the sorter's order, closed.
    Returns None, a note string (multi-region contours cannot be plotted) or a (signature, message) pair."""
    import matplotlib.pyplot as plt
    from virocon.plotting import plot_2D_contour
    cont = out["contour"]
    fig, ax = plt.subplots()
    try:
        try:
            plot_2D_contour(cont, ax=ax)
        except Exception as e:  # noqa
            if isinstance(cont.coordinates, list):
                return "multi-region:%s" % type(e).__name__
            return ({"site": "plot_2D_contour", "clause": "plot"}, "plot_2D_contour of a single-region HDC raised %s: %s" % (type(e).__name__, str(e)[:100]))
        line = ax.lines[-1]
        co = np.asarray(cont.coordinates, dtype=float)
        wx = list(co[:, 0]) + [co[0, 0]]
        wy = list(co[:, 1]) + [co[0, 1]]
        if [float(v) for v in line.get_xdata()] != wx or [float(v) for v in line.get_ydata()] != wy:
            return ({"site": "plot_2D_contour", "clause": "plot"}, "the plotted line is not the coordinate array in its order, closed with the first point")
        return None
    finally:
        plt.close(fig)


def coords_as_sets(cont, n_dim):
    """-> (kind, list of point lists) from what _compute stored; kind "malformed" (with a description instead of the sets)
    when a multi-region result is not one list of n_dim equally long arrays per region"""
    co = cont.coordinates
    if isinstance(co, list):
        sets = []
        for r, part in enumerate(co):
            try:
                arrs = [np.asarray(a, dtype=float).ravel() for a in part]
            except Exception:  # noqa
                return "malformed", "coordinate set %d is not a list of arrays" % r
            if len(arrs) != n_dim or len(set(len(a) for a in arrs)) != 1:
                return "malformed", "coordinate set %d holds %d arrays of lengths %r for %d dimensions" % (r, len(arrs), [len(a) for a in arrs], n_dim)
            sets.append([[float(a[k]) for a in arrs] for k in range(len(arrs[0]))])
        return "many", sets
    co = np.asarray(co, dtype=float)
    if co.ndim != 2:
        return "malformed", "coordinates of shape %r" % (co.shape,)
    return "one", [[[float(v) for v in row] for row in co]]


def truth_region(c, out):
    """the enclosed region determined independently of _compute: cell probabilities recomputed from the model's cdfs
    (products of CDF differences), cells taken in descending order while the cumulative sum stays <= 1 - alpha (the whole grid
    if the grid holds less than 1 - alpha).  Neither the array handed to scipy nor the reported fm / warning is trusted; the
    recorded array is consulted only for cells whose membership is numerically ambiguous (ties with the threshold cell,
    cumulative sum within 1e-11 of 1 - alpha).  Returns (region, n_cells_that_differ_from_the_recorded_array)."""
    from harness import c02 as C02
    cont = out["contour"]
    rec = np.asarray(out["erosions"][0][0]) != 0
    coords = [np.asarray(cc, dtype=float) for cc in cont.cell_center_coordinates]
    deltas = [float(d) for d in cont.deltas]
    if any(len(cc) < 2 for cc in coords):
        return rec, 0
    with np.errstate(all="ignore"):
        P, N = C02.independent_cell_probabilities(out["model"], c["desc"], coords, deltas)
    if np.isnan(P).any() or P.shape != rec.shape:
        return rec, 0
    lim = 1 - float(c["alpha"])
    tot = float(P.sum())
    if abs(tot - lim) <= 1e-10:
        return rec, 0                                   # unjudgeable: the grid holds 1 - alpha up to rounding
    if tot < lim:
        region = np.ones(P.shape, dtype=bool)           # RuntimeWarning case: the whole grid
        return region, int((region != rec).sum())
    flat = P.ravel()
    order = np.argsort(-flat, kind="stable")
    cs = np.cumsum(flat[order])
    k = int(np.searchsorted(cs, lim, side="right"))     # number of cells with cumulative sum <= lim
    if k == 0:
        return rec, 0
    pm = float(flat[order[k - 1]])
    sel = np.zeros(flat.shape, dtype=bool)
    sel[order[:k]] = True
    noise = 1e-9 + 8 * np.where(np.isfinite(N), N, 1.0).ravel()
    amb = np.abs(flat - pm) <= noise * max(pm, 1e-300)  # ties with the threshold cell
    near = np.abs(cs - lim) <= 1e-11                     # the cut itself is within rounding
    amb[order[near]] = True
    region = np.where(amb, rec.ravel(), sel).reshape(P.shape)
    return region, int((region != rec).sum())


def oracle_contour(c, out=None):
    out = out or run_contour(c)
    n = len(c["desc"]["dims"])
    sig0 = {"site": "HighestDensityContour.coordinates", "n_dim": n}
    if "err" in out:
        if out["err"] == "IndexError":
            return None            # C02 / L14: nothing can be enclosed
        if out["err"] == "ValueError" and "n_neighbors" in out.get("err_msg", ""):
            return (dict(sig0, clause="fewer-than-three-points"), "a 2-D region with fewer than 3 boundary cells cannot be returned: the line sorter raises %s" % out["err_msg"][:90])
        return (dict(sig0, clause="unexpected-exception"), "HighestDensityContour raised %s: %s" % (out["err"], out.get("err_msg", "")))
    cont = out["contour"]
    if not out["erosions"]:
        return (dict(sig0, clause="boundary"), "no region was handed to binary_erosion")
    hdr, _ = truth_region(c, out)
    want_idx = sorted(boundary_cells(hdr))
    centres = cont.cell_center_coordinates
    want = sorted(tuple(float(centres[d][i[d]]) for d in range(n)) for i in want_idx)
    kind, sets = coords_as_sets(cont, n)
    if kind == "malformed":
        return (dict(sig0, clause="regions"), "%d boundary cells in %d connected component(s), but %s" % (len(want_idx), len(components(want_idx, n)), sets))
    got = sorted(tuple(p) for s in sets for p in s)
    aniso = len(set(float(d) for d in cont.deltas)) > 1
    if len(got) != len(want) or got != want:
        missing = len(set(want) - set(got))
        extra = len(got) - len(set(got))
        cl = "sorted-line" if (kind == "one" and n == 2) else "boundary"
        return (dict(sig0, clause=cl, anisotropic=aniso),
                "%d boundary cells, %d coordinates returned (%d boundary cells missing, %d duplicates)" % (len(want), len(got), missing, extra))
    comps = components(want_idx, n)
    if kind == "one" and len(comps) != 1:
        return (dict(sig0, clause="regions"), "%d disconnected boundary components returned as one array" % len(comps))
    if kind == "many":
        want_sets = sorted(sorted(tuple(float(centres[d][i[d]]) for d in range(n)) for i in comp) for comp in comps)
        got_sets = sorted(sorted(tuple(p) for p in s) for s in sets)
        if want_sets != got_sets:
            return (dict(sig0, clause="regions"), "%d coordinate sets for %d connected components (or the sets are not the components)" % (len(sets), len(comps)))
    if kind == "one":
        arr = np.asarray(cont.coordinates)
        if arr.ndim != 2 or arr.shape[1] != n:
            return (dict(sig0, clause="shape"), "coordinates of a single region have shape %r" % (arr.shape,))
    return None


CONTOUR_PRELUDE = MASK_PRELUDE + """
Definition rows_eq := all2 (all2 fbits_eq).
Inductive impl_coords := IOne (pts : list (list float)) | IMany (sets : list (list (list float))).
Definition labels_single (n_dim nm : nat) : bool := Nat.eqb n_dim 2 && Nat.eqb nm 1.
(* 0 ok; 1 erosion; 2 boundary; 3 label contract; 4 one-array / many-sets dispatch differs; 5 coordinates differ;
   6 sorter model None; 7 kNN contract; 8 structure is not ones((3,)*n) *)
Definition cmp_contour (n_dim : nat) (sh : list nat) (hdr eer ehdc : list bool) (labels : list nat) (nm : nat)
           (coords : list (list float)) (nbr : list (list Z)) (structure_ok : bool) (impl : impl_coords) : Z :=
  if negb structure_ok then 8%Z else
  let c := cmp_mask sh hdr eer ehdc labels nm in
  if negb (c =? 0)%Z then c else
  let final := f_hdc_coordinates n_dim sh labels nm coords nbr in
  let line := match labels_single n_dim nm with true => negb (knn_ok (List.length (region_cells labels 1)) nbr) | false => false end in
  if line then 7%Z else
  match final, impl with
  | FMany s, IMany e => if all2 rows_eq s e then 0%Z else 5%Z
  | FOne p, IOne e => if rows_eq p e then 0%Z else 5%Z
  | FSorterFailed, _ => 6%Z
  | _, _ => 4%Z
  end.
"""


def rows_coq(rows):
    return "[" + "; ".join(fl_list(r) for r in rows) + "]"


def coq_contour_case(c, out):
    cont = out["contour"]
    n = len(c["desc"]["dims"])
    hdr_in, st, er = out["erosions"][0]
    hdr_in = truth_region(c, out)[0]        # the region as the densities define it (not the array handed to binary_erosion)
    lab_in, st2, lab, nm = out["labels"][0]
    sh = list(hdr_in.shape)
    st_ok = (st is not None and st.shape == (3,) * n and bool(np.all(st)) and st2 is not None and st2.shape == (3,) * n and bool(np.all(st2)))
    kind, sets = coords_as_sets(cont, n)
    if kind == "malformed":
        impl = "(IMany [[[nan]]])"
    else:
        impl = "(IOne %s)" % rows_coq(sets[0]) if kind == "one" else "(IMany [%s])" % "; ".join(rows_coq(s) for s in sets)
    nbr = "[]"
    if out["knn"]:
        k = out["knn"][0]
        nbr = zrows(knn_rows(k, len(k["indptr"]) - 1))
    return "cmp_contour %d%%nat %s %s %s %s %s %d%%nat %s %s %s %s" % (
        n, M.nat_list(sh), bool_list([bool(v) for v in (hdr_in != 0).ravel()]), bool_list([bool(v) for v in er.ravel()]),
        bool_list([bool(v) for v in (lab_in != 0).ravel()]), M.nat_list(lab.ravel()), nm,
        "[" + "; ".join(fl_list(a) for a in cont.cell_center_coordinates) + "]", nbr, "true" if st_ok else "false", impl)


def shrink_points(c, sig):
    if len(c["x"]) <= 3:
        return c

    def fails(idx):
        if len(idx) < 3:
            return False
        c2 = dict(c, x=[c["x"][i] for i in idx], y=[c["y"][i] for i in idx])
        try:
            o = oracle_points(c2)
        except Exception:
            return False
        return isinstance(o, tuple) and o[0]["clause"] == sig["clause"]
    idx = vlib.shrink_list(list(range(len(c["x"]))), fails, min_len=3)
    return dict(c, x=[c["x"][i] for i in idx], y=[c["y"][i] for i in idx])


def shrink_contour(c, sig):
    if c["desc"].get("table") is not None:
        return shrink_table(c, sig)
    if c["desc"].get("product") is not None:
        return c                      # already small (the grid belongs to the model)
    cur = c
    for _ in range(3):
        d = cur["deltas"]
        try:
            c2 = dict(cur, deltas=[float(x) * 2 for x in d])
        except TypeError:
            c2 = dict(cur, deltas=float(d) * 2)
        try:
            o = oracle_contour(c2)
        except Exception:
            break
        if isinstance(o, tuple) and o[0].get("clause") == sig.get("clause"):
            cur = c2
        else:
            break
    return cur


def replay(ctx, c):
    if c.get("kind") == "points":
        o = oracle_points(c)
    else:
        o = oracle_contour(c)
    if isinstance(o, tuple):
        print("  ", o[1])
        return True
    return False


# ------------------------------------------------------------------ run
def run(ctx):
    ctx.proof_gate()
    rng = ctx.rng
    dist = {}
    items = []
    # ---------------- A: sorter
    n_a = ctx.n(150, 2000)
    cases_a = [gen_points(rng, big=(i % 12 == 0)) for i in range(n_a)]
    outs_a = [run_sorter(c) for c in cases_a]
    timing = {"sorter_py": round(time.time() - ctx.t0, 1)}
    coq_a = []
    for i, (c, o) in enumerate(zip(cases_a, outs_a)):
        n = len(c["x"])
        full = "err" not in o and sorted(zip(o["xx"], o["yy"])) == sorted(zip(c["x"], c["y"]))
        key = "points/%s/%s" % (c["gen"], "err:" + o["err"] if "err" in o else ("all" if full else "lost"))
        dist[key] = dist.get(key, 0) + 1
        comps = 0
        if o["knn"]:
            rows = knn_rows(o["knn"][0], n)
            import networkx as nx
            g = nx.Graph()
            g.add_nodes_from(range(n))
            g.add_edges_from((a, b) for a, r in enumerate(rows) for b in r)
            comps = nx.number_connected_components(g)
        ctx.count(("points", tuple(c["x"]), tuple(c["y"]), c["search"]), comps > 1)
        if "err" not in o and o["knn"] and len(o["xx"]) == n:
            coq_a.append((i, None))
        ck = "points/container:" + c.get("container", "ndarray")
        dist[ck] = dist.get(ck, 0) + 1
    ashard = 5
    for s in range(0, len(coq_a), ashard):
        body = SORT_PRELUDE + "Definition results : list Z := [\n" + ";\n".join(
            coq_sort_case(cases_a[i], outs_a[i], order) for i, order in coq_a[s:s + ashard]) + "].\nEval vm_compute in results.\n"
        items.append(("sort_%d" % (s // ashard), body))
    n_sa = len(items)
    # ---------------- B: masks
    n_b = ctx.n(300, 3000)
    cases_b = [gen_mask(rng, overlap=(i % 6 == 0)) for i in range(n_b)]
    res_b = [run_mask(c) for c in cases_b]
    timing["masks_py"] = round(time.time() - ctx.t0, 1)
    for c, r in zip(cases_b, res_b):
        key = "mask/%dd/modes=%s%s" % (len(c["shape"]), r["n_modes"] if r["n_modes"] < 3 else "3+", "/overlap" if str(c.get("gen", "")).startswith("overlap") else "")
        dist[key] = dist.get(key, 0) + 1
        ctx.count(("mask", tuple(c["shape"]), tuple(c["mask"])), any(r["hdc"]) and any(r["erosion"]))
    bshard = 20
    for s in range(0, len(cases_b), bshard):
        body = MASK_PRELUDE + "Definition results : list Z := [\n" + ";\n".join(
            coq_mask_case(c, r) for c, r in zip(cases_b[s:s + bshard], res_b[s:s + bshard])) + "].\nEval vm_compute in results.\n"
        items.append(("mask_%d" % (s // bshard), body))
    n_sb = len(items)
    # ---------------- C: contours
    n_c = ctx.n(30, 300)
    max_cells = ctx.n(900, 2000)
    cases_c = [l7_case()]
    # several regions whose bounding boxes overlap (every run): table models 2-D / 3-D, mixture ridges 2-D / 3-D
    for i in range(ctx.n(8, 60)):
        cases_c.append(gen_table_case(rng, 2, kind=["ridges", "nested", "lshapes", "arc"][i % 4]))
    for i in range(ctx.n(3, 20)):
        cases_c.append(gen_table_case(rng, 3))
    for i in range(ctx.n(4, 30)):
        cases_c.append(gen_island_case(rng, 3 if i % 4 == 3 else 2))
    for i in range(ctx.n(6, 40)):
        cases_c.append(gen_hole_case(rng, 3 if i % 3 == 2 else 2))
    for i in range(ctx.n(2, 12)):
        cases_c.append(gen_ridge_case(rng, 2))
    for i in range(ctx.n(1, 6)):
        cases_c.append(gen_ridge_case(rng, 3))
    for what in ["default-limits"] * ctx.n(2, 10) + ["4d"] * ctx.n(2, 10) + sorted(M.PREDEFINED) * ctx.n(1, 3):
        cases_c.append(gen_special_contour(rng, what, max_cells))
    for i in range(ctx.n(4, 30)):
        cases_c.append(gen_int_axis_contour(rng))
    for i in range(ctx.n(3, 20)):
        cases_c.extend(gen_history_contours(rng, max_cells))
    for i in range(n_c):
        cases_c.append(gen_contour_case(rng, max_cells, multimodal=(i % 6 == 5)))
    outs_c = [run_contour(c) for c in cases_c]
    timing["contours_py"] = round(time.time() - ctx.t0, 1)
    coq_c = []
    n_overlap = 0
    for i, (c, o) in enumerate(zip(cases_c, outs_c)):
        n = len(c["desc"]["dims"])
        if "contour" in o:
            kind, sets = coords_as_sets(o["contour"], n)
            key = "contour/%dd/%s%s" % (n, kind, "+warn" if o["warned"] else "")
            try:
                if len(set(float(d) for d in o["contour"].deltas)) > 1:
                    key += "/aniso"
            except TypeError:
                pass
        else:
            key = "contour/%dd/err:%s" % (n, o["err"])
        if c.get("prior_alphas"):
            key += "/history%d" % len(c["prior_alphas"])
        if label_bboxes_overlap(o):
            key += "/overlapping-bboxes"
            n_overlap += 1
        dist[key] = dist.get(key, 0) + 1
        ctx.count(("contour", repr(c["desc"]), c["alpha"], repr(c["limits"]), repr(c["deltas"])), "contour" in o and not o["warned"])
        if "contour" in o and o["erosions"] and o["labels"] and o["f"].size <= 2500:
            coq_c.append(i)
    cshard = 2
    for s in range(0, len(coq_c), cshard):
        body = CONTOUR_PRELUDE + "Definition results : list Z := [\n" + ";\n".join(
            coq_contour_case(cases_c[i], outs_c[i]) for i in coq_c[s:s + cshard]) + "].\nEval vm_compute in results.\n"
        items.append(("contour_%d" % (s // cshard), body))
    outs = ctx.coq_eval_many(items, jobs=16)
    timing["coq"] = round(time.time() - ctx.t0, 1)
    # ---- evaluate
    def codes_of(lo, hi):
        res = []
        for k in range(lo, hi):
            res.append(None if outs[k] is None else vlib.parse_term(outs[k][0]))
        return res
    na, mism_a = 0, []
    for k, codes in enumerate(codes_of(0, n_sa)):
        if codes is None:
            continue
        for j, code in enumerate(codes):
            na += 1
            if code != 0:
                i = coq_a[k * ashard + j][0]
                mism_a.append(i)
                ctx.mismatch("sorter case %d" % i, "%s: n=%d search=%r x=%r y=%r" % (
                    {1: "order differs", 2: "model ran out of fuel", 3: "kNN contract broken"}.get(code, code),
                    len(cases_a[i]["x"]), cases_a[i]["search"], cases_a[i]["x"][:6], cases_a[i]["y"][:6]))
    # cases whose order could not even be recovered (points lost is visible without Coq)
    lost_a = [i for i, (c, o) in enumerate(zip(cases_a, outs_a)) if "err" in o or len(o["xx"]) != len(c["x"])]
    nb, mism_b = 0, []
    for k, codes in enumerate(codes_of(n_sa, n_sb)):
        if codes is None:
            continue
        for j, code in enumerate(codes):
            nb += 1
            if code != 0:
                i = k * bshard + j
                mism_b.append(i)
                ctx.mismatch("mask case %d" % i, "%s: shape %r" % ({1: "binary_erosion differs from the model", 2: "HDR - erosion differs from the model's boundary",
                                                                   3: "label contract (0 off the boundary, <= n_modes) broken"}.get(code, code), cases_b[i]["shape"]))
    nc, mism_c = 0, []
    cnames = {1: "binary_erosion", 2: "boundary (HDR - erosion)", 3: "label contract", 4: "one array / many sets", 5: "coordinates",
              6: "sorter model out of fuel", 7: "kNN contract", 8: "structuring element is not ones((3,)*n)"}
    for k, codes in enumerate(codes_of(n_sb, len(outs))):
        if codes is None:
            continue
        for j, code in enumerate(codes):
            nc += 1
            if code != 0:
                i = coq_c[k * cshard + j]
                mism_c.append(i)
                ctx.mismatch("contour case %d" % i, "%s differ: %r" % (cnames.get(code, code), {k2: cases_c[i][k2] for k2 in ("desc", "alpha", "limits", "deltas")}))
    ctx.cov["programs"] = 3
    ctx.notes["correspondence"] = {"sorter_orders_compared": na, "sorter_mismatches": len(mism_a), "masks_compared": nb, "mask_mismatches": len(mism_b),
                                   "contours_compared": nc, "contour_mismatches": len(mism_c)}
    # the scipy engines against the documented semantics (validation of the oracle contracts, own loops)
    bad_engine = 0
    for c, r in zip(cases_b, res_b):
        msg = oracle_mask(c, r)
        if msg:
            bad_engine += 1
            ctx.mismatch("scipy.ndimage contract", "%s (shape %r)" % (msg, c["shape"]))
    ctx.notes["engine_contract_failures"] = bad_engine
    timing["engine_contracts"] = round(time.time() - ctx.t0, 1)
    # ---------------- search
    found, unjudge = 0, 0
    reported = set()
    first_a = list(dict.fromkeys(mism_a + lost_a))
    for i in first_a + [i for i in range(len(cases_a)) if i not in first_a]:
        if found >= 4:
            break
        o = oracle_points(cases_a[i], outs_a[i])
        if o is not None:
            sig, msg = o
            rk = (sig["clause"], cases_a[i].get("container", "ndarray") if sig["clause"] == "input-type" else "")
            if rk in reported:
                continue              # one shrunk report per clause (and container) is enough
            reported.add(rk)
            small = shrink_points(cases_a[i], sig)
            o2 = oracle_points(small)
            o2 = o2 if isinstance(o2, tuple) else o
            if ctx.violation(o2[0], "sort_points_to_form_continuous_line: " + o2[1], small):
                found += 1
    for i in mism_c + [i for i in range(len(cases_c)) if i not in mism_c]:
        if found >= 8:
            break
        o = oracle_contour(cases_c[i], outs_c[i])
        if o == "unjudgeable":
            unjudge += 1
        elif o is not None:
            sig, msg = o
            small = shrink_contour(cases_c[i], sig)
            o2 = oracle_contour(small) if small is not cases_c[i] else o
            o2 = o2 if isinstance(o2, tuple) else o
            if ctx.violation(o2[0], "HighestDensityContour: " + o2[1], small):
                found += 1
    # plotting of 2-D highest-density contours: the line is the coordinate array in the sorter's order
    nplot, plot_notes = 0, {}
    nmulti = 0
    for c, o in zip(cases_c, outs_c):
        if nplot >= ctx.n(12, 60) or found >= 8:
            break
        if "contour" not in o or len(c["desc"]["dims"]) != 2:
            continue
        if isinstance(o["contour"].coordinates, list):
            nmulti += 1
            if nmulti > 2:
                continue
        nplot += 1
        r = plot_check(c, o)
        if isinstance(r, str):
            plot_notes[r] = plot_notes.get(r, 0) + 1
        elif r is not None:
            if ctx.violation(r[0], "plot_2D_contour(HighestDensityContour): " + r[1], c):
                found += 1
    ctx.notes["plots_checked"] = nplot
    ctx.notes["plot_notes"] = plot_notes
    # larger grids: oracle only
    n_big = ctx.n(4, 14)
    for i in range(n_big):
        if found >= 8:
            break
        c = gen_contour_case(rng, ctx.n(12000, 25000), big=True, multimodal=(i % 4 == 3))
        out = run_contour(c)
        key = "bigcontour/%dd/%s" % (len(c["desc"]["dims"]), out.get("err", "ok"))
        dist[key] = dist.get(key, 0) + 1
        ctx.count(("contour", repr(c["desc"]), c["alpha"], repr(c["limits"]), repr(c["deltas"])), "contour" in out and not out["warned"])
        o = oracle_contour(c, out)
        if o == "unjudgeable":
            unjudge += 1
        elif o is not None:
            sig, msg = o
            small = shrink_contour(c, sig)
            o2 = oracle_contour(small) if small is not c else o
            o2 = o2 if isinstance(o2, tuple) else o
            if ctx.violation(o2[0], "HighestDensityContour: " + o2[1], small):
                found += 1
    timing["end"] = round(time.time() - ctx.t0, 1)
    ctx.notes["timing_cumulative_s"] = timing
    ctx.notes["input_distribution"] = dist
    ctx.notes["unjudgeable"] = unjudge
    ctx.notes["contours_with_overlapping_region_bounding_boxes"] = n_overlap
    if n_overlap < 6:
        ctx.broken.append(("generator", "fewer than 6 contours with overlapping region bounding boxes (%d)" % n_overlap, ""))
    ctx.notes["point_set_sizes"] = {"min": min(len(c["x"]) for c in cases_a), "max": max(len(c["x"]) for c in cases_a)}
    for c, o in list(zip(cases_a, outs_a))[:2]:
        ctx.sample({"case": {k: (v[:6] if isinstance(v, list) else v) for k, v in c.items()}, "returned": len(o.get("xx", [])), "of": len(c["x"])})
    for c, o in list(zip(cases_c, outs_c))[:2]:
        ctx.sample({"case": c, "n_coordinates": (None if "contour" not in o else sum(len(s) for s in coords_as_sets(o["contour"], len(c["desc"]["dims"]))[1]))})
    ctx.cov["rule"] = ("A: planar point sets (random on a circle, ellipses, gaussian clusters, anisotropic lattices, collinear, rims of ellipses on anisotropic grids, "
                       "uniform; 3-150 points, shuffled) through the sorter with and without the start search; B: boolean masks of 1-4 dimensions (noise, blobs, "
                       "frames, full, empty) through binary_erosion / label; C: contours of random 2-D/3-D hierarchical models (incl. models whose region falls apart), "
                       "isotropic and anisotropic deltas (ratio <= 10), alpha in [1e-6, 0.3], plus the anisotropic grid of lead L7; non-trivial = the kNN graph is "
                       "disconnected (A) / mask with non-empty erosion and boundary (B) / contour without RuntimeWarning (C); distinct = hash of the full input")
    ctx.cov["trusted_base"] = ["Coq 8.16.1 kernel + vm_compute (primitive floats)", "harness tools/harness/c15.py + _c02_models.py (generators, recorders, comparison)",
                               "sklearn NearestNeighbors as oracle (recorded kNN lists; contract 'two in-range neighbours per point' checked per case)",
                               "scipy.ndimage binary_erosion / label as oracles: compared with the model's erode / validated against own loops per case",
                               "networkx: from_scipy_sparse_array adjacency order and dfs_preorder_nodes are re-implemented in model/Sorter.v (validated by the order comparison)",
                               "numpy pairwise summation re-implemented in model/Sorter.v (validated by the order comparison)"]
    ctx.assumptions += ["label contract: label 0 exactly off the boundary, labels <= n_modes (hypothesis of C15_each_boundary_cell_once, checked per case)",
                        "neighbours named by the kNN graph are points of the set (hypothesis of the sorter theorems, checked per case)",
                        "point sets have at least 3 points (sklearn rejects fewer); input points distinct in the order comparison"]
