(* Hand models pinned to the CURRENT source by a proof: the definition regenerated from virocon by tools/py2v.py
   is (convertible to) the hand-written one that the theorems and the correspondence runs use. *)
From Coq Require Import QArith Qreals Reals PrimFloat.
From V.base Require Import Num FloatBits.
From V.gen Require Import Contours.
From V.model Require Import Iform.

Lemma calculate_alpha_generated_R (sd rp : R) :
  ct_calculate_alpha ROps sd rp = calculate_alpha R (Q2R (1461 # 4)) (IZR 24) Rmult Rdiv sd rp.
Proof. reflexivity. Qed.
Lemma calculate_alpha_generated_float (sd rp : float) :
  ct_calculate_alpha (FOps nil nil) sd rp = calculate_alphaF sd rp.
Proof. reflexivity. Qed.
