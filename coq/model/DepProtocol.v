(* Executable model of virocon/dependencies.py (fit / _fit / register / callback), of the loop over
   conditional_parameters in ConditionalDistribution.fit (distributions.py) and of the glue in
   virocon/_fitting.py (bounds conversion, which engine is called with which arguments).

   Functions are numbered in creation order.  Conditioners are constructor arguments of their
   dependents (`DependenceFunction(func, ..., d_of_x=beta_dep)`), so `conds j` only contains ids < j:
   that is a fact about Python object construction, stated as a hypothesis of the theorems.

   The optimiser (scipy.optimize.curve_fit / minimize) is the abstract function F: it gets the id,
   the saved data, the start value p0 (= current parameters of j) and the current parameters of all
   functions (it reads those of the conditioners of j through functools.partial).

   NO proofs in this file. *)
From Coq Require Import List Arith Bool.
Import ListNotations.

Inductive res (A : Type) := Ok (a : A) | OutOfFuel | AssertionFailed.
Arguments Ok {A}. Arguments OutOfFuel {A}. Arguments AssertionFailed {A}.

Definition bind {A B} (r : res A) (f : A -> res B) : res B :=
  match r with Ok a => f a | OutOfFuel => OutOfFuel | AssertionFailed => AssertionFailed end.

Section Protocol.
  Variables P D : Type.
  Variable n : nat.                       (* number of DependenceFunction objects *)
  Variable conds : nat -> list nat.       (* dependent_parameters.values() of j: keyword order, with multiplicity *)
  Variable F : nat -> D -> P -> (nat -> P) -> P.

  Definition is_cond (i j : nat) : bool := existsb (Nat.eqb i) (conds j).

  (* self.dependents of i: register() appends the dependent once per keyword that names i; dependents
     are constructed in creation order *)
  Definition dependents (i : nat) : list nat :=
    flat_map (fun k => map (fun _ => k) (filter (Nat.eqb i) (conds k))) (seq 0 n).

  Record st := mk {
    saved : nat -> option D;              (* self.x, self.y (hasattr) *)
    may_fit : nat -> bool;                (* self._may_fit *)
    fitted_conds : nat -> list nat;       (* self._fitted_conditioners (a set) *)
    params : nat -> P;                    (* self.parameters.values() *)
    log : list (nat * D)                  (* ghost: optimiser calls in the order they happen *)
  }.

  Definition upd {A} (f : nat -> A) (k : nat) (v : A) : nat -> A := fun x => if Nat.eqb x k then v else f x.

  Definition set_saved s j d := mk (upd (saved s) j (Some d)) (may_fit s) (fitted_conds s) (params s) (log s).
  Definition set_may s k := mk (saved s) (upd (may_fit s) k true) (fitted_conds s) (params s) (log s).
  Definition set_add (c : nat) (l : list nat) : list nat := if existsb (Nat.eqb c) l then l else l ++ [c].
  Definition add_fitted s k c := mk (saved s) (may_fit s) (upd (fitted_conds s) k (set_add c (fitted_conds s k))) (params s) (log s).
  Definition set_params s j d v := mk (saved s) (may_fit s) (fitted_conds s) (upd (params s) j v) (log s ++ [(j, d)]).

  (* set.issubset, as written in callback: _fitted_conditioners.issubset(dependent_parameters.values()) *)
  Definition subset_as_written (fc : list nat) (k : nat) : bool := forallb (fun c => is_cond c k) fc.

  (* DependenceFunction.fit: save x, y; fit now if allowed *)
  Definition fit_body (fit_rec : nat -> D -> st -> res st) (j : nat) (d : D) (s : st) : res st :=
    let s' := set_saved s j d in
    if may_fit s' j then fit_rec j d s' else Ok s'.

  (* DependenceFunction.callback(caller) on function k *)
  Definition callback (fit_rec : nat -> D -> st -> res st) (k caller : nat) (s : st) : res st :=
    if negb (is_cond caller k) then AssertionFailed else
    let s1 := add_fitted s k caller in
    if subset_as_written (fitted_conds s1 k) k then
      let s2 := set_may s1 k in
      match saved s2 k with
      | Some d => fit_body fit_rec k d s2        (* self.fit(self.x, self.y) *)
      | None => Ok s2
      end
    else Ok s1.

  (* DependenceFunction._fit: optimise from p0 = current parameters, store, notify dependents in order *)
  Fixpoint do_fit (fuel j : nat) (d : D) (s : st) : res st :=
    match fuel with
    | 0 => OutOfFuel
    | S f =>
        let s1 := set_params s j d (F j d (params s j) (params s)) in
        fold_left (fun acc k => bind acc (callback (do_fit f) k j)) (dependents j) (Ok s1)
    end.

  (* a call of DependenceFunction.fit from outside; fuel n+1 always suffices (proved) *)
  Definition fit (j : nat) (d : D) (s : st) : res st := fit_body (do_fit (S n)) j d s.

  Variable p0 : nat -> P.
  (* state after all constructors have run *)
  Definition init : st :=
    mk (fun _ => None) (fun k => match conds k with [] => true | _ => false end) (fun _ => []) p0 [].

  Fixpoint run (ops : list (nat * D)) (s : st) : res st :=
    match ops with
    | [] => Ok s
    | (j, d) :: ops' => bind (fit j d s) (run ops')
    end.

  (* ConditionalDistribution.fit, second loop: the dependence function of every conditional parameter
     is given its data, in the order of the distribution's parameter names *)
  Definition cond_dist_fit (funs : list nat) (ys : list D) (s : st) : res st := run (combine funs ys) s.

  (* last data handed to j in a history *)
  Fixpoint last_data (ops : list (nat * D)) (j : nat) (acc : option D) : option D :=
    match ops with
    | [] => acc
    | (k, d) :: ops' => last_data ops' j (if Nat.eqb k j then Some d else acc)
    end.
End Protocol.

Arguments Ok {A}. Arguments OutOfFuel {A}. Arguments AssertionFailed {A}.
Arguments saved {P D}. Arguments may_fit {P D}. Arguments fitted_conds {P D}. Arguments params {P D}. Arguments log {P D}.

(* ------------------------------------------------------------------ bounds and dispatch (_fitting.py) *)
Section Bounds.
  Variable T : Type.
  Variables neg_inf pos_inf : T.

  (* convert_bounds_for_curve_fit: [(l0,u0); (l1,u1); ...] -> [[l0'; l1'; ...]; [u0'; u1'; ...]], None -> -inf / +inf *)
  Definition convert_bounds (bs : list (option T * option T)) : list T * list T :=
    (map (fun b => match fst b with Some l => l | None => neg_inf end) bs,
     map (fun b => match snd b with Some u => u | None => pos_inf end) bs).

  Variable leb : T -> T -> bool.

  (* the box curve_fit is asked to stay in *)
  Definition in_box (lu : list T * list T) (p : list T) : Prop :=
    Forall2 (fun lb x => leb (fst lb) x = true /\ leb x (snd lb) = true) (combine (fst lu) (snd lu)) p.

  (* the declared bounds: None = unbounded on that side *)
  Definition in_declared (bs : list (option T * option T)) (p : list T) : Prop :=
    Forall2 (fun b x => (forall l, fst b = Some l -> leb l x = true) /\ (forall u, snd b = Some u -> leb x u = true)) bs p.

  (* inequality constraints c(p) >= 0 *)
  Variable zero : T.
  Definition satisfies (cons : list (list T -> T)) (p : list T) : Prop := Forall (fun c => leb zero (c p) = true) cons.

  Inductive engine := CurveFit | MinimizeSLSQP.

  (* what is handed to scipy *)
  Record call := mkcall {
    c_engine : engine;
    c_sigma : bool;                                     (* sigma=weights passed *)
    c_box : option (list T * list T);                   (* curve_fit(bounds=[lower, upper]) *)
    c_raw_bounds : option (list (option T * option T)); (* minimize(bounds=...) takes (l, u) pairs with None *)
    c_constraints : list (list T -> T)                  (* minimize(constraints=...) *)
  }.

  Inductive outcome := Call (c : call) | NotImplemented.

  (* DependenceFunction._fit + fit_function / fit_constrained_function: which engine, which arguments.
     `constraints`: None, or the declared list (a single dict is a one-element list).
     This is the code AS REPAIRED for lead L6: the declared constraints are handed to minimize. *)
  Definition dispatch (has_weights : bool) (bounds : option (list (option T * option T)))
             (constraints : option (list (list T -> T))) : outcome :=
    match constraints with
    | None => Call (mkcall CurveFit has_weights
                           (match bounds with Some bs => Some (convert_bounds bs) | None => None end) None [])
    | Some cs => if has_weights then NotImplemented
                 else Call (mkcall MinimizeSLSQP false None bounds cs)
    end.

  (* feasible set of the problem a call describes *)
  Definition feasible (c : call) (p : list T) : Prop :=
    match c_engine c with
    | CurveFit => match c_box c with Some lu => in_box lu p | None => True end
    | MinimizeSLSQP => match c_raw_bounds c with Some bs => in_declared bs p | None => True end
                       /\ satisfies (c_constraints c) p
    end.
End Bounds.

Arguments Call {T}. Arguments NotImplemented {T}.
Arguments c_engine {T}. Arguments c_sigma {T}. Arguments c_box {T}. Arguments c_raw_bounds {T}. Arguments c_constraints {T}.

(* ------------------------------------------------------------------ executable instances *)
(* Tagging optimiser: the "parameters" a fit returns are the term that records which function was
   fitted to which data from which start value against which conditioner parameters. *)
Inductive tag := Start (j : nat) | Fitted (j d : nat) (p0 : tag) (env : list tag).

Fixpoint tag_eqb (a b : tag) : bool :=
  match a, b with
  | Start i, Start j => Nat.eqb i j
  | Fitted i d p e, Fitted i' d' p' e' =>
      Nat.eqb i i' && Nat.eqb d d' && tag_eqb p p' &&
      (fix go (l l' : list tag) : bool :=
         match l, l' with
         | [], [] => true
         | x :: r, y :: r' => tag_eqb x y && go r r'
         | _, _ => false
         end) e e'
  | _, _ => false
  end.

Definition lookup (tbl : list (list nat)) (j : nat) : list nat := nth j tbl [].

(* everything the optimiser of j reads: the conditioners of j, their conditioners, ... (sorted, without repetition) *)
Fixpoint raw_ancestors (conds : nat -> list nat) (fuel j : nat) : list nat :=
  match fuel with
  | 0 => []
  | S f => flat_map (fun c => c :: raw_ancestors conds f c) (conds j)
  end.
Definition ancestors (conds : nat -> list nat) (j : nat) : list nat :=
  filter (fun i => existsb (Nat.eqb i) (raw_ancestors conds (S j) j)) (seq 0 j).

Definition Ftag (conds : nat -> list nat) (j d : nat) (p0 : tag) (env : nat -> tag) : tag :=
  Fitted j d p0 (map env (ancestors conds j)).

Definition run_tag (n : nat) (ctbl : list (list nat)) (ops : list (nat * nat)) : res (st tag nat) :=
  run tag nat n (lookup ctbl) (Ftag (lookup ctbl)) ops (init tag nat (lookup ctbl) Start).

(* observable summary of a final state, compared with the implementation *)
Definition summary (n : nat) (s : st tag nat) : list (tag * bool * option nat * list nat) * list (nat * nat) :=
  (map (fun j => (params s j, may_fit s j, saved s j, fitted_conds s j)) (seq 0 n), log s).

Fixpoint list_eqb {A} (eqb : A -> A -> bool) (a b : list A) : bool :=
  match a, b with [], [] => true | x :: a', y :: b' => eqb x y && list_eqb eqb a' b' | _, _ => false end.
Definition opt_eqb (a b : option nat) : bool :=
  match a, b with None, None => true | Some x, Some y => Nat.eqb x y | _, _ => false end.
Definition set_eqb (a b : list nat) : bool :=
  forallb (fun x => existsb (Nat.eqb x) b) a && forallb (fun x => existsb (Nat.eqb x) a) b.

(* 0 ok; 1 model did not return a state; 2 parameters (terms); 3 _may_fit; 4 saved data; 5 _fitted_conditioners;
   6 order of optimiser calls *)
Definition compare_run (n : nat) (ctbl : list (list nat)) (ops : list (nat * nat))
           (e_params : list tag) (e_may : list bool) (e_saved : list (option nat)) (e_fc : list (list nat))
           (e_log : list (nat * nat)) : nat :=
  match run_tag n ctbl ops with
  | Ok s =>
      let js := seq 0 n in
      if negb (list_eqb tag_eqb (map (params s) js) e_params) then 2
      else if negb (list_eqb Bool.eqb (map (may_fit s) js) e_may) then 3
      else if negb (list_eqb opt_eqb (map (saved s) js) e_saved) then 4
      else if negb (list_eqb set_eqb (map (fitted_conds s) js) e_fc) then 5
      else if negb (list_eqb (fun a b => Nat.eqb (fst a) (fst b) && Nat.eqb (snd a) (snd b)) (log s) e_log) then 6
      else 0
  | _ => 1
  end.

(* binary64 instance of the bounds conversion *)
From Coq Require Import PrimFloat.
Definition convert_bounds_f := convert_bounds float neg_infinity infinity.
