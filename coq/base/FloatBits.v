(* Binary64 helpers shared by the executable (correspondence) instances of the models:
   bit comparison, numpy's arange / linspace / cumsum reproduced with plain IEEE operations. *)
From Coq Require Import PrimFloat Uint63 ZArith List Bool FloatOps SpecFloat.
Import ListNotations.
Local Open Scope float_scope.

Definition fbits_eq (x y : float) : bool :=
  match Prim2SF x, Prim2SF y with
  | S754_zero s1, S754_zero s2 => Bool.eqb s1 s2
  | S754_infinity s1, S754_infinity s2 => Bool.eqb s1 s2
  | S754_nan, S754_nan => true
  | S754_finite s1 m1 e1, S754_finite s2 m2 e2 => Bool.eqb s1 s2 && Pos.eqb m1 m2 && Z.eqb e1 e2
  | _, _ => false
  end.

(* ceil of a finite binary64 as Z (None for nan/inf) *)
Definition ceilZ (x : float) : option Z :=
  match Prim2SF x with
  | S754_zero _ => Some 0%Z
  | S754_finite s m e =>
      let mz := Zpos m in
      let v := if (0 <=? e)%Z then (mz * 2 ^ e, true)%Z
               else (mz / 2 ^ (- e), (mz mod 2 ^ (- e) =? 0))%Z in
      let '(q, exact) := v in
      Some (if s then (- q)%Z else (if exact then q else q + 1)%Z)
  | _ => None
  end.

(* floor / truncation toward zero (Python int()) *)
Definition truncZ (x : float) : option Z :=
  match Prim2SF x with
  | S754_zero _ => Some 0%Z
  | S754_finite s m e =>
      let mz := Zpos m in
      let q := if (0 <=? e)%Z then (mz * 2 ^ e)%Z else (mz / 2 ^ (- e))%Z in
      Some (if s then (- q)%Z else q)
  | _ => None
  end.

Definition of_nat (i : nat) : float := PrimFloat.of_uint63 (Uint63.of_Z (Z.of_nat i)).
Definition of_Z (i : Z) : float :=
  if (i <? 0)%Z then - PrimFloat.of_uint63 (Uint63.of_Z (- i)) else PrimFloat.of_uint63 (Uint63.of_Z i).

(* numpy.arange(start, stop, step) for float64: length ceil((stop-start)/step),
   element i = start + i*((start+step)-start), the first two written directly *)
Definition arange (start stop step : float) : list float :=
  match ceilZ ((stop - start) / step) with
  | None => []
  | Some len =>
      let n := Z.to_nat len in
      let delta := (start + step) - start in
      map (fun i => match i with O => start | S O => start + step | _ => start + of_nat i * delta end) (seq 0 n)
  end.

(* numpy.linspace(start, stop, num, endpoint=False, retstep=True) *)
Definition linspace_open (start stop : float) (num : nat) : list float * float :=
  let step := (stop - start) / of_nat num in
  if PrimFloat.eqb step 0 then
    (map (fun i => (of_nat i / of_nat num) * (stop - start) + start) (seq 0 num), step)
  else (map (fun i => of_nat i * step + start) (seq 0 num), step).

(* numpy.linspace(start, stop, num, endpoint=True), num >= 2 *)
Definition linspace_closed (start stop : float) (num : nat) : list float :=
  let div := of_nat (num - 1) in
  let step := (stop - start) / div in
  let body := if PrimFloat.eqb step 0
              then map (fun i => (of_nat i / div) * (stop - start) + start) (seq 0 num)
              else map (fun i => of_nat i * step + start) (seq 0 num) in
  match num with
  | O => []
  | S O => [start]
  | _ => firstn (num - 1) body ++ [stop]
  end.

Fixpoint cumsum_from (acc : float) (l : list float) : list float :=
  match l with [] => [] | x :: l' => let a := acc + x in a :: cumsum_from a l' end.
Definition cumsum (l : list float) : list float :=
  match l with [] => [] | x :: l' => x :: cumsum_from x l' end.

Fixpoint fmax_from (l : list float) (acc : float) : float :=
  match l with [] => acc | x :: l' => fmax_from l' (if PrimFloat.ltb acc x then x else acc) end.
Definition fmax (l : list float) : float := match l with [] => nan | x :: l' => fmax_from l' x end.
Fixpoint fmin_from (l : list float) (acc : float) : float :=
  match l with [] => acc | x :: l' => fmin_from l' (if PrimFloat.ltb x acc then x else acc) end.
Definition fmin (l : list float) : float := match l with [] => nan | x :: l' => fmin_from l' x end.
