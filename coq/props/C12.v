(* C12 -- maximum-likelihood fits: glue round trip, start values, scale equivariance (partial: optimiser is an oracle) *)
From Coq Require Import Reals List String Bool.
From V.base Require Import Num.
From V.gen Require Import Distributions.
From V.model Require Import DistHand Conditional ScipyDist.
From V.proofs Require Import DistProofs DistFitProofs DistDocProofs CondProofs ScipyDistProofs.
Import ListNotations.
Local Open Scope R_scope.
Local Open Scope string_scope.
Local Open Scope list_scope.

(* Weibull: the start values handed to scipy are the current parameters under the same map that evaluation uses *)
Theorem C12_W_start_values :
  forall s : WeibullDistribution,
       f_pos (W_call s) ++ map snd (firstn 2 (f_kw (W_call s))) =
       c_params (WeibullDistribution_cdf s None None None).
Proof. exact (@W_start_values). Qed.

(* LogNormal: the start values handed to scipy are the current parameters under the same map that evaluation uses *)
Theorem C12_LN_start_values :
  forall s : LogNormalDistribution,
       f_pos (LN_call s) ++ [0] ++ map snd (firstn 1 (f_kw (LN_call s))) =
       c_params (LogNormalDistribution_cdf RN s None None).
Proof. exact (@LN_start_values). Qed.

(* Normal: the start values handed to scipy are the current parameters under the same map that evaluation uses *)
Theorem C12_N_start_values :
  forall s : NormalDistribution,
       map snd (firstn 2 (f_kw (N_call s))) = c_params (NormalDistribution_cdf s None None).
Proof. exact (@N_start_values). Qed.

(* ExponentiatedWeibull: the start values handed to scipy are the current parameters under the same map that evaluation uses *)
Theorem C12_EW_start_values :
  forall s : ExponentiatedWeibullDistribution,
       f_pos (EW_call s) ++ [0] ++ map snd (firstn 1 (f_kw (EW_call s))) =
       c_params (ExponentiatedWeibullDistribution_cdf RN s None None None).
Proof. exact (@EW_start_values). Qed.

(* GeneralizedGamma: the start values handed to scipy are the current parameters under the same map that evaluation uses *)
Theorem C12_GG_start_values :
  forall s : GeneralizedGammaDistribution,
       f_pos (GG_call s) ++ [0] ++ map snd (firstn 1 (f_kw (GG_call s))) =
       c_params (GeneralizedGammaDistribution_cdf RN s None None None).
Proof. exact (@GG_start_values). Qed.

(* Weibull (last conjunct): what scipy's optimiser returned is exactly what every later evaluation uses.  PARTIAL: that the optimiser does not lose likelihood is scipy's (oracle), validated numerically by the harness *)
Theorem C12_W_glue_roundtrip_partial :
  forall (fit : fitcall R -> list R) (s : WeibullDistribution),
       fit_contract fit ->
       exists s' : WeibullDistribution,
         WeibullDistribution__fit_mle fit s = Ok s' /\
         (forall v : R, WeibullDistribution_f_alpha s = Some v -> WeibullDistribution_alpha s' = v) /\
         (forall v : R, WeibullDistribution_f_beta s = Some v -> WeibullDistribution_beta s' = v) /\
         (forall v : R, WeibullDistribution_f_gamma s = Some v -> WeibullDistribution_gamma s' = v) /\
         WeibullDistribution_f_alpha s' = WeibullDistribution_f_alpha s /\
         WeibullDistribution_f_beta s' = WeibullDistribution_f_beta s /\
         WeibullDistribution_f_gamma s' = WeibullDistribution_f_gamma s /\
         c_params (WeibullDistribution_cdf s' None None None) = fit (W_call s).
Proof. exact (@W_fit_fixed). Qed.

(* LogNormal (last conjunct): what scipy's optimiser returned is exactly what every later evaluation uses.  PARTIAL: that the optimiser does not lose likelihood is scipy's (oracle), validated numerically by the harness *)
Theorem C12_LN_glue_roundtrip_partial :
  forall (fit : fitcall R -> list R) (s : LogNormalDistribution),
       fit_contract fit ->
       exists s' : LogNormalDistribution,
         LogNormalDistribution__fit_mle RN fit s = Ok s' /\
         (forall v : R, LogNormalDistribution_f_mu s = Some v -> LogNormalDistribution_mu s' = v) /\
         (forall v : R, LogNormalDistribution_f_sigma s = Some v -> LogNormalDistribution_sigma s' = v) /\
         LogNormalDistribution_f_mu s' = LogNormalDistribution_f_mu s /\
         LogNormalDistribution_f_sigma s' = LogNormalDistribution_f_sigma s /\
         (0 < nth 2 (fit (LN_call s)) 1 ->
          c_params (LogNormalDistribution_cdf RN s' None None) = fit (LN_call s)).
Proof. exact (@LN_fit_fixed). Qed.

(* Normal (last conjunct): what scipy's optimiser returned is exactly what every later evaluation uses.  PARTIAL: that the optimiser does not lose likelihood is scipy's (oracle), validated numerically by the harness *)
Theorem C12_N_glue_roundtrip_partial :
  forall (fit : fitcall R -> list R) (s : NormalDistribution),
       fit_contract fit ->
       exists s' : NormalDistribution,
         NormalDistribution__fit_mle fit s = Ok s' /\
         (forall v : R, NormalDistribution_f_mu s = Some v -> NormalDistribution_mu s' = v) /\
         (forall v : R, NormalDistribution_f_sigma s = Some v -> NormalDistribution_sigma s' = v) /\
         NormalDistribution_f_mu s' = NormalDistribution_f_mu s /\
         NormalDistribution_f_sigma s' = NormalDistribution_f_sigma s /\
         c_params (NormalDistribution_cdf s' None None) = fit (N_call s).
Proof. exact (@N_fit_fixed). Qed.

(* ExponentiatedWeibull (last conjunct): what scipy's optimiser returned is exactly what every later evaluation uses.  PARTIAL: that the optimiser does not lose likelihood is scipy's (oracle), validated numerically by the harness *)
Theorem C12_EW_glue_roundtrip_partial :
  forall (fit : fitcall R -> list R) (s : ExponentiatedWeibullDistribution),
       fit_contract fit ->
       exists s' : ExponentiatedWeibullDistribution,
         ExponentiatedWeibullDistribution__fit_mle RN fit s = Ok s' /\
         (forall v : R,
          ExponentiatedWeibullDistribution_f_alpha s = Some v ->
          ExponentiatedWeibullDistribution_alpha s' = v) /\
         (forall v : R,
          ExponentiatedWeibullDistribution_f_beta s = Some v ->
          ExponentiatedWeibullDistribution_beta s' = v) /\
         (forall v : R,
          ExponentiatedWeibullDistribution_f_delta s = Some v ->
          ExponentiatedWeibullDistribution_delta s' = v) /\
         ExponentiatedWeibullDistribution_f_alpha s' = ExponentiatedWeibullDistribution_f_alpha s /\
         ExponentiatedWeibullDistribution_f_beta s' = ExponentiatedWeibullDistribution_f_beta s /\
         ExponentiatedWeibullDistribution_f_delta s' = ExponentiatedWeibullDistribution_f_delta s /\
         c_params (ExponentiatedWeibullDistribution_cdf RN s' None None None) = fit (EW_call s).
Proof. exact (@EW_fit_fixed). Qed.

(* GeneralizedGamma (last conjunct): what scipy's optimiser returned is exactly what every later evaluation uses.  PARTIAL: that the optimiser does not lose likelihood is scipy's (oracle), validated numerically by the harness *)
Theorem C12_GG_glue_roundtrip_partial :
  forall (fit : fitcall R -> list R) (s : GeneralizedGammaDistribution),
       fit_contract fit ->
       exists s' : GeneralizedGammaDistribution,
         GeneralizedGammaDistribution__fit_mle RN fit s = Ok s' /\
         (forall v : R,
          GeneralizedGammaDistribution_f_m s = Some v -> GeneralizedGammaDistribution_m s' = v) /\
         (forall v : R,
          GeneralizedGammaDistribution_f_c s = Some v -> GeneralizedGammaDistribution_c s' = v) /\
         (forall v : R,
          v <> 0 ->
          GeneralizedGammaDistribution_f_lambda_ s = Some v -> GeneralizedGammaDistribution_lambda_ s' = v) /\
         GeneralizedGammaDistribution_f_m s' = GeneralizedGammaDistribution_f_m s /\
         GeneralizedGammaDistribution_f_c s' = GeneralizedGammaDistribution_f_c s /\
         GeneralizedGammaDistribution_f_lambda_ s' = GeneralizedGammaDistribution_f_lambda_ s /\
         (nth 3 (fit (GG_call s)) 1 <> 0 ->
          c_params (GeneralizedGammaDistribution_cdf RN s' None None None) = fit (GG_call s)).
Proof. exact (@GG_fit_fixed). Qed.

(* VonMises (last conjunct): later evaluations use the kappa scipy returned and the location it returned, or the fixed mu itself when mu is fixed (scipy returns that one wrapped into [-pi,pi], which is the same distribution).  PARTIAL: that the optimiser does not lose likelihood is scipy's (oracle), validated numerically by the harness *)
Theorem C12_VM_glue_roundtrip_partial :
  forall (fit : fitcall R -> list R) (s : VonMisesDistribution),
       vm_contract fit ->
       exists s' : VonMisesDistribution,
         VonMisesDistribution__fit_mle RN fit s = Ok s' /\
         (forall v : R, VonMisesDistribution_f_kappa s = Some v -> VonMisesDistribution_kappa s' = v) /\
         (forall v : R, VonMisesDistribution_f_mu s = Some v -> VonMisesDistribution_mu s' = v) /\
         VonMisesDistribution_f_kappa s' = VonMisesDistribution_f_kappa s /\
         VonMisesDistribution_f_mu s' = VonMisesDistribution_f_mu s /\
         c_params (VonMisesDistribution_cdf s' None None) =
         [nth 0 (fit (VM_call s)) 0; VM_fix_mu s (nth 1 (fit (VM_call s)) 0)].
Proof. exact (@VM_fit_fixed). Qed.

(* likelihood of a loc-scale family under x -> c x, loc -> c loc, scale -> c scale *)
Theorem C12_likelihood_equivariant :
  forall (f0 : R -> R) (c loc scale : R) (xs : list R),
       0 < c ->
       scale <> 0 ->
       lik f0 (c * loc) (c * scale) (map (Rmult c) xs) = lik f0 loc scale xs / c ^ Datatypes.length xs.
Proof. exact (@likelihood_equivariant). Qed.

(* hence the exact maximiser is scale-equivariant (shapes unchanged) *)
Theorem C12_maximiser_equivariant :
  forall (f0 : R -> R) (c loc scale : R) (xs : list R),
       0 < c ->
       scale <> 0 ->
       (forall l s : R, s <> 0 -> lik f0 l s xs <= lik f0 loc scale xs) ->
       forall l s : R,
       s <> 0 -> lik f0 l s (map (Rmult c) xs) <= lik f0 (c * loc) (c * scale) (map (Rmult c) xs).
Proof. exact (@maximiser_equivariant). Qed.

(* log-normal: multiplying the data by c adds ln c to the log-scale parameter mu and leaves sigma unchanged (likelihood identity) *)
Theorem C12_lognormal_likelihood_equivariant :
  forall (g0 : R -> R) (c mu sigma : R) (xs : list R),
       0 < c ->
       sigma <> 0 ->
       Forall (fun x : R => 0 < x) xs ->
       lik_ln g0 (mu + ln c) sigma (map (Rmult c) xs) = lik_ln g0 mu sigma xs / c ^ Datatypes.length xs.
Proof. exact (@lognormal_likelihood_equivariant). Qed.

(* ScipyDistribution subclasses: unless every parameter is fixed the optimiser IS called, with the current parameters as start values *)
Theorem C12_SD_fit_call :
  forall (T : Type) (dflt : T) (fit : fitcall T -> list T) (fam : string) 
         (names : list string) (stored : list T) (fixed : list (option T)),
       Datatypes.length names = Datatypes.length fixed ->
       In None fixed ->
       sd_fit dflt fit fam names stored fixed =
       fit
         {|
           f_family := fam;
           f_pos := firstn (Datatypes.length names - 2) stored;
           f_kw :=
             [("loc", nth (Datatypes.length names - 2) stored dflt);
              ("scale", nth (S (Datatypes.length names - 2)) stored dflt)] ++ sd_fkw names fixed
         |}.
Proof. exact (@sd_fit_runs_when_something_free). Qed.

Example C12_nonvacuous : lik (fun z => z) 0 2 [4; 6] = (4 / 2 / 2) * ((6 / 2 / 2) * 1).
Proof. unfold lik, dens. f_equal; [|f_equal]; f_equal; f_equal; apply Rminus_0_r. Qed.

Print Assumptions C12_W_start_values.
Print Assumptions C12_LN_start_values.
Print Assumptions C12_N_start_values.
Print Assumptions C12_EW_start_values.
Print Assumptions C12_GG_start_values.
Print Assumptions C12_W_glue_roundtrip_partial.
Print Assumptions C12_LN_glue_roundtrip_partial.
Print Assumptions C12_N_glue_roundtrip_partial.
Print Assumptions C12_EW_glue_roundtrip_partial.
Print Assumptions C12_GG_glue_roundtrip_partial.
Print Assumptions C12_VM_glue_roundtrip_partial.
Print Assumptions C12_likelihood_equivariant.
Print Assumptions C12_maximiser_equivariant.
Print Assumptions C12_lognormal_likelihood_equivariant.
Print Assumptions C12_SD_fit_call.
