"""C06 -- joint density factorises hierarchically; cdf and marginals are its integrals (DESIGN.md section 6, C06).

proof gate: props/C06.v (pdf = product of the per-dimension densities at (x_i, x_cond(i)) of the same row, >= 0;
            permutation lemma for every arg_order; under nquad_is_iterated_integral cdf / marginal_pdf /
            marginal_cdf are the iterated integrals with every variable in model order; total mass (partial)).
correspondence: binary64 model model/Joint.v (vm_compute) vs virocon.jointmodels:
            * pdf bit-exact from the recorded per-distribution pdf tables (proxies around model.distributions[i]),
              row-vector / list / (n, n_dim) inputs, float and integer dtype;
            * scipy.integrate.nquad replaced (virocon.jointmodels.integrate rebound) by a probing stub that records
              ranges / extra args, calls the integrand at chosen argument vectors and records what reaches model.pdf;
              cdf / marginal_pdf / marginal_cdf outputs compared with the model fed with the stub's return values;
            * np.array(args)[np.argsort(arg_order)] for ALL permutations of length <= 4.
search (always on): pdf vs an independent product (scipy.stats only), pdf >= 0, integer-typed vs float inputs,
            real nquad results (2-D) vs 1-D quadrature, total mass, marginal_cdf(marginal_icdf(p)) = p within a DKW band.
"""
import itertools
import math

import numpy as np
import scipy.integrate as real_integrate

import vlib
from vlib import fl, fl_list

from harness import _c06_models as M

FORMS = ["vec_list", "vec_arr", "mat_list", "mat_arr", "vec_list_int", "vec_arr_int", "mat_arr_int"]


def _jm():
    import virocon.jointmodels as jm
    return jm


# ----------------------------------------------------------------------------- recording proxies
class DistRec:
    """stands in for model.distributions[i]: forwards everything, records pdf / cdf / icdf calls"""

    def __init__(self, inner, log, idx):
        object.__setattr__(self, "_inner", inner)
        object.__setattr__(self, "_log", log)
        object.__setattr__(self, "_idx", idx)

    def __getattr__(self, name):
        return getattr(self._inner, name)

    def _rec(self, meth, x, args, kw):
        r = getattr(self._inner, meth)(x, *args, **kw)
        given = kw.get("given", args[0] if args else None)
        xs = np.atleast_1d(np.asarray(x, dtype=float)).ravel()
        rs = np.atleast_1d(np.asarray(r, dtype=float)).ravel()
        gs = None if given is None else np.broadcast_to(np.asarray(given, dtype=float), xs.shape).ravel()
        for k in range(len(xs)):
            self._log.append((self._idx, meth, float(xs[k]), None if gs is None else float(gs[k]),
                              float(rs[k]) if len(rs) == len(xs) else float("nan")))
        return r

    def pdf(self, x, *a, **k):
        return self._rec("pdf", x, a, k)

    def cdf(self, x, *a, **k):
        return self._rec("cdf", x, a, k)

    def icdf(self, x, *a, **k):
        return self._rec("icdf", x, a, k)


class NquadStub:
    """probing stand-in for scipy.integrate: records ranges / args, probes the integrand, returns a synthetic value"""

    def __init__(self, rng, pdf_log):
        self.rng = rng
        self.pdf_log = pdf_log
        self.calls = []
        self.memo = {}

    def nquad(self, func, ranges, args=None, opts=None, full_output=False):
        rg = [(float(a), float(b)) for a, b in ranges]
        ex = [float(a) for a in (args or [])]
        call = {"ranges": rg, "args": ex, "probes": []}
        for _ in range(2):
            probe = []
            for lo, hi in rg:
                if math.isinf(hi):
                    probe.append(lo + self.rng.choice([0.25, 0.5, 1.0, 1.5, 2.5, 4.0]) * self.rng.uniform(0.5, 1.5))
                elif hi > lo:
                    probe.append(self.rng.uniform(lo, hi))
                else:
                    probe.append(lo)
            mark = len(self.pdf_log)
            try:
                val = func(*probe, *(args or []))
                val = float(np.asarray(val, dtype=float).ravel()[0])
                err = None
            except Exception as e:  # noqa
                val, err = float("nan"), type(e).__name__
            seen = self.pdf_log[mark:]
            call["probes"].append({"a": probe, "row": seen[-1] if seen else None, "val": val, "err": err})
        key = (tuple(rg), tuple(ex))
        if key not in self.memo:
            self.memo[key] = 0.25 + (len(self.memo) + 1) / 1024.0
        call["ret"] = self.memo[key]
        self.calls.append(call)
        return (call["ret"], 0.0)


def instrument(model):
    """install the proxies on one model instance; returns (dist log, pdf-argument log)"""
    dlog, plog = [], []
    model.distributions = [DistRec(d, dlog, i) for i, d in enumerate(model.distributions)]
    orig = model.pdf

    def rec_pdf(x):
        a = np.array(x)
        plog.append([float(v) for v in np.asarray(a, dtype=float).ravel()])
        return orig(x)

    model.pdf = rec_pdf
    return dlog, plog


# ----------------------------------------------------------------------------- inputs
def make_rows(rng, spec, k, integers=False):
    rows = []
    for _ in range(k):
        row = M.spec_point(spec, [M.rand_prob(rng) for _ in spec["dims"]])
        if not all(math.isfinite(v) and abs(v) < 1e6 for v in row):
            row = [1.0 + 0.5 * j for j in range(len(row))]
        if integers:
            row = [float(max(1, min(40, round(v)))) for v in row]
        elif rng.random() < 0.15:
            row = [float(round(v, 1)) if round(v, 1) > 0 else v for v in row]
        if not all(math.isfinite(v) for v in row):
            row = [1.0 + 0.5 * j for j in range(len(row))]
        rows.append(row)
    return rows


def shape_input(form, rows):
    """the Python object handed to the implementation and the Coq `input` term describing it"""
    isint = form.endswith("_int")
    if isint:
        irows = [[int(v) for v in r] for r in rows]
    if form.startswith("vec"):
        r = rows[0]
        if isint:
            obj = irows[0] if "list" in form else np.array(irows[0])
            term = "(VecI %s%%Z)" % vlib.z_list(irows[0])
        else:
            obj = list(r) if "list" in form else np.array(r, dtype=float)
            term = "(VecF %s)" % fl_list(r)
        return obj, term, [r]
    if isint:
        obj = np.array(irows)
        term = "(MatI [%s])" % "; ".join(vlib.z_list(r) + "%Z" for r in irows)
    else:
        obj = [list(r) for r in rows] if "list" in form else np.array(rows, dtype=float)
        term = "(MatF %s)" % vlib.fl_mat(rows)
    return obj, term, rows


def shape_input1(form, xs):
    isint = form.endswith("_int")
    if isint:
        ix = [int(v) for v in xs]
        obj = ix if "list" in form else np.array(ix)
        return obj, "(ArrI %s%%Z)" % vlib.z_list(ix)
    obj = list(xs) if "list" in form else np.array(xs, dtype=float)
    return obj, "(ArrF %s)" % fl_list(xs)


# ----------------------------------------------------------------------------- Coq side
PRELUDE = """From V.base Require Import FloatBits.
From V.model Require Import Joint.
Local Open Scope float_scope.
Definition vclose (a b : list float) : bool := all2 fclose a b.
Definition vexact (a b : list float) : bool := all2 fbits_eq a b.
(* 0 bit-exact; 10 within 1e-9; 1 a key the implementation never asked for; 2 values differ; 3 error/ok mismatch *)
Definition cmp_vals (keys_ok : bool) (m : list float) (e : list float) : Z :=
  (if negb keys_ok then 1 else if vexact m e then 0 else if vclose m e then 10 else 2)%Z.
Definition cmp_opt (keys_ok : bool) (m : option (list float)) (e : option (list float)) : Z :=
  match m, e with Some a, Some b => cmp_vals keys_ok a b | None, None => 0%Z | _, _ => 3%Z end.
(* one nquad call: 0 ok; 4 ranges; 5 extra args; 6 row handed to pdf; 7 integrand value *)
Definition cmp_call (ds : list (dim float)) (c : nq_call float) (ranges : list (float * float)) (args : list float)
           (probes : list (list float * list float * float)) : Z :=
  (if negb (franges_eq (nq_ranges c) ranges) then 4
   else if negb (vexact (nq_args c) args) then 5
   else if negb (forallb (fun p => vexact (nq_row c (fst (fst p) ++ args)) (snd (fst p))) probes) then 6
   else if negb (forallb (fun p => fclose (fnq_f ds c (fst (fst p) ++ args)) (snd p)) probes) then 7 else 0)%Z.
"""


def tab_term(entries):
    return "[" + "; ".join("(%s, %s, %s)" % (fl(x), "None" if g is None else "(Some %s)" % fl(g), fl(r)) for x, g, r in entries) + "]"


def ds_term(spec, dlog, name):
    """Definitions of the per-dimension tables and of the model's dimension list; returns (text, ds name, tabs name)"""
    n = len(spec["dims"])
    out = []
    for i in range(n):
        for meth in ("pdf", "cdf", "icdf"):
            seen, ent = set(), []
            for (idx, m, x, g, r) in dlog:
                if idx == i and m == meth:
                    key = (fl(x), None if g is None else fl(g))
                    if key not in seen:
                        seen.add(key)
                        ent.append((x, g, r))
            out.append("Definition %s_%s%d : ftab := %s." % (name, meth, i, tab_term(ent)))
    dims = "; ".join("fdim %s %s_pdf%d %s_cdf%d %s_icdf%d" % (
        "None" if d["cond"] is None else "(Some %d%%nat)" % d["cond"], name, i, name, i, name, i) for i, d in enumerate(spec["dims"]))
    out.append("Definition %s_ds : list (dim float) := [%s]." % (name, dims))
    out.append("Definition %s_tabs : list ftab := [%s]." % (name, "; ".join("%s_pdf%d" % (name, i) for i in range(n))))
    return "\n".join(out) + "\n"


def nqtab_term(calls):
    ent = []
    for c in calls:
        ent.append("([%s], %s, %s)" % ("; ".join("(%s, %s)" % (fl(a), fl(b)) for a, b in c["ranges"]), fl_list(c["args"]), fl(c["ret"])))
    return "[" + "; ".join(ent) + "]"


def probes_term(c):
    ps = []
    for p in c["probes"]:
        row = p["row"] if p["row"] is not None else []
        ps.append("(%s, %s, %s)" % (fl_list(p["a"]), fl_list(row), fl(p["val"])))
    return "[" + "; ".join(ps) + "]"


def out_term(res):
    if isinstance(res, dict):
        return "None"
    return "(Some %s)" % fl_list(res)


# ----------------------------------------------------------------------------- running the implementation
def run_method(model, meth, obj, dim=None):
    try:
        if meth == "pdf":
            r = model.pdf(obj)
        elif meth == "cdf":
            r = model.cdf(obj)
        elif meth == "marginal_pdf":
            r = model.marginal_pdf(obj, dim)
        elif meth == "marginal_cdf":
            r = model.marginal_cdf(obj, dim)
        else:
            raise KeyError(meth)
    except Exception as e:  # noqa
        return {"err": type(e).__name__}
    return [float(v) for v in np.atleast_1d(np.asarray(r)).ravel()]


def model_cases(ctx, rng, spec, name):
    """Run the real model (instrumented, nquad stubbed) on a batch of calls; returns (coq text, meta list)."""
    jm = _jm()
    model = M.build_model(spec)
    dlog, plog = instrument(model)
    stub = NquadStub(rng, plog)
    n = len(spec["dims"])
    calls = []      # (kind, coq expression producing a Z code, meta)
    saved = jm.integrate
    jm.integrate = stub
    try:
        # pdf in every input form
        for form in FORMS:
            rows = make_rows(rng, spec, rng.choice([1, 2, 3]), integers=form.endswith("_int"))
            obj, term, used = shape_input(form, rows)
            res = run_method(model, "pdf", obj)
            meta = {"spec": spec, "method": "pdf", "form": form, "rows": used, "impl": res}
            if isinstance(res, dict):
                expr = "3%Z"
            else:
                expr = "cmp_vals (fkeys_found %s_tabs %s_ds %s) (fpdf_in %s_ds %s) %s" % (name, name, term, name, term, fl_list(res))
            calls.append(("pdf", expr, meta))
        # cdf (stubbed nquad)
        for form in rng.sample(["vec_list", "mat_arr", "mat_arr_int"], 2):
            rows = make_rows(rng, spec, 1 if form.startswith("vec") else 2, integers=form.endswith("_int"))
            obj, term, used = shape_input(form, rows)
            mark = len(stub.calls)
            res = run_method(model, "cdf", obj)
            mine = stub.calls[mark:]
            meta = {"spec": spec, "method": "cdf", "form": form, "rows": used, "impl": res, "ncalls": len(mine)}
            calls.append(("cdf-out", "cmp_opt true (Some (fcdf_in @NQ@ %s_ds %s)) %s" % (name, term, out_term(res)), meta))
            if len(mine) == len(used):
                for c, row in zip(mine, used):
                    expr = "cmp_call %s_ds (fcdf_call %d%%nat %s) [%s] %s %s" % (
                        name, n, fl_list(row), "; ".join("(%s, %s)" % (fl(a), fl(b)) for a, b in c["ranges"]), fl_list(c["args"]), probes_term(c))
                    calls.append(("cdf-call", expr, meta))
            elif not isinstance(res, dict):
                calls.append(("cdf-call", "8%Z", meta))
        # marginal_pdf / marginal_cdf for every dimension
        for dim in range(n):
            for meth in ("marginal_pdf", "marginal_cdf"):
                form = rng.choice(["arr", "arr", "list", "arr_int", "arr_int", "list_int"])
                if spec["dims"][dim]["cond"] is None and spec["dims"][dim]["fam"] == "EW":
                    # ExponentiatedWeibullDistribution.pdf(<list>) raises TypeError (np.where(x > 0, ...) on a list): that is
                    # the distribution's own argument handling (C05), not the joint model's -- use arrays here
                    form = form.replace("list", "arr")
                xs = [r[dim] for r in make_rows(rng, spec, 2, integers=form.endswith("_int"))]
                obj, term = shape_input1(form, xs)
                mark = len(stub.calls)
                res = run_method(model, meth, obj, dim)
                mine = stub.calls[mark:]
                meta = {"spec": spec, "method": meth, "form": form, "xs": xs, "dim": dim, "impl": res, "ncalls": len(mine)}
                fn = "fmarginal_pdf" if meth == "marginal_pdf" else "fmarginal_cdf"
                calls.append((meth + "-out", "cmp_opt true (%s @NQ@ %s_ds %s %d%%nat) %s" % (fn, name, term, dim, out_term(res)), meta))
                expect_calls = 0 if spec["dims"][dim]["cond"] is None else len(xs)
                if len(mine) != expect_calls and not isinstance(res, dict):
                    calls.append((meth + "-call", "8%Z", meta))
                elif len(mine) == expect_calls:
                    cf = "fmpdf_call" if meth == "marginal_pdf" else "fmcdf_call"
                    for c, x in zip(mine, xs):
                        expr = "cmp_call %s_ds (%s %d%%nat %d%%nat %s) [%s] %s %s" % (
                            name, cf, n, dim, fl(x), "; ".join("(%s, %s)" % (fl(a), fl(b)) for a, b in c["ranges"]), fl_list(c["args"]), probes_term(c))
                        calls.append((meth + "-call", expr, meta))
    finally:
        jm.integrate = saved
    text = ds_term(spec, dlog, name)
    text += "Definition %s_nq : nqtab := %s.\n" % (name, nqtab_term(stub.calls))
    exprs = []
    for kind, expr, meta in calls:
        exprs.append(expr.replace("@NQ@", "%s_nq" % name))
    text += "Definition %s_res : list Z := [%s].\n" % (name, ";\n  ".join(exprs))
    return text, [(k, m) for k, e, m in calls]


# ----------------------------------------------------------------------------- property oracle (search)
TOL = 1e-9


def o_product(spec, rows, model=None):
    """pdf = independent product, >= 0, for float inputs in every form; returns (sig, msg) or None"""
    model = model or M.build_model(spec)
    want = M.spec_pdf(spec, rows)
    for form in ("mat_arr", "mat_list"):
        obj, _, used = shape_input(form, rows)
        got = run_method(model, "pdf", obj)
        if isinstance(got, dict):
            return ({"clause": "product", "method": "pdf", "kind": "exception"}, "pdf raised %s on %r" % (got["err"], used))
        for r in range(len(used)):
            if not (got[r] >= 0):
                return ({"clause": "nonneg", "method": "pdf"}, "pdf(%r) = %r < 0" % (used[r], got[r]))
            if not vlib.close(got[r], float(want[r]), rel=TOL, abs_=1e-290):
                return ({"clause": "product", "method": "pdf"},
                        "pdf(%r) = %r but the product of the (conditional) densities is %r (conditional_on=%r)" % (
                            used[r], got[r], float(want[r]), list(M.structure(spec))))
    # single rows: vector forms give the same number as the matrix form
    for r in rows[:2]:
        for form in ("vec_list", "vec_arr"):
            obj, _, _ = shape_input(form, [r])
            got = run_method(model, "pdf", obj)
            w = float(M.spec_pdf(spec, [r])[0])
            if isinstance(got, dict) or len(got) != 1 or not vlib.close(got[0], w, rel=TOL, abs_=1e-290):
                return ({"clause": "input-form", "method": "pdf", "form": form}, "pdf(%r as %s) = %r, expected [%r]" % (r, form, got, w))
    return None


def o_int_pdf(spec, irows, model=None):
    """integer-typed input gives the same numbers as the same points as floats"""
    model = model or M.build_model(spec)
    frows = [[float(v) for v in r] for r in irows]
    want = run_method(model, "pdf", np.array(frows, dtype=float))
    for form in ("mat_arr_int", "vec_list_int", "vec_arr_int"):
        rows = frows if form.startswith("mat") else frows[:1]
        obj, _, used = shape_input(form, rows)
        got = run_method(model, "pdf", obj)
        w = want if form.startswith("mat") else want[:1]
        if isinstance(got, dict) or isinstance(want, dict) or len(got) != len(w) or any(
                not vlib.close(a, b, rel=TOL, abs_=1e-290) for a, b in zip(got, w)):
            return ({"clause": "int-dtype", "method": "pdf"},
                    "pdf(%r) = %r for integer-typed input but %r for the same points as floats" % (
                        [[int(v) for v in r] for r in used], got, w))
    return None


def o_int_marginal(spec, dim, ixs, meth, model=None):
    """marginal_pdf / marginal_cdf (REAL nquad): integer-typed x gives the same numbers as float x"""
    model = model or M.build_model(spec)
    want = run_method(model, meth, np.array([float(v) for v in ixs]), dim)
    got = run_method(model, meth, np.array([int(v) for v in ixs]), dim)
    if slow(got) or slow(want):
        return "slow"
    if isinstance(got, dict) or isinstance(want, dict) or any(not vlib.close(a, b, rel=1e-6, abs_=1e-12) for a, b in zip(got, want)):
        return ({"clause": "int-dtype", "method": meth},
                "%s(np.array(%r), %d) = %r for integer-typed input but %r for float input" % (meth, [int(v) for v in ixs], dim, got, want))
    return None


class Slow(Exception):
    pass


def limited(spec, seconds):
    """a fresh real model whose pdf gives up (Slow) once `seconds` have passed: one real nquad call cannot be
    interrupted otherwise; such calls are counted as unjudged, never as violations"""
    import time
    model = M.build_model(spec)
    orig, t_end = model.pdf, time.time() + seconds

    def pdf(x):
        if time.time() > t_end:
            raise Slow()
        return orig(x)

    model.pdf = pdf
    return model


def slow(res):
    return isinstance(res, dict) and res.get("err") == "Slow"


def quad1(f, a, b, pts=None):
    v, _ = real_integrate.quad(f, a, b, limit=200, points=pts)
    return v


def o_integrals_2d(spec, row, model=None):
    """2-D model, variable 1 conditional on 0: nquad-based cdf / marginal_pdf / marginal_cdf vs 1-D quadrature of the
    independent formulas.  Generous tolerance (quadrature on both sides)."""
    model = model or M.build_model(spec)
    d0, d1 = spec["dims"]
    x0, x1 = row
    hi0 = float(M.dim_method(d0, "ppf", 1 - 1e-10))
    if not math.isfinite(hi0) or hi0 > 1e4 or x0 > 1e3 or x1 > 1e3:
        return "slow"          # so far out that adaptive quadrature (either side) is unreliable: not judged
    f0 = lambda t: float(M.dim_method(d0, "pdf", t))
    tol = lambda w: 2e-4 + 2e-3 * abs(w)
    out = []
    got = run_method(model, "cdf", [x0, x1])
    if slow(got):
        return "slow"
    want = quad1(lambda t: f0(t) * float(M.dim_method(d1, "cdf", x1, t)), 0, x0)
    if isinstance(got, dict) or abs(got[0] - want) > tol(want):
        return ({"clause": "cdf-integral", "method": "cdf"}, "cdf(%r) = %r but the orthant integral of the density is %r" % (row, got, want))
    med = float(M.dim_method(d0, "ppf", 0.5))
    got = run_method(model, "marginal_pdf", np.array([x1]), 1)
    if slow(got):
        return "slow"
    want = quad1(lambda t: f0(t) * float(M.dim_method(d1, "pdf", x1, t)), 0, hi0, pts=[med])
    if isinstance(got, dict) or abs(got[0] - want) > tol(want):
        return ({"clause": "marginal-integral", "method": "marginal_pdf"}, "marginal_pdf([%r], 1) = %r but integrating the joint density over variable 0 gives %r" % (x1, got, want))
    got = run_method(model, "marginal_cdf", np.array([x1]), 1)
    if slow(got):
        return "slow"
    want = quad1(lambda t: f0(t) * float(M.dim_method(d1, "cdf", x1, t)), 0, hi0, pts=[med])
    if isinstance(got, dict) or abs(got[0] - want) > tol(want):
        return ({"clause": "marginal-integral", "method": "marginal_cdf"}, "marginal_cdf([%r], 1) = %r but integrating the joint density gives %r" % (x1, got, want))
    return None


def o_mass_2d(spec, model=None):
    """total mass: the joint cdf at a far corner is (close to) one and equals the independent 1-D integral there.
    Corners so far out that adaptive quadrature is unreliable are not judged (numerical saturation)."""
    model = model or M.build_model(spec)
    d0, d1 = spec["dims"]
    x0 = float(M.dim_method(d0, "ppf", 1 - 1e-5))
    gs = [float(M.dim_method(d0, "ppf", p)) for p in (0.001, 0.5, 0.999)]
    x1 = max(float(M.dim_method(d1, "ppf", 1 - 1e-5, g if d1["cond"] is not None else None)) for g in gs)
    if not (math.isfinite(x0) and math.isfinite(x1)) or x0 > 1e3 or x1 > 1e3:
        return "slow"
    want = quad1(lambda t: float(M.dim_method(d0, "pdf", t)) * float(M.dim_method(d1, "cdf", x1, t)), 0, x0,
                 pts=[float(M.dim_method(d0, "ppf", 0.5))])
    if want < 0.99:
        return "slow"
    got = run_method(model, "cdf", [x0, x1])
    if slow(got):
        return "slow"
    if isinstance(got, dict) or abs(got[0] - want) > 2e-3 or abs(got[0] - 1) > 1.2e-2:
        return ({"clause": "mass", "method": "cdf"}, "cdf(%r) = %r: the density does not integrate to one (independent value there: %r)" % ([x0, x1], got, want))
    return None


def o_icdf_2d(ctx, spec, seed, model=None):
    """marginal_cdf(marginal_icdf(p)) = p for the conditional variable of a 2-D model, DKW band at 1e-12 (n = 1e5)"""
    model = model or M.build_model(spec)
    d0, d1 = spec["dims"]
    ps = [0.1, 0.5, 0.9]
    np.random.seed(seed)          # marginal_icdf draws with random_state=None: the global state is the only handle
    try:
        xs = model.marginal_icdf(ps, 1)
    except Exception as e:  # noqa
        return ({"clause": "marginal-icdf", "kind": "exception"}, "marginal_icdf raised %s" % type(e).__name__), None
    n = 100000
    eps = math.sqrt(math.log(2 / 1e-12) / (2 * n))
    hi0 = float(M.dim_method(d0, "ppf", 1 - 1e-10))
    med = float(M.dim_method(d0, "ppf", 0.5))
    worst = 0.0
    for p, x in zip(ps, np.atleast_1d(xs)):
        F = quad1(lambda t: float(M.dim_method(d0, "pdf", t)) * float(M.dim_method(d1, "cdf", float(x), t)), 0, hi0, pts=[med])
        worst = max(worst, abs(F - p))
        if abs(F - p) > 3 * eps + 1e-3:
            return ({"clause": "marginal-icdf", "method": "marginal_icdf"},
                    "marginal_icdf(%r, 1) = %r whose marginal cdf is %r (DKW band %.4f)" % (p, float(x), F, eps)), worst
    # unconditional variable: exact
    x0 = np.atleast_1d(model.marginal_icdf(ps, 0))
    for p, x in zip(ps, x0):
        F = float(M.dim_method(d0, "cdf", float(x)))
        if abs(F - p) > 1e-9:
            return ({"clause": "marginal-icdf", "method": "marginal_icdf", "kind": "unconditional"},
                    "marginal_icdf(%r, 0) = %r whose cdf is %r" % (p, float(x), F)), worst
    return None, worst


def o_integrand_semantics(spec, meth, dim, arg, seed, int_input=False):
    """Any dimension, no real integration: with nquad replaced by the probing stub, every nquad variable must reach
    pdf at ONE model position, and the range it is integrated over must be the one meant for that position
    (cdf: (0, x_j) for position j; marginals: (0, inf) for the others, variable dim fixed to x / over (0, x)).
    Equivalent re-orderings of the integration variables are accepted."""
    import random
    jm = _jm()
    model = M.build_model(spec)
    dlog, plog = instrument(model)
    stub = NquadStub(random.Random(seed), plog)
    n = len(spec["dims"])
    saved = jm.integrate
    jm.integrate = stub
    try:
        if int_input:
            obj = np.array([[int(v) for v in arg]]) if meth == "cdf" else np.array([int(arg)])
        else:
            obj = [arg] if meth == "cdf" else np.array([arg], dtype=float)
        res = run_method(model, meth, obj, dim)
    finally:
        jm.integrate = saved
    if isinstance(res, dict):
        return ({"clause": "integrand-order", "method": meth, "kind": "exception"}, "%s raised %s" % (meth, res["err"]))
    if meth != "cdf" and spec["dims"][dim]["cond"] is None:
        return None
    if len(stub.calls) != 1:
        return ({"clause": "integrand-order", "method": meth}, "%d nquad calls for one point" % len(stub.calls))
    c = stub.calls[0]
    if res[0] != c["ret"]:
        if int_input:
            return ({"clause": "int-dtype", "method": meth},
                    "%s(np.array([%d]), %d) returns %r for integer-typed input, not the value of its integral (nquad stubbed to return %r)" % (
                        meth, int(arg), dim, res[0], c["ret"]))
        return ({"clause": "integrand-order", "method": meth}, "%s returns %r, not the value of its integral %r" % (meth, res[0], c["ret"]))
    for p in c["probes"]:
        vals = list(p["a"]) + list(c["args"])
        row = p["row"]
        if p["err"] or row is None or len(row) != n or sorted(row) != sorted(vals):
            return ({"clause": "integrand-order", "method": meth},
                    "%s(%r%s): integrand called with %r hands pdf %r (%s)" % (meth, arg, "" if meth == "cdf" else ", %d" % dim, vals, row, p["err"]))
        for k, v in enumerate(vals):
            pos = row.index(v)
            if k < len(c["ranges"]):
                rg = c["ranges"][k]
                if meth == "cdf":
                    want = (0.0, float(arg[pos]))
                elif pos == dim:
                    want = (0.0, float(arg)) if meth == "marginal_cdf" else None
                else:
                    want = (0.0, float("inf"))
                if want is None:
                    return ({"clause": "integrand-order", "method": meth},
                            "%s(%r, %d): model variable %d (the marginal's own variable) is integrated over %r instead of being fixed to the "
                            "evaluation point" % (meth, arg, dim, pos, tuple(rg)))
                if tuple(rg) != want:
                    return ({"clause": "integrand-order", "method": meth},
                            "%s(%r%s): model variable %d is integrated over %r, expected %r" % (
                                meth, arg, "" if meth == "cdf" else ", %d" % dim, pos, tuple(rg), want))
            elif not (meth == "marginal_pdf" and pos == dim and v == float(arg)):
                return ({"clause": "integrand-order", "method": meth},
                        "%s(%r, %d): the fixed value reaches pdf at position %d, not %d" % (meth, arg, dim, pos, dim))
    return None


def model_marginal_cdf_1d(model, x):
    """marginal cdf of variable 1 of a 2-D model by 1-D quadrature over the model's CURRENT per-dimension methods
    (no nquad, no Monte-Carlo): integral of f0(t) F1(x | t) dt"""
    d0, d1 = model.distributions
    lo, med, hi = (float(d0.icdf(q)) for q in (1e-10, 0.5, 1 - 1e-10))
    return quad1(lambda t: float(d0.pdf(t)) * float(np.ravel(d1.cdf(np.array([x]), given=np.array([t])))[0]), lo, hi, pts=[med])


def apply_spec(model, spec):
    """change the parameters of a built model IN PLACE to those of `spec` (same families / dependence function forms)"""
    for dist, d in zip(model.distributions, spec["dims"]):
        if d["cond"] is None:
            for k, v in d["params"].items():
                setattr(dist, k, v[1])
        else:
            for k, v in d["params"].items():
                if v[0] == "fix":
                    dist.fixed_parameters[k] = v[1]
                    setattr(dist.distribution, k, v[1])
                    setattr(dist.distribution, "f_" + k, v[1])
                else:
                    dep = dist.conditional_parameters[k]
                    for name, c in zip(list(dep.parameters), v[2]):
                        dep.parameters[name] = c


def history_specs(rng):
    """two clearly different 2-D models of the same form (variable 1 conditional on variable 0)"""
    u = rng.uniform
    a = {"dims": [{"fam": "W", "cond": None, "params": {"alpha": ["val", u(1.5, 2.5)], "beta": ["val", u(1.3, 2.0)], "gamma": ["val", 0.0]}},
                  {"fam": "LN", "cond": 0, "params": {"mu": ["dep", "lin", [u(0.8, 1.2), u(0.15, 0.25)]], "sigma": ["fix", u(0.25, 0.4)]}}]}
    b = {"dims": [{"fam": "W", "cond": None, "params": {"alpha": ["val", u(5.0, 7.0)], "beta": ["val", u(2.2, 3.0)], "gamma": ["val", 0.0]}},
                  {"fam": "LN", "cond": 0, "params": {"mu": ["dep", "lin", [u(2.3, 2.8), u(0.08, 0.12)]], "sigma": ["fix", a["dims"][1]["params"]["sigma"][1]]}}]}
    return a, b


def spec_sample(spec, n, seed):
    """a data set following `spec` (independent formulas, inverse Rosenblatt of uniforms)"""
    g = np.random.default_rng(seed)
    cols = []
    for d in spec["dims"]:
        given = None if d["cond"] is None else cols[d["cond"]]
        cols.append(np.asarray(M.dim_method(d, "ppf", g.uniform(1e-9, 1 - 1e-9, n), given), dtype=float))
    return np.column_stack(cols)


def o_history(spec_a, spec_b, mode, seed):
    """marginal_icdf of a conditional variable describes the model AS IT IS NOW: query, change the model (parameters in
    place, or a re-fit to clearly different data), query again; each answer x_p must satisfy F(x_p) = p for the marginal
    cdf of the model at that time (1-D quadrature, DKW band of the Monte-Carlo sample at 1e-12)."""
    ps = [0.1, 0.5, 0.9]
    eps = math.sqrt(math.log(2 / 1e-12) / (2 * 100000))
    model = M.build_model(spec_a)
    steps = [("initial model", None), ("after the change", spec_b), ("after changing back", spec_a)]
    np.random.seed(seed)
    for label, sp in steps:
        if sp is not None:
            if mode == "fit":
                model.fit(spec_sample(sp, 4000, seed + 1))
            else:
                apply_spec(model, sp)
        elif mode == "fit":
            model.fit(spec_sample(spec_a, 4000, seed + 2))
        xs = np.atleast_1d(model.marginal_icdf(ps, 1))
        for p_, x in zip(ps, xs):
            F = model_marginal_cdf_1d(model, float(x))
            if abs(F - p_) > 3 * eps + 1e-3:
                return ({"clause": "marginal-icdf", "kind": "history", "mode": mode},
                        "history (%s by %s): marginal_icdf(%r, 1) = %r %s, but the marginal cdf of the model at that time is %r there "
                        "(DKW band %.4f): the answer does not describe the current model" % (
                            "model changed", "re-fitting" if mode == "fit" else "setting parameters", p_, float(x), label, F, eps))
    return None


def o_rows_each_alone(spec, meth, dim, vals, seed):
    """a call with k >= 3 points in a non-sorted order, one of them repeated, returns -- same length, same order -- what
    the points give when evaluated alone (nquad replaced by the probing stub, whose value depends on the point only)"""
    import random
    jm = _jm()
    model = M.build_model(spec)
    dlog, plog = instrument(model)
    stub = NquadStub(random.Random(seed), plog)
    saved = jm.integrate
    jm.integrate = stub
    try:
        if meth == "cdf":
            together = run_method(model, "cdf", np.array(vals, dtype=float))
            alone = [run_method(model, "cdf", [list(v)]) for v in vals]
        else:
            together = run_method(model, meth, np.array(vals, dtype=float), dim)
            alone = [run_method(model, meth, np.array([v], dtype=float), dim) for v in vals]
    finally:
        jm.integrate = saved
    if any(isinstance(a, dict) for a in alone):
        return None
    want = [a[0] for a in alone]
    if isinstance(together, dict) or len(together) != len(want) or any(not vlib.close(g, w, rel=1e-12) for g, w in zip(together, want)):
        return ({"clause": "rows-independent", "method": meth},
                "%s(%r%s) = %r, but the points evaluated one at a time give %r (nquad stubbed: its value depends on the point only)" % (
                    meth, vals, "" if meth == "cdf" else ", %d" % dim, together, want))
    return None


def shrink_rows(fn, vals):
    """drop points while the oracle still fails with the same clause"""
    base = fn(vals)
    if not base:
        return vals, base
    cur = list(vals)
    i = 0
    while i < len(cur) and len(cur) > 1:
        cand = cur[:i] + cur[i + 1:]
        o = fn(cand)
        if o and o[0] == base[0]:
            cur, base = cand, o
        else:
            i += 1
    return cur, base


def leaf_dims(spec):
    used = {d["cond"] for d in spec["dims"] if d["cond"] is not None}
    return [i for i in range(len(spec["dims"])) if i not in used]


def o_edge_rows(spec, base):
    """points on and outside the edge of the support: a variable nothing is conditional on set to 0, a negative value, a
    huge and a tiny value (float and integer zero): the density is finite, >= 0 and the product of the factors (0 outside the
    support); inf / nan are rejected with ValueError"""
    model = M.build_model(spec)
    for i in leaf_dims(spec):
        for v in (0.0, -1.5, 1e30, 1e300, 1e-300):
            row = list(base)
            row[i] = v
            got = run_method(model, "pdf", [row])
            want = float(M.spec_pdf(spec, [row])[0])
            if math.isnan(want):
                continue          # scipy's own density saturates to nan there (e.g. inf * 0 at 1e300): not judged
            # (a density with shape < 1 is +inf AT the lower end of its support: that is the product, not a defect)
            if isinstance(got, dict) or not (got[0] >= 0) or (not math.isnan(want) and not vlib.close(got[0], want, rel=TOL, abs_=1e-290)):
                return ({"clause": "edge-of-support", "method": "pdf"},
                        "pdf(%r) = %r at the edge / outside the support (independent product: %r)" % (row, got, want))
        irow = [int(max(1, round(x))) for x in base]
        irow[i] = 0
        got = run_method(model, "pdf", irow)
        want = float(M.spec_pdf(spec, [[float(x) for x in irow]])[0])
        if math.isnan(want):
            continue          # scipy's own density is nan exactly at 0 for these parameters: not judged
        if isinstance(got, dict) or not (got[0] >= 0) or not vlib.close(got[0], want, rel=TOL, abs_=1e-290):
            return ({"clause": "edge-of-support", "method": "pdf", "dtype": "int"}, "pdf(%r) = %r, independent product %r" % (irow, got, want))
    for bad in (float("inf"), float("nan")):
        row = list(base)
        row[-1] = bad
        for meth in ("pdf", "cdf"):
            got = run_method(model, meth, [row])
            if not (isinstance(got, dict) and got["err"] == "ValueError"):
                return ({"clause": "non-finite-input", "method": meth}, "%s(%r) returns %r instead of rejecting the non-finite point" % (meth, row, got))
    return None


def o_edge_integrals_2d(spec, base, model=None):
    """2-D, real nquad: the cdf and the marginal cdf / pdf vanish at and below the lower end of the support"""
    model = model or M.build_model(spec)
    x0, x1 = base
    for meth, arg, dim in [("cdf", [x0, 0.0], None), ("cdf", [0.0, x1], None), ("cdf", [x0, -2.0], None),
                           ("marginal_cdf", np.array([0.0, -1.0]), 1), ("marginal_pdf", np.array([-1.0]), 1)]:
        got = run_method(model, meth, arg, dim)
        if slow(got):
            return "slow"
        if isinstance(got, dict) or any(abs(g) > 1e-9 for g in got):
            return ({"clause": "edge-of-support", "method": meth},
                    "%s(%r%s) = %r, expected 0 at / below the lower end of the support" % (
                        meth, arg if isinstance(arg, list) else arg.tolist(), "" if dim is None else ", %d" % dim, got))
    return None


def zero_density_specs(rng):
    """models whose CONDITIONING variables have a positive, finite density at exactly 0 (Weibull with beta = 1 and gamma = 0,
    generalised gamma with m * c = 1, a ScipyDistribution weibull_min with c = 1): the joint density at a point with a
    conditioning coordinate 0 is a positive number, f0(0) * f1(x1 | 0) ..., not 0"""
    u = rng.uniform
    roots = [{"fam": "W", "cond": None, "params": {"alpha": ["val", u(1.5, 3.0)], "beta": ["val", 1.0], "gamma": ["val", 0.0]}},
             {"fam": "GG", "cond": None, "params": {"m": ["val", 1.0], "c": ["val", 1.0], "lambda_": ["val", u(0.4, 1.5)]}},
             {"fam": "SW", "cond": None, "params": {"c": ["val", 1.0], "loc": ["val", 0.0], "scale": ["val", u(1.0, 3.0)]}}]
    mids = [{"fam": "W", "cond": 0, "params": {"alpha": ["dep", "lin", [u(0.8, 1.5), u(0.2, 0.6)]], "beta": ["fix", 1.0], "gamma": ["fix", 0.0]}},
            {"fam": "GG", "cond": 0, "params": {"m": ["fix", 1.0], "c": ["fix", 1.0], "lambda_": ["dep", "asym", [0.4, 0.8, 0.7]]}}]
    leaves = [lambda c: {"fam": "LN", "cond": c, "params": {"mu": ["dep", "lin", [u(0.3, 0.8), u(0.1, 0.3)]], "sigma": ["fix", u(0.3, 0.6)]}},
              lambda c: {"fam": "EW", "cond": c, "params": {"alpha": ["dep", "sat", [u(0.8, 1.5), u(0.5, 1.0)]], "beta": ["dep", "lnsq", [u(2.0, 4.0), u(1.0, 3.0)]], "delta": ["fix", 2.0]}},
              lambda c: {"fam": "W", "cond": c, "params": {"alpha": ["dep", "pw", [u(0.8, 1.5), u(0.2, 0.6), u(0.6, 1.2)]], "beta": ["fix", u(1.2, 2.5)], "gamma": ["fix", 0.0]}}]
    out = []
    for k, r in enumerate(roots):
        out.append({"dims": [dict(r), leaves[k % 3](0)]})                                    # [None, 0]
        out.append({"dims": [dict(r), dict(mids[k % 2]), leaves[(k + 1) % 3](1)]})           # [None, 0, 1]
    out.append({"dims": [dict(roots[0]), dict(mids[1]), leaves[2](1), leaves[0](1)]})        # [None, 0, 1, 1]
    return out


def o_zero_conditioning(spec, base):
    """the joint density at points whose conditioning coordinate(s) are exactly 0 (float and integer zero, alone and in a
    batch with other rows) equals the independent product -- positive where every factor is"""
    model = M.build_model(spec)
    used = sorted({d["cond"] for d in spec["dims"] if d["cond"] is not None})
    rows = []
    for j in used:
        r = list(base)
        r[j] = 0.0
        rows.append(r)
    r = list(base)
    for j in used:
        r[j] = 0.0
    rows.append(r)
    want = [float(v) for v in M.spec_pdf(spec, rows)]
    for row, w in zip(rows, want):
        if math.isnan(w):
            continue
        for obj, label in (([row], "float"), (np.array([row] + [list(base)]), "float batch")):
            got = run_method(model, "pdf", obj)
            if isinstance(got, dict) or not vlib.close(got[0], w, rel=TOL, abs_=1e-290):
                return ({"clause": "product", "method": "pdf", "kind": "conditioning-value-zero"},
                        "pdf(%r) = %r but the product of the (conditional) densities is %r (conditional_on=%r; the conditioning value 0 is in the support)" % (
                            row, got if isinstance(got, dict) else got[0], w, list(M.structure(spec))))
        if all(float(v).is_integer() for v in row):
            got = run_method(model, "pdf", [int(v) for v in row])
            if isinstance(got, dict) or not vlib.close(got[0], w, rel=TOL, abs_=1e-290):
                return ({"clause": "product", "method": "pdf", "kind": "conditioning-value-zero", "dtype": "int"},
                        "pdf(%r) = %r for integers, product %r" % ([int(v) for v in row], got, w))
    return None


def o_icdf_tail(spec, seed, ps):
    """2-D [None, 0]: marginal_icdf of the conditional variable at TAIL probabilities (Monte-Carlo samples of several million
    rows): the non-tail quantiles asked for in the same call must satisfy F(x_p) = p (1-D quadrature, DKW band of that
    sample size), the tail quantiles must lie inside the support, and the sample the answer is computed from has no row
    that was never drawn"""
    model = M.build_model(spec)
    n = mc_size_py(ps, 1)
    xs = np.atleast_1d(model.marginal_icdf(list(ps), 1, random_state=seed))
    eps = math.sqrt(math.log(2 / 1e-12) / (2 * n))
    for p_, x in zip(ps, xs):
        F = model_marginal_cdf_1d(model, float(x))
        tail = min(p_, 1 - p_)
        tol = 3 * eps + 1e-3 if tail > 1e-2 else None
        if not (x > 0) or not math.isfinite(x):
            return ({"clause": "marginal-icdf", "kind": "tail"},
                    "marginal_icdf(%r, 1, random_state=%d) (Monte-Carlo sample of %d rows) returns %r for p = %r: not inside the support" % (list(ps), seed, n, float(x), p_))
        if tol is not None and abs(F - p_) > tol:
            return ({"clause": "marginal-icdf", "kind": "tail"},
                    "marginal_icdf(%r, 1, random_state=%d) (Monte-Carlo sample of %d rows) = %r for p = %r, but the marginal cdf there is %.4f (DKW band %.4f)" % (
                        list(ps), seed, n, float(x), p_, F, eps))
        if tol is None and not (tail / 4 <= min(F, 1 - F) <= tail * 4):
            return ({"clause": "marginal-icdf", "kind": "tail"},
                    "marginal_icdf at the tail probability %r = %r, but the marginal cdf there is %r" % (p_, float(x), F))
    a = np.asarray(model.draw_sample(n, random_state=seed))
    nz = int(np.sum(np.all(a == 0, axis=1)))
    if a.shape != (n, 2) or nz:
        return ({"clause": "marginal-icdf", "kind": "tail", "what": "sample"},
                "draw_sample(%d, random_state=%d), the sample marginal_icdf(%r, 1) is computed from: shape %r, %d rows are all zero (never drawn), e.g. row %d" % (
                    n, seed, list(ps), a.shape, nz, int(np.argmax(np.all(a == 0, axis=1)))))
    return None


def location_dep_specs(rng):
    """three-parameter Weibulls (and a ScipyDistribution weibull_min) whose LOCATION is a dependence function of the
    conditioning variable: the lower end of the support of the conditional variable moves with the conditioning value"""
    u = rng.uniform
    w0 = {"fam": "W", "cond": None, "params": {"alpha": ["val", u(1.5, 2.5)], "beta": ["val", u(1.3, 2.5)], "gamma": ["val", 0.0]}}
    wg = lambda c: {"fam": "W", "cond": c, "params": {"alpha": ["fix", u(1.0, 2.0)], "beta": ["fix", u(1.3, 2.5)], "gamma": ["dep", "lin", [u(0.3, 0.8), u(0.4, 0.9)]]}}
    wg2 = lambda c: {"fam": "W", "cond": c, "params": {"alpha": ["dep", "sat", [1.0, 1.0]], "beta": ["fix", u(1.3, 2.5)], "gamma": ["dep", "asym", [0.5, 1.5, 0.8]]}}
    sw = lambda c: {"fam": "SW", "cond": c, "params": {"c": ["fix", u(1.3, 2.5)], "loc": ["dep", "lin", [u(0.2, 0.6), u(0.3, 0.8)]], "scale": ["fix", u(1.0, 2.0)]}}
    ln = lambda c: {"fam": "LN", "cond": c, "params": {"mu": ["dep", "lin", [0.3, 0.2]], "sigma": ["fix", 0.4]}}
    return [{"dims": [dict(w0), wg(0)]}, {"dims": [dict(w0), wg2(0), ln(1)]}, {"dims": [dict(w0), sw(0), wg(1)]}]


def mc_size_py(ps, pf):
    p_small = min(min(ps), 1 - max(ps))
    return max(int((1 / p_small) * (100 * pf)), 100000)


def o_icdf_seed(spec, dim, seed, ps=(0.1, 0.9), pf=1):
    """marginal_icdf(p, dim, precision_factor, random_state=seed) of a conditional variable: reproducible bit for bit by the
    same int seed and by identically seeded Generators, independent of numpy's global state, different for another seed,
    and exactly the numpy.quantile of column dim of model.draw_sample(mc_size, random_state=seed)"""
    model = M.build_model(spec)
    ps = list(ps)
    np.random.seed(seed % 1000)
    a = np.atleast_1d(model.marginal_icdf(ps, dim, pf, random_state=seed))
    np.random.seed(seed % 1000 + 1)
    b = np.atleast_1d(model.marginal_icdf(ps, dim, pf, random_state=seed))
    if a.shape != (len(ps),) or not np.array_equal(a, b):
        return ({"clause": "marginal-icdf", "kind": "seed-reproducible"},
                "marginal_icdf(%r, %d, random_state=%d) twice: %r and %r" % (ps, dim, seed, a.tolist(), b.tolist()))
    g1 = np.atleast_1d(model.marginal_icdf(ps, dim, pf, random_state=np.random.default_rng(seed)))
    g2 = np.atleast_1d(model.marginal_icdf(ps, dim, pf, random_state=np.random.default_rng(seed)))
    if not np.array_equal(g1, g2):
        return ({"clause": "marginal-icdf", "kind": "seed-reproducible", "random_state": "Generator"},
                "marginal_icdf(%r, %d) with two identically seeded Generators: %r and %r" % (ps, dim, g1.tolist(), g2.tolist()))
    n = mc_size_py(ps, pf)
    want = np.quantile(np.asarray(model.draw_sample(n, random_state=seed))[:, dim], ps)
    if not np.array_equal(a, want):
        return ({"clause": "marginal-icdf", "kind": "sample-quantile"},
                "marginal_icdf(%r, %d, %r, random_state=%d) = %r is not the quantile %r of column %d of draw_sample(%d, random_state=%d)" % (
                    ps, dim, pf, seed, a.tolist(), want.tolist(), dim, n, seed))
    c = np.atleast_1d(model.marginal_icdf(ps, dim, pf, random_state=seed + 1))
    if np.array_equal(a, c):
        return ({"clause": "marginal-icdf", "kind": "seeds-differ"}, "marginal_icdf(%r, %d): seeds %d and %d give identical Monte-Carlo quantiles" % (ps, dim, seed, seed + 1))
    return None


def o_icdf_nd(spec, dim, seed):
    """any dimension: the marginal_icdf of a conditional variable against the empirical cdf of an INDEPENDENT sample of the
    spec (inverse Rosenblatt with the harness' formulas): |F_emp(x_p) - p| within the two DKW bands"""
    model = M.build_model(spec)
    ps = [0.1, 0.5, 0.9]
    xs = np.atleast_1d(model.marginal_icdf(ps, dim, random_state=seed))
    N = 400000
    col = spec_sample(spec, N, seed + 7)[:, dim]
    if not np.all(np.isfinite(col)) or not np.all(np.isfinite(xs)):
        return "slow"
    eps = math.sqrt(math.log(2 / 1e-12) / (2 * 100000)) + math.sqrt(math.log(2 / 1e-12) / (2 * N))
    for p_, x in zip(ps, xs):
        F = float(np.mean(col <= x))
        if abs(F - p_) > 3 * eps:
            return ({"clause": "marginal-icdf", "method": "marginal_icdf", "kind": "n-dim"},
                    "marginal_icdf(%r, %d, random_state=%d) = %r, but the marginal cdf there (independent sample of %d) is %.4f (bands %.4f)" % (
                        p_, dim, seed, float(x), N, F, eps))
    return None


def o_icdf_special(seed):
    """marginal_icdf where it is (nearly) exact: (A) an UNCONDITIONAL variable at a position other than the first, in 2-D
    [None, None] and 3-D [None, 0, None], [None, None, 1] models with a different family per variable -- the marginal is that
    variable's own distribution, cdf_dim(marginal_icdf(p, dim)) = p to 1e-9; (B) a variable DECLARED conditional all of whose
    parameters are fixed ("parameters": {}) -- its marginal is the template with the fixed values, cdf(marginal_icdf(p)) = p within
    the DKW band of the Monte-Carlo sample (1e5 rows) at 1e-12"""
    import virocon as v
    r = np.random.default_rng([seed, 61])
    ps = [0.001, 0.1, 0.5, 0.9, 0.999]

    def lin(x, a=float(r.uniform(0.5, 1.5)), b=float(r.uniform(0.05, 0.3))):
        return a + b * x
    def mk(kind):
        if kind == "W":
            return v.WeibullDistribution(alpha=float(r.uniform(1, 3)), beta=float(r.uniform(1.2, 2.5)), gamma=float(r.uniform(0, 1)))
        if kind == "LN":
            return v.LogNormalDistribution(mu=float(r.uniform(0.2, 1.5)), sigma=float(r.uniform(0.2, 0.6)))
        if kind == "N":
            return v.NormalDistribution(mu=float(r.uniform(5, 9)), sigma=float(r.uniform(0.5, 2)))
        return v.ExponentiatedWeibullDistribution(alpha=float(r.uniform(1, 3)), beta=float(r.uniform(1, 2)), delta=float(r.uniform(1, 4)))
    cond_ln = {"distribution": v.LogNormalDistribution(), "parameters": {"mu": v.DependenceFunction(lin), "sigma": v.DependenceFunction(lin)}}
    structures = [([None, None], ["W", "N"]), ([None, 0, None], ["W", "c", "EW"]), ([None, None, 1], ["LN", "N", "c"]), ([None, None, None], ["EW", "LN", "W"])]
    for st, kinds in structures:
        descs = []
        for c, k in zip(st, kinds):
            descs.append(dict(cond_ln, conditional_on=c) if k == "c" else {"distribution": mk(k)})
        model = v.GlobalHierarchicalModel(descs)
        for dim, (c, k) in enumerate(zip(st, kinds)):
            if c is not None:
                continue
            xs = np.atleast_1d(np.asarray(model.marginal_icdf(ps, dim), dtype=float))
            F = np.atleast_1d(np.asarray(descs[dim]["distribution"].cdf(xs), dtype=float))
            if xs.shape != (len(ps),) or not np.all(np.abs(F - np.array(ps)) <= 1e-9):
                return ({"clause": "marginal-icdf", "method": "marginal_icdf", "kind": "unconditional", "position": "first" if dim == 0 else "later"},
                        "model conditional_on=%r (families %r): marginal_icdf(%r, %d) = %r, where the cdf of variable %d -- an unconditional variable, "
                        "its marginal is its own distribution -- is %r" % (st, kinds, ps, dim, xs.tolist(), dim, F.tolist()))
    mu, sg = float(r.uniform(0.5, 1.5)), float(r.uniform(0.2, 0.5))
    model = v.GlobalHierarchicalModel([{"distribution": mk("W")},
                                       {"distribution": v.LogNormalDistribution(f_mu=mu, f_sigma=sg), "conditional_on": 0, "parameters": {}}])
    ps2 = [0.1, 0.5, 0.9]
    xs = np.atleast_1d(np.asarray(model.marginal_icdf(ps2, 1, random_state=int(seed % 2 ** 31)), dtype=float))
    F = np.atleast_1d(np.asarray(v.LogNormalDistribution(mu=mu, sigma=sg).cdf(xs), dtype=float))
    eps = math.sqrt(math.log(2 / 1e-12) / (2 * 100000))
    if xs.shape != (3,) or not np.all(np.abs(F - np.array(ps2)) <= 3 * eps):
        return ({"clause": "marginal-icdf", "method": "marginal_icdf", "kind": "all-fixed-conditional"},
                "[Weibull, LogNormal(f_mu=%r, f_sigma=%r) conditional_on 0 with parameters {}]: marginal_icdf(%r, 1, random_state=%d) = %r whose cdf "
                "under LogNormal(%r, %r) -- the marginal of that variable -- is %r (DKW band %.4f)" % (mu, sg, ps2, seed % 2 ** 31, xs.tolist(), mu, sg, F.tolist(), eps))
    return None


def o_predefined(name, seed, real_seconds=0):
    """a predefined model fitted to a benchmark data set: pdf = product of its own per-dimension densities at the same row,
    >= 0, list / array / integer inputs; (optionally, real nquad inside a time limit) cdf and marginals against 1-D
    quadrature over the model's own per-dimension methods; marginal_icdf round trip"""
    model, _ = M.predefined_parts(name)
    pts = np.asarray(model.draw_sample(5, random_state=seed), dtype=float)
    rows = pts.tolist() + [[float(max(1, round(v))) for v in pts[0]]]
    d0, d1 = model.distributions
    want = [float(np.ravel(d0.pdf(np.array([r[0]])))[0] * np.ravel(d1.pdf(np.array([r[1]]), given=np.array([r[0]])))[0]) for r in rows]
    for obj, label in ((rows, "list of rows"), (np.array(rows), "array")):
        got = run_method(model, "pdf", obj)
        if isinstance(got, dict) or len(got) != len(rows) or any(not (g >= 0) or not vlib.close(g, w, rel=TOL, abs_=1e-290) for g, w in zip(got, want)):
            return ({"clause": "product", "method": "pdf", "model": "predefined"}, "get_%s: pdf(%s %r) = %r, product of the two densities %r" % (name, label, rows, got, want))
    irow = [int(v) for v in rows[-1]]
    for obj in (irow, np.array([irow])):
        got = run_method(model, "pdf", obj)
        if isinstance(got, dict) or not vlib.close(got[0], want[-1], rel=TOL, abs_=1e-290):
            return ({"clause": "int-dtype", "method": "pdf", "model": "predefined"}, "get_%s: pdf(%r) = %r for integer input, %r for the same point as floats" % (name, irow, got, want[-1]))
    x = float(np.median(pts[:, 1]))
    xs = np.atleast_1d(model.marginal_icdf([0.2, 0.8], 1, random_state=seed))
    eps = math.sqrt(math.log(2 / 1e-12) / (2 * 100000))
    for p_, xq in zip([0.2, 0.8], xs):
        F = model_marginal_cdf_1d(model, float(xq))
        if abs(F - p_) > 3 * eps + 1e-3:
            return ({"clause": "marginal-icdf", "method": "marginal_icdf", "model": "predefined"},
                    "get_%s: marginal_icdf(%r, 1, random_state=%d) = %r whose marginal cdf is %r" % (name, p_, seed, float(xq), F))
    if real_seconds:
        lm = limited(M.predefined_spec(name), real_seconds)
        got = run_method(lm, "marginal_cdf", np.array([x]), 1)
        if slow(got):
            return "slow"
        w = model_marginal_cdf_1d(model, x)
        if isinstance(got, dict) or abs(got[0] - w) > 2e-4 + 2e-3 * abs(w):
            return ({"clause": "marginal-integral", "method": "marginal_cdf", "model": "predefined"},
                    "get_%s: marginal_cdf([%r], 1) = %r, 1-D quadrature of f0(t) F1(x|t) gives %r" % (name, x, got, w))
        got = run_method(lm, "cdf", [float(np.median(pts[:, 0])), x])
        if slow(got):
            return "slow"
        x0 = float(np.median(pts[:, 0]))
        lo = float(d0.icdf(1e-10))
        w = quad1(lambda t: float(d0.pdf(t)) * float(np.ravel(d1.cdf(np.array([x]), given=np.array([t])))[0]), max(lo, 0.0), x0)
        if isinstance(got, dict) or abs(got[0] - w) > 2e-4 + 2e-3 * abs(w):
            return ({"clause": "cdf-integral", "method": "cdf", "model": "predefined"}, "get_%s: cdf(%r) = %r, 1-D quadrature gives %r" % (name, [x0, x], got, w))
    return None


def scalar_notes(spec):
    """scalar (0-d) x for the marginal_* methods is outside the documented domain (1-dimensional): recorded, not judged"""
    model = M.build_model(spec)
    out = {}
    for dim in range(len(spec["dims"])):
        for meth in ("marginal_pdf", "marginal_cdf"):
            if spec["dims"][dim]["cond"] is not None and meth != "marginal_icdf":
                saved = _jm().integrate
                _jm().integrate = NquadStub(__import__("random").Random(0), [])
                try:
                    r = run_method(model, meth, 1.5, dim)
                finally:
                    _jm().integrate = saved
            else:
                r = run_method(model, meth, 1.5, dim)
            out["%s(scalar, %s dim)" % (meth, "conditional" if spec["dims"][dim]["cond"] is not None else "unconditional")] = \
                r["err"] if isinstance(r, dict) else "returns"
    return out


def simple_2d_spec():
    """the smallest interesting model (used to restate a dtype finding on a minimal input)"""
    return {"dims": [{"fam": "W", "cond": None, "params": {"alpha": ["val", 2.0], "beta": ["val", 1.5], "gamma": ["val", 0.0]}},
                     {"fam": "LN", "cond": 0, "params": {"mu": ["dep", "lin", [1.0, 0.2]], "sigma": ["fix", 0.3]}}]}


def replay(ctx, rp):
    spec = rp.get("spec")
    kind = rp["oracle"]
    if kind == "product":
        o = o_product(spec, rp["rows"])
    elif kind == "int_pdf":
        o = o_int_pdf(spec, rp["rows"])
    elif kind == "int_marginal":
        o = o_int_marginal(spec, rp["dim"], rp["xs"], rp["method"])
    elif kind == "integrand":
        o = o_integrand_semantics(spec, rp["method"], rp["dim"], rp["arg"], rp["seed"], rp.get("int_input", False))
    elif kind == "history":
        o = o_history(rp["spec"], rp["spec_b"], rp["mode"], rp["seed"])
    elif kind == "rows":
        o = o_rows_each_alone(spec, rp["method"], rp["dim"], rp["vals"], rp["seed"])
    elif kind == "edge_rows":
        o = o_edge_rows(spec, rp["base"])
    elif kind == "edge_integrals":
        o = o_edge_integrals_2d(spec, rp["base"])
    elif kind == "zero_conditioning":
        o = o_zero_conditioning(spec, rp["base"])
    elif kind == "icdf_tail":
        o = o_icdf_tail(spec, rp["seed"], rp["ps"])
    elif kind == "icdf_seed":
        o = o_icdf_seed(spec, rp["dim"], rp["seed"], rp["ps"], rp["pf"])
    elif kind == "icdf_nd":
        o = o_icdf_nd(spec, rp["dim"], rp["seed"])
    elif kind == "icdf_special":
        o = o_icdf_special(rp["seed"])
    elif kind == "predefined":
        o = o_predefined(rp["name"], rp["seed"], rp.get("real_seconds", 0))
    elif kind == "integrals_2d":
        o = o_integrals_2d(spec, rp["row"])
    elif kind == "mass_2d":
        o = o_mass_2d(spec)
    elif kind == "icdf_2d":
        o, _ = o_icdf_2d(ctx, spec, rp["seed"])
    else:
        raise KeyError(kind)
    if o == "slow":
        o = None
    if o:
        print("  ", o[1])
    return o is not None


# ----------------------------------------------------------------------------- run
def run(ctx):
    jm = _jm()
    ctx.proof_gate()
    rng = ctx.rng
    nmodels = ctx.n(160, 1200)
    specs = []
    for i in range(nmodels):
        nd = 4 if i % 16 == 15 else None          # a few 4-D models exercise more argument orders (stub only)
        specs.append(M.rand_spec(rng, n_dim=nd))
    # every admissible conditional_on structure of 2-D / 3-D models at least once
    for st in [(None, None), (None, 0), (None, None, None), (None, 0, None), (None, None, 0), (None, None, 1),
               (None, 0, 0), (None, 0, 1)]:
        sp = M.rand_spec(rng, n_dim=len(st))
        for d, c in zip(sp["dims"], st):
            if d["cond"] != c:
                d.update(M.rand_dim(rng, d["fam"], c))
        specs.append(sp)
    specs = location_dep_specs(rng) + specs      # first: they also reach the real-nquad and multi-point stages
    dist = {}
    for sp in specs:
        k = "%dD %s" % (len(sp["dims"]), list(M.structure(sp)))
        dist[k] = dist.get(k, 0) + 1
    ctx.notes["input_distribution"] = {"models_by_structure": dist,
                                       "dependent_location_parameters": sum(1 for sp in specs for d in sp["dims"] for k2, v in d["params"].items()
                                                                            if k2 in ("gamma", "loc") and v[0] == "dep"),
                                       "families": sorted({d["fam"] for sp in specs for d in sp["dims"]})}

    import time as _t
    marks = [("start", _t.time())]
    # ---- correspondence
    per_shard = 12
    items, metas = [], []
    for s in range(0, len(specs), per_shard):
        body = PRELUDE
        names = []
        shard_meta = []
        for j, sp in enumerate(specs[s:s + per_shard]):
            name = "m%d" % j
            text, meta = model_cases(ctx, rng, sp, name)
            body += text
            names.append(name)
            shard_meta.append(meta)
        body += "Eval vm_compute in [%s].\n" % "; ".join("%s_res" % nm for nm in names)
        items.append(("cases_%d" % (s // per_shard), body))
        metas.append(shard_meta)
    # argsort / reorder for all permutations of length <= 4
    perms = [list(p) for L in range(1, 5) for p in itertools.permutations(range(L))]
    args = [10.0, 20.0, 30.0, 40.0]
    want = [[float(v) for v in np.array(args[:len(p)])[np.argsort(p)]] for p in perms]
    body = PRELUDE + "Eval vm_compute in [%s].\n" % "; ".join(
        "reorder float 0 [%s]%%nat %s" % ("; ".join(str(k) for k in p), fl_list(args[:len(p)])) for p in perms)
    items.append(("perms", body))
    # Monte-Carlo sample size of marginal_icdf: the n handed to draw_sample against the model's fmc_size
    mc_model = M.build_model(simple_2d_spec())
    mc_seen = []
    mc_orig = mc_model.draw_sample
    mc_model.draw_sample = lambda n, **kw: (mc_seen.append(n), mc_orig(min(n, 1000), **kw))[1]
    mc_cases = []
    for ps_, pf_ in [([0.5], 1), ([0.1, 0.9], 1), ([1e-3], 1), ([1e-4, 0.5], 0.5), ([1 - 1e-4], 2.0), ([0.3, 0.999], 1.0),
                     ([rng.uniform(1e-5, 0.5)], rng.choice([1, 0.5, 3.0])), ([rng.uniform(0.5, 1 - 1e-5), 0.5], 1), ([7e-4, 0.9993], 0.7)]:
        mc_model.marginal_icdf(ps_, 1, pf_, random_state=1)
        mc_cases.append((ps_, pf_, mc_seen[-1]))
    items.append(("mc_size", PRELUDE + "Eval vm_compute in [%s].\n" % "; ".join(
        "fmc_size %s %s" % (fl_list(ps_), fl(float(pf_))) for ps_, pf_, _ in mc_cases)))
    outs = ctx.coq_eval_many(items, jobs=12)
    mc_out = outs.pop()
    items.pop()
    nmc_ok = 0
    if mc_out is not None:
        for got, (ps_, pf_, n_) in zip(vlib.parse_term(mc_out[0]), mc_cases):
            if vlib.unsome(got) == n_:
                nmc_ok += 1
            else:
                ctx.mismatch("marginal_icdf sample size p=%r precision_factor=%r" % (ps_, pf_), "implementation draws %r rows, model %r" % (n_, got))
    codes_seen = {}
    suspects = []
    ncmp = nexact = 0
    names = {1: "a (value, given) pair the model needs was never asked of the distribution (wrong conditioning column / missing factor)",
             2: "values differ", 3: "error/ok mismatch", 4: "nquad ranges", 5: "nquad extra args",
             6: "row handed to pdf by the integrand", 7: "integrand value", 8: "number of nquad calls"}
    for k, (o, shard_meta) in enumerate(zip(outs[:-1], metas)):
        if o is None:
            continue
        res = vlib.parse_term(o[0])
        for codes, meta in zip(res, shard_meta):
            for code, (kind, m) in zip(codes, meta):
                ncmp += 1
                codes_seen[code] = codes_seen.get(code, 0) + 1
                nexact += code == 0
                ctx.count((kind, m["form"], str(m.get("rows", m.get("xs"))), str(M.structure(m["spec"]))),
                          any(d["cond"] is not None for d in m["spec"]["dims"]))
                if code not in (0, 10):
                    ctx.mismatch("%s (%s input, conditional_on=%r)" % (kind, m["form"], list(M.structure(m["spec"]))),
                                 "%s; implementation returned %r" % (names.get(code, code), m["impl"]))
                    suspects.append((kind, m))
    if outs[-1] is not None:
        got = vlib.parse_term(outs[-1][0])
        for p, g, w in zip(perms, got, want):
            ncmp += 1
            if [float(v) for v in g] != w:
                ctx.mismatch("reorder %r" % p, "model %r, numpy %r" % (g, w))
            else:
                nexact += 1
    ctx.cov["programs"] = 4
    ctx.notes["correspondence"] = {"comparisons": ncmp, "bit_exact": nexact, "codes": {str(k): v for k, v in sorted(codes_seen.items())},
                                   "permutations_checked": len(perms),
                                   "marginal_icdf_sample_sizes_agree": "%d/%d" % (nmc_ok, len(mc_cases))}
    for sp in specs[:2]:
        ctx.sample({"spec": sp})

    marks.append(("correspondence", _t.time()))
    # ---- search
    found = {}

    unjudged = {"slow_nquad": 0}

    def report(o, rp):
        if o == "slow":
            unjudged["slow_nquad"] += 1
            return False
        if o is not None:
            key = repr(sorted(o[0].items()))
            if found.get(key, 0) < 2 and ctx.violation(o[0], o[1], rp):
                found[key] = found.get(key, 0) + 1
            return True
        return False

    # (1) suspects first: restate the disagreement through the property oracle
    for kind, m in suspects[:40]:
        sp = m["spec"]
        if m["method"] == "pdf":
            if m["form"].endswith("_int"):
                report(o_int_pdf(sp, m["rows"]), {"oracle": "int_pdf", "spec": sp, "rows": m["rows"]})
            else:
                report(o_product(sp, m["rows"]), {"oracle": "product", "spec": sp, "rows": m["rows"]})
        elif m["method"] in ("marginal_pdf", "marginal_cdf") and m["form"].endswith("_int") and len(sp["dims"]) == 2 \
                and sp["dims"][m["dim"]]["cond"] is not None:
            report(o_int_marginal(sp, m["dim"], m["xs"], m["method"], limited(sp, 20)),
                   {"oracle": "int_marginal", "spec": sp, "dim": m["dim"], "xs": m["xs"], "method": m["method"]})
    # (2) the stream: product / non-negativity / input forms on every model, integer inputs on every model
    nprod = nint = 0
    for sp in specs:
        model = M.build_model(sp)
        rows = make_rows(rng, sp, 4)
        nprod += 1
        ctx.cov["evaluations"] += 1
        if report(o_product(sp, rows, model), {"oracle": "product", "spec": sp, "rows": rows}):
            continue
        irows = make_rows(rng, sp, 2, integers=True)
        nint += 1
        report(o_int_pdf(sp, irows, model), {"oracle": "int_pdf", "spec": sp, "rows": irows})
    marks.append(("suspects+product", _t.time()))
    # (2b) what the integrands hand to pdf and over which range each model variable runs (probing stub, any dimension)
    nsem = 0
    for sp in specs:
        if len(sp["dims"]) < 3 and nsem > 40:
            continue
        n = len(sp["dims"])
        row = make_rows(rng, sp, 1)[0]
        if len(set(row)) < n:
            continue
        for meth, dim, arg in [("cdf", None, row)] + [(m, d, row[d]) for d in range(n) for m in ("marginal_pdf", "marginal_cdf")]:
            seed = rng.randrange(2 ** 31)
            nsem += 1
            report(o_integrand_semantics(sp, meth, dim, arg, seed), {"oracle": "integrand", "spec": sp, "method": meth, "dim": dim, "arg": arg, "seed": seed})
        irow = make_rows(rng, sp, 1, integers=True)[0]
        if len(set(irow)) == n:
            for meth, dim, arg in [("cdf", None, irow)] + [(m, d, irow[d]) for d in range(n) for m in ("marginal_pdf", "marginal_cdf")]:
                seed = rng.randrange(2 ** 31)
                nsem += 1
                report(o_integrand_semantics(sp, meth, dim, arg, seed, True),
                       {"oracle": "integrand", "spec": sp, "method": meth, "dim": dim, "arg": arg, "seed": seed, "int_input": True})
    ctx.cov["evaluations"] += nsem
    marks.append(("semantics", _t.time()))
    # (2c) several points in one call: non-sorted order, a repeated point -- same as one at a time
    nrows = 0
    for sp in specs[:ctx.n(60, 600)]:
        n = len(sp["dims"])
        rows = sorted(make_rows(rng, sp, 4))
        if len({tuple(r) for r in rows}) < 4:
            continue
        rows = [rows[1], rows[2], rows[3], rows[0], rows[2]]          # cyclic order of the sorted rows + a repeat
        seed = rng.randrange(2 ** 31)
        nrows += 1
        vals, o = shrink_rows(lambda v: o_rows_each_alone(sp, "cdf", None, v, seed), rows)
        report(o, {"oracle": "rows", "spec": sp, "method": "cdf", "dim": None, "vals": vals, "seed": seed})
        for dim in range(n):
            for meth in ("marginal_pdf", "marginal_cdf"):
                xs = [r[dim] for r in rows]
                nrows += 1
                vals, o = shrink_rows(lambda v: o_rows_each_alone(sp, meth, dim, v, seed), xs)
                report(o, {"oracle": "rows", "spec": sp, "method": meth, "dim": dim, "vals": vals, "seed": seed})
    ctx.cov["evaluations"] += nrows
    marks.append(("rows", _t.time()))
    # (2d) histories: marginal_icdf of a conditional variable before / after the model is changed (in place, by re-fitting)
    nhist = 0
    for k in range(ctx.n(2, 12)):
        sa, sb = history_specs(rng)
        for mode in ("params", "fit"):
            seed = rng.randrange(2 ** 31)
            nhist += 1
            try:
                o = o_history(sa, sb, mode, seed)
            except Exception as e:  # noqa  (a fit that does not converge is not judged)
                o = "slow" if mode == "fit" else ({"clause": "marginal-icdf", "kind": "exception"},
                                                  "marginal_icdf history raised %s: %s" % (type(e).__name__, str(e)[:200]))
            report(o, {"oracle": "history", "spec": sa, "spec_b": sb, "mode": mode, "seed": seed})
    ctx.cov["evaluations"] += nhist
    marks.append(("histories", _t.time()))
    # (2e) edge of the support, non-finite points
    nedge = 0
    for sp in specs[:ctx.n(70, 700)]:
        base = make_rows(rng, sp, 1)[0]
        nedge += 1
        report(o_edge_rows(sp, base), {"oracle": "edge_rows", "spec": sp, "base": base})
    marks.append(("edge", _t.time()))
    # (2e') conditioning coordinates exactly 0 where the conditioning variable has a positive density at 0
    for zsp in zero_density_specs(rng):
        base = [rng.uniform(0.6, 2.5) for _ in zsp["dims"]]
        nedge += 1
        report(o_zero_conditioning(zsp, base), {"oracle": "zero_conditioning", "spec": zsp, "base": base})
        ibase = [float(rng.randrange(1, 4)) for _ in zsp["dims"]]
        report(o_zero_conditioning(zsp, ibase), {"oracle": "zero_conditioning", "spec": zsp, "base": ibase})
        report(o_product(zsp, [base, ibase]), {"oracle": "product", "spec": zsp, "rows": [base, ibase]})
    # ... and on every generated model too (the independent product decides; nan there = not judged)
    for sp in specs[:ctx.n(70, 700)]:
        if any(d["cond"] is not None for d in sp["dims"]):
            base = make_rows(rng, sp, 1)[0]
            report(o_zero_conditioning(sp, base), {"oracle": "zero_conditioning", "spec": sp, "base": base})
    # (2e'') tail probabilities: Monte-Carlo samples of 2.5 and 3.3 million rows
    ntail = 0
    for ps_ in ([4e-5, 0.5, 0.9], [0.1, 0.5, 1 - 3e-5]):
        hs, _hb = history_specs(rng)
        seed = rng.randrange(2 ** 31)
        ntail += 1
        report(o_icdf_tail(hs, seed, ps_), {"oracle": "icdf_tail", "spec": hs, "seed": seed, "ps": ps_})
    # (2f) marginal_icdf with random_state on conditional dimensions of 2-D .. 4-D chains
    nicdf = 0
    cond_models = [sp for sp in specs if any(d["cond"] is not None for d in sp["dims"])]
    pick = cond_models[:ctx.n(3, 20)] + [sp for sp in cond_models if len(sp["dims"]) >= 3 and M.structure(sp)[2] == 1][:ctx.n(2, 10)] + \
        [sp for sp in cond_models if len(sp["dims"]) == 4][:ctx.n(1, 6)]
    for k, sp in enumerate(pick):
        dims = [i for i, d in enumerate(sp["dims"]) if d["cond"] is not None]
        dim = dims[-1] if k % 2 == 0 else rng.choice(dims)
        seed = rng.randrange(2 ** 31)
        ps_, pf_ = rng.choice([([0.1, 0.9], 1), ([0.5], 0.5), ([2e-3, 0.7], 1.0), ([0.25, 0.5, 0.75], 2)]) if k else ([0.3, 0.9995], 1)
        nicdf += 2
        report(o_icdf_seed(sp, dim, seed, ps_, pf_), {"oracle": "icdf_seed", "spec": sp, "dim": dim, "seed": seed, "ps": list(ps_), "pf": pf_})
        report(o_icdf_nd(sp, dim, seed), {"oracle": "icdf_nd", "spec": sp, "dim": dim, "seed": seed})
    for _k in range(ctx.n(3, 20)):     # unconditional variables at later positions; all-fixed conditional variables
        seed = rng.randrange(2 ** 31)
        nicdf += 1
        report(o_icdf_special(seed), {"oracle": "icdf_special", "seed": seed})
    marks.append(("icdf", _t.time()))
    # (2g) every predefined model, fitted to a benchmark data set
    for name in M.PREDEFINED:
        seed = rng.randrange(2 ** 31)
        psp = M.predefined_spec(name)
        report(o_predefined(name, seed), {"oracle": "predefined", "name": name, "seed": seed})
        m_, _tr = M.predefined_parts(name)
        row = [float(v) for v in np.asarray(m_.draw_sample(1, random_state=seed))[0]]
        rows5 = sorted(np.asarray(m_.draw_sample(4, random_state=seed + 1)).tolist())
        rows5 = [rows5[1], rows5[2], rows5[3], rows5[0], rows5[2]]
        for meth, dim, arg in [("cdf", None, row), ("marginal_pdf", 1, row[1]), ("marginal_cdf", 1, row[1]), ("marginal_pdf", 0, row[0]), ("marginal_cdf", 0, row[0])]:
            s2 = rng.randrange(2 ** 31)
            report(o_integrand_semantics(psp, meth, dim, arg, s2), {"oracle": "integrand", "spec": psp, "method": meth, "dim": dim, "arg": arg, "seed": s2})
            vals = rows5 if meth == "cdf" else [r[dim] for r in rows5]
            report(o_rows_each_alone(psp, meth, dim, vals, s2), {"oracle": "rows", "spec": psp, "method": meth, "dim": dim, "vals": vals, "seed": s2})
            nedge += 2
    ctx.cov["evaluations"] += nedge + nicdf
    ctx.notes["scalar_x_for_marginals (outside the documented 1-D domain, recorded only)"] = scalar_notes(simple_2d_spec())
    marks.append(("predefined", _t.time()))
    # minimal restatement of the dtype clause (the documented example shape: model.pdf([3, 7]))
    s0 = simple_2d_spec()
    report(o_int_pdf(s0, [[3.0, 7.0]]), {"oracle": "int_pdf", "spec": s0, "rows": [[3.0, 7.0]]})
    # (3) real nquad on 2-D models with a conditional second variable (slow: a handful, inside a time budget)
    import time
    t_real = time.time()
    budget = ctx.n(50, 600)
    left = lambda: time.time() - t_real < budget
    two = [sp for sp in specs if M.structure(sp) == (None, 0)]
    nreal = ctx.n(3, 25)
    nquad_checked = skipped = 0
    worst_icdf = None
    report(o_int_marginal(s0, 1, [5, 8], "marginal_pdf", limited(s0, 20)), {"oracle": "int_marginal", "spec": s0, "dim": 1, "xs": [5, 8], "method": "marginal_pdf"})
    report(o_int_marginal(s0, 1, [5, 8], "marginal_cdf", limited(s0, 20)), {"oracle": "int_marginal", "spec": s0, "dim": 1, "xs": [5, 8], "method": "marginal_cdf"})
    for sp in two[:nreal]:
        if not left():
            skipped += 1
            continue
        row = make_rows(rng, sp, 1)[0]
        nquad_checked += 1
        report(o_integrals_2d(sp, row, limited(sp, ctx.n(12, 60))), {"oracle": "integrals_2d", "spec": sp, "row": row})
    for sp in two[nreal:nreal + ctx.n(1, 6)]:
        if not left():
            skipped += 1
            continue
        report(o_mass_2d(sp, limited(sp, ctx.n(10, 60))), {"oracle": "mass_2d", "spec": sp})
    for sp in two[-ctx.n(1, 5):]:
        seed = rng.randrange(2 ** 31)
        o, worst = o_icdf_2d(ctx, sp, seed)
        worst_icdf = worst if worst_icdf is None else max(worst_icdf, worst or 0)
        report(o, {"oracle": "icdf_2d", "spec": sp, "seed": seed})
    base0 = [1.5, 4.0]
    if left():
        report(o_edge_integrals_2d(s0, base0, limited(s0, 15)), {"oracle": "edge_integrals", "spec": s0, "base": base0})
    pre_names = sorted(M.PREDEFINED)
    for k in range(ctx.n(2, 6)):
        name = pre_names[(ctx.seed + k) % len(pre_names)]
        if left():
            sd = rng.randrange(2 ** 31)
            report(o_predefined(name, sd, ctx.n(10, 60)), {"oracle": "predefined", "name": name, "seed": sd, "real_seconds": ctx.n(10, 60)})
    marks.append(("real_nquad", _t.time()))
    ctx.notes["seconds_per_stage"] = {b[0]: round(b[1] - a[1], 1) for a, b in zip(marks, marks[1:])}
    ctx.notes["search"] = {"product_oracle_models": nprod, "int_vs_float_models": nint, "integrand_semantics_calls": nsem, "multi_point_calls_vs_one_at_a_time": nrows, "marginal_icdf_histories": nhist, "edge_and_predefined_calls": nedge, "marginal_icdf_seed_and_ndim_checks": nicdf, "marginal_icdf_tail_round_trips (n = 2.5e6, 3.3e6)": ntail,
                           "predefined_models": sorted(M.PREDEFINED), "real_nquad_2d_models": nquad_checked, "real_nquad_skipped_for_time": skipped, "unjudged_slow_or_saturated_nquad_calls": unjudged["slow_nquad"],
                           "marginal_icdf_worst_|F(x_p)-p|": worst_icdf,
                           "3-D real nquad": "not run (one call takes minutes); 3-D/4-D integrands are checked through the probing stub"}
    ctx.cov["rule"] = ("random 2-D/3-D (a few 4-D) hierarchical models over Weibull / log-normal / log-normal(norm-fit) / exponentiated Weibull / "
                       "generalised gamma with every admissible conditional_on structure; points at bulk and tail quantiles, rounded and integer-valued; "
                       "row-vector, list, (n, n_dim) array, float and integer dtype; one evaluation = one method call compared with the model; "
                       "non-trivial = the model has at least one conditional variable; distinct = hash of (method, input form, points, structure)")
    ctx.cov["trusted_base"] = ["Coq 8.16.1 kernel + vm_compute (primitive floats)", "harness tools/harness/c06.py + _c06_models.py (generators, proxies, comparison)",
                               "oracle contract nquad_is_iterated_integral (scipy.integrate.nquad), validated on 2-D models against 1-D quadrature",
                               "per-distribution pdf/cdf/icdf are oracles here (C05/C08 are about them); independent product uses scipy.stats directly",
                               "Fubini / integrability not modelled (C06_integrates_to_one_partial)"]
    ctx.assumptions += ["conditional_on[i] < i (hierarchy; C18 is about rejecting anything else)",
                        "finite inputs (asarray_chkfinite), dim in 0..n_dim-1",
                        "np.prod over the last axis multiplies left to right (validated bit-exactly by this run)"]
