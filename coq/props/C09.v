(* C09 -- joint fitting is order-invariant and fits each interval to exactly its own data.
   Property theorems only; proofs are in proofs/JointFitProofs.v, the model in model/JointFit.v (the interval
   slicers are those of model/Intervals.v, C10).
   Engines (template fit, dependence fit, argsort, callable reference, boundaries of the PointsPerInterval
   slicer) are Section variables; what is assumed about them is a named hypothesis of the theorem using it. *)
From Coq Require Import List Bool Arith Permutation PrimFloat.
From V.base Require Import FloatBits.
From V.model Require Import Intervals JointFit.
From V.proofs Require Import IntervalsProofs JointFitProofs.
Import ListNotations.

Section Abstract.
  Variables T R : Type.                 (* observations, reference values *)
  Variable leb : T -> T -> bool.
  Variable d0 : T.
  Variables M W : Type.                 (* method, weights *)
  Variable mle : M.
  Variable wnone : W.
  Variables Tm P : Type.                (* template distribution, parameter values *)
  Variable tfit : Tm -> option P -> M -> W -> list T -> P.                 (* engine: template.fit *)
  Variables Dep DP Y : Type.
  Variable proj : Dep -> P -> Y.
  Variable dfit : Dep -> option DP -> list R -> list Y -> DP.             (* engine: DependenceFunction.fit *)
  Notation fit := (fit T R d0 M W mle wnone Tm P tfit Dep DP Y proj dfit).
  Notation fit_dim := (fit_dim T R d0 M W Tm P tfit Dep DP Y proj dfit).
  Notation split := (split_in_intervals T R d0).
  Notation col := (col T d0).

  (* each interval gets exactly its own data: for a Width/Number slicer on the conditioning dimension c,
     _split_in_intervals returns, for every interval with >= min_n_points members (in order), the
     observations {y_r | x_r in interval} of the dependent column i in row order, the interval's reference
     (callable: evaluated on the conditioning values of the members) and its boundaries;
     RuntimeError iff fewer than min_n_intervals survive *)
  Theorem C09_interval_data : forall slicers mk rf rows i c,
    nth_error slicers c = Some (edge_slicer T R leb mk rf) ->
    split slicers rows i c =
    let pl := mk (col c rows) in
    let ks := kept T R leb pl (col c rows) in
    if length ks <? pl_mni pl then None
    else Some (map (fun a => members T leb d0 (fst (fst a)) (snd (fst a)) c i rows) ks,
               map (ref_of T R leb d0 rf c rows) ks,
               map (fun a => snd (fst a)) ks).
  Proof. exact (split_edge_spec T R leb d0). Qed.

  (* ... and every template fit of a conditional dimension is a fit of a FRESH copy of the template (state None)
     to exactly one of these interval data sets; the dependence functions are fitted to
     (references, estimates of their parameter) *)
  Theorem C09_conditional_fit : forall slicers rows i tm c deps mw prev ivs refs bs,
    split slicers rows i c = Some (ivs, refs, bs) ->
    fit_dim slicers rows i (DC tm c deps) mw prev =
    Some (FC ivs refs bs (map (tfit tm None (fst mw) (snd mw)) ivs)
             (map (fun jd => dfit (snd jd) (prevD T R P DP prev (fst jd)) refs
                                  (map (proj (snd jd)) (map (tfit tm None (fst mw) (snd mw)) ivs)))
                  (combine (seq 0 (length deps)) deps))).
  Proof. intros slicers rows i tm c deps mw prev ivs refs bs H. cbn [JointFit.fit_dim]. rewrite H. reflexivity. Qed.

  (* the lists of a conditional dimension run parallel: one reference, one pair of boundaries, one estimate per
     stored interval in the same order (also after min_n_points dropped intervals); estimate k is the fit of a
     fresh template copy to interval k; dependence function j gets (all references, parameter j's estimates);
     parameters without a dependence function (fixed ones) get no dependence fit -- for ANY slicer *)
  Theorem C09_lists_aligned : forall slicers rows i tm c deps mw prev ivs refs bs pars dps,
    fit_dim slicers rows i (DC tm c deps) mw prev = Some (FC ivs refs bs pars dps) ->
    length refs = length ivs /\ length bs = length ivs /\ length pars = length ivs /\ length dps = length deps /\
    (forall k iv, nth_error ivs k = Some iv -> nth_error pars k = Some (tfit tm None (fst mw) (snd mw) iv)) /\
    (forall j dep, nth_error deps j = Some dep ->
                   nth_error dps j = Some (dfit dep (prevD T R P DP prev j) refs (map (proj dep) pars))).
  Proof. exact (cond_lists_aligned T R d0 M W Tm P tfit Dep DP Y proj dfit). Qed.

  (* an unconditional dimension is fitted in place (start = its previous estimate) to its whole column, with its own options *)
  Theorem C09_unconditional_fit : forall slicers rows i tm mw prev,
    fit_dim slicers rows i (DI tm) mw prev = Some (FI (tfit tm (prevP T R P DP prev) (fst mw) (snd mw) (col i rows))).
  Proof. exact (uncond_fit T R d0 M W Tm P tfit Dep DP Y proj dfit). Qed.

  (* ValueError: a row whose length is not the number of dimensions, a fit-description list of the wrong length,
     a fit description without "method" *)
  Theorem C09_invalid_input_raises : forall slicers ds st rows fds,
    (exists r, In r rows /\ length r <> length ds) \/
    (exists l, fds = Some l /\ (length l <> length ds \/ exists w, In (Some (mkfd None w)) l)) ->
    fit slicers ds st rows fds = None.
  Proof. exact (fit_rejects T R d0 M W mle wnone Tm P tfit Dep DP Y proj dfit). Qed.

  (* (a) Width/Number slicer: interval k of the permuted matrix is a permutation of interval k of the
     original, references / boundaries / RuntimeError identical, when the plan (value range -> edge vector,
     references) is the same for both orders *)
  Theorem C09_intervals_permute : forall slicers mk rf rows rows' i c,
    nth_error slicers c = Some (edge_slicer T R leb mk rf) -> mk (col c rows) = mk (col c rows') -> rf_inv T R rf ->
    Permutation rows rows' ->
    split_equiv T R (split slicers rows i c) (split slicers rows' i c).
  Proof. exact (split_edge_perm_on T R leb d0). Qed.

  (* the value range (np.max / np.min as a fold over any strict order that is total on the occurring values)
     does not depend on the order *)
  Theorem C09_range_order_free : forall (lt : T -> T -> bool) (D : T -> Prop),
    (forall a, D a -> lt a a = false) ->
    (forall a b c, D a -> D b -> D c -> lt a b = true -> lt b c = true -> lt a c = true) ->
    (forall a b, D a -> D b -> lt a b = false -> lt b a = false -> a = b) ->
    forall d l l', (forall x, In x l -> D x) -> Permutation l l' -> gmax T lt d l = gmax T lt d l'.
  Proof. exact (gmax_perm T). Qed.

  Hypothesis leb_trans : forall a b c, leb a b = true -> leb b c = true -> leb a c = true.
  Hypothesis leb_total : forall a b, leb a b = false -> leb b a = true.

  (* (b) PointsPerIntervalSlicer: same statement for ANY two answers of the argsort oracle, provided no two
     observations in different chunks have tied conditioning values (no tie straddles a chunk boundary) *)
  Theorem C09_ppi_intervals_permute : forall slicers argsort n lf mnp mni bnds (rf : list T -> R) rows rows' i c,
    nth_error slicers c = Some (ppi_slicer T R argsort n lf mnp mni bnds rf) ->
    0 < n -> Permutation rows rows' ->
    argsort_contract T leb d0 (argsort (col c rows)) (col c rows) ->
    argsort_contract T leb d0 (argsort (col c rows')) (col c rows') ->
    (forall L L', Forall2 (@Permutation T) L L' -> bnds L = bnds L') ->
    (forall x x', Permutation x x' -> rf x = rf x') ->
    separated T leb (list T) (keyc T d0 c) (gppi_chunks n lf (map (rowat T rows) (argsort (col c rows)))) ->
    split_equiv T R (split slicers rows i c) (split slicers rows' i c).
  Proof. exact (split_ppi_perm T leb leb_trans leb_total d0 R). Qed.

  (* order invariance of the fitted model, any dimension count / dependence structure / mixture of slicers /
     fit options / previous state: with a permutation-invariant template fit the two fits raise together or
     give the same model (stored interval data equal as multisets, everything else equal) *)
  Theorem C09_fit_order_invariant : forall slicers ds st rows rows' fds,
    tfit_inv T M W Tm P tfit -> Permutation rows rows' ->
    (forall c sl, nth_error slicers c = Some sl -> slicer_good T R leb d0 rows rows' c sl) ->
    oeq (Forall2 (oeq (feq T R P DP))) (fit slicers ds st rows fds) (fit slicers ds st rows' fds).
  Proof. exact (fit_perm_slicers T R leb leb_trans leb_total d0 M W mle wnone Tm P tfit Dep DP Y proj dfit). Qed.

  (* (d) dimension j is fitted with its own filled description -- defaults ("mle", None) -- and nothing else *)
  Theorem C09_options_per_dimension : forall slicers ds st rows fds res j d,
    fit slicers ds st rows fds = Some res -> nth_error ds j = Some d ->
    exists mw f, fill1 M W mle wnone (desc_of M W fds j) = Some mw /\
                 fit_dim slicers rows j d mw (nth j st None) = Some f /\ nth_error res j = Some (Some f).
  Proof. exact (fit_component T R d0 M W mle wnone Tm P tfit Dep DP Y proj dfit). Qed.
  Theorem C09_option_defaults : forall m w,
    fill1 M W mle wnone None = Some (mle, wnone) /\
    fill1 M W mle wnone (Some (mkfd (Some m) None)) = Some (m, wnone) /\
    fill1 M W mle wnone (Some (mkfd (Some m) (Some w))) = Some (m, w) /\
    desc_of M W None 0 = None.
  Proof. exact (fun m w => conj (fill1_default M W mle wnone) (conj (fill1_no_weights M W mle wnone m)
                 (conj (fill1_given M W mle wnone m w) eq_refl))). Qed.
  Theorem C09_options_do_not_leak : forall slicers ds st rows fds fds' res res' j,
    fit slicers ds st rows fds = Some res -> fit slicers ds st rows fds' = Some res' ->
    fill1 M W mle wnone (desc_of M W fds j) = fill1 M W mle wnone (desc_of M W fds' j) ->
    nth_error res j = nth_error res' j.
  Proof. exact (options_local T R d0 M W mle wnone Tm P tfit Dep DP Y proj dfit). Qed.

  (* (e) re-fit: an already fitted model raises exactly when a fresh one does and gets the same
     data_intervals / conditioning_values / boundaries / parameters_per_interval (no assumption on the engines);
     the whole state is the same when the engines do not depend on their start values *)
  Theorem C09_refit_lists : forall slicers ds st rows fds,
    lists_view T R P DP (fit slicers ds st rows fds) = lists_view T R P DP (fit slicers ds [] rows fds).
  Proof. exact (refit_lists T R d0 M W mle wnone Tm P tfit Dep DP Y proj dfit). Qed.
  Theorem C09_refit_same : forall slicers ds st rows fds,
    tfit_start_free T M W Tm P tfit -> dfit_start_free R Dep DP Y dfit ->
    fit slicers ds st rows fds = fit slicers ds [] rows fds.
  Proof. exact (refit_same T R d0 M W mle wnone Tm P tfit Dep DP Y proj dfit). Qed.
End Abstract.

(* (b') with a tie across a chunk boundary the PointsPerIntervalSlicer is order dependent (lead L13, inherent):
   two tied rows, one point per interval, an argsort that keeps ties in input order *)
Theorem C09_ppi_ties_refuted :
  Permutation w_rows w_rows' /\
  argsort_contract nat Nat.leb 0 (w_argsort (col nat 0 0 w_rows)) (col nat 0 0 w_rows) /\
  argsort_contract nat Nat.leb 0 (w_argsort (col nat 0 0 w_rows')) (col nat 0 0 w_rows') /\
  ~ split_equiv nat nat (split_in_intervals nat nat 0 w_slicers w_rows 1 0)
                        (split_in_intervals nat nat 0 w_slicers w_rows' 1 0).
Proof. exact ppi_ties_witness. Qed.

(* the binary64 slicers run against the implementation ARE these slicers: Width / Number are edge slicers
   over C10's one-edge-vector model, their plans read the data through np.max / np.min only, and those are
   order free when < is a strict total order on the values that occur (no NaN, not both signed zeros) *)
Theorem C09_width_slicer_model : forall width r ro vmin vmax mnp mni data,
  width_slice width r ro vmin vmax mnp mni data
  = plan_slice float float fleb (width_plan width r ro vmin vmax mnp mni data) data.
Proof. exact width_slice_plan. Qed.
Theorem C09_number_slicer_model : forall n r im vr mnp mni data,
  number_slice n r im vr mnp mni data
  = plan_slice float float fleb (number_plan n r im vr mnp mni data) data.
Proof. exact number_slice_plan. Qed.
Theorem C09_ppi_slicer_model : forall argsort n lf mnp mni rf x,
  ppi_slicer float float argsort n lf mnp mni ppi_bnds rf x =
  match ppi_slice n lf mnp mni (argsort x) x with
  | None => None
  | Some (ms, bs) => Some (map (fun mb => mkrow (fst mb) (rf (selm (fst mb) x)) (snd mb)) (combine ms bs))
  end.
Proof. exact ppi_slicer_ppi_slice. Qed.
Theorem C09_width_plan_order_free : forall width r ro vmin vmax mnp mni x x',
  strict_total_on (fun a => In a x) -> Permutation x x' ->
  width_plan width r ro vmin vmax mnp mni x = width_plan width r ro vmin vmax mnp mni x'.
Proof. exact width_plan_perm. Qed.
Theorem C09_number_plan_order_free : forall n r im vr mnp mni x x',
  strict_total_on (fun a => In a x) -> Permutation x x' ->
  number_plan n r im vr mnp mni x = number_plan n r im vr mnp mni x'.
Proof. exact number_plan_perm. Qed.

(* non-vacuity: a 2-D model over nat (Width-like slicer with explicit range, template fit = sum of the data,
   dependence fit = its arguments), fitted to a matrix and to a reordering of it *)
Definition ex_plan (_ : list nat) : plan nat nat := mkplan RightOpen false [0; 2; 4; 6] [1; 3; 5] 1 2.
Definition ex_slicers : list (slicer nat nat) := [edge_slicer nat nat Nat.leb ex_plan None].
Definition ex_tfit (tm : nat) (_ : option nat) (m w : nat) (x : list nat) : nat := tm + m + w + fold_right plus 0 x.
Definition ex_dfit (dep : nat) (_ : option (list nat * list nat)) (x y : list nat) := (x, y).
Definition ex_fit := fit nat nat 0 nat nat 0 0 nat nat ex_tfit nat (list nat * list nat)%type nat (fun d p => d + p) ex_dfit
                         ex_slicers [DI 100; DC 200 0 [7]] [].
Example C09_nonvacuous :
  ex_fit [[1; 10]; [5; 20]; [0; 30]; [4; 40]] None
    = Some [Some (FI 110); Some (FC [[10; 30]; [20; 40]] [1; 5] [(0, 2); (4, 6)] [240; 260] [([1; 5], [247; 267])])] /\
  ex_fit [[4; 40]; [0; 30]; [5; 20]; [1; 10]] None
    = Some [Some (FI 110); Some (FC [[30; 10]; [40; 20]] [1; 5] [(0, 2); (4, 6)] [240; 260] [([1; 5], [247; 267])])] /\
  ex_fit [[1; 10]; [5; 20]; [0; 30]; [4; 40]] (Some [None; Some (mkfd (Some 1) None)])
    = Some [Some (FI 110); Some (FC [[10; 30]; [20; 40]] [1; 5] [(0, 2); (4, 6)] [241; 261] [([1; 5], [248; 268])])] /\
  ex_fit [[1; 10]; [5; 20; 7]; [0; 30]; [4; 40]] None = None /\
  ex_fit [[1; 10]; [5; 20]; [0; 30]; [4; 40]] (Some [None; Some (mkfd None (Some 3))]) = None /\
  Permutation [[1; 10]; [5; 20]; [0; 30]; [4; 40]] [[4; 40]; [0; 30]; [5; 20]; [1; 10]] /\
  tfit_inv nat nat nat nat nat ex_tfit.
Proof.
  repeat split; try reflexivity.
  - apply (perm_trans (l' := [[4; 40]; [1; 10]; [5; 20]; [0; 30]])).
    + apply Permutation_sym. apply (Permutation_middle [[1; 10]; [5; 20]; [0; 30]] [] [4; 40]).
    + apply perm_skip. apply (perm_trans (l' := [[0; 30]; [1; 10]; [5; 20]])).
      * apply Permutation_sym. apply (Permutation_middle [[1; 10]; [5; 20]] [] [0; 30]).
      * apply perm_skip. apply perm_swap.
  - intros tm p m w x x' H. unfold ex_tfit. f_equal. induction H; cbn; auto; try congruence.
    rewrite !Nat.add_assoc. f_equal. apply Nat.add_comm.
Qed.

Print Assumptions C09_interval_data.
Print Assumptions C09_conditional_fit.
Print Assumptions C09_lists_aligned.
Print Assumptions C09_unconditional_fit.
Print Assumptions C09_invalid_input_raises.
Print Assumptions C09_intervals_permute.
Print Assumptions C09_range_order_free.
Print Assumptions C09_ppi_intervals_permute.
Print Assumptions C09_fit_order_invariant.
Print Assumptions C09_options_per_dimension.
Print Assumptions C09_option_defaults.
Print Assumptions C09_options_do_not_leak.
Print Assumptions C09_refit_lists.
Print Assumptions C09_refit_same.
Print Assumptions C09_ppi_ties_refuted.
Print Assumptions C09_width_slicer_model.
Print Assumptions C09_number_slicer_model.
Print Assumptions C09_ppi_slicer_model.
Print Assumptions C09_width_plan_order_free.
Print Assumptions C09_number_plan_order_free.
