(* C14 -- dependence functions are fitted within bounds, optimally, in dependency order.
   Property theorems only; the model is model/DepProtocol.v, the proofs are in proofs/DepProtocolProofs.v.
   F is scipy's optimiser (curve_fit / minimize SLSQP) seen as a function of (function id, data, start
   value, current parameters of all functions); it is a Section variable, its properties are named
   hypotheses (oracle contracts), validated numerically by tools/harness/c14.py. *)
From Coq Require Import List Arith Bool Reals.
From V.model Require Import DepProtocol HeldParams.
From V.proofs Require Import DepProtocolProofs HeldParamsProofs.
Import ListNotations.

Section Protocol.
  Variables P D : Type.
  Variable n : nat.
  Variable conds : nat -> list nat.
  (* conditioners are constructor arguments of their dependents, hence created earlier *)
  Hypothesis conds_lt : forall j i, In i (conds j) -> i < j.
  Variable F : nat -> D -> P -> (nat -> P) -> P.
  (* oracle contract: besides data and start value the optimiser of j reads only the parameters of j's ANCESTORS --
     its conditioners, their conditioners, ... (functools.partial all the way down); `anc conds i j` *)
  Hypothesis F_ext : forall j d p e1 e2, (forall i, anc conds i j -> e1 i = e2 i) -> F j d p e1 = F j d p e2.
  Variable p0 : nat -> P.

  (* every history of fit calls runs through: fuel n+1 suffices, the assertion in callback never fires *)
  Theorem C14_history_terminates : forall ops, (forall j d, In (j, d) ops -> j < n) ->
    exists s', run P D n conds F ops (init P D conds p0) = Ok s'.
  Proof. exact (run_okT P D n conds conds_lt F p0 F_ext). Qed.

  (* dependency order: for every dependency DAG and every sequence of fit calls (any declaration and call
     order, re-fits included) in which every function was given data, each function ends with the result of
     an optimiser run on its LAST data against the FINAL parameters of its conditioners *)
  Theorem C14_history : forall ops s', (forall j d, In (j, d) ops -> j < n) ->
    run P D n conds F ops (init P D conds p0) = Ok s' ->
    (forall j, j < n -> last_data D ops j None <> None) ->
    forall j, j < n -> exists d p, last_data D ops j None = Some d /\ params s' j = F j d p (params s').
  Proof. exact (history_allT P D n conds conds_lt F p0 F_ext). Qed.

  (* partial histories: the same for every function that was given data and ALL of whose ancestors were given data,
     whether or not the remaining functions ever got any ("after all of those have been fitted" in the property) *)
  Theorem C14_history_closed : forall ops s', (forall j d, In (j, d) ops -> j < n) ->
    run P D n conds F ops (init P D conds p0) = Ok s' ->
    forall j, j < n -> (forall a, dstar conds a j -> last_data D ops a None <> None) ->
    exists d p, last_data D ops j None = Some d /\ params s' j = F j d p (params s').
  Proof. exact (history_closed P D n conds conds_lt F p0 F_ext). Qed.

  (* a function that is never handed data keeps its parameters through every history *)
  Theorem C14_dataless_keeps_start : forall ops s s', run P D n conds F ops s = Ok s' ->
    forall j, last_data D ops j (saved s j) = None -> params s' j = params s j.
  Proof. exact (dataless_keeps_start P D n conds F). Qed.

  (* the subset test in callback is written the wrong way round and therefore never blocks (a function with
     two conditioners is fitted as soon as one of them is); C14_history holds of the code as it is *)
  Theorem C14_subset_test_vacuous : forall ops s, (forall j d, In (j, d) ops -> j < n) ->
    run P D n conds F ops (init P D conds p0) = Ok s ->
    forall k c, In c (conds k) -> subset_as_written conds (fitted_conds (add_fitted P D s k c) k) k = true.
  Proof. exact (subset_test_vacuousT P D n conds conds_lt F p0 F_ext). Qed.

  (* order independence, for an optimiser whose result does not depend on the start value ("within optimiser
     tolerance" in the property): two histories -- any call orders, re-fits, even different start parameters --
     that end with the same last data per function end with the same parameters *)
  Theorem C14_order_independent : (forall j d p p' e, F j d p e = F j d p' e) ->
    forall p0' ops1 ops2 s1 s2,
    (forall j d, In (j, d) ops1 -> j < n) -> (forall j d, In (j, d) ops2 -> j < n) ->
    run P D n conds F ops1 (init P D conds p0) = Ok s1 -> run P D n conds F ops2 (init P D conds p0') = Ok s2 ->
    (forall j, j < n -> last_data D ops1 j None <> None) ->
    (forall j, j < n -> last_data D ops1 j None = last_data D ops2 j None) ->
    forall j, j < n -> params s1 j = params s2 j.
  Proof. exact (fun Fs => order_independentT P D n conds conds_lt F F_ext Fs p0). Qed.

  (* ConditionalDistribution.fit hands the data to the dependence functions in parameter-name order; it is a
     history like any other *)
  Theorem C14_conditional_fit_loop : forall funs ys s, cond_dist_fit P D n conds F funs ys s = run P D n conds F (combine funs ys) s.
  Proof. reflexivity. Qed.

  (* optimality, PARTIAL: what is proved is the transfer through the protocol -- if every optimiser run returns
     a point at least as good (for its own problem) as its start value and as every admissible competitor, then
     at the end of any history every function is at least as good as every admissible competitor FOR THE PROBLEM
     POSED BY THE FINAL PARAMETERS OF ITS CONDITIONERS.  Missing: the contract itself (quality of
     scipy.optimize.curve_fit / SLSQP), validated by perturbation tests with tolerances in the harness. *)
  Variable better : nat -> D -> (nat -> P) -> P -> P -> Prop.   (* better j d env p q: p is no worse than q *)
  Variable admissible : nat -> P -> Prop.
  Hypothesis F_optimal : forall j d p e q, admissible j q -> better j d e (F j d p e) q.
  Theorem C14_optimal_partial : forall ops s', (forall j d, In (j, d) ops -> j < n) ->
    run P D n conds F ops (init P D conds p0) = Ok s' ->
    (forall j, j < n -> last_data D ops j None <> None) ->
    forall j, j < n -> exists d, last_data D ops j None = Some d /\
                                 forall q, admissible j q -> better j d (params s') (params s' j) q.
  Proof.
    intros ops s' B R All j Hj.
    destruct (history_allT P D n conds conds_lt F p0 F_ext ops s' B R All j Hj) as [d [p [E1 E2]]].
    exists d. split; [exact E1|]. intros q Hq. rewrite E2. apply F_optimal. exact Hq.
  Qed.
End Protocol.

Section Bounds.
  Variable T : Type.
  Variables neg_inf pos_inf : T.
  Variable leb : T -> T -> bool.
  Variable zero : T.

  (* bounds conversion: None -> -inf / +inf, order and pairing kept; the box handed to curve_fit is the declared one *)
  Theorem C14_bounds_conversion : forall bs,
    (length (fst (convert_bounds T neg_inf pos_inf bs)) = length bs /\ length (snd (convert_bounds T neg_inf pos_inf bs)) = length bs) /\
    (forall i b, nth_error bs i = Some b ->
       nth_error (fst (convert_bounds T neg_inf pos_inf bs)) i = Some (match fst b with Some l => l | None => neg_inf end) /\
       nth_error (snd (convert_bounds T neg_inf pos_inf bs)) i = Some (match snd b with Some u => u | None => pos_inf end)) /\
    (forall p, in_box T leb (convert_bounds T neg_inf pos_inf bs) p -> in_declared T leb bs p) /\
    ((forall x, leb neg_inf x = true) -> (forall x, leb x pos_inf = true) ->
     forall p, in_declared T leb bs p -> in_box T leb (convert_bounds T neg_inf pos_inf bs) p).
  Proof.
    intros bs. split; [exact (convert_length T neg_inf pos_inf bs)|]. split; [exact (convert_nth T neg_inf pos_inf bs)|].
    split; [exact (box_declared T neg_inf pos_inf leb bs)|].
    exact (fun Hn Hp p => declared_box T neg_inf pos_inf leb bs p Hn Hp).
  Qed.

  (* which engine gets which arguments (DependenceFunction._fit + _fitting.py): curve_fit iff no constraints are
     declared -- sigma iff weights, the converted box iff bounds; SLSQP with the raw bounds and all declared
     constraints otherwise; constraints together with weights are refused (NotImplementedError) *)
  Theorem C14_dispatch_paths : forall hw bounds,
    dispatch T neg_inf pos_inf hw bounds None =
      Call (mkcall T CurveFit hw (match bounds with Some bs => Some (convert_bounds T neg_inf pos_inf bs) | None => None end) None []) /\
    (forall cs, dispatch T neg_inf pos_inf true bounds (Some cs) = NotImplemented) /\
    (forall cs, dispatch T neg_inf pos_inf false bounds (Some cs) = Call (mkcall T MinimizeSLSQP false None bounds cs)).
  Proof. exact (dispatch_paths T neg_inf pos_inf). Qed.

  (* within bounds and constraints: whichever engine the dispatch selects, a result that is feasible for the
     problem HANDED to scipy (oracle contract engine_feasible: curve_fit stays in its box, a successful SLSQP
     run satisfies its bounds and inequality constraints) lies inside the DECLARED bounds and satisfies every
     DECLARED constraint.  The model is the code as repaired for lead L6 (constraints are handed over). *)
  Variable engine_result : call T -> list T -> list T.
  Hypothesis engine_feasible : forall c p, feasible T leb zero c (engine_result c p).
  Theorem C14_within_bounds_and_constraints : forall has_weights bounds cons c p,
    dispatch T neg_inf pos_inf has_weights bounds cons = Call c ->
    (forall bs, bounds = Some bs -> in_declared T leb bs (engine_result c p)) /\
    (forall cs, cons = Some cs -> satisfies T leb zero cs (engine_result c p)).
  Proof. exact (fit_within_declared T neg_inf pos_inf leb zero engine_result engine_feasible). Qed.
End Bounds.

(* ---- parameters held by equal bounds (fit_function / _fit_with_fixed_parameters, the curve_fit path as repaired):
   model/HeldParams.v; `curve_fit sigma box embed p0` is the optimiser oracle ---- *)
Section Held.
  Variable T : Type.
  Variables neg_inf pos_inf : T.
  Variable eqb leb : T -> T -> bool.
  Variable curve_fit : oracle T.

  (* a parameter whose declared bounds have equal ends has EXACTLY that value after fitting, whatever the optimiser returns *)
  Theorem C14_held_parameters_exact : forall hw bs p0 i v, length p0 = length bs ->
    nth_error (fixed_of T eqb bs) i = Some (Some v) ->
    nth_error (fit_function T neg_inf pos_inf eqb curve_fit hw (Some bs) p0) i = Some v.
  Proof. exact (held_exactly T neg_inf pos_inf eqb curve_fit). Qed.

  (* the other parameters are what the optimiser returned for the sub-problem: sigma iff weights, the box of THEIR bounds,
     THEIR start values, varied inside a vector that carries the held values (next theorem) *)
  Theorem C14_free_parameters_from_subproblem : forall hw bs p0, length p0 = length bs -> has_fixed T eqb bs = true ->
    let fx := fixed_of T eqb bs in
    let sub := curve_fit hw (Some (convert_bounds T neg_inf pos_inf (select_free T fx bs))) (scatter T fx p0) (select_free T fx p0) in
    select_free T fx p0 <> [] -> length sub = length (select_free T fx p0) ->
    select_free T fx (fit_function T neg_inf pos_inf eqb curve_fit hw (Some bs) p0) = sub /\
    length (fit_function T neg_inf pos_inf eqb curve_fit hw (Some bs) p0) = length bs.
  Proof. exact (free_from_subproblem T neg_inf pos_inf eqb curve_fit). Qed.
  Theorem C14_embedding_keeps_held_values : forall bs p0 fv, length p0 = length bs ->
    let fx := fixed_of T eqb bs in
    length fv = length (select_free T fx p0) ->
    select_free T fx (scatter T fx p0 fv) = fv /\
    (forall i v, nth_error fx i = Some (Some v) -> nth_error (scatter T fx p0 fv) i = Some v) /\
    length (scatter T fx p0 fv) = length bs.
  Proof. exact (embedding_spec T eqb). Qed.

  (* within ALL declared bounds -- held or not -- under the optimiser contract (stays in the box it is handed, returns as many
     values as start values) and an order that relates equal ends *)
  Theorem C14_held_fit_within_declared_bounds :
    (forall a b, eqb a b = true -> leb a a = true /\ leb a b = true) ->
    forall hw bs p0, length p0 = length bs ->
    (forall box embed fp0, in_box T leb box (curve_fit hw (Some box) embed fp0) /\
                           length (curve_fit hw (Some box) embed fp0) = length fp0) ->
    in_declared T leb bs (fit_function T neg_inf pos_inf eqb curve_fit hw (Some bs) p0).
  Proof. exact (result_in_declared_bounds T neg_inf pos_inf eqb leb curve_fit). Qed.

  (* every parameter held: the result is the list of held values (the optimiser is not consulted);
     none held: the plain curve_fit call of C14_dispatch_paths *)
  Theorem C14_all_parameters_held : forall hw bs p0, length p0 = length bs -> bs <> [] ->
    (forall b, In b bs -> held T eqb b <> None) ->
    forall i b, nth_error bs i = Some b ->
      nth_error (fit_function T neg_inf pos_inf eqb curve_fit hw (Some bs) p0) i = Some (match held T eqb b with Some v => v | None => neg_inf end).
  Proof. exact (all_held T neg_inf pos_inf eqb curve_fit). Qed.
  Theorem C14_no_parameter_held : forall hw bs p0, has_fixed T eqb bs = false ->
    fit_function T neg_inf pos_inf eqb curve_fit hw (Some bs) p0 =
    curve_fit hw (Some (convert_bounds T neg_inf pos_inf bs)) (fun p => p) p0.
  Proof. exact (none_held T neg_inf pos_inf eqb curve_fit). Qed.
End Held.

(* the order hypothesis of C14_held_fit_within_declared_bounds holds for binary64 comparisons *)
Theorem C14_binary64_equal_ends_ordered : forall a b, PrimFloat.eqb a b = true -> PrimFloat.leb a a = true /\ PrimFloat.leb a b = true.
Proof. exact prim_eqb_leb. Qed.

(* non-vacuity: a + b x + c x^2 with b held at 0.25 between a free and a lower-bounded parameter (nat stands for the numbers) *)
Example C14_held_nonvacuous :
  let bs := [(None, None); (Some 25, Some 25); (Some 3, None)] in
  let cf := fun (_ : bool) (_ : option (list nat * list nat)) (_ : list nat -> list nat) (fp0 : list nat) => map (fun v => v + 100) fp0 in
  has_fixed nat Nat.eqb bs = true /\
  fit_function nat 0 1000 Nat.eqb cf false (Some bs) [1; 1; 7] = [101; 25; 107] /\
  convert_bounds nat 0 1000 (select_free nat (fixed_of nat Nat.eqb bs) bs) = ([0; 3], [1000; 1000]) /\
  scatter nat (fixed_of nat Nat.eqb bs) [1; 1; 7] [8; 9] = [8; 25; 9].
Proof. repeat split. Qed.

(* shapes linear in their parameters (inactive bounds, no constraints): a stationary point of the (weighted)
   squared residual -- a solution of the normal equations -- has the smallest residual of ALL parameter
   vectors, and with independent columns it is the only minimiser *)
Theorem C14_linear_least_squares_unique : forall m rows p,
  (forall o, In o rows -> (0 < weight o)%R) -> normal_eq m rows p ->
  (forall p', (SSR m rows p <= SSR m rows p')%R) /\
  ((forall q, (forall o, In o rows -> dot m q (feat o) = 0%R) -> forall k, k < m -> q k = 0%R) ->
   forall p', (SSR m rows p' <= SSR m rows p)%R -> forall k, k < m -> p' k = p k).
Proof.
  intros m rows p W NE. split.
  - apply normal_eq_optimal; [intros o Ho; apply Rlt_le, W; exact Ho|exact NE].
  - intros Rank. apply normal_eq_unique; assumption.
Qed.

(* the function evaluated by the correspondence check IS the generic protocol with the tagging optimiser, and
   the history theorem holds of it (its hypotheses are met: the tagging optimiser reads only the conditioners) *)
Theorem C14_executable_model_is_generic : forall n ctbl ops,
  run_tag n ctbl ops = run tag nat n (lookup ctbl) (Ftag (lookup ctbl)) ops (init tag nat (lookup ctbl) Start).
Proof. reflexivity. Qed.
Theorem C14_history_executable : forall n ctbl ops s, table_ok ctbl = true ->
  (forall j d, In (j, d) ops -> j < n) -> run_tag n ctbl ops = Ok s ->
  forall j, j < n -> (forall a, dstar (lookup ctbl) a j -> last_data nat ops a None <> None) ->
  exists d p, last_data nat ops j None = Some d /\
              params s j = Fitted j d p (map (params s) (ancestors (lookup ctbl) j)).
Proof. exact history_tag. Qed.

(* non-vacuity: a chain 0 <- 1 <- 2 where 2 also reads 0 (two conditioners); the dependents are given data
   FIRST, the conditioners afterwards, 0 is re-fitted at the end: all hypotheses hold, the run returns a state,
   the optimiser is called in the order 0,1,2,2 and again 0,1,2,2 for the re-fit, and every function ends
   fitted against the final terms of its conditioners. *)
Example C14_nonvacuous :
  table_ok [[]; [0]; [0; 1]] = true /\
  (exists s, run_tag 3 [[]; [0]; [0; 1]] [(2, 7); (1, 8); (0, 9); (0, 10)] = Ok s /\
             map fst (log s) = [0; 1; 2; 2; 0; 1; 2; 2] /\
             params s 0 = Fitted 0 10 (Fitted 0 9 (Start 0) []) [] /\
             (exists p, params s 1 = Fitted 1 8 p [params s 0]) /\
             (exists p, params s 2 = Fitted 2 7 p [params s 0; params s 1])) /\
  convert_bounds nat 0 99 [(Some 1, None); (None, Some 5)] = ([1; 0], [99; 5]) /\
  (* a chain 0 <- 1 <- 2: function 2 names only 1 as conditioner but its optimiser reads 0 as well (through 1);
     function 3 is never given data and keeps its start term; 2 still ends fitted against the final terms of 0 AND 1 *)
  (ancestors (lookup [[]; [0]; [1]; [2]]) 2 = [0; 1] /\
   exists s, run_tag 4 [[]; [0]; [1]; [2]] [(2, 5); (1, 6); (0, 7); (0, 8)] = Ok s /\ params s 3 = Start 3 /\
             exists p, params s 2 = Fitted 2 5 p [params s 0; params s 1]).
Proof.
  split; [reflexivity|]. split; [|split; [reflexivity|]].
  2:{ split; [reflexivity|]. eexists. split; [vm_compute; reflexivity|]. split; [reflexivity|]. eexists. reflexivity. }
  eexists. split; [vm_compute; reflexivity|].
  split; [reflexivity|]. split; [reflexivity|]. split; eexists; reflexivity.
Qed.

Print Assumptions C14_history_terminates.
Print Assumptions C14_history.
Print Assumptions C14_history_closed.
Print Assumptions C14_dataless_keeps_start.
Print Assumptions C14_dispatch_paths.
Print Assumptions C14_subset_test_vacuous.
Print Assumptions C14_order_independent.
Print Assumptions C14_conditional_fit_loop.
Print Assumptions C14_optimal_partial.
Print Assumptions C14_bounds_conversion.
Print Assumptions C14_within_bounds_and_constraints.
Print Assumptions C14_held_parameters_exact.
Print Assumptions C14_free_parameters_from_subproblem.
Print Assumptions C14_embedding_keeps_held_values.
Print Assumptions C14_held_fit_within_declared_bounds.
Print Assumptions C14_all_parameters_held.
Print Assumptions C14_no_parameter_held.
Print Assumptions C14_binary64_equal_ends_ordered.
Print Assumptions C14_linear_least_squares_unique.
Print Assumptions C14_executable_model_is_generic.
Print Assumptions C14_history_executable.
