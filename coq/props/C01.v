(* C01 -- IFORM/ISORM contours are the inverse-Rosenblatt image of the beta-sphere.
   Property theorems only; proofs are in proofs/IformProofs.v, the model in model/Iform.v.
   The scipy/numpy engines (norm.cdf/ppf, chi2.ppf, template cdf/icdf, dependence functions, the NSphere's
   normal draws / forces / potential) are Section variables; their contracts are the named hypotheses. *)
From Coq Require Import List Bool Arith PrimFloat Reals.
From V.base Require Import FloatBits.
From V.model Require Import Iform.
From V.proofs Require Import IformProofs GenTieProofs.
From V.base Require Import Num.
From V.gen Require Import Contours.
From Coq Require Import QArith Qreals.
Import ListNotations.

(* ---------------------------------------------------------------- any value type *)
Section Abstract.
  Variable T : Type.
  Variable dflt : T.
  Variable okp : T -> Prop.

  (* inverse-Rosenblatt chain then Rosenblatt through the model's own cdfs = identity, for every number of
     variables and every conditional_on with conditional_on[i] < i (wf), given cdf(icdf p) = p per template *)
  Theorem C01_rosen_chain : forall (ds : list (dist T)) ps, length ds = length ps -> wf T okp ds -> Forall okp ps ->
    rosen T dflt ds (chain T dflt ds ps []) = ps.
  Proof. exact (rosen_chain T dflt okp). Qed.

  (* a whole contour built from ANY unit directions: mapping the coordinates back gives the sphere points *)
  Theorem C01_contour_preimage : forall (mul : T -> T -> T) (Phi Phiinv : T -> T),
    (forall u, okp (Phi u)) -> (forall u, Phiinv (Phi u) = u) ->
    forall ds b units, wf T okp ds -> Forall (fun u => length u = length ds) units ->
    map (fun x => map Phiinv (rosen T dflt ds x)) (coordinates (contour_of T dflt mul Phi ds b units))
    = sphere_points (contour_of T dflt mul Phi ds b units).
  Proof. exact (contour_preimage T dflt okp). Qed.
  (* IFORMContour evaluates column-wise (coordinates[:, i] for all points at once, given = a whole column); for every
     model -- no hypothesis on conditional_on -- that is, row for row, the sequential chain the other theorems speak about *)
  Theorem C01_iform_vectorised_is_chain : forall (ds : list (dist T)) (P : list (list T)),
    Forall (fun r => length r = length ds) P ->
    rows_of_cols T dflt (length P) (chain_cols T dflt ds (cols_of T dflt (length ds) P) []) = map (fun r => chain T dflt ds r []) P.
  Proof. exact (chain_cols_is_chain T dflt). Qed.
  Theorem C01_contour_vectorised : forall (mul : T -> T -> T) (Phi : T -> T) ds b units,
    Forall (fun u => length u = length ds) units ->
    contour_vec_of T dflt mul Phi ds b units = contour_of T dflt mul Phi ds b units.
  Proof. exact (contour_vec_is_contour T dflt). Qed.
End Abstract.

(* ---------------------------------------------------------------- over the reals *)
Local Open Scope R_scope.

Section Reals.
  Variables Phi Phiinv : R -> R.                    (* sts.norm.cdf / ppf *)
  Variable chi2ppf : R -> nat -> R.                 (* sts.chi2.ppf *)
  Hypothesis Phi_range : forall u, okp (Phi u).     (* 0 < Phi u < 1 *)
  Hypothesis Phiinv_Phi : forall u, Phiinv (Phi u) = u.

  (* distance: every IFORM / ISORM point maps back to distance |beta| (ISORM: beta >= 0 by construction),
     for the circle (two variables) and for any unit directions handed over by the NSphere class *)
  Theorem C01_iform_distance : forall nsph ds alpha n, wf R okp ds ->
    (length ds <> 2%nat -> unit_rows (length ds) (nsph (length ds) n)) ->
    let c := Riform_with Phi Phiinv nsph ds alpha n in
    Forall (fun x => Rnorm (map Phiinv (Rrosen ds x)) = Rabs (beta c)) (coordinates c).
  Proof. exact (iform_distance Phi Phiinv Phi_range Phiinv_Phi). Qed.
  Theorem C01_isorm_distance : forall nsph ds alpha n, wf R okp ds ->
    (length ds <> 2%nat -> unit_rows (length ds) (nsph (length ds) n)) ->
    let c := Risorm_with Phi chi2ppf nsph ds alpha n in
    Forall (fun x => Rnorm (map Phiinv (Rrosen ds x)) = beta c) (coordinates c).
  Proof. exact (isorm_distance Phi Phiinv chi2ppf Phi_range Phiinv_Phi). Qed.

  (* beta formulas *)
  Theorem C01_beta_iform : forall nsph ds alpha n, beta (Riform_with Phi Phiinv nsph ds alpha n) = Phiinv (1 - alpha).
  Proof. exact (iform_beta Phi Phiinv). Qed.
  Theorem C01_beta_isorm : forall nsph ds alpha n,
    beta (Risorm_with Phi chi2ppf nsph ds alpha n) = sqrt (chi2ppf (1 - alpha) (length ds)).
  Proof. exact (isorm_beta Phi chi2ppf). Qed.

  (* exactly n_points points *)
  Theorem C01_iform_count : forall nsph ds alpha n,
    (length ds <> 2%nat -> unit_rows (length ds) (nsph (length ds) n) /\ length (nsph (length ds) n) = n) ->
    let c := Riform_with Phi Phiinv nsph ds alpha n in
    length (coordinates c) = n /\ length (sphere_points c) = n /\ Forall (fun x => length x = length ds) (coordinates c).
  Proof. exact (iform_count Phi Phiinv). Qed.
  Theorem C01_isorm_count : forall nsph ds alpha n,
    (length ds <> 2%nat -> unit_rows (length ds) (nsph (length ds) n) /\ length (nsph (length ds) n) = n) ->
    let c := Risorm_with Phi chi2ppf nsph ds alpha n in
    length (coordinates c) = n /\ length (sphere_points c) = n /\ Forall (fun x => length x = length ds) (coordinates c).
  Proof. exact (isorm_count Phi chi2ppf). Qed.

  (* two variables: U-space image k = sphere point k = beta (cos, sin)(k 2pi/n); the directions are pairwise
     distinct and direction 0 is the positive first axis *)
  Theorem C01_2d_preimage : forall nsph d0 d1 alpha n, wf R okp [d0; d1] ->
    let c := Riform_with Phi Phiinv nsph [d0; d1] alpha n in
    map (fun x => map Phiinv (Rrosen [d0; d1] x)) (coordinates c) = sphere_points c.
  Proof. exact (fun nsph d0 d1 alpha n H => iform_preimage Phi Phiinv Phi_range Phiinv_Phi nsph [d0; d1] alpha n H
                  (fun E => match E eq_refl with end)). Qed.
  Theorem C01_2d_angles_iform : forall nsph d0 d1 alpha n k, (k < n)%nat ->
    let c := Riform_with Phi Phiinv nsph [d0; d1] alpha n in
    nth_error (sphere_points c) k = Some [beta c * cos (INR k * (2 * PI / INR n)); beta c * sin (INR k * (2 * PI / INR n))].
  Proof. exact (iform_2d_angles Phi Phiinv). Qed.
  Theorem C01_2d_angles_isorm : forall nsph d0 d1 alpha n k, (k < n)%nat ->
    let c := Risorm_with Phi chi2ppf nsph [d0; d1] alpha n in
    nth_error (sphere_points c) k = Some [beta c * cos (INR k * (2 * PI / INR n)); beta c * sin (INR k * (2 * PI / INR n))].
  Proof. exact (isorm_2d_angles Phi chi2ppf). Qed.
  Theorem C01_2d_directions_distinct : forall n j k u v, j <> k ->
    nth_error (Rcircle n) j = Some u -> nth_error (Rcircle n) k = Some v -> u <> v.
  Proof. exact circle_distinct. Qed.
  Theorem C01_2d_first_direction : forall n, (0 < n)%nat -> nth_error (Rcircle n) 0 = Some [1; 0].
  Proof. exact circle_first. Qed.

  (* largest first-variable value of a 2-D IFORM contour = marginal (1-alpha)-quantile, attained at point 0 *)
  Theorem C01_2d_max_first_coordinate :
    (forall a b, a <= b -> Phi a <= Phi b) ->
    (forall p q, okp p -> okp q -> p <= q -> Phiinv p <= Phiinv q) ->
    Phiinv (1 / 2) = 0 -> (forall p, okp p -> Phi (Phiinv p) = p) ->
    forall nsph d0 d1 alpha n, 0 < alpha <= 1 / 2 -> cond d0 = None ->
    (forall p q, p <= q -> t_icdf d0 [] p <= t_icdf d0 [] q) ->
    let c := Riform_with Phi Phiinv nsph [d0; d1] alpha n in
    (forall k x, nth_error (coordinates c) k = Some x -> nth 0 x 0 <= t_icdf d0 [] (1 - alpha)) /\
    ((0 < n)%nat -> exists x, nth_error (coordinates c) 0 = Some x /\ nth 0 x 0 = t_icdf d0 [] (1 - alpha)).
  Proof. exact (iform_2d_max_first Phi Phiinv). Qed.

  (* ---- the NSphere (three and more variables) *)
  Variable randn : nat -> nat -> list (list R).           (* RandomState(43).normal(size=(n, dim)) *)
  Variable forces : list (list R) -> list (list R).       (* Coulomb forces of a state *)
  Variable pot : list (list R) -> R.                      (* potential energy of a state *)
  Hypothesis forces_shape : forall xs, map (@length R) (forces xs) = map (@length R) xs.

  (* one relaxation step keeps every point on the unit sphere -- for any forces of the right shape, any step
     size and any max-force divisor (0 included): the renormalisation never divides by zero *)
  Theorem C01_nsphere_step_invariant : forall d tau Fs xs, map (@length R) Fs = map (@length R) xs -> unit_rows d xs ->
    unit_rows d (Rrelax_step tau Fs xs) /\ length (Rrelax_step tau Fs xs) = length xs.
  Proof. exact relax_step_unit. Qed.

  (* NSphere(dim, n).unit_sphere_points: n points of dimension dim and norm 1 (whatever state is kept as best).
     PARTIAL w.r.t. the property's "distinct directions" for n_dim >= 3: that the n rows are pairwise distinct
     is NOT proved (it depends on the seeded normal draws and on the forces engine); the harness validates it
     numerically on every run (smallest angular separation reported in the evidence). *)
  Theorem C01_nsphere_directions_partial : forall dim n, randn_ok randn n dim ->
    unit_rows dim (Rnsphere randn forces pot dim n) /\ length (Rnsphere randn forces pot dim n) = n.
  Proof. exact (nsphere_unit randn forces pot forces_shape). Qed.

  (* the complete models IFORMContour / ISORMContour (NSphere inside), every number of variables *)
  Theorem C01_iform_full : forall ds alpha n, wf R okp ds -> (length ds <> 2%nat -> randn_ok randn n (length ds)) ->
    let c := Riform Phi Phiinv randn forces pot ds alpha n in
    beta c = Phiinv (1 - alpha) /\ length (coordinates c) = n /\
    Forall (fun x => length x = length ds /\ Rnorm (map Phiinv (Rrosen ds x)) = Rabs (beta c)) (coordinates c).
  Proof. exact (iform_full Phi Phiinv randn forces pot Phi_range Phiinv_Phi forces_shape). Qed.
  (* IFORM exactly as evaluated by the code (column-wise; this is what the binary64 run executes) *)
  Theorem C01_iform_vectorised_full : forall ds alpha n, wf R okp ds -> (length ds <> 2%nat -> randn_ok randn n (length ds)) ->
    let c := Riform_vec_with Phi Phiinv (Rnsphere randn forces pot) ds alpha n in
    beta c = Phiinv (1 - alpha) /\ length (coordinates c) = n /\
    Forall (fun x => length x = length ds /\ Rnorm (map Phiinv (Rrosen ds x)) = Rabs (beta c)) (coordinates c).
  Proof. exact (iform_vec_full Phi Phiinv randn forces pot Phi_range Phiinv_Phi forces_shape). Qed.
  Theorem C01_iform_vectorised_R : forall nsph ds alpha n,
    (length ds <> 2%nat -> Forall (fun u => length u = length ds) (nsph (length ds) n)) ->
    Riform_vec_with Phi Phiinv nsph ds alpha n = Riform_with Phi Phiinv nsph ds alpha n.
  Proof. exact (iform_vec_is_iform Phi Phiinv). Qed.

  (* the NSphere returns the initial state or a visited state, and none of them has a smaller potential energy *)
  Theorem C01_nsphere_best_state : forall dim n,
    let x0 := init_points R 0 Rplus Rmult Rdiv sqrt (randn n dim) in
    let its := seq 1 (max_iters n - 1) in
    let res := Rnsphere randn forces pot dim n in
    In res (x0 :: visited forces its x0) /\ Forall (fun s => pot res <= pot s) (x0 :: visited forces its x0).
  Proof. exact (nsphere_best forces pot randn). Qed.

  Theorem C01_isorm_full : forall ds alpha n, wf R okp ds -> (length ds <> 2%nat -> randn_ok randn n (length ds)) ->
    let c := Risorm Phi chi2ppf randn forces pot ds alpha n in
    beta c = sqrt (chi2ppf (1 - alpha) (length ds)) /\ length (coordinates c) = n /\
    Forall (fun x => length x = length ds /\ Rnorm (map Phiinv (Rrosen ds x)) = beta c) (coordinates c).
  Proof. exact (isorm_full Phi Phiinv chi2ppf randn forces pot Phi_range Phiinv_Phi forces_shape). Qed.
End Reals.

(* calculate_alpha = state_duration / (return_period * 8766 h), a probability when the duration is shorter *)
Theorem C01_calculate_alpha : forall sd rp, Rcalculate_alpha sd rp = sd / (rp * 8766) /\
  (0 < sd -> sd < rp * 8766 -> 0 < Rcalculate_alpha sd rp < 1).
Proof. exact (fun sd rp => conj (calculate_alpha_formula sd rp) (calculate_alpha_range sd rp)). Qed.

(* the binary64 entry points run against the implementation ARE the generic functions of the theorems *)
Theorem C01_float_entry_points : forall ft ds alpha n,
  iformF ft ds alpha n =
    iform_with float nan 0%float 1%float two_piF PrimFloat.add PrimFloat.sub PrimFloat.mul PrimFloat.div FloatBits.of_nat
               (flook (ft_phi ft)) (flook (ft_phiinv ft)) (flook (ft_cos ft)) (flook (ft_sin ft)) (nsph_look (ft_nsph ft)) ds alpha n /\
  iform_vecF ft ds alpha n =
    iform_vec_with float nan 0%float 1%float two_piF PrimFloat.add PrimFloat.sub PrimFloat.mul PrimFloat.div FloatBits.of_nat
               (flook (ft_phi ft)) (flook (ft_phiinv ft)) (flook (ft_cos ft)) (flook (ft_sin ft)) (nsph_look (ft_nsph ft)) ds alpha n /\
  isormF ft ds alpha n =
    isorm_with float nan 0%float 1%float two_piF PrimFloat.add PrimFloat.sub PrimFloat.mul PrimFloat.div PrimFloat.sqrt FloatBits.of_nat
               (flook (ft_phi ft)) (flook (ft_cos ft)) (flook (ft_sin ft)) (chi2look (ft_chi2 ft)) (nsph_look (ft_nsph ft)) ds alpha n /\
  (forall x, rosenF ds x = rosen float nan ds x) /\
  (forall rand tab dim m, nsphereF rand tab dim m =
    nsphere float 0%float 3%float PrimFloat.add PrimFloat.sub PrimFloat.mul PrimFloat.div PrimFloat.sqrt PrimFloat.ltb FloatBits.of_nat
            (fun n' d' => if (Nat.eqb n' m && Nat.eqb d' dim)%bool then rand else [])
            (fun st => fst (slook ([], nan) tab st)) (fun st => snd (slook ([], nan) tab st)) dim m).
Proof. exact (fun ft ds alpha n => conj eq_refl (conj eq_refl (conj eq_refl (conj (fun x => eq_refl) (fun rand tab dim m => eq_refl))))). Qed.

(* non-vacuity: concrete engines meeting every contract (Phi = 1/2 + atan/pi), a 4-variable model with the
   admissible structure [None, 0, 1, 0] whose templates are inverse pairs at every parameter vector, forces of the
   right shape, non-zero draws *)
Example C01_nonvacuous :
  (forall u, okp (wPhi u)) /\ (forall u, wPhiinv (wPhi u) = u) /\
  (forall a b, a <= b -> wPhi a <= wPhi b) /\ (forall p q, okp p -> okp q -> p <= q -> wPhiinv p <= wPhiinv q) /\
  wPhiinv (1 / 2) = 0 /\ (forall p, okp p -> wPhi (wPhiinv p) = p) /\
  wf R okp [wdist None; wdist (Some 0%nat); wdist (Some 1%nat); wdist (Some 0%nat)] /\
  (forall xs : list (list R), map (@length R) ((fun s => s) xs) = map (@length R) xs) /\
  randn_ok wrandn 7 4.
Proof.
  exact (conj wPhi_range (conj wPhiinv_Phi (conj wPhi_mono (conj wPhiinv_mono (conj wPhiinv_half (conj wPhi_Phiinv
        (conj w_wf (conj (fun xs => eq_refl) (wrandn_ok 7))))))))).
Qed.

(* calculate_alpha as REGENERATED from virocon/contours.py on every run (tools/py2v.py) is the hand-written model function, over
   the reals and in binary64: the hand model is pinned to the current source by a proof, not only by the correspondence run *)
Theorem C01_calculate_alpha_generated : forall sd rp : R,
  ct_calculate_alpha ROps sd rp = calculate_alpha R (Q2R (1461 # 4)) (IZR 24) Rmult Rdiv sd rp.
Proof. exact calculate_alpha_generated_R. Qed.
Theorem C01_calculate_alpha_generated_binary64 : forall sd rp : PrimFloat.float,
  ct_calculate_alpha (FOps nil nil) sd rp = calculate_alphaF sd rp.
Proof. exact calculate_alpha_generated_float. Qed.

Print Assumptions C01_rosen_chain.
Print Assumptions C01_contour_preimage.
Print Assumptions C01_iform_distance.
Print Assumptions C01_isorm_distance.
Print Assumptions C01_beta_iform.
Print Assumptions C01_beta_isorm.
Print Assumptions C01_iform_count.
Print Assumptions C01_isorm_count.
Print Assumptions C01_2d_preimage.
Print Assumptions C01_2d_angles_iform.
Print Assumptions C01_2d_angles_isorm.
Print Assumptions C01_2d_directions_distinct.
Print Assumptions C01_2d_first_direction.
Print Assumptions C01_2d_max_first_coordinate.
Print Assumptions C01_nsphere_step_invariant.
Print Assumptions C01_nsphere_directions_partial.
Print Assumptions C01_iform_full.
Print Assumptions C01_isorm_full.
Print Assumptions C01_calculate_alpha.
Print Assumptions C01_float_entry_points.
Print Assumptions C01_calculate_alpha_generated.
Print Assumptions C01_iform_vectorised_is_chain.
Print Assumptions C01_contour_vectorised.
Print Assumptions C01_iform_vectorised_full.
Print Assumptions C01_iform_vectorised_R.
Print Assumptions C01_nsphere_best_state.
Print Assumptions C01_calculate_alpha_generated_binary64.
