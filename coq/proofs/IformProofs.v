(* Lemmas about model/Iform.v (C01).  Part 1: abstract value type (chain / Rosenblatt round trip, counts).
   Part 2: the instance over R (norm = beta, angles, distinct directions, largest first coordinate,
   NSphere normalisation invariant).  The engines are Section variables with named hypotheses. *)
From Coq Require Import List Arith Lia Reals Lra Bool.
From V.model Require Import Iform.
Import ListNotations.

(* ====================================================================== abstract value type *)
Section Chain.
  Variable T : Type.
  Variable dflt : T.
  Variable okp : T -> Prop.     (* the probabilities on which cdf (icdf p) = p is assumed: (0,1) *)
  Local Notation chain := (chain T dflt).
  Local Notation rosen_from := (rosen_from T dflt).
  Local Notation rosen := (rosen T dflt).
  Local Notation given_of := (given_of T dflt).

  (* admissible model: conditional_on[i] < i, and every template is an inverse pair at every parameter vector *)
  Definition wf_from (k : nat) (ds : list (dist T)) : Prop :=
    forall i d, nth_error ds i = Some d ->
      (match cond d with None => True | Some j => j < k + i end) /\
      (forall th p, okp p -> t_cdf d th (t_icdf d th p) = p).
  Definition wf := wf_from 0.

  Lemma chain_prefix : forall ds ps acc, exists tl, chain ds ps acc = acc ++ tl.
  Proof.
    induction ds as [|d ds IH]; intros ps acc; simpl.
    - exists []; now rewrite app_nil_r.
    - destruct ps as [|p ps]. { exists []; now rewrite app_nil_r. }
      destruct (IH ps (acc ++ [icdf T d p (given_of d acc)])) as [tl Htl].
      exists (icdf T d p (given_of d acc) :: tl). rewrite Htl, <- app_assoc. reflexivity.
  Qed.

  Lemma chain_length : forall ds ps acc, length ds = length ps -> length (chain ds ps acc) = length acc + length ds.
  Proof.
    induction ds as [|d ds IH]; intros ps acc H; destruct ps as [|p ps]; simpl in *; try discriminate; [lia|].
    rewrite IH by lia. rewrite app_length. simpl. lia.
  Qed.

  Lemma given_stable : forall d acc tl, (match cond d with None => True | Some j => j < length acc end) ->
     given_of d (acc ++ tl) = given_of d acc.
  Proof. intros d acc tl H. unfold Iform.given_of. destruct (cond d); [|reflexivity]. now rewrite app_nth1. Qed.

  Theorem rosen_chain_from : forall ds ps acc,
     length ds = length ps -> wf_from (length acc) ds -> Forall okp ps ->
     rosen_from ds (length acc) (chain ds ps acc) = ps.
  Proof.
    induction ds as [|d ds IH]; intros ps acc Hl Hwf Hp; destruct ps as [|p ps]; simpl in *; try discriminate; auto.
    inversion Hp as [|? ? Hp1 Hp2]; subst.
    destruct (Hwf 0 d eq_refl) as [Hc Hinv]. rewrite Nat.add_0_r in Hc.
    destruct (chain_prefix ds ps (acc ++ [icdf T d p (given_of d acc)])) as [tl Htl].
    f_equal.
    - rewrite Htl. rewrite <- app_assoc. rewrite given_stable by exact Hc.
      rewrite app_nth2 by lia. rewrite Nat.sub_diag. simpl. unfold cdf, icdf. now apply Hinv.
    - specialize (IH ps (acc ++ [icdf T d p (given_of d acc)])).
      rewrite app_length in IH. simpl in IH. rewrite Nat.add_1_r in IH. apply IH; auto.
      intros i d' Hn. destruct (Hwf (S i) d' Hn) as [A B]. split; auto.
      destruct (cond d'); auto. lia.
  Qed.

  (* the inverse-Rosenblatt chain followed by the Rosenblatt transformation through the model's own
     cdfs is the identity, for every number of variables and every admissible conditional_on *)
  Theorem rosen_chain : forall ds ps, length ds = length ps -> wf ds -> Forall okp ps ->
     rosen ds (chain ds ps []) = ps.
  Proof. intros ds ps Hl Hwf Hp. exact (rosen_chain_from ds ps [] Hl Hwf Hp). Qed.

  (* ---- lifted to a whole contour *)
  Variable mul : T -> T -> T.
  Variables Phi Phiinv : T -> T.
  Hypothesis Phi_ok : forall u, okp (Phi u).
  Hypothesis Phiinv_Phi : forall u, Phiinv (Phi u) = u.
  Local Notation contour_of := (contour_of T dflt mul Phi).

  Lemma map_ext_Forall {A B} (f g : A -> B) (l : list A) : Forall (fun a => f a = g a) l -> map f l = map g l.
  Proof. induction 1; simpl; congruence. Qed.

  Lemma preimage_row : forall ds u, wf ds -> length u = length ds ->
     map Phiinv (rosen ds (chain ds (map Phi u) [])) = u.
  Proof.
    intros ds u Hwf Hl. rewrite rosen_chain; auto.
    - rewrite map_map. rewrite <- (map_id u) at 2. apply map_ext. intros; apply Phiinv_Phi.
    - now rewrite map_length.
    - apply Forall_forall. intros p Hp. apply in_map_iff in Hp. destruct Hp as [x [<- _]]. apply Phi_ok.
  Qed.

  Theorem contour_preimage : forall ds b units, wf ds -> Forall (fun u => length u = length ds) units ->
     map (fun x => map Phiinv (rosen ds x)) (coordinates (contour_of ds b units)) = sphere_points (contour_of ds b units).
  Proof.
    intros ds b units Hwf Hu. unfold Iform.contour_of. cbn [coordinates sphere_points].
    rewrite map_map. rewrite <- (map_id (scale T mul b units)) at 2. apply map_ext_Forall.
    unfold scale. apply Forall_forall. intros sp Hsp. apply in_map_iff in Hsp. destruct Hsp as [u [<- Hin]].
    apply preimage_row; auto. rewrite map_length. rewrite Forall_forall in Hu. now apply Hu.
  Qed.

  Lemma contour_count : forall ds b units, length (coordinates (contour_of ds b units)) = length units /\
     length (sphere_points (contour_of ds b units)) = length units.
  Proof. intros. unfold Iform.contour_of, scale. cbn [coordinates sphere_points]. now rewrite !map_length. Qed.

  Lemma contour_row_length : forall ds b units, Forall (fun u => length u = length ds) units ->
     Forall (fun x => length x = length ds) (coordinates (contour_of ds b units)).
  Proof.
    intros ds b units Hu. unfold Iform.contour_of, scale. cbn [coordinates]. rewrite map_map.
    apply Forall_forall. intros x Hx. apply in_map_iff in Hx. destruct Hx as [u [<- Hin]].
    rewrite chain_length; [reflexivity|]. rewrite !map_length. rewrite Forall_forall in Hu. symmetry. now apply Hu.
  Qed.
End Chain.

(* ====================================================================== IFORM's column-wise evaluation = the row-wise chain *)
Section Columns.
  Variable T : Type.
  Variable dflt : T.
  Local Notation chain := (chain T dflt).
  Local Notation chain_cols := (chain_cols T dflt).
  Local Notation col_of := (col_of T dflt).
  Local Notation given_of := (given_of T dflt).
  Local Notation at_ k := (fun c : list T => nth k c dflt).

  Lemma nth_map_in : forall {A B} (f : A -> B) (l : list A) k (da : A) (db : B), k < length l ->
     nth k (map f l) db = f (nth k l da).
  Proof. intros A B f l k da db H. rewrite (nth_indep (map f l) db (f da)) by (now rewrite map_length). apply map_nth. Qed.

  Lemma col_of_at : forall d pc cols n k, k < n -> length pc = n -> Forall (fun c => length c = n) cols ->
     nth k (col_of d pc cols) dflt = icdf T d (nth k pc dflt) (given_of d (map (at_ k) cols)).
  Proof.
    intros d pc cols n k Hk Hpc Hcols. unfold Iform.col_of, Iform.given_of. destruct (cond d) as [j|].
    - set (dc := map (fun _ : T => dflt) pc).
      assert (Ldc : length dc = n) by (unfold dc; now rewrite map_length).
      assert (Lg : length (nth j cols dc) = n).
      { destruct (Nat.lt_ge_cases j (length cols)) as [L|L].
        - rewrite Forall_forall in Hcols. apply Hcols, nth_In, L.
        - now rewrite nth_overflow. }
      rewrite (nth_map_in _ _ k (dflt, dflt)) by (rewrite combine_length; lia).
      rewrite combine_nth by lia. cbn [fst snd]. f_equal. f_equal.
      assert (Hd : at_ k dc = dflt).
      { unfold dc. destruct (Nat.lt_ge_cases k (length pc)) as [L|L].
        - now rewrite (nth_map_in _ _ k dflt).
        - apply nth_overflow. now rewrite map_length. }
      rewrite <- Hd at 2. symmetry. apply (map_nth (at_ k)).
    - now rewrite (nth_map_in _ _ k dflt) by lia.
  Qed.

  Lemma col_of_length : forall d pc cols n, length pc = n -> Forall (fun c => length c = n) cols -> length (col_of d pc cols) = n.
  Proof.
    intros d pc cols n Hpc Hcols. unfold Iform.col_of. destruct (cond d) as [j|]; rewrite map_length; [|exact Hpc].
    rewrite combine_length. destruct (Nat.lt_ge_cases j (length cols)) as [L|L].
    - rewrite Forall_forall in Hcols. rewrite (Hcols _ (nth_In _ _ L)). lia.
    - rewrite nth_overflow by exact L. rewrite map_length. lia.
  Qed.

  Lemma chain_cols_rows : forall ds pcs cols n k, k < n ->
     Forall (fun c => length c = n) pcs -> Forall (fun c => length c = n) cols ->
     map (at_ k) (chain_cols ds pcs cols) = chain ds (map (at_ k) pcs) (map (at_ k) cols).
  Proof.
    induction ds as [|d ds IH]; intros pcs cols n k Hk Hp Hc; [reflexivity|].
    destruct pcs as [|pc pcs]; [reflexivity|]. cbn [Iform.chain_cols Iform.chain map].
    inversion Hp as [|? ? Hpc Hpcs]; subst.
    rewrite (IH pcs (cols ++ [col_of d pc cols]) (length pc) k Hk Hpcs).
    - rewrite map_app. cbn [map]. now rewrite (col_of_at d pc cols (length pc) k Hk eq_refl Hc).
    - apply Forall_app. split; [exact Hc|]. constructor; [|constructor]. now apply col_of_length.
  Qed.

  Lemma seq_nth_map : forall {A B} (f : A -> B) (l : list A) (da : A), map (fun k => f (nth k l da)) (seq 0 (length l)) = map f l.
  Proof.
    intros A B f l da. induction l as [|a l IH]; [reflexivity|]. cbn [length seq map nth].
    f_equal. rewrite <- seq_shift, map_map. exact IH.
  Qed.

  Lemma cols_of_at : forall (rows : list (list T)) nd k, k < length rows -> length (nth k rows []) = nd ->
     map (at_ k) (cols_of T dflt nd rows) = nth k rows [].
  Proof.
    intros rows nd k Hk Hl. unfold Iform.cols_of. rewrite map_map.
    rewrite (map_ext _ (fun i => nth i (nth k rows []) dflt)).
    - rewrite <- Hl. rewrite (seq_nth_map (fun x => x) (nth k rows []) dflt). apply map_id.
    - intros i. now rewrite (nth_map_in _ _ k []).
  Qed.

  (* for a rectangular matrix of probabilities the column-wise evaluation returns, row for row, the row-wise chain
     (no hypothesis on conditional_on: a column not written yet reads as dflt in both) *)
  Theorem chain_cols_is_chain : forall ds (P : list (list T)), Forall (fun r => length r = length ds) P ->
     rows_of_cols T dflt (length P) (chain_cols ds (cols_of T dflt (length ds) P) []) = map (fun r => chain ds r []) P.
  Proof.
    intros ds P HP. unfold Iform.rows_of_cols.
    rewrite <- (seq_nth_map (fun r => chain ds r []) P []).
    apply map_ext_in. intros k Hk. apply in_seq in Hk. destruct Hk as [_ Hk]. cbn in Hk.
    rewrite (chain_cols_rows ds _ [] (length P) k Hk).
    - cbn [map]. f_equal. apply cols_of_at; [exact Hk|]. rewrite Forall_forall in HP. apply HP, nth_In, Hk.
    - unfold Iform.cols_of. apply Forall_forall. intros c Hc. apply in_map_iff in Hc. destruct Hc as [i [<- _]]. apply map_length.
    - constructor.
  Qed.

  Variable mul : T -> T -> T.
  Variable Phi : T -> T.
  Theorem contour_vec_is_contour : forall ds b units, Forall (fun u => length u = length ds) units ->
     contour_vec_of T dflt mul Phi ds b units = contour_of T dflt mul Phi ds b units.
  Proof.
    intros ds b units Hu. unfold Iform.contour_vec_of, Iform.contour_of. cbv zeta. f_equal.
    rewrite <- (map_length (map Phi) (scale T mul b units)). rewrite chain_cols_is_chain.
    - now rewrite map_map.
    - unfold scale. apply Forall_forall. intros r Hr. apply in_map_iff in Hr. destruct Hr as [sp [<- Hsp]].
      apply in_map_iff in Hsp. destruct Hsp as [u [<- Hin]]. rewrite !map_length. rewrite Forall_forall in Hu. now apply Hu.
  Qed.
End Columns.

(* ====================================================================== the instance over R *)
Local Open Scope R_scope.

Definition Rltb (a b : R) : bool := if Rlt_dec a b then true else false.
Definition Rsum := sum R 0 Rplus.
Definition Rsumsq := sumsq R 0 Rplus Rmult.
Definition Rnorm := norm R 0 Rplus Rmult sqrt.
Definition Rdot := dot R 0 Rplus Rmult.
Definition Rangle := angle R 0 (2 * PI) Rplus Rminus Rmult Rdiv INR.
Definition Rcircle := circle R 0 (2 * PI) Rplus Rminus Rmult Rdiv INR cos sin.
Definition Rscale := scale R Rmult.
Definition Rrelax_step := relax_step R 0 Rplus Rminus Rmult Rdiv sqrt Rltb.
Definition Rnsphere := nsphere R 0 3 Rplus Rminus Rmult Rdiv sqrt Rltb INR.
Definition Riform_with (Phi Phiinv : R -> R) :=
  iform_with R 0 0 1 (2 * PI) Rplus Rminus Rmult Rdiv INR Phi Phiinv cos sin.
Definition Risorm_with (Phi : R -> R) (chi2ppf : R -> nat -> R) :=
  isorm_with R 0 0 1 (2 * PI) Rplus Rminus Rmult Rdiv sqrt INR Phi cos sin chi2ppf.
Definition Rrosen := rosen R 0.
Definition Rcalculate_alpha := calculate_alpha R 365.25 24 Rmult Rdiv.
Definition unit_rows (d : nat) (xs : list (list R)) : Prop := Forall (fun u => length u = d /\ Rnorm u = 1) xs.

Section Vectors.
  Lemma fold_left_plus : forall l x, fold_left Rplus l x = x + fold_right Rplus 0 l.
  Proof. induction l as [|y l IH]; intros x; simpl; [lra|]. rewrite IH. lra. Qed.
  Lemma Rsum_fr : forall l, Rsum l = fold_right Rplus 0 l.
  Proof. destruct l as [|x l]; unfold Rsum, sum; [reflexivity|]. simpl. apply fold_left_plus. Qed.
  Lemma Rsum_cons : forall x l, Rsum (x :: l) = x + Rsum l.
  Proof. intros. rewrite !Rsum_fr. reflexivity. Qed.
  Lemma Rsumsq_cons : forall x l, Rsumsq (x :: l) = x * x + Rsumsq l.
  Proof. intros. unfold Rsumsq, sumsq. simpl map. fold Rsum. apply Rsum_cons. Qed.
  Lemma Rsumsq_nil : Rsumsq [] = 0. Proof. reflexivity. Qed.
  Lemma Rdot_cons : forall x y l m, Rdot (x :: l) (y :: m) = x * y + Rdot l m.
  Proof. intros. unfold Rdot, dot. simpl. fold Rsum. apply Rsum_cons. Qed.
  Lemma Rdot_nil_l : forall m, Rdot [] m = 0. Proof. reflexivity. Qed.
  Lemma Rdot_nil_r : forall l, Rdot l [] = 0. Proof. destruct l; reflexivity. Qed.

  Lemma Rsumsq_nonneg : forall l, 0 <= Rsumsq l.
  Proof. induction l as [|x l IH]; [rewrite Rsumsq_nil; lra|]. rewrite Rsumsq_cons. pose proof (Rle_0_sqr x) as H. unfold Rsqr in H. lra. Qed.

  Lemma Rsumsq_scale : forall b u, Rsumsq (map (Rmult b) u) = b * b * Rsumsq u.
  Proof. induction u as [|x u IH]; simpl map; [rewrite !Rsumsq_nil; ring|]. rewrite !Rsumsq_cons, IH. ring. Qed.

  (* |b u| = |b| |u| *)
  Lemma Rnorm_scale : forall b u, Rnorm (map (Rmult b) u) = Rabs b * Rnorm u.
  Proof.
    intros. unfold Rnorm, norm. fold Rsumsq. rewrite Rsumsq_scale.
    rewrite sqrt_mult; [|pose proof (Rle_0_sqr b) as H; unfold Rsqr in H; lra|apply Rsumsq_nonneg].
    f_equal. change (b * b) with (Rsqr b). apply sqrt_Rsqr_abs.
  Qed.

  Lemma Rnorm_cos_sin : forall phi, Rnorm [cos phi; sin phi] = 1.
  Proof.
    intros. unfold Rnorm, norm. fold Rsumsq. rewrite !Rsumsq_cons, Rsumsq_nil.
    pose proof (sin2_cos2 phi) as H. unfold Rsqr in H.
    replace (cos phi * cos phi + (sin phi * sin phi + 0)) with 1 by lra. apply sqrt_1.
  Qed.

  (* the two identities behind the relaxation step *)
  Lemma dot_tangential : forall F x s, length F = length x ->
     Rdot (map (fun p => fst p - s * snd p) (combine F x)) x = Rdot F x - s * Rsumsq x.
  Proof.
    induction F as [|f F IH]; intros x s H; destruct x as [|a x]; simpl in H; try discriminate.
    - simpl. rewrite Rdot_nil_l, Rsumsq_nil. ring.
    - simpl combine. simpl map. rewrite !Rdot_cons, Rsumsq_cons, IH by lia. simpl. ring.
  Qed.

  Lemma sumsq_axpy : forall x t c, length x = length t ->
     Rsumsq (map (fun q => fst q + c * snd q) (combine x t)) = Rsumsq x + 2 * c * Rdot x t + c * c * Rsumsq t.
  Proof.
    induction x as [|a x IH]; intros t c H; destruct t as [|b t]; simpl in H; try discriminate.
    - simpl. rewrite Rdot_nil_l, !Rsumsq_nil. ring.
    - simpl combine. simpl map. rewrite !Rsumsq_cons, Rdot_cons, IH by lia. simpl. ring.
  Qed.

  Lemma Rdot_comm : forall x y, Rdot x y = Rdot y x.
  Proof.
    induction x as [|a x IH]; intros y; destruct y as [|b y]; try reflexivity.
    rewrite !Rdot_cons, IH. ring.
  Qed.

  Lemma Rsumsq_div : forall y r, Rsumsq (map (fun a => a / r) y) = Rsumsq y * (/ r * / r).
  Proof. induction y as [|a y IH]; intros r; simpl map; [rewrite !Rsumsq_nil; ring|]. rewrite !Rsumsq_cons, IH. unfold Rdiv. ring. Qed.

  (* normalising a vector of non-zero length gives a unit vector of the same dimension *)
  Lemma normalize_unit : forall y, 0 < Rsumsq y ->
     length (normalize R 0 Rplus Rmult Rdiv sqrt y) = length y /\ Rnorm (normalize R 0 Rplus Rmult Rdiv sqrt y) = 1.
  Proof.
    intros y Hy. unfold normalize. cbv zeta. split; [apply map_length|].
    unfold Rnorm, norm at 1. fold Rsumsq. fold (Rnorm y). rewrite Rsumsq_div.
    assert (Hr : Rnorm y * Rnorm y = Rsumsq y) by (unfold Rnorm, norm; fold Rsumsq; apply sqrt_sqrt; lra).
    assert (Hn : Rnorm y <> 0).
    { intro E. rewrite E in Hr. lra. }
    replace (Rsumsq y * (/ Rnorm y * / Rnorm y)) with 1; [apply sqrt_1|].
    rewrite <- Hr. field. exact Hn.
  Qed.

  Lemma unit_sumsq : forall u, Rnorm u = 1 -> Rsumsq u = 1.
  Proof.
    intros u H. unfold Rnorm, norm in H. fold Rsumsq in H.
    rewrite <- (sqrt_sqrt (Rsumsq u)) by apply Rsumsq_nonneg. rewrite H. ring.
  Qed.
End Vectors.

(* ---------------------------------------------------------------- NSphere normalisation invariant *)
Section NSphereInv.
  Variable randn : nat -> nat -> list (list R).
  Variable forces : list (list R) -> list (list R).
  Variable pot : list (list R) -> R.
  (* contract of the forces engine: one force vector per point, of the point's dimension *)
  Hypothesis forces_shape : forall xs, map (@length R) (forces xs) = map (@length R) xs.

  (* one point: x unit, F of the same dimension  ==>  the moved and renormalised point is unit, for ANY
     step size tau and ANY divisor m (also m = 0): the normalisation never divides by zero *)
  Lemma move_point_unit : forall d tau m F x, length x = d -> Rnorm x = 1 -> length F = length x ->
     let t := tangential R 0 Rplus Rminus Rmult F x in
     let y := map (fun q => fst q + snd q / m * tau) (combine x t) in
     length (normalize R 0 Rplus Rmult Rdiv sqrt y) = d /\ Rnorm (normalize R 0 Rplus Rmult Rdiv sqrt y) = 1.
  Proof.
    intros d tau m F x Hd Hx HF t y.
    assert (Lt : length t = length x).
    { unfold t, tangential. cbv zeta. rewrite map_length, combine_length. lia. }
    assert (Ly : length y = d).
    { unfold y. rewrite map_length, combine_length. lia. }
    assert (Ht : Rdot x t = 0).
    { rewrite Rdot_comm. unfold t, tangential. cbv zeta. fold Rdot.
      rewrite (dot_tangential F x (Rdot F x) HF). rewrite (unit_sumsq x Hx). ring. }
    assert (Hy : Rsumsq y = 1 + (/ m * tau) * (/ m * tau) * Rsumsq t).
    { unfold y. replace (map (fun q => fst q + snd q / m * tau) (combine x t))
        with (map (fun q => fst q + (/ m * tau) * snd q) (combine x t))
        by (apply map_ext; intros; unfold Rdiv; ring).
      rewrite sumsq_axpy by lia. rewrite Ht, (unit_sumsq x Hx). ring. }
    assert (Hpos : 0 < Rsumsq y).
    { rewrite Hy. pose proof (Rsumsq_nonneg t) as H1. pose proof (Rle_0_sqr (/ m * tau)) as H2. unfold Rsqr in H2.
      pose proof (Rmult_le_pos _ _ H2 H1). lra. }
    destruct (normalize_unit y Hpos) as [A B]. split; [rewrite A; exact Ly|exact B].
  Qed.

  Lemma shape_combine : forall (Fs xs : list (list R)), map (@length R) Fs = map (@length R) xs ->
     forall F x, In (F, x) (combine Fs xs) -> length F = length x.
  Proof.
    induction Fs as [|F0 Fs IH]; intros xs H F x Hin; destruct xs as [|x0 xs]; simpl in *; try contradiction; try discriminate.
    injection H as H0 H1. destruct Hin as [E|Hin]; [injection E as <- <-; exact H0|]. eapply IH; eauto.
  Qed.

  Theorem relax_step_unit : forall d tau Fs xs, map (@length R) Fs = map (@length R) xs -> unit_rows d xs ->
     unit_rows d (Rrelax_step tau Fs xs) /\ length (Rrelax_step tau Fs xs) = length xs.
  Proof.
    intros d tau Fs xs Hs Hu. unfold Rrelax_step, relax_step. cbv zeta.
    set (ts := map (fun p => tangential R 0 Rplus Rminus Rmult (fst p) (snd p)) (combine Fs xs)).
    set (m := maxl R 0 Rltb (map (norm R 0 Rplus Rmult sqrt) ts)).
    assert (LF : length Fs = length xs).
    { rewrite <- (map_length (@length R) Fs), Hs. apply map_length. }
    split.
    - unfold unit_rows. apply Forall_forall. intros r Hr. apply in_map_iff in Hr. destruct Hr as [[x t] [<- Hin]].
      cbn [fst snd].
      (* (x, t) in combine xs ts with t = tangential F x *)
      assert (exists F, In (F, x) (combine Fs xs) /\ t = tangential R 0 Rplus Rminus Rmult F x) as [F [HFx ->]].
      { unfold ts in Hin. clear -Hin LF. revert xs LF Hin. induction Fs as [|F0 Fs' IH]; intros xs LF Hin; destruct xs as [|x0 xs']; simpl in *; try contradiction; try discriminate.
        destruct Hin as [E|Hin].
        - injection E as <- <-. exists F0. split; [now left|reflexivity].
        - destruct (IH xs' ltac:(lia) Hin) as [F [A B]]. exists F. split; [now right|exact B]. }
      pose proof (shape_combine Fs xs Hs F x HFx) as HF.
      assert (Hx : length x = d /\ Rnorm x = 1).
      { unfold unit_rows in Hu. rewrite Forall_forall in Hu. apply Hu. eapply in_combine_r; eauto. }
      destruct Hx as [Hd Hx]. exact (move_point_unit d tau m F x Hd Hx HF).
    - rewrite map_length, combine_length. unfold ts. rewrite map_length, combine_length. lia.
  Qed.

  (* the relaxation loop keeps both the current and the best state on the unit sphere *)
  Definition inv (d n : nat) (st : list (list R) * list (list R) * R) : Prop :=
    unit_rows d (fst (fst st)) /\ length (fst (fst st)) = n /\ unit_rows d (snd (fst st)) /\ length (snd (fst st)) = n.

  Lemma relax_loop_inv : forall d n its st, inv d n st ->
     inv d n (relax_loop R 0 3 Rplus Rminus Rmult Rdiv sqrt Rltb INR forces pot its st).
  Proof.
    intros d n its. unfold relax_loop. induction its as [|it its IH]; intros st Hst; simpl; [exact Hst|].
    apply IH. destruct st as [[xs best] bp]. destruct Hst as [A [B [C D]]]. cbn [fst snd] in *.
    unfold Iform.relax_iter. fold Rrelax_step.
    destruct (relax_step_unit d (tau_of R 3 Rdiv INR it) (forces xs) xs (forces_shape xs) A) as [U L].
    destruct (Rltb _ bp); unfold inv; cbn [fst snd]; repeat split; auto; lia.
  Qed.

  (* contract of the normal draws for the requested (n, dim): n rows of dimension dim, none the zero vector *)
  Definition randn_ok (n dim : nat) : Prop :=
    length (randn n dim) = n /\ Forall (fun v => length v = dim /\ 0 < Rsumsq v) (randn n dim).

  Lemma init_unit : forall n dim, randn_ok n dim ->
     unit_rows dim (init_points R 0 Rplus Rmult Rdiv sqrt (randn n dim)) /\
     length (init_points R 0 Rplus Rmult Rdiv sqrt (randn n dim)) = n.
  Proof.
    intros n dim [L F]. unfold init_points. split; [|now rewrite map_length].
    unfold unit_rows. apply Forall_forall. intros u Hu. apply in_map_iff in Hu. destruct Hu as [v [<- Hv]].
    rewrite Forall_forall in F. destruct (F v Hv) as [Lv Pv]. destruct (normalize_unit v Pv) as [A B]. split; congruence.
  Qed.

  (* NSphere(dim, n).unit_sphere_points: n points, each of dimension dim and of norm exactly 1 *)
  Theorem nsphere_unit : forall dim n, randn_ok n dim ->
     unit_rows dim (Rnsphere randn forces pot dim n) /\ length (Rnsphere randn forces pot dim n) = n.
  Proof.
    intros dim n Hr. unfold Rnsphere, nsphere. cbv zeta.
    destruct (init_unit n dim Hr) as [U L].
    set (x0 := init_points R 0 Rplus Rmult Rdiv sqrt (randn n dim)) in *.
    pose proof (relax_loop_inv dim n (seq 1 (max_iters n - 1)) (x0, x0, pot x0)) as H.
    destruct H as [_ [_ [C D]]]; [unfold inv; cbn [fst snd]; auto|]. split; assumption.
  Qed.
End NSphereInv.

(* ---------------------------------------------------------------- NSphere keeps the visited state of least potential energy *)
Section BestState.
  Variable forces : list (list R) -> list (list R).
  Variable pot : list (list R) -> R.
  Definition Rstep (it : nat) (xs : list (list R)) : list (list R) := Rrelax_step (tau_of R 3 Rdiv INR it) (forces xs) xs.
  (* the states the loop walks through after the initial one *)
  Fixpoint visited (its : list nat) (xs : list (list R)) : list (list (list R)) :=
    match its with [] => [] | it :: r => Rstep it xs :: visited r (Rstep it xs) end.
  Local Notation Rloop := (relax_loop R 0 3 Rplus Rminus Rmult Rdiv sqrt Rltb INR forces pot).

  Lemma relax_iter_step : forall xs best it,
     relax_iter R 0 3 Rplus Rminus Rmult Rdiv sqrt Rltb INR forces pot (xs, best, pot best) it =
     if Rlt_dec (pot (Rstep it xs)) (pot best) then (Rstep it xs, Rstep it xs, pot (Rstep it xs)) else (Rstep it xs, best, pot best).
  Proof. intros. unfold relax_iter, Rltb, Rstep, Rrelax_step. destruct (Rlt_dec _ _); reflexivity. Qed.

  Lemma relax_loop_best : forall its xs best,
     let st := Rloop its (xs, best, pot best) in
     snd st = pot (snd (fst st)) /\ (snd (fst st) = best \/ In (snd (fst st)) (visited its xs)) /\
     snd st <= pot best /\ Forall (fun s => snd st <= pot s) (visited its xs).
  Proof.
    unfold relax_loop. induction its as [|it its IH]; intros xs best; cbn [fold_left visited].
    - cbn [fst snd]. repeat split; auto; lra.
    - rewrite relax_iter_step.
      destruct (Rlt_dec (pot (Rstep it xs)) (pot best)) as [L|L].
      + destruct (IH (Rstep it xs) (Rstep it xs)) as [A [B [C D]]]. cbv zeta in *.
        split; [exact A|]. split; [destruct B as [B|B]; right; [left; now symmetry|now right]|].
        split; [lra|]. constructor; assumption.
      + destruct (IH (Rstep it xs) best) as [A [B [C D]]]. cbv zeta in *.
        split; [exact A|]. split; [destruct B as [B|B]; [now left|right; now right]|].
        split; [exact C|]. constructor; [lra|assumption].
  Qed.

  (* NSphere(dim, n).unit_sphere_points is the initial state or one of the visited states, and no visited state
     (nor the initial one) has a smaller potential energy *)
  Theorem nsphere_best : forall randn dim n,
     let x0 := init_points R 0 Rplus Rmult Rdiv sqrt (randn n dim) in
     let its := seq 1 (max_iters n - 1) in
     let res := Rnsphere randn forces pot dim n in
     In res (x0 :: visited its x0) /\ Forall (fun s => pot res <= pot s) (x0 :: visited its x0).
  Proof.
    intros randn dim n x0 its res.
    destruct (relax_loop_best its x0 x0) as [A [B [C D]]]. cbv zeta in *.
    assert (E : res = snd (fst (Rloop its (x0, x0, pot x0)))) by reflexivity.
    rewrite <- E in *. rewrite A in C, D. split.
    - destruct B as [B|B]; [left; now symmetry|now right].
    - constructor; assumption.
  Qed.

  Lemma max_iters_ge : forall n, (10 <= max_iters n)%nat.
  Proof. intros. unfold max_iters. apply Nat.le_max_l. Qed.
End BestState.

(* ---------------------------------------------------------------- the 2-D circle *)
Section Circle.
  Lemma Rangle_eq : forall n k, Rangle n k = INR k * (2 * PI / INR n).
  Proof. intros. unfold Rangle, angle, Rdiv. ring. Qed.
  Lemma Rangle_0 : forall n, Rangle n 0 = 0.
  Proof. intros. rewrite Rangle_eq. simpl. ring. Qed.

  Lemma circle_length : forall n, length (Rcircle n) = n.
  Proof. intros. unfold Rcircle, circle. now rewrite map_length, seq_length. Qed.

  Lemma circle_nth : forall n k, (k < n)%nat ->
     nth_error (Rcircle n) k = Some [cos (Rangle n k); sin (Rangle n k)].
  Proof.
    intros n k H. unfold Rcircle, circle.
    rewrite (map_nth_error _ k (seq 0 n) (d := k)); [reflexivity|].
    rewrite (nth_error_nth' _ 0%nat) by (rewrite seq_length; lia). rewrite seq_nth by lia. reflexivity.
  Qed.

  Lemma circle_unit : forall n, unit_rows 2 (Rcircle n).
  Proof.
    intros n. unfold unit_rows, Rcircle, circle. apply Forall_forall. intros u Hu.
    apply in_map_iff in Hu. destruct Hu as [k [<- _]]. split; [reflexivity|apply Rnorm_cos_sin].
  Qed.

  Lemma angle_gap : forall n j k, (j < k)%nat -> (k < n)%nat -> 0 < Rangle n k - Rangle n j < 2 * PI.
  Proof.
    intros n j k Hjk Hkn. rewrite !Rangle_eq.
    assert (Hn : 0 < INR n) by (apply lt_0_INR; lia).
    assert (H1 : INR j + 1 <= INR k) by (rewrite <- S_INR; apply le_INR; lia).
    assert (H2 : INR k < INR n) by (apply lt_INR; lia).
    assert (H0 : 0 <= INR j) by apply pos_INR.
    pose proof PI_RGT_0 as Hpi.
    assert (Hs : 0 < 2 * PI / INR n) by (apply Rdiv_lt_0_compat; lra).
    replace (INR k * (2 * PI / INR n) - INR j * (2 * PI / INR n)) with ((INR k - INR j) * (2 * PI / INR n)) by ring.
    split.
    - apply Rmult_lt_0_compat; lra.
    - replace (2 * PI) with (INR n * (2 * PI / INR n)) at 2 by (field; lra).
      apply Rmult_lt_compat_r; lra.
  Qed.

  Lemma cos_sin_distinct : forall a b, 0 < b - a < 2 * PI -> [cos a; sin a] <> [cos b; sin b].
  Proof.
    intros a b [H0 H1] E. injection E as Hc Hs.
    assert (C : cos (b - a) = 1).
    { rewrite cos_minus. rewrite <- Hc, <- Hs. pose proof (sin2_cos2 a) as H. unfold Rsqr in H. lra. }
    pose proof (cos_2a_sin ((b - a) / 2)) as D. replace (2 * ((b - a) / 2)) with (b - a) in D by field.
    assert (S : 0 < sin ((b - a) / 2)) by (apply sin_gt_0; lra).
    pose proof (Rmult_lt_0_compat _ _ S S). lra.
  Qed.

  (* the n directions of the circle are pairwise distinct; direction 0 is the positive first axis *)
  Theorem circle_distinct : forall n j k u v, j <> k ->
     nth_error (Rcircle n) j = Some u -> nth_error (Rcircle n) k = Some v -> u <> v.
  Proof.
    intros n j k u v Hjk Hu Hv.
    assert (Hj : (j < n)%nat) by (rewrite <- (circle_length n); apply nth_error_Some; congruence).
    assert (Hk : (k < n)%nat) by (rewrite <- (circle_length n); apply nth_error_Some; congruence).
    rewrite circle_nth in Hu, Hv by assumption. injection Hu as <-. injection Hv as <-.
    destruct (Nat.lt_ge_cases j k) as [L|L].
    - apply cos_sin_distinct. apply angle_gap; assumption.
    - intro E. symmetry in E. revert E. apply cos_sin_distinct. apply angle_gap; [lia|assumption].
  Qed.

  Lemma circle_first : forall n, (0 < n)%nat -> nth_error (Rcircle n) 0 = Some [1; 0].
  Proof. intros n H. rewrite circle_nth by exact H. rewrite Rangle_0, cos_0, sin_0. reflexivity. Qed.
End Circle.

(* ---------------------------------------------------------------- contours over R *)
Section ContourR.
  Variables Phi Phiinv : R -> R.
  Variable chi2ppf : R -> nat -> R.
  Definition okp (p : R) : Prop := 0 < p < 1.
  (* contracts of scipy.stats.norm *)
  Hypothesis Phi_range : forall u, okp (Phi u).
  Hypothesis Phiinv_Phi : forall u, Phiinv (Phi u) = u.
  Local Notation Rcontour_of := (contour_of R 0 Rmult Phi).

  Theorem contour_distance : forall ds b units, wf R okp ds -> unit_rows (length ds) units ->
     Forall (fun x => Rnorm (map Phiinv (Rrosen ds x)) = Rabs b) (coordinates (Rcontour_of ds b units)).
  Proof.
    intros ds b units Hwf Hu. unfold contour_of, scale. cbn [coordinates]. rewrite map_map.
    apply Forall_forall. intros x Hx. apply in_map_iff in Hx. destruct Hx as [u [<- Hin]].
    unfold unit_rows in Hu. rewrite Forall_forall in Hu. destruct (Hu u Hin) as [Lu Nu].
    unfold Rrosen. rewrite (preimage_row R 0 okp Phi Phiinv Phi_range Phiinv_Phi) by (auto; now rewrite map_length).
    rewrite Rnorm_scale, Nu. ring.
  Qed.

  Lemma units_of_unit : forall nsph nd n, (nd <> 2%nat -> unit_rows nd (nsph nd n)) ->
     unit_rows nd (units_of R 0 (2 * PI) Rplus Rminus Rmult Rdiv INR cos sin nsph nd n).
  Proof.
    intros nsph nd n H. unfold units_of. destruct (Nat.eqb_spec nd 2) as [->|Hne]; [apply circle_unit|auto].
  Qed.

  Lemma units_of_length : forall nsph nd n, (nd <> 2%nat -> length (nsph nd n) = n) ->
     length (units_of R 0 (2 * PI) Rplus Rminus Rmult Rdiv INR cos sin nsph nd n) = n.
  Proof.
    intros nsph nd n H. unfold units_of. destruct (Nat.eqb_spec nd 2) as [->|Hne]; [apply circle_length|auto].
  Qed.

  Lemma unit_rows_lengths : forall d xs, unit_rows d xs -> Forall (fun u => length u = d) xs.
  Proof. intros d xs H. unfold unit_rows in H. rewrite Forall_forall in *. intros u Hu. now destruct (H u Hu). Qed.

  (* IFORM: every point, mapped back through the model's own cdfs and Phi^-1, lies at distance |beta| *)
  Theorem iform_distance : forall nsph ds alpha n, wf R okp ds ->
     (length ds <> 2%nat -> unit_rows (length ds) (nsph (length ds) n)) ->
     let c := Riform_with Phi Phiinv nsph ds alpha n in
     Forall (fun x => Rnorm (map Phiinv (Rrosen ds x)) = Rabs (beta c)) (coordinates c).
  Proof.
    intros nsph ds alpha n Hwf Hn c. unfold c, Riform_with, iform_with.
    apply contour_distance; auto. apply units_of_unit; auto.
  Qed.

  Theorem isorm_distance : forall nsph ds alpha n, wf R okp ds ->
     (length ds <> 2%nat -> unit_rows (length ds) (nsph (length ds) n)) ->
     let c := Risorm_with Phi chi2ppf nsph ds alpha n in
     Forall (fun x => Rnorm (map Phiinv (Rrosen ds x)) = beta c) (coordinates c).
  Proof.
    intros nsph ds alpha n Hwf Hn c.
    assert (E : beta c = Rabs (beta c)).
    { unfold c, Risorm_with, isorm_with, contour_of, beta_isorm. cbn [beta]. symmetry. apply Rabs_pos_eq, sqrt_pos. }
    rewrite E. unfold c, Risorm_with, isorm_with.
    apply contour_distance; auto. apply units_of_unit; auto.
  Qed.

  (* the U-space images ARE the sphere points (so for two variables: the equally spaced angles) *)
  Theorem iform_preimage : forall nsph ds alpha n, wf R okp ds ->
     (length ds <> 2%nat -> unit_rows (length ds) (nsph (length ds) n)) ->
     let c := Riform_with Phi Phiinv nsph ds alpha n in
     map (fun x => map Phiinv (Rrosen ds x)) (coordinates c) = sphere_points c.
  Proof.
    intros nsph ds alpha n Hwf Hn c. unfold c, Riform_with, iform_with, Rrosen.
    apply (contour_preimage R 0 okp Rmult Phi Phiinv Phi_range Phiinv_Phi); auto.
    apply unit_rows_lengths, units_of_unit; auto.
  Qed.

  Theorem isorm_preimage : forall nsph ds alpha n, wf R okp ds ->
     (length ds <> 2%nat -> unit_rows (length ds) (nsph (length ds) n)) ->
     let c := Risorm_with Phi chi2ppf nsph ds alpha n in
     map (fun x => map Phiinv (Rrosen ds x)) (coordinates c) = sphere_points c.
  Proof.
    intros nsph ds alpha n Hwf Hn c. unfold c, Risorm_with, isorm_with, Rrosen.
    apply (contour_preimage R 0 okp Rmult Phi Phiinv Phi_range Phiinv_Phi); auto.
    apply unit_rows_lengths, units_of_unit; auto.
  Qed.

  (* exactly n_points points, each with one coordinate per variable *)
  Theorem iform_count : forall nsph ds alpha n,
     (length ds <> 2%nat -> unit_rows (length ds) (nsph (length ds) n) /\ length (nsph (length ds) n) = n) ->
     let c := Riform_with Phi Phiinv nsph ds alpha n in
     length (coordinates c) = n /\ length (sphere_points c) = n /\ Forall (fun x => length x = length ds) (coordinates c).
  Proof.
    intros nsph ds alpha n Hn c. unfold c, Riform_with, iform_with.
    destruct (contour_count R 0 Rmult Phi ds (beta_iform R 1 Rminus Phiinv alpha)
               (units_of R 0 (2 * PI) Rplus Rminus Rmult Rdiv INR cos sin nsph (length ds) n)) as [A B].
    rewrite A, B, units_of_length by (intro H; apply Hn, H). repeat split.
    apply contour_row_length, unit_rows_lengths, units_of_unit. intro H; apply Hn, H.
  Qed.

  Theorem isorm_count : forall nsph ds alpha n,
     (length ds <> 2%nat -> unit_rows (length ds) (nsph (length ds) n) /\ length (nsph (length ds) n) = n) ->
     let c := Risorm_with Phi chi2ppf nsph ds alpha n in
     length (coordinates c) = n /\ length (sphere_points c) = n /\ Forall (fun x => length x = length ds) (coordinates c).
  Proof.
    intros nsph ds alpha n Hn c. unfold c, Risorm_with, isorm_with.
    destruct (contour_count R 0 Rmult Phi ds (beta_isorm R 1 Rminus sqrt chi2ppf alpha (length ds))
               (units_of R 0 (2 * PI) Rplus Rminus Rmult Rdiv INR cos sin nsph (length ds) n)) as [A B].
    rewrite A, B, units_of_length by (intro H; apply Hn, H). repeat split.
    apply contour_row_length, unit_rows_lengths, units_of_unit. intro H; apply Hn, H.
  Qed.

  (* two variables: sphere point k is beta * (cos, sin) of the angle k * 2pi/n *)
  Theorem iform_2d_angles : forall nsph d0 d1 alpha n k, (k < n)%nat ->
     let c := Riform_with Phi Phiinv nsph [d0; d1] alpha n in
     nth_error (sphere_points c) k = Some [beta c * cos (INR k * (2 * PI / INR n)); beta c * sin (INR k * (2 * PI / INR n))].
  Proof.
    intros nsph d0 d1 alpha n k Hk c. unfold c, Riform_with, iform_with, contour_of, scale. cbn [sphere_points beta length].
    unfold units_of. cbn [Nat.eqb]. fold Rcircle.
    rewrite (map_nth_error _ k (Rcircle n) (circle_nth n k Hk)). rewrite Rangle_eq. reflexivity.
  Qed.

  Theorem isorm_2d_angles : forall nsph d0 d1 alpha n k, (k < n)%nat ->
     let c := Risorm_with Phi chi2ppf nsph [d0; d1] alpha n in
     nth_error (sphere_points c) k = Some [beta c * cos (INR k * (2 * PI / INR n)); beta c * sin (INR k * (2 * PI / INR n))].
  Proof.
    intros nsph d0 d1 alpha n k Hk c. unfold c, Risorm_with, isorm_with, contour_of, scale. cbn [sphere_points beta length].
    unfold units_of. cbn [Nat.eqb]. fold Rcircle.
    rewrite (map_nth_error _ k (Rcircle n) (circle_nth n k Hk)). rewrite Rangle_eq. reflexivity.
  Qed.

  (* beta formulas *)
  Lemma iform_beta : forall nsph ds alpha n, beta (Riform_with Phi Phiinv nsph ds alpha n) = Phiinv (1 - alpha).
  Proof. reflexivity. Qed.
  Lemma isorm_beta : forall nsph ds alpha n, beta (Risorm_with Phi chi2ppf nsph ds alpha n) = sqrt (chi2ppf (1 - alpha) (length ds)).
  Proof. reflexivity. Qed.

  (* ---- largest first coordinate of a 2-D IFORM contour *)
  Hypothesis Phi_mono : forall a b, a <= b -> Phi a <= Phi b.
  Hypothesis Phiinv_mono : forall p q, okp p -> okp q -> p <= q -> Phiinv p <= Phiinv q.
  Hypothesis Phiinv_half : Phiinv (1 / 2) = 0.
  Hypothesis Phi_Phiinv : forall p, okp p -> Phi (Phiinv p) = p.

  Lemma beta_nonneg : forall alpha, 0 < alpha <= 1 / 2 -> 0 <= Phiinv (1 - alpha).
  Proof. intros alpha H. rewrite <- Phiinv_half. apply Phiinv_mono; unfold okp; lra. Qed.

  Theorem iform_2d_max_first : forall nsph d0 d1 alpha n, 0 < alpha <= 1 / 2 -> cond d0 = None ->
     (forall p q, p <= q -> t_icdf d0 [] p <= t_icdf d0 [] q) ->
     let c := Riform_with Phi Phiinv nsph [d0; d1] alpha n in
     (forall k x, nth_error (coordinates c) k = Some x -> nth 0 x 0 <= t_icdf d0 [] (1 - alpha)) /\
     ((0 < n)%nat -> exists x, nth_error (coordinates c) 0 = Some x /\ nth 0 x 0 = t_icdf d0 [] (1 - alpha)).
  Proof.
    intros nsph d0 d1 alpha n Ha Hc Hq c.
    pose proof (beta_nonneg alpha Ha) as Hb.
    assert (Hpp : Phi (Phiinv (1 - alpha)) = 1 - alpha) by (apply Phi_Phiinv; unfold okp; lra).
    assert (row : forall k, (k < n)%nat -> nth_error (coordinates c) k =
              Some (chain R 0 [d0; d1] (map Phi [Phiinv (1 - alpha) * cos (Rangle n k); Phiinv (1 - alpha) * sin (Rangle n k)]) [])).
    { intros k Hk. unfold c, Riform_with, iform_with, contour_of, scale, units_of. cbn [coordinates length Nat.eqb]. fold Rcircle.
      rewrite map_map. rewrite (map_nth_error _ k (Rcircle n) (circle_nth n k Hk)). reflexivity. }
    assert (first : forall p q, nth 0 (chain R 0 [d0; d1] [p; q] []) 0 = t_icdf d0 [] p).
    { intros p q. cbn [chain app]. unfold icdf, given_of, theta. rewrite Hc. reflexivity. }
    assert (Ln : length (coordinates c) = n).
    { unfold c, Riform_with, iform_with, contour_of, scale, units_of. cbn [coordinates length Nat.eqb]. fold Rcircle.
      now rewrite !map_length, circle_length. }
    split.
    - intros k x Hx.
      assert (Hk : (k < n)%nat) by (rewrite <- Ln; apply nth_error_Some; congruence).
      rewrite (row k Hk) in Hx. injection Hx as <-. cbn [map chain app nth]. unfold icdf, given_of, theta. rewrite Hc.
      rewrite <- Hpp at 2. apply Hq, Phi_mono.
      pose proof (COS_bound (Rangle n k)) as [_ Hcos].
      replace (Phiinv (1 - alpha)) with (Phiinv (1 - alpha) * 1) at 2 by ring. apply Rmult_le_compat_l; assumption.
    - intros Hn. eexists. split; [apply (row 0%nat Hn)|]. cbn [map]. rewrite first.
      rewrite Rangle_0, cos_0, Rmult_1_r, Hpp. reflexivity.
  Qed.
End ContourR.

(* IFORM as IFORMContour evaluates it (whole matrix through norm.cdf, then column by column) is the row-wise contour *)
Definition Riform_vec_with (Phi Phiinv : R -> R) :=
  iform_vec_with R 0 0 1 (2 * PI) Rplus Rminus Rmult Rdiv INR Phi Phiinv cos sin.
Lemma iform_vec_is_iform : forall Phi Phiinv nsph ds alpha n,
   (length ds <> 2%nat -> Forall (fun u => length u = length ds) (nsph (length ds) n)) ->
   Riform_vec_with Phi Phiinv nsph ds alpha n = Riform_with Phi Phiinv nsph ds alpha n.
Proof.
  intros Phi Phiinv nsph ds alpha n H. unfold Riform_vec_with, Riform_with, iform_vec_with, iform_with.
  apply contour_vec_is_contour. unfold units_of. destruct (Nat.eqb_spec (length ds) 2) as [E|E]; [|auto].
  rewrite E. apply (unit_rows_lengths 2), circle_unit.
Qed.

(* ---------------------------------------------------------------- the complete model (NSphere inside) *)
Definition Riform (Phi Phiinv : R -> R) randn forces pot :=
  iform R 0 0 1 3 (2 * PI) Rplus Rminus Rmult Rdiv sqrt Rltb INR Phi Phiinv cos sin randn forces pot.
Definition Risorm (Phi : R -> R) chi2ppf randn forces pot :=
  isorm R 0 0 1 3 (2 * PI) Rplus Rminus Rmult Rdiv sqrt Rltb INR Phi cos sin chi2ppf randn forces pot.

Section Full.
  Variables Phi Phiinv : R -> R.
  Variable chi2ppf : R -> nat -> R.
  Variable randn : nat -> nat -> list (list R).
  Variable forces : list (list R) -> list (list R).
  Variable pot : list (list R) -> R.
  Hypothesis Phi_range : forall u, okp (Phi u).
  Hypothesis Phiinv_Phi : forall u, Phiinv (Phi u) = u.
  Hypothesis forces_shape : forall xs, map (@length R) (forces xs) = map (@length R) xs.

  Theorem iform_full : forall ds alpha n, wf R okp ds -> (length ds <> 2%nat -> randn_ok randn n (length ds)) ->
     let c := Riform Phi Phiinv randn forces pot ds alpha n in
     beta c = Phiinv (1 - alpha) /\ length (coordinates c) = n /\
     Forall (fun x => length x = length ds /\ Rnorm (map Phiinv (Rrosen ds x)) = Rabs (beta c)) (coordinates c).
  Proof.
    intros ds alpha n Hwf Hr c.
    pose proof (fun H => nsphere_unit randn forces pot forces_shape (length ds) n (Hr H)) as UL.
    pose proof (iform_distance Phi Phiinv Phi_range Phiinv_Phi (Rnsphere randn forces pot) ds alpha n Hwf (fun H => proj1 (UL H))) as D.
    pose proof (iform_count Phi Phiinv (Rnsphere randn forces pot) ds alpha n UL) as [A [_ B]].
    split; [reflexivity|]. split; [exact A|].
    cbv zeta in D. rewrite Forall_forall in *. intros x Hx. split; [apply B, Hx|apply D, Hx].
  Qed.

  (* the same for IFORM evaluated the way the code does it (column-wise) *)
  Theorem iform_vec_full : forall ds alpha n, wf R okp ds -> (length ds <> 2%nat -> randn_ok randn n (length ds)) ->
     let c := Riform_vec_with Phi Phiinv (Rnsphere randn forces pot) ds alpha n in
     beta c = Phiinv (1 - alpha) /\ length (coordinates c) = n /\
     Forall (fun x => length x = length ds /\ Rnorm (map Phiinv (Rrosen ds x)) = Rabs (beta c)) (coordinates c).
  Proof.
    intros ds alpha n Hwf Hr. rewrite iform_vec_is_iform.
    - exact (iform_full ds alpha n Hwf Hr).
    - intro H. apply (unit_rows_lengths (length ds)). exact (proj1 (nsphere_unit randn forces pot forces_shape (length ds) n (Hr H))).
  Qed.

  Theorem isorm_full : forall ds alpha n, wf R okp ds -> (length ds <> 2%nat -> randn_ok randn n (length ds)) ->
     let c := Risorm Phi chi2ppf randn forces pot ds alpha n in
     beta c = sqrt (chi2ppf (1 - alpha) (length ds)) /\ length (coordinates c) = n /\
     Forall (fun x => length x = length ds /\ Rnorm (map Phiinv (Rrosen ds x)) = beta c) (coordinates c).
  Proof.
    intros ds alpha n Hwf Hr c.
    pose proof (fun H => nsphere_unit randn forces pot forces_shape (length ds) n (Hr H)) as UL.
    pose proof (isorm_distance Phi Phiinv chi2ppf Phi_range Phiinv_Phi (Rnsphere randn forces pot) ds alpha n Hwf (fun H => proj1 (UL H))) as D.
    pose proof (isorm_count Phi chi2ppf (Rnsphere randn forces pot) ds alpha n UL) as [A [_ B]].
    split; [reflexivity|]. split; [exact A|].
    cbv zeta in D. rewrite Forall_forall in *. intros x Hx. split; [apply B, Hx|apply D, Hx].
  Qed.
End Full.

(* ---------------------------------------------------------------- calculate_alpha *)
Lemma calculate_alpha_formula : forall sd rp, Rcalculate_alpha sd rp = sd / (rp * 8766).
Proof. intros. unfold Rcalculate_alpha, calculate_alpha. f_equal. lra. Qed.

Lemma calculate_alpha_range : forall sd rp, 0 < sd -> sd < rp * 8766 -> 0 < Rcalculate_alpha sd rp < 1.
Proof.
  intros sd rp H0 H1. rewrite calculate_alpha_formula. split.
  - apply Rdiv_lt_0_compat; lra.
  - unfold Rdiv. apply Rmult_lt_reg_r with (rp * 8766); [lra|]. rewrite Rmult_assoc, Rinv_l by lra. lra.
Qed.

(* ---------------------------------------------------------------- witnesses: every contract is satisfiable *)
Section Witness.
  Definition wPhi (u : R) : R := 1 / 2 + atan u / PI.
  Definition wPhiinv (p : R) : R := tan (PI * (p - 1 / 2)).

  Lemma atan_over_PI : forall u, - (1 / 2) < atan u / PI < 1 / 2.
  Proof.
    intros u. pose proof (atan_bound u) as [A B]. pose proof PI_RGT_0 as P. unfold Rdiv. split.
    - apply Rmult_lt_reg_r with PI; [exact P|]. rewrite Rmult_assoc, Rinv_l by lra. lra.
    - apply Rmult_lt_reg_r with PI; [exact P|]. rewrite Rmult_assoc, Rinv_l by lra. lra.
  Qed.
  Lemma wPhi_range : forall u, okp (wPhi u).
  Proof. intros u. pose proof (atan_over_PI u). unfold okp, wPhi. lra. Qed.
  Lemma wPhiinv_Phi : forall u, wPhiinv (wPhi u) = u.
  Proof.
    intros u. unfold wPhiinv, wPhi. pose proof PI_RGT_0 as P.
    replace (PI * (1 / 2 + atan u / PI - 1 / 2)) with (atan u) by (field; lra). apply tan_atan.
  Qed.
  Lemma wPhi_mono : forall a b, a <= b -> wPhi a <= wPhi b.
  Proof.
    intros a b [H|E]; [|subst; lra]. unfold wPhi. pose proof PI_RGT_0 as P. pose proof (atan_increasing a b H) as I.
    assert (atan a / PI < atan b / PI) by (unfold Rdiv; apply Rmult_lt_compat_r; [apply Rinv_0_lt_compat; lra|lra]). lra.
  Qed.
  Lemma wangle_range : forall p, okp p -> - (PI / 2) < PI * (p - 1 / 2) < PI / 2.
  Proof. intros p [A B]. pose proof PI_RGT_0 as P. split; nra. Qed.
  Lemma wPhiinv_mono : forall p q, okp p -> okp q -> p <= q -> wPhiinv p <= wPhiinv q.
  Proof.
    intros p q Hp Hq [H|E]; [|subst; lra]. unfold wPhiinv. left.
    pose proof (wangle_range p Hp) as [A _]. pose proof (wangle_range q Hq) as [_ B]. pose proof PI_RGT_0 as P.
    apply tan_increasing; [lra| nra |lra].
  Qed.
  Lemma wPhiinv_half : wPhiinv (1 / 2) = 0.
  Proof. unfold wPhiinv. replace (PI * (1 / 2 - 1 / 2)) with 0 by ring. apply tan_0. Qed.
  Lemma wPhi_Phiinv : forall p, okp p -> wPhi (wPhiinv p) = p.
  Proof.
    intros p Hp. unfold wPhi, wPhiinv. rewrite atan_tan by (apply wangle_range; exact Hp).
    pose proof PI_RGT_0 as P. field. lra.
  Qed.

  (* a conditional distribution whose location depends on the conditioning value: Q(p; th) = p + th_0 *)
  Definition wdist (c : option nat) : dist R :=
    mkdist c [PDep (fun g => 2 * g)] (fun th p => p + nth 0 th 0) (fun th x => x - nth 0 th 0).
  Lemma w_wf : wf R okp [wdist None; wdist (Some 0%nat); wdist (Some 1%nat); wdist (Some 0%nat)].
  Proof.
    intros i d H. destruct i as [|[|[|[|i]]]]; simpl in H; try (destruct i; discriminate);
      injection H as <-; (split; [simpl; try lia; exact I|intros; simpl; ring]).
  Qed.
  Definition wrandn (n d : nat) : list (list R) := repeat (repeat 1 d) n.
  Lemma wrandn_ok : forall n, randn_ok wrandn n 4.
  Proof.
    intros n. unfold randn_ok, wrandn. split; [apply repeat_length|].
    apply Forall_forall. intros v Hv. apply repeat_spec in Hv. subst v. split; [reflexivity|].
    simpl repeat. rewrite !Rsumsq_cons, Rsumsq_nil. lra.
  Qed.
End Witness.
