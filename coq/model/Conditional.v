(* Hand model of ConditionalDistribution.__init__ / _get_param_values / forwarders and of
   DependenceFunction.__call__ (virocon/distributions.py, virocon/dependencies.py).  Tied to the code by the
   correspondence run of C08 (recording template). *)
From Coq Require Import List String Bool.
From V.base Require Import Num.
Import ListNotations.
Set Implicit Arguments.

Section Cond.
  Variable T : Type.    (* parameter values *)
  Variable G : Type.    (* conditioning value(s): a scalar or a vector *)
  Variable F : Type.    (* dependence functions *)
  Variable app : F -> G -> T.

  Inductive pspec := Fixed (v : T) | Dep (f : F).

  Fixpoint lookup {A} (k : string) (l : list (string * A)) : option A :=
    match l with [] => None | (k', v) :: l' => if String.eqb k k' then Some v else lookup k l' end.

  (* __init__: template given by its parameter names (in `parameters` order) with their f_<name> values *)
  Definition cond_init (template : list (string * option T)) (parameters : list (string * F)) : res (list (string * pspec)) :=
    if existsb (fun kv => match lookup (fst kv) template with None => true | Some _ => false end) parameters
    then Err "ValueError:unknown"
    else
      fold_right (fun (nf : string * option T) acc =>
                    bind acc (fun rest =>
                      match lookup (fst nf) parameters, snd nf with
                      | None, None => Err "ValueError:undefined"
                      | None, Some v => Ok ((fst nf, Fixed v) :: rest)
                      | Some _, Some _ => Err "ValueError:both"
                      | Some f, None => Ok ((fst nf, Dep f) :: rest)
                      end))
                 (Ok []) template.

  (* _get_param_values(given): keyword arguments for the template method, in parameter order *)
  Definition get_param_values (spec : list (string * pspec)) (g : G) : list (string * T) :=
    map (fun np => (fst np, match snd np with Fixed v => v | Dep f => app f g end)) spec.

  (* pdf/cdf/icdf/draw_sample forwarders: template method called with exactly these keyword arguments *)
  Definition forward {X Y} (template_method : X -> list (string * T) -> Y) (spec : list (string * pspec)) (x : X) (g : G) : Y :=
    template_method x (get_param_values spec g).
End Cond.

(* keyword arguments -> the positional option arguments of a generated family method *)
Definition kwarg {T} (kw : list (string * T)) (name : string) : option T := lookup name kw.

(* DependenceFunction.__call__ : signature (after x) with defaults, bound dependence functions removed *)
Section DepCall.
  Variable T X : Type.
  Variable func : X -> list T -> T.      (* user function applied to x and the positional parameters *)
  Definition dep_call (params : list (string * T)) (x : X) (args : list T) : res T :=
    match args with
    | [] => Ok (func x (map snd params))
    | _ => if Nat.eqb (List.length args) (List.length params) then Ok (func x args) else Err "ValueError"
    end.
  (* parameters left after binding: signature order, bound keys deleted *)
  Definition free_params (sig : list (string * T)) (bound : list string) : list (string * T) :=
    filter (fun kv => negb (existsb (String.eqb (fst kv)) bound)) sig.
End DepCall.

(* DependenceFunction.__init__: every keyword argument whose name is a parameter of the user function is bound with
   functools.partial, one partial per key, in keyword order (a later partial with the same key would override an earlier one);
   keyword arguments whose name is not a parameter are ignored *)
Section DepBind.
  Variable F : Type.      (* dependence-function objects *)
  Fixpoint kw_set (k : string) (d : F) (acc : list (string * F)) : list (string * F) :=
    match acc with
    | [] => [(k, d)]
    | (k', d') :: r => if String.eqb k k' then (k, d) :: r else (k', d') :: kw_set k d r
    end.
  Fixpoint dep_bind (sig : list string) (kwargs : list (string * F)) (acc : list (string * F)) : list (string * F) :=
    match kwargs with
    | [] => acc
    | (k, d) :: r => if existsb (String.eqb k) sig then dep_bind sig r (kw_set k d acc) else dep_bind sig r acc
    end.
End DepBind.
