(* C08: a conditional distribution evaluates its template with exactly theta(g) *)
From Coq Require Import List String Bool Arith Lia.
From V.base Require Import Num.
From V.model Require Import Conditional.
Import ListNotations.

Section CondP.
  Variables T G F : Type.
  Variable app : F -> G -> T.
  Notation pspec := (pspec T F).

  Lemma gpv_names (spec : list (string * pspec)) g : map fst (get_param_values app spec g) = map fst spec.
  Proof. unfold get_param_values. rewrite map_map. reflexivity. Qed.

  Lemma gpv_value (spec : list (string * pspec)) g i name p :
    nth_error spec i = Some (name, p) ->
    nth_error (get_param_values app spec g) i = Some (name, match p with Fixed _ v => v | Dep _ f => app f g end).
  Proof. intros H. unfold get_param_values. rewrite nth_error_map, H. reflexivity. Qed.

  (* a fixed parameter has the same value for every conditioning value *)
  Lemma gpv_fixed_independent (spec : list (string * pspec)) g1 g2 i name v :
    nth_error spec i = Some (name, Fixed _ v) ->
    nth_error (get_param_values app spec g1) i = nth_error (get_param_values app spec g2) i.
  Proof. intros H. rewrite (gpv_value spec g1 i name _ H), (gpv_value spec g2 i name _ H). reflexivity. Qed.

  (* __init__: every template parameter ends up fixed xor dependent, in template order *)
  Lemma cond_init_names : forall (template : list (string * option T)) (parameters : list (string * F)) spec,
    cond_init template parameters = Ok spec -> map fst spec = map fst template.
  Proof.
    intros template parameters spec. unfold cond_init. destruct (existsb _ parameters); [discriminate|].
    revert spec. induction template as [|[n fv] tl IH]; intros spec H; cbn in H.
    - inversion H. reflexivity.
    - destruct (fold_right _ (Ok []) tl) as [rest|e] eqn:E; cbn in H; [|discriminate].
      destruct (lookup n parameters), fv; inversion H; subst; cbn; f_equal; apply IH; reflexivity.
  Qed.

  Lemma cond_init_entries : forall (template : list (string * option T)) (parameters : list (string * F)) spec,
    cond_init template parameters = Ok spec ->
    forall n p, In (n, p) spec ->
      match p with
      | Fixed _ v => In (n, Some v) template /\ lookup n parameters = None
      | Dep _ f => In (n, None) template /\ lookup n parameters = Some f
      end.
  Proof.
    intros template parameters spec. unfold cond_init. destruct (existsb _ parameters); [discriminate|].
    revert spec. induction template as [|[n0 fv] tl IH]; intros spec H n p Hin; cbn in H.
    - inversion H; subst. contradiction.
    - destruct (fold_right _ (Ok []) tl) as [rest|e] eqn:E; cbn in H; [|discriminate].
      destruct (lookup n0 parameters) eqn:L, fv; inversion H; subst; clear H.
      + destruct Hin as [X|X]; [inversion X; subst; split; [left; reflexivity|exact L]|].
        specialize (IH rest eq_refl n p X). destruct p; destruct IH; split; auto; right; auto.
      + destruct Hin as [X|X]; [inversion X; subst; split; [left; reflexivity|exact L]|].
        specialize (IH rest eq_refl n p X). destruct p; destruct IH; split; auto; right; auto.
  Qed.

  (* a parameter that is both fixed and dependent, or neither, or unknown, is rejected *)
  Lemma cond_init_rejects_both (template : list (string * option T)) (parameters : list (string * F)) n v f :
    In (n, Some v) template -> lookup n parameters = Some f -> exists e, cond_init template parameters = Err e.
  Proof.
    intros Hin L. unfold cond_init. destruct (existsb _ parameters); [eexists; reflexivity|].
    induction template as [|[n0 fv] tl IH]; [contradiction|]. cbn.
    destruct Hin as [X|X].
    - inversion X; subst. destruct (fold_right _ (Ok []) tl); cbn; [rewrite L|]; eexists; reflexivity.
    - destruct (IH X) as [e E]. rewrite E. cbn. eexists; reflexivity.
  Qed.
  Lemma cond_init_rejects_neither (template : list (string * option T)) (parameters : list (string * F)) n :
    In (n, None) template -> lookup n parameters = None -> exists e, cond_init template parameters = Err e.
  Proof.
    intros Hin L. unfold cond_init. destruct (existsb _ parameters); [eexists; reflexivity|].
    induction template as [|[n0 fv] tl IH]; [contradiction|]. cbn.
    destruct Hin as [X|X].
    - inversion X; subst. destruct (fold_right _ (Ok []) tl); cbn; [rewrite L|]; eexists; reflexivity.
    - destruct (IH X) as [e E]. rewrite E. cbn. eexists; reflexivity.
  Qed.
  Lemma cond_init_rejects_unknown (template : list (string * option T)) (parameters : list (string * F)) n f :
    In (n, f) parameters -> lookup n template = None -> exists e, cond_init template parameters = Err e.
  Proof.
    intros Hin L. unfold cond_init.
    assert (E : existsb (fun kv => match lookup (fst kv) template with None => true | Some _ => false end) parameters = true).
    { apply existsb_exists. exists (n, f). split; [exact Hin|]. cbn. rewrite L. reflexivity. }
    rewrite E. eexists; reflexivity.
  Qed.

  (* forwarders hand exactly theta(g) to the template method *)
  Lemma forward_spec {X Y} (m : X -> list (string * T) -> Y) spec x g :
    forward app m spec x g = m x (get_param_values app spec g).
  Proof. reflexivity. Qed.
End CondP.

(* vectorised evaluation = pointwise evaluation, given that dependence functions act elementwise on a vector *)
Section Vectorised.
  Variables T G F : Type.
  Variable app : F -> G -> T.
  Variable d : T. Variable dg : G.
  Definition app_vec (f : F) (gs : list G) : list T := map (app f) gs.
  Lemma vectorised_pointwise (spec : list (string * pspec T F)) (gs : list G) i : i < List.length gs ->
    map (fun nv => (fst nv, match snd nv with inl v => v | inr vs => nth i vs d end))
        (map (fun np => (fst np, match snd np with Fixed _ v => inl v | Dep _ f => inr (app_vec f gs) end)) spec)
    = get_param_values app spec (nth i gs dg).
  Proof.
    intros Hi. unfold get_param_values. rewrite map_map. apply map_ext. intros [n [v|f]]; cbn; [reflexivity|].
    f_equal. unfold app_vec. rewrite (nth_indep _ d (app f dg)) by (rewrite map_length; exact Hi). apply map_nth.
  Qed.
End Vectorised.

Section DepCallP.
  Variables T X : Type.
  Variable func : X -> list T -> T.
  (* the no-argument call uses the current parameters, in signature order *)
  Lemma dep_call_default params x : dep_call func params x [] = Ok (func x (map snd params)).
  Proof. reflexivity. Qed.
  Lemma dep_call_explicit params x (args : list T) : args <> [] -> List.length args = List.length params ->
    dep_call func params x args = Ok (func x args).
  Proof. intros Hne Hl. unfold dep_call. destruct args; [congruence|]. rewrite Hl, Nat.eqb_refl. reflexivity. Qed.
  Lemma dep_call_default_is_explicit params x : params <> [] ->
    dep_call func params x [] = dep_call func params x (map snd params).
  Proof. intros H. rewrite (dep_call_explicit params x (map snd params)); [reflexivity| |apply map_length].
    destruct params; [congruence|discriminate]. Qed.
  Lemma dep_call_arity params x (args : list T) : args <> [] -> List.length args <> List.length params -> dep_call func params x args = Err "ValueError".
  Proof. intros Hne Hl. unfold dep_call. destruct args; [congruence|]. apply Nat.eqb_neq in Hl. rewrite Hl. reflexivity. Qed.
  Lemma free_params_spec (sig : list (string * T)) bound kv :
    In kv (free_params sig bound) <-> In kv sig /\ ~ In (fst kv) bound.
  Proof. unfold free_params. rewrite filter_In. split; intros [A B]; split; auto.
    - intro Hc. apply negb_true_iff in B. assert (existsb (String.eqb (fst kv)) bound = true); [|congruence].
      apply existsb_exists. exists (fst kv). split; auto. apply String.eqb_refl.
    - apply negb_true_iff. destruct (existsb (String.eqb (fst kv)) bound) eqn:E; auto.
      apply existsb_exists in E. destruct E as [y [Hy E]]. apply String.eqb_eq in E. subst. contradiction.
  Qed.
End DepCallP.

Section DepBindP.
  Variable F : Type.
  Lemma lookup_kw_set (k k0 : string) (d : F) acc :
    lookup k0 (kw_set k d acc) = if String.eqb k0 k then Some d else lookup k0 acc.
  Proof.
    induction acc as [|[k' d'] r IH]; cbn.
    - destruct (String.eqb k0 k); reflexivity.
    - destruct (String.eqb k k') eqn:E.
      + apply String.eqb_eq in E. subst k'. cbn. destruct (String.eqb k0 k); reflexivity.
      + cbn. destruct (String.eqb k0 k') eqn:E2.
        * apply String.eqb_eq in E2. subst k'. rewrite String.eqb_sym, E. reflexivity.
        * exact IH.
  Qed.
  (* each bound keyword holds ITS OWN dependence function: for distinct keyword names, key k is bound to exactly the function passed
     under k if k is a parameter of the user function, and to nothing otherwise (earlier bindings of other keys are kept) *)
  Lemma dep_bind_spec (sig : list string) (kwargs : list (string * F)) acc k :
    NoDup (map fst kwargs) ->
    lookup k (dep_bind sig kwargs acc) =
      match lookup k kwargs with
      | Some d => if existsb (String.eqb k) sig then Some d else lookup k acc
      | None => lookup k acc
      end.
  Proof.
    revert acc. induction kwargs as [|[k' d'] r IH]; intros acc ND; [reflexivity|].
    inversion ND as [|? ? Hn ND']; subst. cbn [dep_bind lookup].
    destruct (String.eqb k k') eqn:E.
    - apply String.eqb_eq in E. subst k'.
      assert (Hl : lookup k r = None).
      { clear -Hn. induction r as [|[a b] r IH]; [reflexivity|]. cbn in *. destruct (String.eqb k a) eqn:E.
        - apply String.eqb_eq in E. subst. exfalso. apply Hn. now left.
        - apply IH. intro H. apply Hn. now right. }
      destruct (existsb (String.eqb k) sig) eqn:Es; rewrite IH by exact ND'; rewrite Hl.
      + rewrite lookup_kw_set, String.eqb_refl. reflexivity.
      + reflexivity.
    - destruct (existsb (String.eqb k') sig); rewrite IH by exact ND'.
      + destruct (lookup k r); [destruct (existsb (String.eqb k) sig)|]; rewrite ?lookup_kw_set, ?E; reflexivity.
      + reflexivity.
  Qed.
End DepBindP.
