"""C14 -- dependence functions are fitted within bounds, optimally, in dependency order (DESIGN.md section 6, C14).

proof gate      props/C14.v  (history theorem for every DAG / every sequence of fit calls, order independence,
                bounds conversion, feasible set handed to scipy, transfer of optimality, linear least squares)
correspondence  (a) callback protocol: model/DepProtocol.v run with the tagging optimiser (vm_compute) against the
                    real DependenceFunction objects whose optimiser (virocon._fitting.curve_fit / minimize) is
                    replaced from outside by a tagging function: final parameter TERMS, _may_fit, saved data,
                    _fitted_conditioners and the order of optimiser calls are compared exactly;
                (b) the same with the real optimiser wrapped by a pass-through recorder (order of calls, flags);
                (c) ConditionalDistribution.fit loop (real class, permuted parameter dicts, chains among the
                    parameters of one distribution);
                (d) _fitting.py glue: which engine is called with which arguments (sigma, converted bounds bit
                    exact, constraints handed over) against `dispatch` / `convert_bounds_f`.
search          property oracle on the real code: bounds, constraints, not worse than start, perturbations,
                linear least squares, dependency order (each function is a fit against the FINAL conditioners),
                order independence over declaration orders x call orders x re-fits.
The optimiser's quality is an oracle (C14_optimal_partial): it is judged with tolerances, never bit-wise.
"""
import itertools
import math
import warnings

import numpy as np

import vlib
from vlib import fl

warnings.simplefilter("ignore")


def _imp():
    import virocon
    import virocon._fitting as F
    import virocon.dependencies as DP
    return virocon, F, DP


# ====================================================================== recorder / tagging optimiser
def owner_of(func, depth=0):
    """the DependenceFunction behind what is handed to scipy (itself, or wrapped in a closure that holds some parameters fixed)"""
    if hasattr(func, "dependent_parameters"):
        return func
    if depth < 3:
        for c in getattr(func, "__closure__", None) or ():
            try:
                o = owner_of(c.cell_contents, depth + 1) if callable(c.cell_contents) else None
            except ValueError:
                o = None
            if o is not None:
                return o
    return None


class Rec:
    """Rebinds virocon._fitting.curve_fit / minimize from outside; restores them on exit."""

    def __init__(self, F, mode):
        self.F, self.mode = F, mode          # mode: "tag" (fake optimiser) or "real" (pass through)
        self.calls = []                      # dicts: func, y, p0, engine, kwargs, popt, env
        self.counter = 0

    def __enter__(self):
        self.orig = (self.F.curve_fit, self.F.minimize)
        rec = self

        def curve_fit(func, x, y, p0, **kw):
            return rec._call("curve_fit", func, x, y, p0, kw)

        def minimize(err, p0, **kw):
            return rec._call("minimize", getattr(err, "_c14_func", None), None, None, p0, kw, err)

        # the error function of the constrained path closes over func, x, y: recover them
        orig_get = self.F.get_least_squares_error_func
        self.orig_get = orig_get

        def get_err(func, x, y):
            e = orig_get(func, x, y)

            def wrapped(p):
                return e(p)
            wrapped._c14_func = func
            wrapped._c14_xy = (x, y)
            return wrapped
        self.F.curve_fit, self.F.minimize, self.F.get_least_squares_error_func = curve_fit, minimize, get_err
        return self

    def __exit__(self, *a):
        self.F.curve_fit, self.F.minimize = self.orig
        self.F.get_least_squares_error_func = self.orig_get

    def _call(self, engine, func, x, y, p0, kw, err=None):
        if engine == "minimize":
            x, y = err._c14_xy
        handed = func
        func = owner_of(func) or func
        # everything the optimiser reads: the conditioners, THEIR conditioners, ... with the parameters they hold now
        env, todo = {}, list(getattr(func, "dependent_parameters", {}).values())
        while todo:
            dep = todo.pop()
            if id(dep) not in env:
                env[id(dep)] = (dep, tuple(float(v) for v in dep.parameters.values()))
                todo += list(dep.dependent_parameters.values())
        c = {"func": func, "y": y, "p0": tuple(float(v) for v in p0), "engine": engine, "kw": dict(kw), "env": env,
             "x": x}
        self.calls.append(c)
        self.counter += 1
        if self.mode == "tag":
            popt = np.array([self.counter + 0.25 * (i + 1) for i in range(len(p0))])
            c["popt"] = tuple(float(v) for v in popt)
            if engine == "curve_fit":
                return popt, None

            class R:
                success = True
                message = ""
            R.x = popt
            return R
        if engine == "curve_fit" and handed is not func and hasattr(func, "func"):
            # the function handed over is a closure around the declared one (parameters held by equal bounds): observe, at a probe vector,
            # the FULL parameter vector with which it evaluates the declared function
            seen, orig_f = [], func.func

            def spy(xx, *a, **k):
                seen.append(tuple(float(v) for v in a))
                return orig_f(xx, *a, **k)
            probe = [float(v) + 0.5 + i for i, v in enumerate(p0)]
            func.func = spy
            try:
                handed(np.asarray(x, dtype=float), *probe)
            except Exception:  # noqa
                pass
            finally:
                func.func = orig_f
            c["embed_probe"] = (probe, seen[-1] if seen else None)
        if engine == "curve_fit":
            popt, pcov = self.orig[0](handed, x, y, p0, **kw)
            c["popt"] = tuple(float(v) for v in popt)
            return popt, pcov
        r = self.orig[1](err, p0, **kw)
        c["popt"] = tuple(float(v) for v in r.x)
        c["success"] = bool(r.success)
        return r


# ====================================================================== DAGs of dependence functions
def shape_for(nc):
    """own parameters a, b (the shape is linear in them); conditioners g, h are other DependenceFunctions"""
    if nc == 0:
        def f(x, a, b):
            return a + b * x
    elif nc == 1:
        def f(x, a, b, g):
            return a * g(x) + b * x * x
    else:
        def f(x, a, b, g, h):
            return a * g(x) + b * h(x) * x
    return f


def basis_for(nc, deps, x):
    """columns multiplying a and b, evaluated with the CURRENT parameters of the conditioners"""
    x = np.asarray(x, dtype=float)
    if nc == 0:
        return np.c_[np.ones_like(x), x]
    if nc == 1:
        return np.c_[deps[0](x), x * x]
    return np.c_[deps[0](x), deps[1](x) * x]


def gen_dag(rng, nmax):
    n = rng.randrange(1, nmax + 1)
    ctbl = []
    for j in range(n):
        k = 0 if j == 0 else rng.choice([0, 1, 1, 2])
        if k == 0:
            ctbl.append([])
        elif k == 1:
            ctbl.append([rng.randrange(j)])
        else:
            ctbl.append([rng.randrange(j), rng.randrange(j)])     # may name the same conditioner twice
    return ctbl


BOUND_KINDS = [None, None, [(None, None), (None, None)], [(0, None), (None, None)], [(None, 3.0), (0.5, None)],
               [(0.0, 1.5), (-3.0, 10.0)], [(-3.0, None), (None, 1.5)]]


def node_weights(x, y):
    return 1.0 + 0.2 * np.asarray(x, dtype=float)


NODE_CONS = {"type": "ineq", "fun": lambda p: 1e3 - p[0]}       # inactive: routes the node through SLSQP


def build(DP, ctbl, rng=None, bounds=None, swap_kw=None, extras=None):
    """constructs the DependenceFunction objects in creation order; kwargs order optionally swapped"""
    deps = []
    for j, cs in enumerate(ctbl):
        kw = {}
        names = ["g", "h"][:len(cs)]
        pairs = list(zip(names, cs))
        if swap_kw and swap_kw[j]:
            pairs = pairs[::-1]
        for nm, c in pairs:
            kw[nm] = deps[c]
        b = bounds[j] if bounds else None
        ex = extras[j] if extras else None
        deps.append(DP.DependenceFunction(shape_for(len(cs)), bounds=b, weights=node_weights if ex == "weights" else None,
                                          constraints=(NODE_CONS if ex == "cons" else [NODE_CONS]) if ex in ("cons", "conslist") else None,
                                          latex="$a + b x$" if (j % 2) else None, **kw))
    return deps


def model_conds(deps):
    """conds table as the objects hold it: dependent_parameters.values() in their own order"""
    return [[deps.index(d) for d in f.dependent_parameters.values()] for f in deps]


def gen_ops(rng, n, maxlen, cover=True):
    L = rng.randrange(1, maxlen + 1)
    ops = [rng.randrange(n) for _ in range(L)]
    if cover and rng.random() < 0.7:
        order = list(range(n))
        rng.shuffle(order)
        ops = (ops + order)[-max(L, n):] if rng.random() < 0.5 else order + ops
        ops = ops[:max(maxlen, n)]
    return [(j, t) for t, j in enumerate(ops)]     # data tag = position in the history


def make_xy(case_seed, tag, j):
    r = np.random.default_rng([case_seed, tag, j, 14])
    npts = int(r.integers(3, 21))
    x = np.sort(r.uniform(0.4, 6.0, npts))
    c = r.uniform(0.3, 3.0, 4)
    y = c[0] + c[1] * x + c[2] * np.sin(x * c[3]) ** 2 + 0.3 * x * x * r.uniform(0, 1)
    return x, y


def run_protocol(DP, F, case, mode):
    """runs the history on real objects; returns observables"""
    deps = build(DP, case["ctbl"], bounds=case.get("bounds"), swap_kw=case.get("swap_kw"), extras=case.get("extras"))
    conds = model_conds(deps)
    idx = {id(f): j for j, f in enumerate(deps)}
    ytag = {}
    keep = []
    err = None
    with Rec(F, mode) as rec:
        for j, t in case["ops"]:
            x, y = make_xy(case["seed"], t, j)
            keep.append((x, y))
            ytag[id(y)] = t
            try:
                deps[j].fit(x, y)
            except Exception as e:  # optimiser failure (RuntimeError/TypeError/ValueError): not judged
                err = "%s: %s" % (type(e).__name__, str(e)[:80])
                break
    log = [(idx[id(c["func"])], ytag[id(c["y"])]) for c in rec.calls if "popt" in c or mode == "tag"]
    # parameter terms reconstructed from the observed numbers (tag mode: values are unique per call)
    terms, trees = {}, None
    if mode == "tag" and err is None:
        for c in rec.calls:
            j = idx[id(c["func"])]
            p0t = terms.get(c["p0"], "(Start %d)" % j)
            envt = [terms.get(pv, "(Start %d)" % i) for i, pv in sorted((idx[k], v[1]) for k, v in c["env"].items())]
            terms[c["popt"]] = "(Fitted %d %d %s [%s])" % (j, ytag[id(c["y"])], p0t, "; ".join(envt))
        trees = [terms.get(tuple(float(v) for v in f.parameters.values()), "(Start %d)" % j) for j, f in enumerate(deps)]
    obs = {"conds": conds, "log": log, "err": err, "trees": trees,
           "may": [bool(f._may_fit) for f in deps],
           "saved": [ytag[id(f.y)] if getattr(f, "y", None) is not None else None for f in deps],
           "fc": [sorted(idx[id(c)] for c in f._fitted_conditioners) for f in deps],
           "deps": deps, "calls": rec.calls, "data": keep}
    return obs


PRELUDE = """From V.base Require Import FloatBits.
From V.model Require Import DepProtocol HeldParams.
Definition compare_obs (n : nat) (ctbl : list (list nat)) (ops : list (nat * nat))
           (e_may : list bool) (e_saved : list (option nat)) (e_fc : list (list nat)) (e_log : list (nat * nat)) : nat :=
  match run_tag n ctbl ops with
  | Ok s =>
      let js := seq 0 n in
      if negb (list_eqb Bool.eqb (map (may_fit s) js) e_may) then 3
      else if negb (list_eqb opt_eqb (map (saved s) js) e_saved) then 4
      else if negb (list_eqb set_eqb (map (fitted_conds s) js) e_fc) then 5
      else if negb (list_eqb (fun a b => Nat.eqb (fst a) (fst b) && Nat.eqb (snd a) (snd b)) (log s) e_log) then 6
      else 0
  | _ => 1
  end.
Definition opt_f_eqb (a b : option float) : bool :=
  match a, b with None, None => true | Some x, Some y => fbits_eq x y | _, _ => false end.
(* 0 ok; 10 engine; 11 sigma; 12 box; 13 raw bounds; 14 number of constraints; 15 NotImplemented mismatch *)
Definition dispatch_cmp (hw : bool) (bounds : option (list (option float * option float))) (ncons : option nat)
           (e_notimpl : bool) (e_curvefit e_sigma : bool) (e_box : option (list float * list float))
           (e_raw : option (list (option float * option float))) (e_ncons : nat) : nat :=
  match dispatch float neg_infinity infinity hw bounds
                 (match ncons with Some k => Some (repeat (fun _ : list float => 0%float) k) | None => None end) with
  | NotImplemented => if e_notimpl then 0 else 15
  | Call c =>
      if e_notimpl then 15
      else if negb (Bool.eqb (match c_engine c with CurveFit => true | MinimizeSLSQP => false end) e_curvefit) then 10
      else if negb (Bool.eqb (c_sigma c) e_sigma) then 11
      else if negb (match c_box c, e_box with
                    | None, None => true
                    | Some (l, u), Some (l', u') => list_eqb fbits_eq l l' && list_eqb fbits_eq u u'
                    | _, _ => false end) then 12
      else if negb (match c_raw_bounds c, e_raw with
                    | None, None => true
                    | Some b, Some b' => list_eqb (fun x y => opt_f_eqb (fst x) (fst y) && opt_f_eqb (snd x) (snd y)) b b'
                    | _, _ => false end) then 13
      else if negb (Nat.eqb (List.length (c_constraints c)) e_ncons) then 14
      else 0
  end.
(* parameters held by equal bounds: 0 ok; 21 free start values; 22 box of the free bounds; 23 sigma; 24 final parameter vector; 25 path *)
Definition held_cmp (hw : bool) (bs : list (option float * option float)) (p0 : list float) (called : bool)
           (e_p0 : list float) (e_box : list float * list float) (e_sigma : bool) (e_popt e_final : list float) : nat :=
  if negb (has_fixed float PrimFloat.eqb bs) then 25
  else if negb (Bool.eqb called (match ffree_p0 bs p0 with [] => false | _ => true end)) then 25
  else if negb (list_eqb fbits_eq (ffit_function e_popt hw (Some bs) p0) e_final) then 24
  else if negb called then 0
  else if negb (list_eqb fbits_eq (ffree_p0 bs p0) e_p0) then 21
  else if negb (list_eqb fbits_eq (fst (ffree_box bs)) (fst e_box) && list_eqb fbits_eq (snd (ffree_box bs)) (snd e_box)) then 22
  else if negb (Bool.eqb hw e_sigma) then 23
  else 0.
(* 26: the closure handed to curve_fit evaluates the declared function at scatter(held values, probe) *)
Definition embed_cmp (bs : list (option float * option float)) (p0 probe seen : list float) : nat :=
  if list_eqb fbits_eq (scatter float (fixed_of float PrimFloat.eqb bs) p0 probe) seen then 0 else 26.
"""


def nat_list(xs):
    return "[" + "; ".join("%d" % i for i in xs) + "]"


def tbl(ctbl):
    return "[" + "; ".join(nat_list(c) for c in ctbl) + "]"


def opt_nat(v):
    return "None" if v is None else "(Some %d)" % v


def pairs(ps):
    return "[" + "; ".join("(%d, %d)" % p for p in ps) + "]"


def coq_protocol_case(case, obs, with_trees):
    n = len(case["ctbl"])
    args = "%d %s %s" % (n, tbl(obs["conds"]), pairs(case["ops"]))
    may = vlib.bool_list(obs["may"])
    saved = "[" + "; ".join(opt_nat(v) for v in obs["saved"]) + "]"
    if with_trees:
        return "(compare_run %s [%s] %s %s %s %s)" % (args, "; ".join(obs["trees"]), may, saved, tbl(obs["fc"]), pairs(obs["log"]))
    return "(compare_obs %s %s %s %s %s)" % (args, may, saved, tbl(obs["fc"]), pairs(obs["log"]))


# ====================================================================== numeric oracle helpers
def ssr(f, x, y, p, sigma=None):
    r = np.asarray(f(x, *p), dtype=float) - np.asarray(y, dtype=float)
    if sigma is not None:
        r = r / np.asarray(sigma, dtype=float)
    return float(np.sum(r * r))


def in_bounds(p, bounds, rel=1e-9):
    if bounds is None:
        return True, None
    for i, ((lo, hi), v) in enumerate(zip(bounds, p)):
        tol = rel * max(1.0, abs(v))
        if lo is not None and v < lo - tol:
            return False, (i, v, lo, "lower")
        if hi is not None and v > hi + tol:
            return False, (i, v, hi, "upper")
    return True, None


def cons_list(cons):
    if cons is None:
        return []
    return [cons] if isinstance(cons, dict) else list(cons)


def last_call_check(calls, deps):
    """exact, tolerance-free form of the history theorem on a recorded run: the LAST optimiser run of every function
    returned the parameters the function now holds, and it read the parameters its conditioners now hold"""
    out = []
    for f in deps:
        mine = [c for c in calls if c["func"] is f and "popt" in c]
        if not mine:
            continue
        c = mine[-1]
        now = tuple(float(v) for v in f.parameters.values())
        env_now = {k: tuple(float(v) for v in d.parameters.values()) for k, (d, _) in c["env"].items()}
        env_then = {k: pv for k, (_, pv) in c["env"].items()}
        if len(c["popt"]) != len(now):
            continue                    # some parameters are held fixed by equal bounds: scipy saw only the free ones
        if tuple(c["popt"]) != now:
            out.append((f, "holds %r but its last optimiser run returned %r" % (now, c["popt"])))
        elif env_then != env_now:
            k = [k for k in env_now if env_now[k] != env_then[k]][0]
            out.append((f, "its last optimiser run read the parameters %r of %r, which now holds %r" % (env_then[k], c["env"][k][0], env_now[k])))
    return out


def dep_order_oracle(DP, obs, case):
    """each function that was given data and whose conditioners were all given data must be a fit of its
    LAST data against the FINAL parameters of its conditioners: the residual cannot be improved (beyond
    tolerance) by the exact linear least-squares solution of that final problem"""
    deps, conds = obs["deps"], obs["conds"]
    n = len(deps)
    last = {}
    for (j, t), d in zip(case["ops"], obs["data"]):
        last[j] = d
    out = []
    extras = case.get("extras") or [None] * n
    closed = {}
    for j in range(n):              # creation order is a topological order; closed: j and all its ancestors were given data
        closed[j] = j in last and all(closed[c] for c in conds[j])
    for f, why in last_call_check(obs["calls"], deps):
        if closed[deps.index(f)]:   # C14_history_closed; a function reading a data-less ancestor is outside the property
            out.append(("stale", deps.index(f), why))
    for j in range(n):
        if j not in last:
            # C14_dataless_keeps_start: never handed data => still the start parameters
            if [float(v) for v in deps[j].parameters.values()] != [1.0, 1.0]:
                out.append(("stale", j, "was never given data but its parameters changed to %r" % [float(v) for v in deps[j].parameters.values()]))
            continue
        if not closed[j]:
            continue
        x, y = last[j]
        dp = deps[j].dependent_parameters
        A = basis_for(len(conds[j]), [dp[nm] for nm in ("g", "h") if nm in dp], x)
        if not np.all(np.isfinite(A)) or np.linalg.matrix_rank(A) < 2 or np.linalg.cond(A) > 1e6:
            out.append(("unjudgeable", j, "design"))
            continue
        p = np.array([float(v) for v in deps[j].parameters.values()])
        b = case.get("bounds")
        bj = b[j] if b else None
        if extras[j] == "weights":      # curve_fit(sigma=w): residuals are divided by w
            w = 1.0 / node_weights(x, y)
            A, y = A * w[:, None], np.asarray(y) * w
        s_now = float(np.sum((A @ p - y) ** 2))
        ref = np.linalg.lstsq(A, y, rcond=None)[0]
        ok_ref, _ = in_bounds(ref, bj, 0.0)
        if not ok_ref:
            # active bounds: reference = bounded linear least squares
            from scipy.optimize import lsq_linear
            lo = [(-np.inf if (v[0] is None) else v[0]) for v in bj]
            hi = [(np.inf if (v[1] is None) else v[1]) for v in bj]
            ref = lsq_linear(A, y, bounds=(lo, hi)).x
        s_ref = float(np.sum((A @ ref - y) ** 2))
        scale = float(np.sum(np.asarray(y) ** 2))
        rel, ab = (1e-5, 1e-9) if extras[j] not in ("cons", "conslist") else (1e-3, 2e-6)      # SLSQP: ftol 1e-6 absolute
        if s_now > s_ref * (1 + rel) + ab * max(1.0, scale):
            out.append(("stale", j, "residual %.6g against the final conditioners, %.6g attainable (params %r, lsq %r)"
                        % (s_now, s_ref, [float(v) for v in p], [float(v) for v in ref])))
        else:
            out.append(("ok", j, float(np.max(np.abs(p - ref) / np.maximum(1.0, np.abs(ref))))))
    return out


# ---------------------------------------------------------------------- single functions
def sh_lin(x, a, b):
    return a + b * x


def sh_poly2(x, a, b, c):
    return a + b * x + c * x * x


def sh_power3(x, a, b, c):
    return a + b * x ** c


def sh_exp3(x, a, b, c):
    return a + b * np.exp(c * x)


def sh_logistic4(x, a=1, b=1, c=-1, d=1):
    return a + b / (1 + np.exp(c * (x - d)))


def sh_asym3(x, a, b, c):
    return a + b / (1 + c * x)


def sh_sqrt2(x, a, b):
    return a + b * np.sqrt(x)


def sh_growth2(x, a, b):
    return a * (1 - np.exp(-b * x))


RANDOM_SHAPES = {
    "lin": (sh_lin, (1.0, 0.7), True), "poly2": (sh_poly2, (0.8, 0.5, 0.1), True),
    "power3": (sh_power3, (0.6, 1.1, 1.3), False), "exp3": (sh_exp3, (0.5, 0.8, 0.25), False),
    "logistic4": (sh_logistic4, (0.8, 1.5, -1.2, 2.5), False), "asym3": (sh_asym3, (0.3, 1.2, 0.6), False),
    "sqrt2": (sh_sqrt2, (0.6, 1.4), True), "growth2": (sh_growth2, (2.0, 0.6), False),
}


def predefined_functions(virocon):
    """the DependenceFunction objects of the predefined models, fresh from the getters"""
    out = {}
    d = virocon.get_DNVGL_Hs_Tz()[0][1]["parameters"]
    out["DNVGL_Tz.mu(power3)"] = (d["mu"], (0.7, 1.0, 0.15))
    out["DNVGL_Tz.sigma(exp3)"] = (d["sigma"], (0.07, 0.17, -0.3))
    d = virocon.get_DNVGL_Hs_U()[0][1]["parameters"]
    out["DNVGL_U.alpha(power3)"] = (d["alpha"], (2.0, 1.0, 1.2))
    d = virocon.get_OMAE2020_Hs_Tz()[0][1]["parameters"]
    out["OMAE_Tz.sigma(asymdecrease3)"] = (d["sigma"], (0.01, 0.25, 0.3))
    out["OMAE_Tz.mu(lnsquare2)"] = (d["mu"], (3.5, 5.0, 1.0))
    d = virocon.get_OMAE2020_V_Hs()[0][1]["parameters"]
    out["OMAE_Hs.beta(logistics4)"] = (d["beta"], (0.6, 1.6, -0.4, 9.0))
    d = virocon.get_Windmeier_EW_Hs_S()[0][1]["parameters"]
    out["Windmeier.beta(linear2)"] = (d["beta"], (1.5, 0.4))
    out["Windmeier.alpha(limited_growth2)"] = (d["alpha"], (0.06, 0.7))
    d = virocon.get_Nonzero_EW_Hs_S()[0][1]["parameters"]
    out["Nonzero.alpha(limited_growth_with_shift2)"] = (d["alpha"], (0.05, 0.6))
    return out


def gen_single(rng, virocon, k):
    """one configuration of the quantifier text; everything derived from rng"""
    c = {"seed": rng.randrange(1 << 30), "kind": "single"}
    if k % 3 == 0:
        names = sorted(predefined_functions(virocon).keys())
        c["shape"] = ("predefined", rng.choice(names))
    else:
        c["shape"] = ("random", rng.choice(sorted(RANDOM_SHAPES)))
    c["npts"] = rng.randrange(3, 21)
    c["bounds_kind"] = rng.choice(["none", "allnone", "lower", "upper", "both", "active", "mixed", "zero", "zero_active", "equal"])
    c["cons_kind"] = rng.choice(["none", "none", "none", "dict_inactive", "dict_active", "list_inactive", "list_active", "list2"])
    c["weights"] = rng.random() < 0.3
    c["noise"] = rng.choice([0.0, 0.01, 0.03])
    if k % 7 == 5:      # exactly two free parameters with constraints AND bounds (a [[l0, l1], [u0, u1]] mix-up is silent only there)
        c["shape"] = ("random", rng.choice(["lin", "sqrt2", "growth2"]))
        c["bounds_kind"] = rng.choice(["lower", "upper", "both", "active", "mixed", "zero", "both"])
        c["cons_kind"] = rng.choice(["dict_inactive", "dict_active", "list_inactive", "list_active", "list2"])
        c["weights"] = False
    return c


def realise_single(DP, virocon, c):
    """-> (DependenceFunction, x, y, description of declared bounds / constraints / weights) or None"""
    r = np.random.default_rng([c["seed"], 141])
    kind, name = c["shape"]
    if kind == "predefined":
        dep0, ptrue = predefined_functions(virocon)[name]
        func, bounds, weights = dep0.func, dep0.bounds, dep0.weights
        linear = "linear2" in name
        cons = None     # predefined models declare no constraints
        dep = dep0
        if c["cons_kind"] != "none":
            c = dict(c, cons_kind="none")
    else:
        func, ptrue, linear = RANDOM_SHAPES[name]
        bounds, weights, cons, dep = None, None, None, None
    npar = len(ptrue)
    if kind == "random" and c["bounds_kind"] == "zero_active" and linear:
        ptrue = (ptrue[0] + 6.0, -ptrue[1]) + tuple(ptrue[2:])      # the unconstrained optimum has a negative parameter 1
    x = np.sort(r.uniform(0.5, 12.0 if "Hs" in name or "OMAE_Hs" in name else 6.0, c["npts"]))
    y = np.asarray(func(x, *ptrue), dtype=float)
    y = y * (1 + c["noise"] * r.standard_normal(len(x)))
    if not np.all(np.isfinite(y)):
        return None
    if kind == "random":
        bk = c["bounds_kind"]
        pt = np.array(ptrue, dtype=float)
        if bk == "none":
            bounds = None
        elif bk == "allnone":
            bounds = [(None, None)] * npar
        elif bk == "lower":
            bounds = [(float(min(v, 1.0) - 2.0), None) for v in pt]
        elif bk == "upper":
            bounds = [(None, float(max(v, 1.0) + 2.0)) for v in pt]
        elif bk == "both":
            bounds = [(float(min(v, 1.0 if name != "logistic4" or i != 2 else -1.0) - 2.0),
                       float(max(v, 1.0 if name != "logistic4" or i != 2 else -1.0) + 2.0)) for i, v in enumerate(pt)]
        elif bk == "active":     # the unconstrained optimum violates the bound of parameter 1; start value stays inside
            start1 = 1.0
            hi = (pt[1] + start1) / 2 if pt[1] > start1 else None
            lo = (pt[1] + start1) / 2 if pt[1] < start1 else None
            bounds = [(None, None)] * npar
            bounds[1] = (None if lo is None else float(lo), None if hi is None else float(hi))
        elif bk in ("zero", "zero_active"):      # a bound AT zero on the side of the start value (predefined models: (0, None))
            start = [(-1.0 if (name == "logistic4" and i == 2) else 1.0) for i in range(npar)]
            bounds = [((0.0, None) if st > 0 else (None, 0.0)) for st in start]
        elif bk == "equal":                      # lower == upper: the parameter is held at that value ("0 <= z <= 0" in the docstring)
            # the held value is the start value (1) in a third of the cases and away from it otherwise (for shapes that are
            # not linear in their parameters only positive values near the start keep the other parameters identifiable)
            bounds = [(None, None)] * npar
            veq = ([1.0, 0.0, 0.25, -0.5, 2.0, 1.0] if linear else [1.0, 0.5, 2.0])[c["seed"] % (6 if linear else 3)]
            bounds[1] = (veq, veq)
        else:
            bounds = [((None, None) if i % 2 else (float(min(v, 1.0) - 1.0), None)) for i, v in enumerate(pt)]
        if name == "logistic4" and bounds is not None:
            pass
        if c["weights"]:
            weights = (lambda xx, yy: np.abs(yy) + 0.1)
        ck = c["cons_kind"]
        mid = float((pt[1] + 1.0) / 2) if abs(pt[1] - 1.0) > 1e-6 else float(pt[1] - 0.5)
        sgn = 1.0 if pt[1] < 1.0 else -1.0     # the feasible side contains the start value 1.0
        active = {"type": "ineq", "fun": (lambda p, m=mid, s=sgn: s * (p[1] - m))}
        inactive = {"type": "ineq", "fun": (lambda p, v=float(pt[0]): 100.0 + v - p[0])}
        cons = {"none": None, "dict_inactive": inactive, "dict_active": active, "list_inactive": [inactive],
                "list_active": [active], "list2": [inactive, active]}[ck]
        dep = DP.DependenceFunction(func, bounds=bounds, constraints=cons, weights=weights)
    return {"dep": dep, "x": x, "y": y, "bounds": bounds, "cons": cons, "weights": weights, "linear": linear,
            "func": func, "npar": npar, "ptrue": ptrue, "name": name, "active_cons": c["cons_kind"] in ("dict_active", "list_active", "list2")}


def single_oracle(DP, F, virocon, c, want_calls=False):
    """runs one fit of one function on the real code and judges it; returns (status, signature, message, calls)"""
    R = realise_single(DP, virocon, c)
    if R is None:
        return ("unjudgeable", None, "data", [])
    dep, x, y = R["dep"], R["x"], R["y"]
    p0 = tuple(float(v) for v in dep.parameters.values())
    with Rec(F, "real") as rec:
        try:
            dep.fit(x, y)
            exc = None
        except NotImplementedError as e:
            exc = "NotImplementedError"
        except (RuntimeError, TypeError, ValueError) as e:
            exc = type(e).__name__
            exc_msg = str(e)
    calls = rec.calls
    expect_notimpl = R["cons"] is not None and R["weights"] is not None
    if exc == "NotImplementedError" or expect_notimpl:
        if (exc == "NotImplementedError") != expect_notimpl:
            return ("fail", {"clause": "dispatch", "site": "_fit"}, "NotImplementedError %s but constraints+weights %s" % (exc, expect_notimpl), calls)
        return ("unjudgeable", None, "constraints+weights: NotImplementedError (documented)", calls)
    if exc == "ValueError" and "strictly less" in exc_msg and R["bounds"] is not None and any(lo is not None and lo == hi for lo, hi in R["bounds"]):
        return ("fail", {"clause": "bounds", "site": "fit_function", "kind": "equal-bounds"},
                "%s: bounds %r with lower == upper (a parameter held fixed, the docstring's own example `0 <= z <= 0`) make fit raise ValueError "
                "on the curve_fit path instead of returning parameters inside the bounds" % (R["name"], R["bounds"]), calls)
    if exc in ("ValueError", "TypeError") and R["cons"] is not None:
        # SLSQP has no minimum number of points and clips the start into the box: with valid declared bounds it has no reason to reject
        return ("fail", {"clause": "bounds", "site": "fit_constrained_function", "kind": "raises"},
                "%s: fit with bounds %r and %d constraint(s) raises %s: %s" % (R["name"], R["bounds"], len(cons_list(R["cons"])), exc, exc_msg[:120]), calls)
    if exc is not None:
        return ("unjudgeable", None, "optimiser raised " + exc, calls)
    p = np.array([float(v) for v in dep.parameters.values()])
    if not np.all(np.isfinite(p)):
        return ("unjudgeable", None, "non-finite result", calls)
    sigma = R["weights"](x, y) if R["weights"] is not None else None
    f = dep          # evaluates func with bound conditioners, like the optimiser does
    path = "slsqp" if R["cons"] is not None else "curve_fit"
    site = "fit_constrained_function" if path == "slsqp" else "fit_function"
    # --- bounds
    okb, info = in_bounds(p, R["bounds"], 1e-9 if path == "curve_fit" else 1e-7)
    if not okb:
        return ("fail", {"clause": "bounds", "site": site},
                "%s: parameter %d = %r outside its declared %s bound %r" % (R["name"], info[0], info[1], info[3], info[2]), calls)
    # --- constraints
    for i, cd in enumerate(cons_list(R["cons"])):
        v = float(cd["fun"](p))
        if v < -1e-6:
            return ("fail", {"clause": "constraints", "site": site},
                    "%s: declared inequality constraint %d violated: c(p) = %.6g < 0 at p = %r" % (R["name"], i, v, [float(t) for t in p]), calls)
    s_opt = ssr(f, x, y, p, sigma)
    # "no larger than at the start parameters": the start as the optimiser may use it, i.e. moved into the declared box (a parameter held by
    # equal bounds at a value other than its start value makes the raw start inadmissible)
    p0c = list(p0)
    if R["bounds"] is not None:
        for i, (lo, hi) in enumerate(R["bounds"]):
            if lo is not None and p0c[i] < lo:
                p0c[i] = float(lo)
            if hi is not None and p0c[i] > hi:
                p0c[i] = float(hi)
    s_start = ssr(f, x, y, p0c, sigma)
    if not math.isfinite(s_opt):
        return ("unjudgeable", None, "non-finite residual", calls)
    if math.isfinite(s_start) and s_opt > s_start * (1 + (1e-9 if path == "curve_fit" else 1e-6)) + 1e-300:
        return ("fail", {"clause": "not-worse-than-start", "site": site},
                "%s: residual %.8g after fitting > %.8g at the start parameters" % (R["name"], s_opt, s_start), calls)
    # --- nearby admissible perturbations (optimiser tolerance: curve_fit ftol/xtol 1e-8; SLSQP ftol 1e-6 absolute)
    judge_pert = path == "curve_fit" or R["linear"]
    rel_tol, abs_tol = (1e-6, 1e-12) if path == "curve_fit" else (1e-3, 2e-6)
    if path == "curve_fit" and R["bounds"] is not None:
        # trust-region-reflective keeps strictly inside the box and stops by xtol next to an ACTIVE bound
        for (lo, hi), v in zip(R["bounds"], p):
            if lo is not None and lo == hi:
                continue        # a held parameter is not a bound the trust region creeps towards
            for bnd in (lo, hi):
                if bnd is not None and abs(v - bnd) <= 1e-3 * max(1.0, abs(bnd)):
                    rel_tol, abs_tol = 1e-3, 1e-9
    pr = np.random.default_rng([c["seed"], 142])
    worst = None
    if judge_pert:
        for size in (1e-4, 1e-3, 1e-2):
            for _ in range(6):
                q = p + size * pr.standard_normal(len(p)) * np.maximum(np.abs(p), 1e-3)
                if R["bounds"] is not None:
                    lo = np.array([-np.inf if b[0] is None else b[0] for b in R["bounds"]])
                    hi = np.array([np.inf if b[1] is None else b[1] for b in R["bounds"]])
                    q = np.minimum(np.maximum(q, lo), hi)
                if any(float(cd["fun"](q)) < 0 for cd in cons_list(R["cons"])):
                    continue
                s_q = ssr(f, x, y, q, sigma)
                if math.isfinite(s_q) and s_opt > s_q * (1 + rel_tol) + abs_tol * max(1.0, float(np.sum(y * y))):
                    if worst is None or s_q < worst[0]:
                        worst = (s_q, size, [float(t) for t in q])
        if worst is not None:
            return ("fail", {"clause": "perturbation", "site": site, "path": path},
                    "%s: residual %.10g at the fitted parameters %r, but %.10g at the admissible perturbation %r (relative size %g)"
                    % (R["name"], s_opt, [float(t) for t in p], worst[0], worst[2], worst[1]), calls)
    # --- linear shapes with inactive bounds and no constraints: the unique linear least-squares solution
    if R["linear"] and R["cons"] is None:
        A = np.c_[[np.asarray(R["func"](x, *e), dtype=float) - np.asarray(R["func"](x, *np.zeros(R["npar"])), dtype=float)
                   for e in np.eye(R["npar"])]].T
        off = np.asarray(R["func"](x, *np.zeros(R["npar"])), dtype=float)
        w = 1.0 / np.asarray(sigma) if sigma is not None else np.ones_like(x)
        ref = np.linalg.lstsq(A * w[:, None], (y - off) * w, rcond=None)[0]
        okr, _ = in_bounds(ref, R["bounds"], 0.0)
        strictly_inside = okr and in_bounds(ref * (1 + 1e-6), R["bounds"], 0.0)[0] and in_bounds(ref * (1 - 1e-6), R["bounds"], 0.0)[0]
        if strictly_inside and np.linalg.cond(A * w[:, None]) < 1e6 and len(x) >= R["npar"]:
            d = float(np.max(np.abs(p - ref)) / max(1.0, float(np.max(np.abs(ref)))))
            s_ref = ssr(f, x, y, ref, sigma)
            # uniqueness is judged through the residual (the parameter error of a converged optimiser scales with
            # the conditioning of the design); a gross parameter difference is flagged as well
            if s_opt > s_ref * (1 + 1e-6) + 1e-9 * float(np.sum(y * y)) or d > 1e-3:
                return ("fail", {"clause": "linear-lsq", "site": site},
                        "%s: fitted %r differs from the linear least-squares solution %r (rel %.3g)" % (R["name"], [float(t) for t in p], [float(t) for t in ref], d), calls)
    # --- linear shapes with parameters HELD by equal bounds (all other bounds absent): the free parameters are the unique linear
    #     least-squares solution of the data minus the held parameters' contribution
    if R["linear"] and R["cons"] is None and R["bounds"] is not None and any(lo is not None and lo == hi for lo, hi in R["bounds"]) \
            and all((lo is None and hi is None) or (lo is not None and lo == hi) for lo, hi in R["bounds"]):
        held = [i for i, (lo, hi) in enumerate(R["bounds"]) if lo is not None and lo == hi]
        free = [i for i in range(R["npar"]) if i not in held]
        zero = np.asarray(R["func"](x, *np.zeros(R["npar"])), dtype=float)
        A = np.c_[[np.asarray(R["func"](x, *e), dtype=float) - zero for e in np.eye(R["npar"])]].T
        w = 1.0 / np.asarray(sigma) if sigma is not None else np.ones_like(x)
        rhs = y - zero - A[:, held] @ np.array([R["bounds"][i][0] for i in held], dtype=float)
        if free and len(x) >= len(free) and np.linalg.cond(A[:, free] * w[:, None]) < 1e6:
            ref = np.array(p, dtype=float)
            ref[held] = [R["bounds"][i][0] for i in held]
            ref[free] = np.linalg.lstsq(A[:, free] * w[:, None], rhs * w, rcond=None)[0]
            s_ref = ssr(f, x, y, ref, sigma)
            d = float(np.max(np.abs(p - ref)) / max(1.0, float(np.max(np.abs(ref)))))
            if s_opt > s_ref * (1 + 1e-6) + 1e-9 * float(np.sum(y * y)) or d > 1e-3:
                return ("fail", {"clause": "linear-lsq", "site": site, "kind": "held-by-equal-bounds"},
                        "%s with bounds %r (parameter(s) %r held): fitted %r, but the linear least-squares solution for the free parameters is %r "
                        "(residual %.8g against %.8g)" % (R["name"], R["bounds"], held, [float(t) for t in p], [float(t) for t in ref], s_opt, s_ref), calls)
    return ("ok" if judge_pert else "ok-no-perturbation-judgement", None, "", calls)


TINY_SIG = {"clause": "refit-tiny-start", "site": "fit_function", "kind": "minpack-relative-step"}


def tiny_start_refit_oracle(DP, offset, weighted=False):
    """fit followed by re-fit of one object, where the first fit leaves a parameter tiny but not zero (an intercept of `offset`): the
    re-fit starts from the previous estimate and must still return the linear least-squares solution of the new data"""
    def lin(x, a, b):
        return a + b * x
    x = np.linspace(0.5, 6.0, 9)
    f = DP.DependenceFunction(lin, weights=(lambda xx, yy: 1.0 + 0.1 * xx) if weighted else None)
    f.fit(x, 2.0 * x + offset)
    first = [float(v) for v in f.parameters.values()]
    f.fit(x, 5.0 + 2.0 * x)
    p = [float(v) for v in f.parameters.values()]
    if abs(p[0] - 5.0) > 1e-4 or abs(p[1] - 2.0) > 1e-4:
        return (dict(TINY_SIG), "f = DependenceFunction(a + b x%s); f.fit(x, 2 x + %g) gives %r; f.fit(x, 5 + 2 x) on x = linspace(0.5, 6, 9) then gives %r "
                "instead of (5, 2): the re-fit starts at the previous estimate and MINPACK's forward-difference step, relative to |a| = %.3g, is below "
                "the resolution of the residuals, so a never moves" % (", weights" if weighted else "", offset, first, p, abs(first[0])))
    return None


def weights_refit_oracle(DP, seed):
    """fit followed by re-fit on OTHER data with the same number of support points, weights callable that depends on the data:
    the re-fitted parameters minimise the squared residual weighted with the weights of the CURRENT data (= the weighted linear
    least-squares solution = what a freshly declared function gets on the same data), for a single function and for a chain of
    two whose dependent is declared and fitted first.  -> None or (signature, message)"""
    r = np.random.default_rng([seed, 143])
    n = int(r.integers(4, 15))
    sig_tiny = None
    wkind = ["y", "absy", "x_times_y"][seed % 3]
    wfun = {"y": (lambda x, y: y), "absy": (lambda x, y: np.abs(y) + 0.1), "x_times_y": (lambda x, y: 0.5 + x * np.abs(y))}[wkind]
    bounds = [None, [(None, None), (None, None)], [(-50.0, 50.0), (-50.0, 50.0)]][(seed // 3) % 3]

    def data(k):
        x = np.sort(r.uniform(0.5, 8.0, n))
        c = r.uniform(0.5, 3.0, 3)
        y = (c[0] + c[1] * x if k % 2 == 0 else c[0] * 4 + 9.0 / (x + c[2])) * (1 + 0.05 * r.standard_normal(n))
        return x, np.abs(y) + 0.2

    def lin(x, a, b):
        return a + b * x

    def wlsq(x, y, extra=None):
        w = 1.0 / np.asarray(wfun(x, y), dtype=float)            # curve_fit(sigma=weights): residuals are divided by them
        A = np.c_[np.ones_like(x), x if extra is None else extra]
        return np.linalg.lstsq(A * w[:, None], y * w, rcond=None)[0]

    datasets = [data(k) for k in range(7)]
    f = DP.DependenceFunction(lin, bounds=bounds, weights=wfun)
    for k, (x, y) in enumerate(datasets[:3]):
        before = [float(v) for v in f.parameters.values()]
        f.fit(x, y)
        p = np.array([float(v) for v in f.parameters.values()])
        if any(0 < abs(b0) < 1e-6 and float(v) == b0 for b0, v in zip(before, p)):
            sig_tiny = dict(TINY_SIG)
        ref = wlsq(x, y)
        fresh = DP.DependenceFunction(lin, bounds=bounds, weights=wfun)
        fresh.fit(x, y)
        q = np.array([float(v) for v in fresh.parameters.values()])
        if np.max(np.abs(p - ref)) > 1e-4 * max(1.0, float(np.max(np.abs(ref)))) or np.max(np.abs(p - q)) > 1e-6 * max(1.0, float(np.max(np.abs(q)))):
            return (sig_tiny or {"clause": "weights-refit", "site": "_fit", "fit_number": min(k, 1)},
                    "DependenceFunction(a + b x, bounds=%r, weights=%s), fit number %d of the same object on %d points (x=%r, y=%r): parameters %r, "
                    "the weighted linear least-squares solution of THESE data is %r and a freshly declared function gets %r"
                    % (bounds, wkind, k + 1, n, x.tolist(), y.tolist(), p.tolist(), ref.tolist(), q.tolist()))
    # chain: dependent g(x) = a + b * h(x) declared and fitted first, then its conditioner h; both with data-dependent weights
    def dep_shape(x, a, b, h=None):
        return a + b * h(x)
    h = DP.DependenceFunction(lin, weights=wfun)
    g = DP.DependenceFunction(dep_shape, weights=wfun, h=h)
    for k in range(2):
        (xg, yg), (xh, yh) = datasets[3 + 2 * k], datasets[4 + 2 * k]      # every fit on data of its own
        g.fit(xg, yg)
        before = [float(v) for v in g.parameters.values()] + [float(v) for v in h.parameters.values()]
        h.fit(xh, yh)
        ph = np.array([float(v) for v in h.parameters.values()])
        pg = np.array([float(v) for v in g.parameters.values()])
        if any(0 < abs(b0) < 1e-6 and float(v) == b0 for b0, v in zip(before, list(pg) + list(ph))):
            sig_tiny = dict(TINY_SIG)
        rh = wlsq(xh, yh)
        rg = wlsq(xg, yg, extra=rh[0] + rh[1] * xg)
        for nm, pp, rr in (("conditioner", ph, rh), ("dependent", pg, rg)):
            if np.max(np.abs(pp - rr)) > 1e-4 * max(1.0, float(np.max(np.abs(rr)))):
                return (sig_tiny or {"clause": "weights-refit", "site": "_fit", "fit_number": min(k, 1), "chain": nm},
                        "chain g = a + b h(x), h = a + b x, weights=%s on both, round %d of (fit g, fit h) on %d points: the %s has parameters %r, "
                        "the weighted least-squares solution of the current data is %r" % (wkind, k + 1, n, nm, pp.tolist(), rr.tolist()))
    return None


# ---------------------------------------------------------------------- dispatch correspondence
def opt_fl(v):
    return "None" if v is None else "(Some %s)" % fl(float(v))


def bounds_term(b):
    if b is None:
        return "None"
    return "(Some [%s])" % "; ".join("(%s, %s)" % (opt_fl(lo), opt_fl(hi)) for lo, hi in b)


def coq_dispatch_case(R, calls, exc):
    hw = R["weights"] is not None
    ncons = None if R["cons"] is None else len(cons_list(R["cons"]))
    head = "dispatch_cmp %s %s %s" % ("true" if hw else "false", bounds_term(R["bounds"]),
                                     "None" if ncons is None else "(Some %d%%nat)" % ncons)
    if exc == "NotImplementedError" or not calls:
        return "(%s true true false None None 0%%nat)" % head
    c = calls[0]
    kw = c["kw"]
    if c["engine"] == "curve_fit":
        box = "None"
        if "bounds" in kw:
            lo, hi = kw["bounds"]
            box = "(Some (%s, %s))" % (vlib.fl_list([float(v) for v in lo]), vlib.fl_list([float(v) for v in hi]))
        return "(%s false true %s %s None 0%%nat)" % (head, "true" if kw.get("sigma") is not None else "false", box)
    try:
        raw = bounds_term(kw.get("bounds"))
    except (TypeError, ValueError):     # not a sequence of (lower, upper) pairs at all: cannot equal the declared bounds
        raw = "(Some [(Some 0x1p+1000, Some (-0x1p+1000))])"
    k = kw.get("constraints", ())
    k = 1 if isinstance(k, dict) else len(list(k))
    return "(%s false false false None %s %d%%nat)" % (head, raw, k)


def coq_held_case(R, calls):
    """equal bounds on the curve_fit path: the sub-problem handed to curve_fit and the final vector against model/HeldParams.v"""
    hw = R["weights"] is not None
    p0 = [float(v) for v in R["dep"].parameters.values()]          # a fresh object: the start values
    bs = "[%s]" % "; ".join("(%s, %s)" % (opt_fl(lo), opt_fl(hi)) for lo, hi in R["bounds"])
    if calls:
        c = calls[0]
        final = [float(v) for v in c["func"].parameters.values()]
        lo, hi = c["kw"].get("bounds", ([], []))
        emb = "26%nat"        # no probe observed: the function handed over is not a closure around the declared one
        if c.get("embed_probe") and c["embed_probe"][1] is not None:
            emb = "embed_cmp %s %s %s %s" % (bs, vlib.fl_list(p0), vlib.fl_list(c["embed_probe"][0]), vlib.fl_list(list(c["embed_probe"][1])))
        return "(match held_cmp %s %s %s true %s (%s, %s) %s %s %s with O => %s | k => k end)" % (
            "true" if hw else "false", bs, vlib.fl_list(p0), vlib.fl_list(list(c["p0"])),
            vlib.fl_list([float(v) for v in lo]), vlib.fl_list([float(v) for v in hi]),
            "true" if c["kw"].get("sigma") is not None else "false", vlib.fl_list(list(c["popt"])), vlib.fl_list(final), emb)
    return None


# ---------------------------------------------------------------------- ConditionalDistribution.fit loop
TEMPLATES = [("Weibull", {}), ("Weibull", {}), ("Weibull", {"f_alpha": 2.0}), ("Weibull", {"f_beta": 1.7}), ("Weibull", {"f_gamma": 0.1}),
             ("Weibull", {"f_alpha": 2.0, "f_beta": 1.7}), ("Weibull", {"f_beta": 1.7, "f_gamma": 0.1}),
             ("LogNormal", {}), ("LogNormal", {"f_mu": 0.5}), ("LogNormal", {"f_sigma": 0.3}),
             ("Normal", {"f_mu": 1.0}), ("Normal", {"f_sigma": 0.8})]


def make_template(virocon, t):
    fam, fixed = t
    cls = {"Weibull": virocon.WeibullDistribution, "LogNormal": virocon.LogNormalDistribution, "Normal": virocon.NormalDistribution}[fam]
    return cls(**fixed)


def interval_data(virocon, fam, nint, r, rd=0):
    """per-interval samples whose fitted parameters vary with the interval"""
    out = []
    for i in range(nint):
        rs = int(r.integers(1 << 30))
        if fam == "Weibull":
            out.append(virocon.WeibullDistribution(alpha=1 + i + rd, beta=1.5 + 0.2 * i, gamma=0.1).draw_sample(25, random_state=rs))
        elif fam == "LogNormal":
            out.append(virocon.LogNormalDistribution(mu=0.3 + 0.2 * i + 0.1 * rd, sigma=0.2 + 0.05 * i).draw_sample(25, random_state=rs))
        else:
            out.append(virocon.NormalDistribution(mu=0.5 + 0.4 * i + 0.1 * rd, sigma=0.5 + 0.1 * i).draw_sample(25, random_state=rs))
    return out


def cond_dist_case(rng, k):
    """chains among the dependence functions of the conditional parameters of one distribution; the template may hold
    parameters FIXED in first / middle / last position, so that the conditional ones are a proper subset of param_names"""
    t = TEMPLATES[k % len(TEMPLATES)] if k < 2 * len(TEMPLATES) else rng.choice(TEMPLATES)
    allp = {"Weibull": ["alpha", "beta", "gamma"], "LogNormal": ["mu", "sigma"], "Normal": ["mu", "sigma"]}[t[0]]
    names = [p for p in allp if "f_" + p not in t[1]]
    perm = list(names)
    rng.shuffle(perm)                       # creation order of the functions = perm
    ctbl = [[], [0] if rng.random() < 0.8 else [], rng.choice([[0], [1], [0, 1], []])][:len(names)]
    decl = list(names)
    rng.shuffle(decl)                       # order of the keys in the `parameters` dict
    return {"kind": "conddist", "perm": perm, "ctbl": ctbl, "decl": decl, "rounds": rng.choice([1, 2]), "seed": rng.randrange(1 << 30),
            "template": [t[0], dict(t[1])]}


def run_cond_dist(virocon, DP, F, c, mode="tag"):
    deps = build(DP, c["ctbl"])
    by_name = {nm: deps[i] for i, nm in enumerate(c["perm"])}
    params = {nm: by_name[nm] for nm in c["decl"]}
    from virocon.distributions import ConditionalDistribution
    tmpl = c.get("template") or ["Weibull", {}]
    cd = ConditionalDistribution(make_template(virocon, tmpl), params)
    idx = {id(f): j for j, f in enumerate(deps)}
    r = np.random.default_rng([c["seed"], 143])
    ys_rounds = []
    template_before = dict(cd.distribution.parameters)
    with Rec(F, mode) as rec:
        for rd in range(c["rounds"]):
            nint = int(r.integers(3, 6))
            data = interval_data(virocon, tmpl[0], nint, r, rd)
            cv = [0.5 + i for i in range(nint)]
            cd.fit(data, cv, [(v - 0.5, v + 0.5) for v in cv], "mle")
            ys_rounds.append({nm: [float(p[nm]) for p in cd.parameters_per_interval] for nm in cd.param_names})
    # data tags by content of y
    def tag_of(y):
        yl = [float(v) for v in y]
        for rd, d in enumerate(ys_rounds):
            for pi, nm in enumerate(cd.param_names):
                if d[nm] == yl:
                    return 10 * rd + pi
        return 99
    log = [(idx[id(cl["func"])], tag_of(cl["y"])) for cl in rec.calls]
    ops = [(idx[id(by_name[nm])], 10 * rd + pi) for rd in range(c["rounds"]) for pi, nm in enumerate(cd.param_names) if nm in by_name]
    terms = {}
    conds = model_conds(deps)
    for cl in rec.calls:
        j = idx[id(cl["func"])]
        p0t = terms.get(cl["p0"], "(Start %d)" % j)
        envt = [terms.get(pv, "(Start %d)" % i) for i, pv in sorted((idx[k], v[1]) for k, v in cl["env"].items())]
        terms[cl["popt"]] = "(Fitted %d %d %s [%s])" % (j, tag_of(cl["y"]), p0t, "; ".join(envt))
    trees = [terms.get(tuple(float(v) for v in f.parameters.values()), "(Start %d)" % j) for j, f in enumerate(deps)]
    obs = {"conds": conds, "log": log, "trees": trees, "may": [bool(f._may_fit) for f in deps],
           "saved": [tag_of(f.y) if getattr(f, "y", None) is not None else None for f in deps],
           "fc": [sorted(idx[id(x)] for x in f._fitted_conditioners) for f in deps]}
    template_same = dict(cd.distribution.parameters) == template_before
    return {"ctbl": c["ctbl"], "ops": ops}, obs, template_same


def cond_dist_real_oracle(virocon, DP, c):
    """real optimiser: every conditional parameter gets a dependence function a + b*x; after ConditionalDistribution.fit each
    must be the linear least-squares line through (conditioning value, per-interval estimate OF ITS OWN PARAMETER)"""
    from virocon.distributions import ConditionalDistribution
    tmpl = c["template"]
    dist = make_template(virocon, tmpl)
    names = [p for p in dist.parameters if getattr(dist, "f_" + p) is None]

    def line(x, a, b):
        return a + b * x
    order = names if not c.get("reverse") else names[::-1]
    params = {nm: DP.DependenceFunction(line) for nm in order}
    chain = None
    if c.get("chain") and len(names) >= 2:
        # the function of one parameter uses the function of another as a parameter; `chain` = (conditioner, dependent):
        # "first" = the conditioner's parameter comes FIRST in the distribution's parameter order (it is fitted before the
        # dependent has ever been given data), "last" = the dependent is handed its data first
        cond_nm, dep_nm = (names[0], names[1]) if c["chain"] == "first" else (names[-1], names[0])

        def on_other(x, a, b, g):
            return a * g(x) + b * x * x
        params[dep_nm] = DP.DependenceFunction(on_other, g=params[cond_nm])
        chain = (cond_nm, dep_nm)
    cd = ConditionalDistribution(dist, params)
    r = np.random.default_rng([c["seed"], 144])
    nint = c.get("nint", 5)
    data = interval_data(virocon, tmpl[0], nint, r)
    cv = [0.5 + i for i in range(nint)]
    try:
        cd.fit(data, cv, [(v - 0.5, v + 0.5) for v in cv], "mle")
    except RuntimeError:
        return None
    x = np.asarray(cv, dtype=float)
    A = np.c_[np.ones_like(x), x]
    for nm in names:
        y = np.array([float(pp[nm]) for pp in cd.parameters_per_interval])
        A = np.c_[np.ones_like(x), x]
        if chain and nm == chain[1]:        # least-squares chain: basis evaluated with the FINAL conditioner function
            A = np.c_[cd.conditional_parameters[chain[0]](x), x * x]
            if np.linalg.cond(A) > 1e6:
                continue
        ref = np.linalg.lstsq(A, y, rcond=None)[0]
        got = np.array([float(v) for v in cd.conditional_parameters[nm].parameters.values()])
        s_ref, s_got = float(np.sum((A @ ref - y) ** 2)), float(np.sum((A @ got - y) ** 2))
        if s_got > s_ref * (1 + 1e-6) + 1e-9 * max(1.0, float(np.sum(y * y))):
            others = {o: [round(float(pp[o]), 4) for pp in cd.parameters_per_interval] for o in cd.param_names if o != nm}
            return ({"clause": "conditional-fit-data", "site": "ConditionalDistribution.fit"},
                    "%sDistribution(%s), conditional %r%s: the dependence function of %s holds %r, the least-squares fit to its per-interval "
                    "estimates %r is %r (residual %.4g vs %.4g); estimates of the other parameters: %r"
                    % (tmpl[0], ", ".join("%s=%r" % kv for kv in tmpl[1].items()), names,
                       "" if not chain else " (the function of %s uses the function of %s)" % (chain[1], chain[0]), nm, [round(float(v), 5) for v in got],
                       [round(float(v), 4) for v in y], [round(float(v), 5) for v in ref], s_got, s_ref, others))
    return "ok"


# ---------------------------------------------------------------------- chains: all declaration x call orders
def chain_cases(thorough):
    """chains of length 2-3; every creation order compatible with the dependencies is fixed by Python itself
    (conditioners are constructor arguments), so the DECLARATION order that can vary is the order in which the
    functions are attached to parameters / handed to fit; every call order, with and without re-fit"""
    shapes = [[[], [0]], [[], [0], [1]], [[], [0], [0, 1]], [[], [], [0, 1]]]
    out = []
    for ctbl in shapes:
        n = len(ctbl)
        for order in itertools.permutations(range(n)):
            out.append({"ctbl": ctbl, "calls": list(order), "refit": None})
            for rj in (range(n) if thorough else [0, n - 1]):
                out.append({"ctbl": ctbl, "calls": list(order) + [rj], "refit": rj})
            # a complete second round with the dependents handed their new data BEFORE their conditioners
            out.append({"ctbl": ctbl, "calls": list(order) + list(range(n))[::-1], "refit": "reverse"})
        if thorough:
            for order in itertools.permutations(range(n)):
                for order2 in itertools.permutations(range(n)):
                    out.append({"ctbl": ctbl, "calls": list(order) + list(order2), "refit": "all"})
    return out


def run_chain(DP, F, ctbl, calls, seed, bounds=None):
    """call order `calls`; the data of function j is fixed per (j, round) so that different call orders end with
    the same last data"""
    seen = {}
    ops = []
    for j in calls:
        seen[j] = seen.get(j, -1) + 1
        ops.append((j, 100 * seen[j] + j))
    case = {"ctbl": ctbl, "ops": ops, "seed": seed, "bounds": bounds}
    # make_xy keys data by (seed, tag, j): tag = 100*round + j  -> same data for the same (j, round)
    obs = run_protocol(DP, F, case, "real")
    return case, obs


# ---------------------------------------------------------------------- arguments that must not matter
def irrelevance_check(ctx, DP, F, virocon, rng, n):
    """the latex label, and whether x / y arrive as float ndarrays, python lists or tuples, cannot change the fit"""
    bad = 0
    for k in range(n):
        c = gen_single(rng, virocon, 1)       # random shapes only
        c["weights"] = False
        R = realise_single(DP, virocon, c)
        if R is None or R["cons"] is not None and R["weights"] is not None:
            continue
        res = []
        for variant in ("plain", "latex", "lists", "tuples"):
            dep = DP.DependenceFunction(R["func"], bounds=R["bounds"], constraints=R["cons"], weights=R["weights"],
                                        latex="$a + b * x^{c}$" if variant == "latex" else None)
            x, y = R["x"], R["y"]
            if variant == "lists":
                x, y = [float(v) for v in x], [float(v) for v in y]
            if variant == "tuples":
                x, y = tuple(float(v) for v in x), tuple(float(v) for v in y)
            try:
                dep.fit(x, y)
                res.append(tuple(float(v) for v in dep.parameters.values()))
            except NotImplementedError:
                res.append("NotImplementedError")
            except (RuntimeError, TypeError, ValueError) as e:
                res.append(type(e).__name__)
        ctx.count(("irrelevance", c["shape"], c["bounds_kind"], c["cons_kind"], c["npts"]), True)
        if any(r != res[0] for r in res[1:]):
            bad += 1
            i = [r != res[0] for r in res].index(True)
            ctx.violation({"clause": "irrelevant-argument", "site": "DependenceFunction.fit", "variant": ("plain", "latex", "sequence", "sequence")[i],
                           "path": "slsqp" if R["cons"] is not None else "curve_fit"},
                          "%s: fitting with %s gives %r instead of %r" % (R["name"], ("plain", "a latex label", "x, y as lists", "x, y as tuples")[i], res[i], res[0]),
                          {"kind": "irrelevance", "case": c})
    ctx.notes["irrelevant_arguments"] = {"configurations": n, "differences": bad}


# ---------------------------------------------------------------------- the predefined chain through the whole model
def synth_v_hs(n, seed):
    r = np.random.default_rng([seed, 1414])
    v = r.weibull(2.0, n) * 9
    return np.c_[v, (0.4 + 0.03 * v ** 1.8) * r.weibull(2.0, n) + 0.05]


def polish_gap(dep, x, y):
    """relative improvement of the (weighted) squared residual that scipy still finds when started AT the fitted parameters
    of `dep` with the CURRENT parameters of its conditioners (0 = the stored parameters are a fit against them)"""
    from scipy.optimize import curve_fit
    x, y = np.asarray(x, dtype=float), np.asarray(y, dtype=float)
    p = np.array([float(v) for v in dep.parameters.values()])
    sig = dep.weights(x, y) if dep.weights is not None else None
    lo = [(-np.inf if b[0] is None else b[0]) for b in dep.bounds]
    hi = [(np.inf if b[1] is None else b[1]) for b in dep.bounds]
    q, _ = curve_fit(dep, x, y, p, sigma=sig, bounds=(lo, hi))
    s0, s1 = ssr(dep, x, y, p, sig), ssr(dep, x, y, q, sig)
    return (s0 - s1) / max(s0, 1e-300), s0


def model_chain_check(ctx, virocon, rng, n, F=None):
    """get_OMAE2020_V_Hs: alpha(x) uses the fitted beta(x) as a parameter and is declared (and handed its data) BEFORE beta.
    Whole-model fit and re-fit, the `parameters` dict in both orders: alpha must be a fit against the FINAL beta, the
    declaration order must not matter at all, and a re-fitted model must agree with a fresh model fitted to the second data."""
    stat = {"judged": 0, "unjudgeable": 0, "max_polish_gap": 0.0, "max_refit_vs_fresh": 0.0}

    def make(order):
        dd, fd, _ = virocon.get_OMAE2020_V_Hs()
        pars = dd[1]["parameters"]
        dd[1]["parameters"] = {k: pars[k] for k in order}
        return virocon.GlobalHierarchicalModel(dd), fd

    def params(m):
        return {k: [float(v) for v in f.parameters.values()] for k, f in m.distributions[1].conditional_parameters.items()}
    for it in range(n):
        seed = rng.randrange(1 << 30)
        A, B = synth_v_hs(3000, seed), synth_v_hs(2500, seed + 1)
        import virocon._fitting as FF
        try:
            with Rec(FF, "real") as rec:
                m1, fd1 = make(["alpha", "beta"])
                m2, fd2 = make(["beta", "alpha"])
                m3, fd3 = make(["alpha", "beta"])
                m1.fit(A, fd1)
                m2.fit(A, fd2)
                m1.fit(B, fd1)          # re-fit: alpha is first fitted against the OLD beta, then again after beta
                m3.fit(B, fd3)
        except RuntimeError:
            stat["unjudgeable"] += 1
            continue
        for nm, m in (("fit(A); fit(B)", m1), ("parameters declared (beta, alpha)", m2), ("fresh", m3)):
            fs = list(m.distributions[1].conditional_parameters.values())
            for f, why in last_call_check(rec.calls, fs):
                ctx.violation({"clause": "dependency-order", "site": "GlobalHierarchicalModel.fit"},
                              "get_OMAE2020_V_Hs (%s): %r %s" % (nm, f, why), {"kind": "model-chain", "seed": seed})
        ctx.count(("model-chain", seed), True)
        stat["judged"] += 1
        rep = {"kind": "model-chain", "seed": seed}
        # declaration order: the same numbers, bit for bit (m2 saw only A; compare it with a model that saw only A)
        m4, fd4 = make(["alpha", "beta"])
        m4.fit(A, fd4)
        if params(m4) != params(m2):
            ctx.violation({"clause": "declaration-order", "site": "ConditionalDistribution.fit"},
                          "get_OMAE2020_V_Hs fitted with parameters declared as (alpha, beta) gives %r, as (beta, alpha) %r" % (params(m4), params(m2)), rep)
        for nm, m in (("re-fitted", m1), ("fresh", m3), ("fresh, other declaration order", m2)):
            for pn, f in m.distributions[1].conditional_parameters.items():
                mine = [c for c in rec.calls if c["func"] is f]
                if not mine:
                    continue
                try:
                    gap, s0 = polish_gap(f, mine[-1]["x"], mine[-1]["y"])
                except (RuntimeError, ValueError):
                    continue
                stat["max_polish_gap"] = max(stat["max_polish_gap"], gap)      # optimiser quality (oracle): reported, not judged
        # re-fit vs fresh (different start values): same residuals within optimiser tolerance
        for pn in ("alpha", "beta"):
            f1, f3 = m1.distributions[1].conditional_parameters[pn], m3.distributions[1].conditional_parameters[pn]
            mine = [c for c in rec.calls if c["func"] is f3]
            if not mine:
                continue
            x, y = np.asarray(mine[-1]["x"], dtype=float), np.asarray(mine[-1]["y"], dtype=float)
            sig = f3.weights(x, y) if f3.weights is not None else None
            s1, s3 = ssr(f1, x, y, [float(v) for v in f1.parameters.values()], sig), ssr(f3, x, y, [float(v) for v in f3.parameters.values()], sig)
            d = abs(s1 - s3) / max(s1, s3, 1e-300)
            stat["max_refit_vs_fresh"] = max(stat["max_refit_vs_fresh"], d)
            if d > 1e-3:        # different start values, non-convex shape: two optimiser end points, not a protocol matter
                stat["unjudgeable"] += 1
    ctx.notes["predefined_chain_through_model"] = stat


# ====================================================================== replay
def replay(ctx, rp):
    virocon, F, DP = _imp()
    if rp.get("kind") in ("irrelevance", "model-chain"):
        import random

        class C:
            def __init__(s):
                s.v, s.notes = [], {}

            def count(s, *a, **k):
                pass

            def violation(s, sig, what, r):
                s.v.append(what)
        c = C()
        if rp["kind"] == "model-chain":
            class R1:
                def randrange(s, n):
                    return rp["seed"]
            model_chain_check(c, virocon, R1(), 1)
        else:
            class R2(random.Random):
                pass
            orig = gen_single
            globals()["gen_single"] = lambda rng, v, k: dict(rp["case"])
            try:
                irrelevance_check(c, DP, F, virocon, R2(0), 1)
            finally:
                globals()["gen_single"] = orig
        for w in c.v[:3]:
            print("  ", w)
        return bool(c.v)
    if rp.get("kind") == "conddist-real":
        o = cond_dist_real_oracle(virocon, DP, rp["case"])
        if isinstance(o, tuple):
            print("  ", o[1])
        return isinstance(o, tuple)
    if rp.get("kind") == "tiny-start":
        o = tiny_start_refit_oracle(DP, rp["offset"], rp.get("weighted", False))
        if o is not None:
            print("  ", o[1])
        return o is not None
    if rp.get("kind") == "weights-refit":
        o = weights_refit_oracle(DP, rp["seed"])
        if o is not None:
            print("  ", o[1])
        return o is not None
    if rp.get("kind") == "single":
        st, sig, msg, _ = single_oracle(DP, F, virocon, rp["case"])
        if st == "fail":
            print("  ", msg)
        return st == "fail"
    if rp.get("kind") == "protocol":
        case = rp["case"]
        case["ops"] = [tuple(o) for o in case["ops"]]
        obs = run_protocol(DP, F, case, "real")
        bad = [o for o in dep_order_oracle(DP, obs, case) if o[0] == "stale"]
        for b in bad:
            print("  function %d: %s" % (b[1], b[2]))
        return bool(bad)
    if rp.get("kind") == "order":
        a = run_chain(DP, F, rp["ctbl"], rp["calls_a"], rp["seed"])[1]
        b = run_chain(DP, F, rp["ctbl"], rp["calls_b"], rp["seed"])[1]
        pa = [[float(v) for v in f.parameters.values()] for f in a["deps"]]
        pb = [[float(v) for v in f.parameters.values()] for f in b["deps"]]
        d = max(abs(u - v) / max(1.0, abs(v)) for x, y in zip(pa, pb) for u, v in zip(x, y))
        print("   max relative difference of final parameters: %.3g" % d)
        return d > 1e-5
    return False


# ====================================================================== run
def run(ctx):
    virocon, F, DP = _imp()
    ctx.proof_gate()
    rng = ctx.rng
    items, meta = [], []

    # ---------------- (a)+(b) protocol correspondence
    n_tag = ctx.n(600, 6000)
    n_real = ctx.n(150, 1500)
    cases = []
    for i in range(n_tag + n_real):
        ctbl = gen_dag(rng, 4 if ctx.quick() else 5)
        n = len(ctbl)
        case = {"ctbl": ctbl, "ops": gen_ops(rng, n, 6), "seed": rng.randrange(1 << 30),
                "swap_kw": [rng.random() < 0.3 for _ in range(n)], "mode": "tag" if i < n_tag else "real"}
        if case["mode"] == "real" and rng.random() < 0.5:
            case["bounds"] = [rng.choice(BOUND_KINDS) for _ in range(n)]
        if rng.random() < 0.5:      # some nodes weighted (curve_fit sigma), some routed through SLSQP by a declared constraint
            case["extras"] = [rng.choice([None, None, "weights", "cons", "conslist"]) for _ in range(n)]
        cases.append(case)
    lines, which = [], []
    stale_inputs = []
    hist_nontrivial = 0
    for case in cases:
        obs = run_protocol(DP, F, case, case["mode"])
        case["obs_err"] = obs["err"]
        # non-trivial: some dependent is given data before one of its conditioners, or a re-fit happens
        first = {}
        refit = False
        for pos, (j, t) in enumerate(case["ops"]):
            refit = refit or j in first
            first.setdefault(j, pos)
        early = any(j in first and any(c not in first or first[c] > first[j] for c in obs["conds"][j]) for j in range(len(case["ctbl"])))
        nontriv = bool(early or refit)
        hist_nontrivial += nontriv
        ctx.count(("protocol", case["mode"], tuple(map(tuple, case["ctbl"])), tuple(case["ops"]), tuple(case["swap_kw"])), nontriv)
        if obs["err"] is not None:
            ctx.notes["protocol_runs_with_optimiser_error"] = ctx.notes.get("protocol_runs_with_optimiser_error", 0) + 1
            continue
        lines.append(coq_protocol_case(case, obs, with_trees=(case["mode"] == "tag")))
        which.append(case)
        if case["mode"] == "real":
            for o in dep_order_oracle(DP, obs, case):
                if o[0] == "stale":
                    stale_inputs.append((case, o))
                elif o[0] == "unjudgeable":
                    ctx.notes["dependency_order_unjudgeable"] = ctx.notes.get("dependency_order_unjudgeable", 0) + 1
                else:
                    ctx.notes["dependency_order_judged"] = ctx.notes.get("dependency_order_judged", 0) + 1
    for c in cases[:2]:
        ctx.sample({"conds": c["ctbl"], "ops": c["ops"], "mode": c["mode"]})

    # ---------------- (c) ConditionalDistribution.fit loop
    n_cd = ctx.n(60, 400)
    cd_lines, cd_cases = [], []
    for k in range(n_cd):
        c = cond_dist_case(rng, k)
        try:
            mcase, obs, template_same = run_cond_dist(virocon, DP, F, c)
        except Exception as e:  # noqa
            ctx.notes["conddist_errors"] = ctx.notes.get("conddist_errors", 0) + 1
            continue
        ctx.count(("conddist", tuple(c["perm"]), tuple(map(tuple, c["ctbl"])), tuple(c["decl"]), c["rounds"]), True)
        cd_lines.append(coq_protocol_case(mcase, obs, with_trees=True))
        cd_cases.append((c, mcase, obs))
        if not template_same:
            ctx.violation({"clause": "template", "site": "ConditionalDistribution.fit"},
                          "ConditionalDistribution.fit changed the template's own parameters", {"kind": "conddist", "case": c})

    # real optimiser: each conditional parameter is regressed on ITS OWN per-interval estimates (templates with fixed parameters)
    ncd_real = {"judged": 0, "unjudgeable": 0}
    cd_fail = None
    for k in range(ctx.n(2, 8) * len(TEMPLATES)):
        cc = {"template": [TEMPLATES[k % len(TEMPLATES)][0], dict(TEMPLATES[k % len(TEMPLATES)][1])], "seed": rng.randrange(1 << 30),
              "reverse": bool(k % 2), "nint": rng.randrange(3, 7), "chain": [None, "first", "last"][(k // len(TEMPLATES) + k) % 3]}
        o = cond_dist_real_oracle(virocon, DP, cc)
        ctx.count(("conddist-real", str(cc["template"]), cc["reverse"], cc["nint"], cc["seed"]), o is not None)
        if o is None:
            ncd_real["unjudgeable"] += 1
            continue
        ncd_real["judged"] += 1
        if isinstance(o, tuple) and cd_fail is None:
            small = cc
            for ni in (3, 4):       # shrink: fewer intervals
                if ni < cc["nint"]:
                    o2 = cond_dist_real_oracle(virocon, DP, dict(cc, nint=ni))
                    if isinstance(o2, tuple):
                        small, o = dict(cc, nint=ni), o2
                        break
            cd_fail = True
            ctx.violation(o[0], o[1], {"kind": "conddist-real", "case": small})
    ctx.notes["conditional_fit_real_optimiser"] = ncd_real

    # ---------------- re-fits with weights that depend on the data (every run)
    nwr, wr_fail = 0, 0
    for _ in range(ctx.n(24, 240)):
        sd = rng.randrange(1 << 30)
        try:
            o = weights_refit_oracle(DP, sd)
        except (RuntimeError, ValueError, TypeError) as e:      # optimiser failure: not judged
            ctx.notes["weights_refit_unjudged"] = ctx.notes.get("weights_refit_unjudged", 0) + 1
            continue
        nwr += 1
        ctx.count(("weights-refit", sd), True)
        if o is not None and wr_fail < 2:
            wr_fail += 1
            ctx.violation(o[0], o[1], {"kind": "weights-refit", "seed": sd})
    ctx.notes["weights_refit_histories"] = nwr
    # fit, then re-fit from an estimate that is tiny but not zero (KNOWN finding F-C14-refit-from-tiny-estimate on the unchanged tree)
    for off, wgt in ((1e-9, False), (1e-8, False), (-1e-9, True), (1e-10, False), (0.0, False), (1e-3, False)):
        o = tiny_start_refit_oracle(DP, off, wgt)
        ctx.count(("tiny-start", off, wgt), True)
        if o is not None:
            ctx.violation(o[0], o[1], {"kind": "tiny-start", "offset": off, "weighted": wgt})

    # ---------------- (d) single functions: dispatch correspondence + property oracle
    n_single = ctx.n(700, 8000)
    singles = [gen_single(rng, virocon, k) for k in range(n_single)]
    # EVERY run: shapes linear in their parameters with one parameter held (lower == upper) at 0, 0.25, -0.5, 2 -- away from the start value 1 --
    # with and without weights
    for j, (shp, veq_idx) in enumerate([("lin", 1), ("poly2", 1), ("sqrt2", 2), ("poly2", 3), ("lin", 4), ("poly2", 2), ("sqrt2", 3), ("poly2", 4)]):
        c = gen_single(rng, virocon, 1)
        c.update(shape=("random", shp), bounds_kind="equal", cons_kind="none", weights=(j % 3 == 2), npts=max(c["npts"], 5))
        c["seed"] = c["seed"] - c["seed"] % 6 + veq_idx
        singles.insert(j, c)
    disp_lines, disp_cases = [], []
    held_lines, held_cases = [], []
    single_fail = []
    stat = {}
    for c in singles:
        st, sig, msg, calls = single_oracle(DP, F, virocon, c)
        stat[st] = stat.get(st, 0) + 1
        key = (c["shape"], c["npts"], c["bounds_kind"], c["cons_kind"], c["weights"], c["noise"])
        ctx.count(("single",) + key, st != "unjudgeable")
        R = realise_single(DP, virocon, c)
        has_equal = R is not None and R["bounds"] is not None and any(lo is not None and lo == hi for lo, hi in R["bounds"])
        if has_equal and R["cons"] is None and calls and calls[0]["engine"] == "curve_fit" and "popt" in calls[0]:
            hl = coq_held_case(R, calls)
            if hl is not None:
                held_lines.append(hl)
                held_cases.append(c)
        elif has_equal:
            ctx.notes["dispatch_not_compared (equal bounds with constraints: SLSQP takes the raw bounds)"] = ctx.notes.get("dispatch_not_compared (equal bounds with constraints: SLSQP takes the raw bounds)", 0) + 1
        if R is not None and not has_equal and (calls or "NotImplementedError" in msg):
            disp_lines.append(coq_dispatch_case(R, calls, "NotImplementedError" if "NotImplementedError" in msg else None))
            disp_cases.append(c)
        if st == "fail":
            single_fail.append((c, sig, msg))
        elif st == "unjudgeable":
            k2 = "unjudgeable: " + msg.split(":")[0][:40]
            ctx.notes[k2] = ctx.notes.get(k2, 0) + 1
    ctx.notes["single_function_outcomes"] = stat
    ctx.sample({"single": singles[0]})

    irrelevance_check(ctx, DP, F, virocon, rng, ctx.n(40, 400))
    model_chain_check(ctx, virocon, rng, ctx.n(4, 30))

    # ---------------- evaluate the model (vm_compute), sharded
    def shard(name, ls):
        out = []
        for s in range(0, len(ls), 300):
            scope = "Local Open Scope float_scope.\n" if name in ("dispatch", "held") else "Local Open Scope nat_scope.\n"
            body = PRELUDE + scope + "Definition results : list nat := [\n" + ";\n".join(ls[s:s + 300]) + "].\nEval vm_compute in results.\n"
            out.append((name + "_%d" % (s // 300), body))
        return out
    groups = [("protocol", lines, which), ("conddist", cd_lines, cd_cases), ("dispatch", disp_lines, disp_cases), ("held", held_lines, held_cases)]
    all_items = []
    for name, ls, _ in groups:
        all_items += shard(name, ls)
    outs = ctx.coq_eval_many(all_items, jobs=12)
    codes = {}
    for (name, _), o in zip(all_items, outs):
        g = name.rsplit("_", 1)[0]
        if o is None:
            continue
        codes.setdefault(g, []).extend(vlib.parse_term(o[0]))
    names = {1: "model returned no state", 2: "final parameter terms", 3: "_may_fit", 4: "saved data", 5: "_fitted_conditioners",
             6: "order of optimiser calls", 10: "engine", 11: "sigma", 12: "bounds handed to curve_fit", 13: "bounds handed to minimize",
             14: "constraints handed to minimize", 15: "NotImplementedError", 21: "start values of the free parameters handed to curve_fit",
             22: "box of the free parameters' bounds", 23: "sigma (held path)", 24: "final parameter vector (held values / optimiser result scattered)",
             25: "held path taken / optimiser consulted", 26: "parameter vector at which the closure handed to curve_fit evaluates the declared function"}
    corr = {}
    suspects_protocol, suspects_single = [], []
    for g, ls, cs in groups:
        got = codes.get(g, [])
        corr[g] = {"compared": len(got), "mismatches": sum(1 for v in got if v != 0)}
        for v, c in zip(got, cs):
            if v != 0:
                ctx.mismatch("%s case" % g, "%s differ: %r" % (names.get(v, v), c if g != "conddist" else c[0]))
                if g == "protocol":
                    suspects_protocol.append(c)
                elif g in ("dispatch", "held"):
                    suspects_single.append(c)
                else:
                    suspects_protocol.append({"ctbl": c[0]["ctbl"], "ops": [(j, t) for j, t in c[1]["ops"]], "seed": c[0]["seed"], "swap_kw": None})
    ctx.notes["correspondence"] = corr
    ctx.cov["programs"] = 4

    # ---------------- search
    found = 0
    # 1. single-function failures (suspects of the dispatch correspondence first)
    order = [f for f in single_fail if f[0] in suspects_single] + [f for f in single_fail if f[0] not in suspects_single]
    seen_sig = set()
    for c, sig, msg in order:
        key = tuple(sorted(sig.items()))
        if key in seen_sig and found >= 3:
            continue
        seen_sig.add(key)
        # shrink: fewer support points / no noise while the same clause still fails
        small = dict(c)
        for npts in (3, 4, 5, 6, 8, 10):
            if npts >= c["npts"]:
                break
            t = dict(c, npts=npts, noise=0.0)
            st2, sig2, msg2, _ = single_oracle(DP, F, virocon, t)
            if st2 == "fail" and sig2 == sig:
                small, msg = t, msg2
                break
        if ctx.violation(sig, msg, {"kind": "single", "case": small}):
            found += 1
        if found >= 8:
            break
    # 2. dependency order on suspects (real optimiser), then the stale cases seen in the stream
    for c in suspects_protocol[:200]:
        case = {"ctbl": c["ctbl"], "ops": [tuple(o) for o in c["ops"]], "seed": c["seed"], "swap_kw": c.get("swap_kw"),
                "bounds": c.get("bounds"), "extras": c.get("extras")}
        obs = run_protocol(DP, F, case, "real")
        if obs["err"] is None:
            for o in dep_order_oracle(DP, obs, case):
                if o[0] == "stale":
                    stale_inputs.append((case, o))
    reported = 0
    for case, o in stale_inputs:
        if reported >= 3:
            break

        def fails(ops):
            cc = dict(case, ops=list(ops))
            ob = run_protocol(DP, F, cc, "real")
            return ob["err"] is None and any(r[0] == "stale" for r in dep_order_oracle(DP, ob, cc))
        ops = vlib.shrink_list(case["ops"], fails)
        small = {"ctbl": case["ctbl"], "ops": ops, "seed": case["seed"], "swap_kw": case.get("swap_kw"), "bounds": case.get("bounds"),
                 "extras": case.get("extras")}
        ob = run_protocol(DP, F, small, "real")
        res = [r for r in dep_order_oracle(DP, ob, small) if r[0] == "stale"] or [o]
        if ctx.violation({"clause": "dependency-order", "site": "DependenceFunction.fit/callback"},
                         "conds %r, fit calls %r: function %d is not a fit against the final parameters of its conditioners: %s"
                         % (small["ctbl"], [j for j, _ in ops], res[0][1], res[0][2]),
                         {"kind": "protocol", "case": small}):
            reported += 1
    # 3. order independence: chains of length 2-3, all call orders, re-fits (same last data => same parameters)
    chains = chain_cases(not ctx.quick())
    groups_by = {}
    nchain = 0
    seed = rng.randrange(1 << 30)
    for ch in chains:
        case, obs = run_chain(DP, F, ch["ctbl"], ch["calls"], seed)
        nchain += 1
        if obs["err"] is not None:
            ctx.notes["chain_runs_with_optimiser_error"] = ctx.notes.get("chain_runs_with_optimiser_error", 0) + 1
            continue
        ctx.count(("chain", tuple(map(tuple, ch["ctbl"])), tuple(ch["calls"])), True)
        for o in dep_order_oracle(DP, obs, case):
            if o[0] == "stale" and reported < 3:
                if ctx.violation({"clause": "dependency-order", "site": "DependenceFunction.fit/callback"},
                                 "chain %r, fit calls %r: function %d: %s" % (ch["ctbl"], ch["calls"], o[1], o[2]),
                                 {"kind": "protocol", "case": case}):
                    reported += 1
        # last data per function identifies the class of histories that must agree
        lastd = {}
        for j, t in case["ops"]:
            lastd[j] = t
        key = (tuple(map(tuple, ch["ctbl"])), tuple(sorted(lastd.items())))
        pars = [[float(v) for v in f.parameters.values()] for f in obs["deps"]]
        groups_by.setdefault(key, []).append((ch["calls"], pars))
    worst = 0.0
    order_viol = 0
    for key, runs in groups_by.items():
        if len(key[1]) < len(key[0]):
            continue
        base_calls, base = runs[0]
        for calls, pars in runs[1:]:
            d = max(abs(u - v) / max(1.0, abs(v)) for x, y in zip(pars, base) for u, v in zip(x, y))
            worst = max(worst, d)
            if d > 1e-5 and order_viol < 2:
                if ctx.violation({"clause": "order-independence", "site": "DependenceFunction.fit/callback"},
                                 "chain %r: fit call orders %r and %r end with the same last data but parameters differ by %.3g (relative)"
                                 % ([list(c) for c in key[0]], base_calls, calls, d),
                                 {"kind": "order", "ctbl": [list(c) for c in key[0]], "calls_a": base_calls, "calls_b": calls, "seed": seed}):
                    order_viol += 1
    ctx.notes["order_independence"] = {"histories": nchain, "classes": len(groups_by), "max_rel_param_difference": worst}
    ctx.notes["histories_nontrivial"] = hist_nontrivial
    ctx.notes["input_distribution"] = {
        "protocol_histories": {"tagging optimiser": n_tag, "real optimiser": n_real, "functions": "1-%d" % (4 if ctx.quick() else 5),
                               "conditioners per function": "0-2 (same conditioner twice allowed)", "fit calls": "1-6"},
        "conditional_distribution_fits": len(cd_cases), "single_function_fits": n_single, "chain_histories": nchain}
    ctx.cov["rule"] = ("histories: random DAGs (<=4/5 functions, 0-2 conditioners each, keyword order swapped at random) x 1-6 fit calls; "
                       "non-trivial = some dependent is given data before one of its conditioners or some function is re-fitted; "
                       "single fits: predefined shapes and random polynomial/power/exponential/logistic/asymptotic shapes, 3-20 points, all bound kinds, "
                       "constraints dict/list active/inactive, with/without weights; non-trivial = the fit could be judged; distinct = hash of the configuration")
    ctx.cov["trusted_base"] = ["Coq 8.16.1 kernel + vm_compute", "harness tools/harness/c14.py (recorder, generators, tolerances)",
                               "optimiser quality of scipy curve_fit / SLSQP is an oracle contract (judged with tolerances: curve_fit 1e-6 relative, SLSQP 1e-3 relative + 2e-6 absolute on linear shapes only)",
                               "numpy.linalg.lstsq / scipy lsq_linear as reference solvers of the linear problems"]
    ctx.assumptions += ["conditioners are created before their dependents (constructor arguments)",
                        "F_ext: the optimiser of j reads only data, start value and the parameters of j's conditioners",
                        "engine_feasible: scipy results are feasible for the problem handed over (curve_fit box; successful SLSQP run)",
                        "optimiser failures (RuntimeError/TypeError/ValueError from scipy) are outside the property and counted as unjudgeable"]
