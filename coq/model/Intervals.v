(* Executable model of virocon/intervals.py (the three slicers, dropping, slice_).
   The generic part (Section Gen) is parametric in the value type and its order and is the
   object of the C10 theorems; the binary64 part computes the edge vectors exactly as numpy
   does and is run against the implementation by the correspondence check. *)
From Coq Require Import List Bool Arith ZArith PrimFloat.
From V.base Require Import FloatBits.
Import ListNotations.

Inductive kind := RightOpen | LeftOpen | Closed.

Section Gen.
  Variable T : Type.
  Variable leb : T -> T -> bool.
  Definition ltb (a b : T) : bool := negb (leb b a).

  Definition inb (k : kind) (iv : T * T) (d : T) : bool :=
    match k with
    | RightOpen => leb (fst iv) d && ltb d (snd iv)
    | LeftOpen => ltb (fst iv) d && leb d (snd iv)
    | Closed => leb (fst iv) d && leb d (snd iv)
    end.

  (* consecutive pairs of ONE edge vector: the lower limit of interval i+1 is, as a value,
     the upper limit of interval i *)
  Fixpoint intervals (e : list T) : list (T * T) :=
    match e with a :: ((b :: _) as tl) => (a, b) :: intervals tl | _ => [] end.

  (* all intervals of kind k, except that the last one is closed when close_last is set *)
  Fixpoint kinds (k : kind) (close_last : bool) (n : nat) : list kind :=
    match n with
    | O => []
    | S O => [if close_last then Closed else k]
    | S n' => k :: kinds k close_last n'
    end.

  Definition mask (k : kind) (iv : T * T) (data : list T) : list bool := map (inb k iv) data.

  Definition count_true (m : list bool) : nat := length (filter (fun b => b) m).

  Record row (R : Type) := mkrow { r_mask : list bool; r_ref : R; r_bounds : T * T }.
  Arguments mkrow {R}. Arguments r_mask {R}. Arguments r_ref {R}. Arguments r_bounds {R}.

  Definition rows_of {R} (k : kind) (close_last : bool) (e : list T) (refs : list R) (data : list T) : list (row R) :=
    let ivs := intervals e in
    map (fun x => mkrow (mask (fst (fst x)) (snd (fst x)) data) (snd x) (snd (fst x)))
        (combine (combine (kinds k close_last (length ivs)) ivs) refs).

  (* _drop_too_small_intervals *)
  Definition drop {R} (min_n_points : nat) (rs : list (row R)) : list (row R) :=
    filter (fun r => min_n_points <=? count_true (r_mask r)) rs.

  (* slice_: RuntimeError iff fewer than min_n_intervals rows remain *)
  Definition finish {R} (min_n_intervals : nat) (rs : list (row R)) : option (list (row R)) :=
    if length rs <? min_n_intervals then None else Some rs.

  (* ---- PointsPerIntervalSlicer: the sorting permutation is an oracle (np.argsort) *)
  Fixpoint chunks (n : nat) (fuel : nat) (l : list nat) : list (list nat) :=
    match fuel with
    | O => []
    | S f => match l with [] => [] | _ => firstn n l :: chunks n f (skipn n l) end
    end.
  Definition ppi_chunks (n_points : nat) (last_full : bool) (perm : list nat) : list (list nat) :=
    let len := length perm in
    let rem := len mod n_points in
    if rem =? 0 then chunks n_points len perm
    else if last_full then firstn rem perm :: chunks n_points len (skipn rem perm)
    else chunks n_points len (firstn (len - rem) perm) ++ [skipn (len - rem) perm].
  Definition mem (j : nat) (l : list nat) : bool := existsb (Nat.eqb j) l.
  Definition mask_of_idc (len : nat) (idc : list nat) : list bool := map (fun j => mem j idc) (seq 0 len).
  Definition ppi_masks (n_points : nat) (last_full : bool) (perm : list nat) : list (list bool) :=
    map (mask_of_idc (length perm)) (ppi_chunks n_points last_full perm).
End Gen.

Arguments mkrow {T R}. Arguments r_mask {T R}. Arguments r_ref {T R}. Arguments r_bounds {T R}.

(* ------------------------------------------------------------------ binary64 instance *)
Local Open Scope float_scope.

Definition fleb := PrimFloat.leb.

Inductive refkind := RCenter | RLeft | RRight | RCallable.

(* WidthOfIntervalSlicer._slice: one edge vector starts ++ [last start + width] *)
Definition width_edges (data_min data_max width : float) : list float * list float :=
  let starts := arange data_min (data_max + width) width in
  (starts, starts ++ [last starts nan + width]).

Definition width_refs (r : refkind) (starts : list float) (width : float) : list float :=
  let c := map (fun s => s + 0.5 * width) starts in
  match r with
  | RCenter | RCallable => c
  | RRight => map (fun x => x + 0.5 * width) c
  | RLeft => map (fun x => x - 0.5 * width) c
  end.

Definition width_slice (width : float) (r : refkind) (right_open : bool)
           (vmin vmax : option float) (min_n_points min_n_intervals : nat) (data : list float)
  : option (list (row float float)) :=
  let data_min := match vmin with Some v => v | None => 0 end in
  let data_max := match vmax with Some v => v | None => fmax data end in
  let '(starts, edges) := width_edges data_min data_max width in
  let rs := rows_of float fleb (if right_open then RightOpen else LeftOpen) false edges (width_refs r starts width) data in
  finish float min_n_intervals (drop float min_n_points rs).

(* NumberOfIntervalsSlicer._slice: edges = linspace starts ++ [upper end of the value range] *)
Definition number_edges (v0 v1 : float) (n : nat) : list float * float * list float :=
  let '(starts, w) := linspace_open v0 v1 n in (starts, w, starts ++ [v1]).

Definition number_refs (r : refkind) (starts : list float) (w : float) : list float :=
  match r with
  | RCenter | RCallable => map (fun s => s + 0.5 * w) starts
  | RRight => map (fun s => s + w) starts
  | RLeft => starts
  end.

Definition number_slice (n : nat) (r : refkind) (include_max : bool)
           (vr : option (float * float)) (min_n_points min_n_intervals : nat) (data : list float)
  : option (list (row float float)) :=
  let '(v0, v1) := match vr with Some p => p | None => (fmin data, fmax data) end in
  let '(starts, w, edges) := number_edges v0 v1 n in
  let rs := rows_of float fleb RightOpen include_max edges (number_refs r starts w) data in
  finish float (Nat.min n min_n_intervals) (drop float min_n_points rs).

(* PointsPerIntervalSlicer: masks from the recorded argsort permutation; boundaries from the
   surviving intervals (midpoints between neighbours) *)
Definition sel (m : list bool) (data : list float) : list float :=
  map snd (filter (fun p => fst p) (combine m data)).

Fixpoint ppi_bounds (lower : float) (cur : list float) (rest : list (list float)) : list (float * float) :=
  match rest with
  | [] => [(lower, fmax cur)]
  | nxt :: rest' => let up := (fmax cur + fmin nxt) / 2 in (lower, up) :: ppi_bounds up nxt rest'
  end.

Definition ppi_slice (n_points : nat) (last_full : bool) (min_n_points min_n_intervals : nat)
           (perm : list nat) (data : list float) : option (list (list bool) * list (float * float)) :=
  let mnp := Nat.min n_points min_n_points in
  if (length perm <? n_points)%nat then None (* np.split into 0 chunks raises *) else
  let ms := filter (fun m => (mnp <=? count_true m)%nat) (ppi_masks n_points last_full perm) in
  match map (fun m => sel m data) ms with
  | [] => None
  | first :: rest =>
      if (length ms <? min_n_intervals)%nat then None
      else Some (ms, ppi_bounds (fmin first) first rest)
  end.

(* contract of the argsort oracle, checked on every case: a permutation that sorts the data *)
Fixpoint sortedb (l : list float) : bool :=
  match l with a :: ((b :: _) as tl) => PrimFloat.leb a b && sortedb tl | _ => true end.
Definition is_perm (perm : list nat) : bool :=
  forallb (fun j => Nat.eqb (length (filter (Nat.eqb j) perm)) 1) (seq 0 (length perm)).
Definition argsort_ok (perm : list nat) (data : list float) : bool :=
  Nat.eqb (length perm) (length data) && is_perm perm && sortedb (map (fun j => nth j data nan) perm).
