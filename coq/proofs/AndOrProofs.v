(* Lemmas for C04: exit invariant of the ray search of model/AndOr.v (any number structure), tolerance and
   positivity over the reals, closure lists. *)
From Coq Require Import Reals Lra Psatz List ZArith Lia Bool.
From V.model Require Import AndOr.
Import ListNotations.

(* ------------------------------------------------------------------ the search loop, any number structure *)
Section Search.
  Variable T : Type.
  Variable K : ops T.
  Variable m : mode.
  Variable sample : list (T * T).
  Variables (alpha allowed : T) (u : T * T) (maxd : T).

  Notation srch := (fun fuel => search T K fuel m sample alpha allowed u maxd).
  Definition next_rs (rs pe' : T) : T := if ltb K alpha pe' then rs else mul K (c05 K) rs.
  Definition next_rd (rd rs pe' : T) : T := if ltb K alpha pe' then add K rd rs else sub K rd (next_rs rs pe').
  Definition pe_at (v : T * T) : T := pe_of T K (count T K m v sample) (length sample).

  Lemma search_step f rd rs pe vec trace :
    search T K (S (S f)) m sample alpha allowed u maxd rd rs pe vec trace =
    if not_precise T K alpha allowed pe then
      let v := point_at T K u rd maxd in
      search T K (S f) m sample alpha allowed u maxd (next_rd rd rs (pe_at v)) (next_rs rs (pe_at v)) (pe_at v) (Some v)
             (trace ++ [count T K m v sample])
    else mkray vec pe false trace.
  Proof. reflexivity. Qed.
  Lemma search_last rd rs pe vec trace :
    search T K 1 m sample alpha allowed u maxd rd rs pe vec trace =
    if not_precise T K alpha allowed pe then
      let v := point_at T K u rd maxd in mkray (Some v) (pe_at v) true (trace ++ [count T K m v sample])
    else mkray vec pe false trace.
  Proof. reflexivity. Qed.

  (* invariant I of (rel_dist, rel_step_size) kept by both updates: the returned vector is the point of some visited
     rel_dist satisfying I, and the returned pe is the exceedance fraction AT THAT VECTOR (same iteration) *)
  Section Inv.
    Variable I : T -> T -> Prop.
    Hypothesis I_step : forall rd rs pe', I rd rs -> I (next_rd rd rs pe') (next_rs rs pe').
    Definition good (vec : option (T * T)) (pe : T) : Prop :=
      forall v, vec = Some v -> exists rd0 rs0, I rd0 rs0 /\ v = point_at T K u rd0 maxd /\ pe = pe_at v.

    Lemma search_inv : forall fuel rd rs pe vec trace, (1 <= fuel)%nat -> I rd rs -> good vec pe ->
      let r := search T K fuel m sample alpha allowed u maxd rd rs pe vec trace in good (r_vec r) (r_pe r).
    Proof.
      induction fuel as [|f IH]; intros rd rs pe vec trace Hf HI Hg; [lia|].
      destruct f as [|f].
      - rewrite search_last. destruct (not_precise T K alpha allowed pe); cbn; [|exact Hg].
        intros v Hv. inversion Hv; subst. exists rd, rs. auto.
      - rewrite search_step. destruct (not_precise T K alpha allowed pe); [|exact Hg].
        cbv zeta. apply IH; [lia|apply I_step; exact HI|].
        intros v Hv. inversion Hv; subst. exists rd, rs. auto.
    Qed.
  End Inv.

  (* no warning => the loop ended because its condition became false *)
  Lemma search_not_warned : forall fuel rd rs pe vec trace,
    not_precise T K alpha allowed pe = false \/ (1 <= fuel)%nat ->
    let r := search T K fuel m sample alpha allowed u maxd rd rs pe vec trace in
    r_warned r = false -> not_precise T K alpha allowed (r_pe r) = false.
  Proof.
    induction fuel as [|f IH]; intros rd rs pe vec trace Hf.
    - cbn. destruct Hf as [Hf|Hf]; [|lia]. rewrite Hf. cbn. auto.
    - destruct f as [|f].
      + rewrite search_last. destruct (not_precise T K alpha allowed pe) eqn:E; cbn; [discriminate|auto].
      + rewrite search_step. destruct (not_precise T K alpha allowed pe) eqn:E; [|cbn; auto].
        cbv zeta. apply IH. right. lia.
  Qed.

  (* once a vector exists the search returns one (fuel >= 1: the out-of-fuel branch is not reachable) *)
  Lemma search_has_vector : forall fuel rd rs pe v trace, (1 <= fuel)%nat ->
    r_vec (search T K fuel m sample alpha allowed u maxd rd rs pe (Some v) trace) <> None.
  Proof.
    induction fuel as [|f IH]; intros rd rs pe v trace Hf; [lia|]. destruct f as [|f].
    - rewrite search_last. destruct (not_precise T K alpha allowed pe); cbn; discriminate.
    - rewrite search_step. destruct (not_precise T K alpha allowed pe); [|cbn; discriminate].
      cbv zeta. apply IH. lia.
  Qed.

  (* the loop body runs at least once when the start value 0 of current_pe is not within tolerance *)
  Lemma search_runs_once rd rs trace : not_precise T K alpha allowed (zero K) = true ->
    r_vec (search T K max_iterations m sample alpha allowed u maxd rd rs (zero K) None trace) <> None.
  Proof.
    intros H. change max_iterations with (S (S 98)). rewrite search_step, H. cbv zeta. apply search_has_vector. lia.
  Qed.
  (* ... and when it is within tolerance the body never runs: no vector (the source reads an unbound name) *)
  Lemma search_never_runs rd rs trace : not_precise T K alpha allowed (zero K) = false ->
    r_vec (search T K max_iterations m sample alpha allowed u maxd rd rs (zero K) None trace) = None.
  Proof. intros H. change max_iterations with (S (S 98)). rewrite search_step, H. reflexivity. Qed.

  (* at most max_iterations iterations *)
  Lemma search_trace_length : forall fuel rd rs pe vec trace,
    (length (r_trace (search T K fuel m sample alpha allowed u maxd rd rs pe vec trace)) <= length trace + fuel)%nat.
  Proof.
    induction fuel as [|f IH]; intros rd rs pe vec trace.
    - cbn. destruct (not_precise T K alpha allowed pe); cbn; lia.
    - destruct f as [|f].
      + rewrite search_last. destruct (not_precise T K alpha allowed pe); cbn; rewrite ?app_length; cbn; lia.
      + rewrite search_step. destruct (not_precise T K alpha allowed pe); [|cbn; lia].
        cbv zeta. etransitivity; [apply IH|]. rewrite app_length. cbn. lia.
  Qed.
End Search.

(* ------------------------------------------------------------------ closure lists, any number structure *)
Section Closure.
  Variable T : Type.
  Variable K : ops T.

  Lemma points_spec : forall (rs : list (ray T)) l, points T rs = Some l -> map Some l = map r_vec rs.
  Proof.
    induction rs as [|r rs IH]; intros l H; cbn in H.
    - inversion H. reflexivity.
    - destruct (r_vec r) eqn:E; [|discriminate]. destruct (points T rs) eqn:E2; [|discriminate].
      inversion H; subst. cbn. rewrite E. f_equal. apply IH. reflexivity.
  Qed.
  Lemma points_none : forall (rs : list (ray T)), points T rs = None <-> exists r, In r rs /\ r_vec r = None.
  Proof.
    induction rs as [|r rs IH]; cbn.
    - split; [discriminate|intros [r [[] _]]].
    - destruct (r_vec r) eqn:E; [destruct (points T rs) eqn:E2|].
      + split; [discriminate|]. intros [r0 [[Hr|Hin] H0]]; [subst r0; congruence|].
        exfalso. assert (X : Some l = None) by (apply IH; exists r0; auto). discriminate X.
      + split; [intros _|reflexivity]. destruct IH as [IH _]. destruct (IH eq_refl) as [r0 [H1 H2]]. exists r0. auto.
      + split; [intros _|reflexivity]. exists r. auto.
  Qed.
  Lemma points_length (rs : list (ray T)) l : points T rs = Some l -> length l = length rs.
  Proof. intros H. apply points_spec in H. apply (f_equal (@length _)) in H. rewrite !map_length in H. exact H. Qed.

  (* AndContour: the searched points in ray order, then (0, 0) *)
  Lemma and_coords_spec (rs : list (ray T)) l : and_coords T K rs = Some l ->
    exists pts, map Some pts = map r_vec rs /\ l = pts ++ [(zero K, zero K)] /\ length l = S (length rs).
  Proof.
    unfold and_coords. destruct (points T rs) as [pts|] eqn:E; [|discriminate]. intros H. inversion H; subst.
    exists pts. split; [apply points_spec; exact E|]. split; [reflexivity|].
    rewrite app_length, (points_length rs pts E). cbn. lia.
  Qed.
  Lemma and_coords_error (rs : list (ray T)) : and_coords T K rs = None <-> exists r, In r rs /\ r_vec r = None.
  Proof. unfold and_coords. rewrite <- points_none. destruct (points T rs); split; intros; congruence. Qed.

  (* OrContour: exactly the searched points inside the range, unchanged and in ray order, then the three closure points *)
  Lemma or_coords_spec (sample : list (T * T)) (rs : list (ray T)) dflt l : or_coords T K sample rs dflt = Some l ->
    let xmax := mul K (c11 K) (maxl T K (map fst sample) dflt) in
    let ymax := mul K (c11 K) (maxl T K (map snd sample) dflt) in
    exists pts kept first,
      map Some pts = map r_vec rs /\ kept = filter (in_range T K xmax ymax) pts /\ hd_error kept = Some first /\
      l = kept ++ [(zero K, snd (last kept first)); (zero K, zero K); (fst first, zero K)].
  Proof.
    unfold or_coords. destruct (points T rs) as [pts|] eqn:E; [|discriminate]. cbv zeta.
    set (kept := filter _ pts). unfold or_close. destruct kept as [|first kept'] eqn:Ek; [discriminate|].
    intros H. inversion H; subst. exists pts, (first :: kept'), first. repeat split.
    - apply points_spec; exact E.
    - symmetry. exact Ek.
  Qed.
  Lemma kept_unaltered (xmax ymax : T) (pts : list (T * T)) p :
    In p (filter (in_range T K xmax ymax) pts) <-> In p pts /\ ltb K (fst p) xmax = true /\ ltb K (snd p) ymax = true.
  Proof. rewrite filter_In. unfold in_range. rewrite andb_true_iff. tauto. Qed.
End Closure.

(* ------------------------------------------------------------------ real-number instance *)
Local Open Scope R_scope.
Definition Rltb (a b : R) : bool := if Rlt_dec a b then true else false.
Lemma Rltb_true a b : Rltb a b = true <-> a < b.
Proof. unfold Rltb. destruct (Rlt_dec a b); split; intros; auto; try discriminate; contradiction. Qed.
Lemma Rltb_false a b : Rltb a b = false <-> b <= a.
Proof. unfold Rltb. destruct (Rlt_dec a b); split; intros; auto; try discriminate; lra. Qed.

Definition Rops : ops R :=
  mkops R Rplus Rminus Rmult Rdiv Rabs sqrt INR Rltb 0 (/ 10) (2 / 10) (/ 2) (11 / 10) 180 PI cos sin 100 Int_part.

Section Reals.
  Variable m : mode.
  Variable sample : list (R * R).
  Variables (alpha allowed xm ym theta : R).

  (* strict comparisons: an observation on the boundary does not exceed *)
  Lemma exceeds_and_R v p : exceeds R Rops And v p = true <-> fst v < fst p /\ snd v < snd p.
  Proof. cbn. rewrite andb_true_iff, !Rltb_true. tauto. Qed.
  Lemma exceeds_or_R v p : exceeds R Rops Or v p = true <-> fst v < fst p \/ snd v < snd p.
  Proof. cbn. rewrite orb_true_iff, !Rltb_true. tauto. Qed.

  Lemma not_precise_R pe : 0 < alpha -> not_precise R Rops alpha allowed pe = false <-> Rabs (pe - alpha) <= allowed * alpha.
  Proof.
    intros Ha. unfold not_precise. cbn [ltb absf sub div Rops]. rewrite Rltb_false. split; intros H.
    - apply (Rmult_le_compat_r alpha) in H; [|lra]. unfold Rdiv in H. rewrite Rmult_assoc, Rinv_l, Rmult_1_r in H by lra. exact H.
    - apply (Rmult_le_reg_r alpha); [lra|]. unfold Rdiv. rewrite Rmult_assoc, Rinv_l, Rmult_1_r by lra. exact H.
  Qed.

  (* invariant of (rel_dist, rel_step_size): the step never carries the distance below 0.1 *)
  Definition dist_inv (rd rs : R) : Prop := / 10 <= rd - rs /\ 0 < rs.
  Lemma dist_inv_step rd rs pe' : dist_inv rd rs -> dist_inv (next_rd R Rops alpha rd rs pe') (next_rs R Rops alpha rs pe').
  Proof. unfold dist_inv, next_rd, next_rs. cbn. destruct (Rltb alpha pe'); intros [H1 H2]; split; lra. Qed.
  Lemma dist_inv_start : dist_inv (c02 Rops) (c01 Rops).
  Proof. unfold dist_inv. cbn. lra. Qed.

  Notation ray_r := (search_ray R Rops m sample alpha allowed xm ym theta).
  Lemma search_ray_eq : ray_r =
    search R Rops max_iterations m sample alpha allowed (unit_vec R Rops theta) (max_distance R Rops xm ym)
           (c02 Rops) (c01 Rops) (zero Rops) None [].
  Proof. reflexivity. Qed.
  Lemma fuel_pos : (1 <= max_iterations)%nat.
  Proof. unfold max_iterations. lia. Qed.

  (* the returned vector lies on the ray of angle theta at a distance > 0.1 * max_distance, and the returned pe is the
     exceedance fraction at that very vector *)
  Lemma ray_point_spec v : r_vec ray_r = Some v ->
    exists rd, / 10 < rd /\
      v = (cos (theta / 180 * PI) * (rd * max_distance R Rops xm ym), sin (theta / 180 * PI) * (rd * max_distance R Rops xm ym)) /\
      r_pe ray_r = INR (count R Rops m v sample) / INR (length sample).
  Proof.
    rewrite search_ray_eq. intros Hv.
    assert (Hg : good R Rops m sample (unit_vec R Rops theta) (max_distance R Rops xm ym) dist_inv None (zero Rops))
      by (intros v0 Hv0; discriminate).
    destruct (search_inv R Rops m sample alpha allowed (unit_vec R Rops theta) (max_distance R Rops xm ym) dist_inv
                  (fun rd rs pe' H => dist_inv_step rd rs pe' H) max_iterations (c02 Rops) (c01 Rops) (zero Rops) None []
                  fuel_pos dist_inv_start Hg v Hv) as [rd0 [rs0 [[I1 I2] [E1 E2]]]].
    exists rd0. split; [lra|]. split; [exact E1|exact E2].
  Qed.

  Lemma ray_within_tolerance v : 0 < alpha -> r_warned ray_r = false -> r_vec ray_r = Some v ->
    Rabs (INR (count R Rops m v sample) / INR (length sample) - alpha) <= allowed * alpha.
  Proof.
    intros Ha Hw Hv. destruct (ray_point_spec v Hv) as [rd [_ [_ E]]]. rewrite <- E.
    apply not_precise_R; [exact Ha|]. rewrite search_ray_eq in *.
    exact (search_not_warned R Rops m sample alpha allowed (unit_vec R Rops theta) (max_distance R Rops xm ym) max_iterations
             (c02 Rops) (c01 Rops) (zero Rops) None [] (or_intror fuel_pos) Hw).
  Qed.

  Lemma start_not_precise : 0 < alpha -> allowed < 1 -> not_precise R Rops alpha allowed (zero Rops) = true.
  Proof.
    intros Ha Hal. unfold not_precise. cbn [ltb absf sub div zero Rops]. apply Rltb_true.
    replace (0 - alpha) with (- alpha) by ring. rewrite Rabs_Ropp, Rabs_right by lra.
    unfold Rdiv. rewrite Rinv_r by lra. exact Hal.
  Qed.
  Lemma start_precise : 0 < alpha -> 1 <= allowed -> not_precise R Rops alpha allowed (zero Rops) = false.
  Proof.
    intros Ha Hal. unfold not_precise. cbn [ltb absf sub div zero Rops]. apply Rltb_false.
    replace (0 - alpha) with (- alpha) by ring. rewrite Rabs_Ropp, Rabs_right by lra.
    unfold Rdiv. rewrite Rinv_r by lra. exact Hal.
  Qed.

  (* allowed_error < 1: the loop body runs at least once, so a vector exists *)
  Lemma ray_has_vector : 0 < alpha -> allowed < 1 -> r_vec ray_r <> None.
  Proof. intros Ha Hal. rewrite search_ray_eq. apply search_runs_once. apply start_not_precise; assumption. Qed.
  Lemma ray_no_vector : 0 < alpha -> 1 <= allowed -> r_vec ray_r = None.
  Proof. intros Ha Hal. rewrite search_ray_eq. apply search_never_runs. apply start_precise; assumption. Qed.
End Reals.

(* ------------------------------------------------------------------ the property clauses, assembled *)
Section Clauses.
  Variable T : Type.
  Variable K : ops T.

  (* any number structure (binary64 included): the returned vector is the ray point of one visited rel_dist and the
     returned pe is the exceedance fraction counted at that very vector; at most 100 iterations *)
  Lemma ray_same_iteration m sample alpha allowed xm ym theta v :
    r_vec (search_ray T K m sample alpha allowed xm ym theta) = Some v ->
    exists rd, v = point_at T K (unit_vec T K theta) rd (max_distance T K xm ym) /\
               r_pe (search_ray T K m sample alpha allowed xm ym theta) = pe_of T K (count T K m v sample) (length sample).
  Proof.
    unfold search_ray. intros Hv.
    assert (Hg : good T K m sample (unit_vec T K theta) (max_distance T K xm ym) (fun _ _ => True) None (zero K))
      by (intros v0 Hv0; discriminate).
    destruct (search_inv T K m sample alpha allowed (unit_vec T K theta) (max_distance T K xm ym) (fun _ _ => True)
                (fun _ _ _ _ => Logic.I) max_iterations (c02 K) (c01 K) (zero K) None []
                (fuel_pos) Logic.I Hg v Hv) as [rd0 [rs0 [_ [E1 E2]]]].
    exists rd0. split; [exact E1|exact E2].
  Qed.

  Lemma ray_not_warned_precise m sample alpha allowed xm ym theta :
    r_warned (search_ray T K m sample alpha allowed xm ym theta) = false ->
    not_precise T K alpha allowed (r_pe (search_ray T K m sample alpha allowed xm ym theta)) = false.
  Proof.
    unfold search_ray. intros Hw.
    exact (search_not_warned T K m sample alpha allowed (unit_vec T K theta) (max_distance T K xm ym) max_iterations
             (c02 K) (c01 K) (zero K) None [] (or_intror fuel_pos) Hw).
  Qed.

  Lemma ray_iterations m sample alpha allowed xm ym theta :
    (length (r_trace (search_ray T K m sample alpha allowed xm ym theta)) <= 100)%nat.
  Proof.
    unfold search_ray.
    exact (search_trace_length T K m sample alpha allowed (unit_vec T K theta) (max_distance T K xm ym) max_iterations
             (c02 K) (c01 K) (zero K) None []).
  Qed.

  Lemma and_contour_closure sample alpha allowed xm ym thetas l :
    fst (and_contour T K sample alpha allowed xm ym thetas) = Some l ->
    exists pts, map Some pts = map r_vec (rays T K And sample alpha allowed xm ym thetas) /\
                l = pts ++ [(zero K, zero K)] /\ length l = S (length thetas).
  Proof.
    unfold and_contour. cbn [fst]. intros H. destruct (and_coords_spec T K _ l H) as [pts [H1 [H2 H3]]].
    exists pts. repeat split; auto. rewrite H3. unfold rays. rewrite map_length. reflexivity.
  Qed.

  Lemma and_contour_error sample alpha allowed xm ym thetas :
    fst (and_contour T K sample alpha allowed xm ym thetas) = None <->
    exists theta, In theta thetas /\ r_vec (search_ray T K And sample alpha allowed xm ym theta) = None.
  Proof.
    unfold and_contour. cbn [fst]. rewrite and_coords_error. unfold rays. split.
    - intros [r [Hin Hr]]. apply in_map_iff in Hin. destruct Hin as [theta [<- Hin]]. exists theta. auto.
    - intros [theta [Hin Hr]]. exists (search_ray T K And sample alpha allowed xm ym theta). split; auto. apply in_map. exact Hin.
  Qed.

  Lemma or_contour_closure sample alpha allowed xm ym thetas dflt l :
    fst (or_contour T K sample alpha allowed xm ym thetas dflt) = Some l ->
    let xmax := mul K (c11 K) (maxl T K (map fst sample) dflt) in
    let ymax := mul K (c11 K) (maxl T K (map snd sample) dflt) in
    exists pts kept first,
      map Some pts = map r_vec (rays T K Or sample alpha allowed xm ym thetas) /\
      kept = filter (in_range T K xmax ymax) pts /\ hd_error kept = Some first /\
      (forall p, In p kept <-> In p pts /\ ltb K (fst p) xmax = true /\ ltb K (snd p) ymax = true) /\
      l = kept ++ [(zero K, snd (last kept first)); (zero K, zero K); (fst first, zero K)].
  Proof.
    unfold or_contour. intros H. cbn [fst] in H.
    destruct (or_coords_spec T K sample _ dflt l H) as [pts [kept [first [H1 [H2 [H3 H4]]]]]].
    exists pts, kept, first. split; [exact H1|]. split; [exact H2|]. split; [exact H3|]. split; [|exact H4].
    intros p. subst kept. apply kept_unaltered.
  Qed.
End Clauses.
