(* ScipyDistribution: explicit parameters (positional or keyword) == an instance holding those values *)
From Coq Require Import List String Bool Arith Lia.
From V.base Require Import Num.
From V.model Require Import ScipyDist.
Import ListNotations.

Section SDP.
  Variable T : Type.
  Lemma filter_len_le {A} (f : A -> bool) l : List.length (filter f l) <= List.length l.
  Proof. induction l as [|a l IH]; cbn; [lia|]. destruct (f a); cbn; lia. Qed.
  Lemma merge_pos_nil (stored : list T) : merge_pos stored [] = stored.
  Proof. destruct stored; reflexivity. Qed.
  Lemma merge_pos_all_none (stored : list T) n : merge_pos stored (repeat None n) = stored.
  Proof. revert n. induction stored as [|s st IH]; intros [|n]; cbn; try reflexivity. rewrite IH. reflexivity. Qed.
  Lemma merge_pos_length (stored : list T) args : List.length args <= List.length stored -> List.length (merge_pos stored args) = List.length stored.
  Proof. revert args. induction stored as [|s st IH]; intros [|a ar] H; cbn in *; try reflexivity; try lia. rewrite IH; [reflexivity|lia]. Qed.
  (* override law, positional: explicit values replace, None keeps; evaluating an instance that already stores the merged
     values with no explicit argument gives the same parameter list *)
  Theorem sd_override_positional names (stored : list T) args :
    sd_params names stored args [] = sd_params names (merge_pos stored args) [] [].
  Proof. unfold sd_params. cbn. rewrite merge_pos_nil. reflexivity. Qed.
  Theorem sd_positional_value (stored : list T) args i v d : nth_error args i = Some (Some v) -> i < List.length stored ->
    nth i (merge_pos stored args) d = v.
  Proof. revert args i. induction stored as [|s st IH]; intros [|a ar] [|i] H Hi; cbn in *; try discriminate; try lia.
    - inversion H; subst. reflexivity.
    - apply IH; [exact H|lia]. Qed.
  Theorem sd_positional_none_keeps (stored : list T) args i d : nth_error args i = Some None -> i < List.length stored ->
    nth i (merge_pos stored args) d = nth i stored d.
  Proof. revert args i. induction stored as [|s st IH]; intros [|a ar] [|i] H Hi; cbn in *; try discriminate; try lia.
    - inversion H; subst. reflexivity.
    - apply IH; [exact H|lia]. Qed.
  (* keyword override of a known name sets exactly that position *)
  Lemma set_nth_same i (v : T) l d : i < List.length l -> nth i (set_nth i v l) d = v.
  Proof. revert i. induction l as [|x l IH]; intros [|i] H; cbn in *; try lia; [reflexivity|apply IH; lia]. Qed.
  Lemma set_nth_other i j (v : T) l d : i <> j -> nth j (set_nth i v l) d = nth j l d.
  Proof. revert i j. induction l as [|x l IH]; intros [|i] [|j] H; cbn; try reflexivity; try congruence. apply IH. congruence. Qed.
  Theorem sd_keyword_single names (stored : list T) k v i d : index_of k names = Some i -> i < List.length stored ->
    exists r, sd_params names stored [] [(k, v)] = Ok r /\ nth i r d = v /\ forall j, j <> i -> nth j r d = nth j stored d.
  Proof. intros H Hi. unfold sd_params. rewrite merge_pos_nil. cbn. rewrite H. eexists. split; [reflexivity|].
    split; [apply set_nth_same; exact Hi|]. intros j Hj. apply set_nth_other. congruence. Qed.
  Theorem sd_keyword_unknown names (stored : list T) k v : index_of k names = None -> sd_params names stored [] [(k, v)] = Err "ValueError"%string.
  Proof. intros H. unfold sd_params. rewrite merge_pos_nil. cbn. rewrite H. reflexivity. Qed.
  (* the fit is skipped iff every parameter is fixed *)
  Lemma sd_fkw_length names (fixed : list (option T)) : List.length names = List.length fixed ->
    List.length (sd_fkw names fixed) = List.length (filter (fun o => match o with Some _ => true | None => false end) fixed).
  Proof. revert fixed. unfold sd_fkw. induction names as [|n names IH]; intros [|f fixed] H; cbn in *; try discriminate; try reflexivity.
    destruct f; cbn; rewrite IH by lia; reflexivity. Qed.
  Theorem sd_fit_skipped_iff_all_fixed (dflt : T) fit fam names stored (fixed : list (option T)) : List.length names = List.length fixed ->
    (forall o, In o fixed -> o <> None) -> sd_fit dflt fit fam names stored fixed = stored.
  Proof. intros Hl Hall. unfold sd_fit. rewrite sd_fkw_length by exact Hl.
    assert (E : filter (fun o : option T => match o with Some _ => true | None => false end) fixed = fixed).
    { clear Hl. induction fixed as [|o fx IH]; [reflexivity|]. cbn. destruct o as [v|]; [|exfalso; apply (Hall None); [left; reflexivity|reflexivity]].
      rewrite IH; [reflexivity|]. intros o Ho. apply Hall. right. exact Ho. }
    rewrite E, Hl, Nat.eqb_refl. reflexivity. Qed.
  Theorem sd_fit_runs_when_something_free (dflt : T) fit fam names stored (fixed : list (option T)) : List.length names = List.length fixed ->
    In None fixed ->
    sd_fit dflt fit fam names stored fixed =
    fit (mkfit fam (firstn (List.length names - 2) stored)
               ([("loc"%string, nth (List.length names - 2) stored dflt); ("scale"%string, nth (S (List.length names - 2)) stored dflt)] ++ sd_fkw names fixed)).
  Proof. intros Hl Hin. unfold sd_fit. rewrite sd_fkw_length by exact Hl.
    assert (L : List.length (filter (fun o : option T => match o with Some _ => true | None => false end) fixed) < List.length fixed).
    { clear Hl. induction fixed as [|o fx IH]; [contradiction|]. cbn. destruct Hin as [->|Hin].
      - pose proof (filter_len_le (fun o : option T => match o with Some _ => true | None => false end) fx). cbn. lia.
      - specialize (IH Hin). destruct o; cbn; lia. }
    destruct (Nat.eqb_spec (List.length (filter (fun o : option T => match o with Some _ => true | None => false end) fixed)) (List.length names)); [lia|reflexivity]. Qed.
End SDP.
