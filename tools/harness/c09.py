"""C09 -- joint fitting is order-invariant and fits each interval to exactly its own data (DESIGN.md section 6, C09).

proof gate: props/C09.v (interval data of a conditional dimension, permutation of the rows, fit options per
            dimension, re-fit; PointsPerInterval without ties across chunks; witness with ties)
correspondence: binary64 instance of model/JointFit.v (fit_f) evaluated by vm_compute against
            GlobalHierarchicalModel.fit of the repository under test; the engines (template fit, dependence fit,
            argsort, callable reference) are recorded from outside and enter the model as tables
search: property oracle on the real objects (fit data and data[perm], interval membership recomputed from the
            reported boundaries, stand-alone template fits, recorded options, re-fit)
"""
import copy
import math

import numpy as np

import vlib
from vlib import fl, fl_list

REFK = {"center": "RCenter", "left": "RLeft", "right": "RRight", "median": "RCallable", "mean": "RCallable"}


# ------------------------------------------------------------------ the library under test, recorders
def _imp():
    import virocon
    import virocon.distributions as D
    import virocon.dependencies as DEP
    import virocon.intervals as IV
    import virocon.jointmodels as JM
    return virocon, D, DEP, IV, JM


def _lin(x, a=1.0, b=0.5):
    return a + b * x


def _lin_neg(x, a=1.0, b=-0.1):
    """linear, start values feasible for a slope bounded above by exactly 0"""
    return a + b * x


def _power3(x, a=0.1, b=1.4, c=0.3):
    return a + b * x ** c


def _exp3(x, a=0.05, b=0.2, c=-0.2):
    return a + b * np.exp(c * x)


def _nest(x, a, b, g_of_x):
    """dependence function that uses ANOTHER dependence function as a parameter (as predefined.get_OMAE2020_V_Hs does);
    linear in (a, b), so curve_fit's answer does not depend on its start values"""
    return (a + b * x) * g_of_x(x)


def _w1(x, y):
    """weights callable of a dependence function (virocon hands the result to curve_fit as sigma)"""
    return 1.0 + np.abs(np.asarray(x, dtype=float))


# name -> (function, bounds, weights): all four combinations of bounds / weights for the linear one
DEPFUNCS = {"lin": (_lin, None, None), "lin_w": (_lin, None, _w1), "lin_b": (_lin, [(None, None), (-50, 50)], None),
            "lin_bw": (_lin, [(None, None), (-50, 50)], _w1),
            # slope bounded above by EXACTLY 0 (active whenever the estimates grow with the conditioning value), and a lower bound 0
            "lin_ub0": (_lin_neg, [(None, None), (None, 0)], None), "lin_ub0w": (_lin_neg, [(0, None), (None, 0)], _w1),
            "lin_lb0": (_lin, [(None, None), (0, None)], None),
            "power3": (_power3, [(0, None), (0, None), (None, None)], None),
            "exp3": (_exp3, [(0, None), (0, None), (None, None)], None)}
LIN_KINDS = ["lin", "lin_w", "lin_b", "lin_bw", "lin_ub0", "lin_ub0w", "lin_lb0"]


def make_template(V, name):
    if name == "weibull":
        return V.WeibullDistribution()
    if name == "weibull2":
        return V.WeibullDistribution(f_gamma=0.0)
    if name == "lognormal":
        return V.LogNormalDistribution()
    if name == "normal":
        return V.NormalDistribution()
    if name == "ew":
        return V.ExponentiatedWeibullDistribution(f_delta=5)
    if name == "ewfree":
        return V.ExponentiatedWeibullDistribution()
    if name == "lognormal_fs":      # fixed sigma: only mu is conditional
        return V.LogNormalDistribution(f_sigma=0.25)
    if name == "normal_fs":
        return V.NormalDistribution(f_sigma=0.8)
    if name == "weibull_fb":        # fixed shape and location: only the scale is conditional
        return V.WeibullDistribution(f_beta=2.0, f_gamma=0.0)
    if name == "normal_fm":         # FIRST parameter fixed, the second conditional
        return V.NormalDistribution(f_mu=3.0)
    if name == "lognormal_fm":
        return V.LogNormalDistribution(f_mu=1.3)
    if name == "weibull_fag":       # first and last fixed, the middle one conditional
        return V.WeibullDistribution(f_alpha=2.5, f_gamma=0.0)
    if name == "weibull_fmid":      # the middle one fixed
        return V.WeibullDistribution(f_beta=2.0)
    raise KeyError(name)


class RecRef:
    """callable interval reference (np.median / np.mean) that records what it was asked"""

    def __init__(self, fn, log):
        self.fn, self.log = fn, log

    def __call__(self, members):
        v = self.fn(members)
        self.log.append((np.array(members, dtype=float).copy(), float(v)))
        return v


class NpProxy:
    """stands in for the module global `np` of virocon.intervals: records argsort calls"""

    def __init__(self, log):
        self._log = log

    def __getattr__(self, name):
        return getattr(np, name)

    def argsort(self, a, *args, **kw):
        r = np.argsort(a, *args, **kw)
        self._log.append((np.array(a, dtype=float).copy(), [int(i) for i in r]))
        return r


def make_slicer(IV, s, reflog):
    if s is None:
        return None
    kw = {"min_n_points": s["min_n_points"], "min_n_intervals": s["min_n_intervals"]}
    ref = s.get("reference", "center")
    if ref in ("median", "mean"):
        ref = RecRef(np.median if ref == "median" else np.mean, reflog)
    if s["kind"] == "width":
        vr = s["value_range"]
        return IV.WidthOfIntervalSlicer(s["width"], reference=ref, right_open=s["right_open"],
                                        value_range=None if vr is None else tuple(vr), **kw)
    if s["kind"] == "number":
        vr = s["value_range"]
        return IV.NumberOfIntervalsSlicer(s["n_intervals"], reference=ref, include_max=s["include_max"],
                                          value_range=None if vr is None else tuple(vr), **kw)
    return IV.PointsPerIntervalSlicer(s["n_points"], reference=ref, last_full=s["last_full"], **kw)


class Built:
    pass


def build_model(spec):
    """GlobalHierarchicalModel of the repository from a JSON-able spec; templates / dependence functions are
    tagged (attributes survive copy.deepcopy) so that recorded engine calls can be attributed"""
    V, D, DEP, IV, JM = _imp()
    b = Built()
    b.reflog, b.param_names, b.init_t, b.init_d, b.dep_ids, b.fresh, b.fixed = [], [], {}, {}, {}, {}, {}
    descs = []
    dep_id = 0
    for i, dm in enumerate(spec["dims"]):
        t = make_template(V, dm["template"])
        t._c09_tag = i
        b.fresh[i] = copy.deepcopy(t)
        names = list(t.parameters)
        b.fixed[i] = {pn: float(getattr(t, "f_" + pn)) for pn in names if getattr(t, "f_" + pn) is not None}
        b.param_names.append(names)
        b.init_t[i] = [float(v) for v in t.parameters.values()]
        desc = {"distribution": t}
        sl = make_slicer(IV, dm.get("slicer"), b.reflog)
        if sl is not None:
            desc["intervals"] = sl
        if dm.get("conditional_on") is not None:
            desc["conditional_on"] = dm["conditional_on"]
            made = {}
            for nested_pass in (False, True):      # a nested function needs its conditioner's object
                for pn in names:
                    if pn not in dm["deps"] or isinstance(dm["deps"][pn], dict) != nested_pass:
                        continue
                    if nested_pass:
                        df = V.DependenceFunction(_nest, None, g_of_x=made[dm["deps"][pn]["nested_on"]])
                    else:
                        f, bounds, wfun = DEPFUNCS[dm["deps"][pn]]
                        df = V.DependenceFunction(f, bounds, weights=wfun)
                    df._c09_tag = dep_id
                    b.init_d[dep_id] = [float(v) for v in df.parameters.values()]
                    b.dep_ids[(i, pn)] = dep_id
                    dep_id += 1
                    made[pn] = df
            desc["parameters"] = {pn: made[pn] for pn in names if pn in made}   # parameter order of the template
        descs.append(desc)
    b.model = V.GlobalHierarchicalModel(descs)
    return b


class Recording:
    """rebinding Distribution.fit / DependenceFunction.fit / intervals.np from outside for one fit call"""

    def __init__(self):
        self.tcalls, self.dcalls, self.sorts = [], [], []
        self.engine_raised = False

    def __enter__(self):
        V, D, DEP, IV, JM = _imp()
        self.D, self.DEP, self.IV = D, DEP, IV
        self.o_t, self.o_d, self.o_np = D.Distribution.fit, DEP.DependenceFunction.fit, IV.np
        rec = self

        def t_fit(self_, data, method="mle", weights=None):
            pre = [float(v) for v in self_.parameters.values()]
            try:
                rec.o_t(self_, data, method, weights)
            except Exception:
                rec.engine_raised = True
                raise
            rec.tcalls.append({"tag": getattr(self_, "_c09_tag", -1), "pre": pre, "method": method, "weights": weights,
                               "data": np.array(data, dtype=float).copy(), "data_obj": data,
                               "post": [float(v) for v in self_.parameters.values()]})

        def d_fit(self_, x, y):
            pre = [float(v) for v in self_.parameters.values()]
            try:
                rec.o_d(self_, x, y)
            except Exception:
                rec.engine_raised = True
                raise
            rec.dcalls.append({"tag": getattr(self_, "_c09_tag", -1), "pre": pre, "x": [float(v) for v in x],
                               "y": [float(v) for v in y], "post": [float(v) for v in self_.parameters.values()]})

        D.Distribution.fit = t_fit
        DEP.DependenceFunction.fit = d_fit
        IV.np = NpProxy(self.sorts)
        return self

    def __exit__(self, *a):
        self.D.Distribution.fit = self.o_t
        self.DEP.DependenceFunction.fit = self.o_d
        self.IV.np = self.o_np
        return False


def run_fit(b, data, fds):
    """one model.fit under recording -> (outcome dict, Recording)"""
    fds_arg = copy.deepcopy(fds)
    n_ref0 = len(b.reflog)
    with np.errstate(all="ignore"):
        with Recording() as rec:
            try:
                import warnings
                with warnings.catch_warnings():
                    warnings.simplefilter("ignore")
                    b.model.fit(np.array(data, dtype=float), fds_arg)
                out = {"ok": True}
            except Exception as e:  # noqa
                msg = str(e)
                kind = type(e).__name__
                if rec.engine_raised or isinstance(e, NotImplementedError):
                    out = {"ok": False, "engine": True, "err": kind, "msg": msg[:200]}
                else:
                    out = {"ok": False, "engine": False, "err": kind, "msg": msg[:200]}
    rec.refs = b.reflog[n_ref0:]
    if out["ok"]:
        out["dims"] = snapshot(b)
    return out, rec


def snapshot(b):
    V, D, DEP, IV, JM = _imp()
    res = []
    for i, d in enumerate(b.model.distributions):
        if isinstance(d, D.ConditionalDistribution):
            res.append({"cond": True,
                        "data_intervals": [np.array(x, dtype=float) for x in d.data_intervals],
                        "data_objs": list(d.data_intervals),
                        "conditioning_values": [float(v) for v in d.conditioning_values],
                        "boundaries": [(float(a), float(bb)) for a, bb in d.conditioning_interval_boundaries],
                        "pars": [[float(p[k]) for k in b.param_names[i]] for p in d.parameters_per_interval],
                        "n_dists": len(d.distributions_per_interval),
                        "dist_pars": [[float(x.parameters[k]) for k in b.param_names[i]] for x in d.distributions_per_interval],
                        "fixed": {k: float(v) for k, v in d.fixed_parameters.items()},
                        "deps": [(pn, [float(v) for v in df.parameters.values()]) for pn, df in d.conditional_parameters.items()]})
        else:
            res.append({"cond": False, "pars": [float(v) for v in d.parameters.values()]})
    return res


# ------------------------------------------------------------------ case generation
TEMPL_COND = ["lognormal", "lognormal", "normal", "weibull2", "ew", "weibull", "lognormal_fs", "normal_fs", "weibull_fb",
              "normal_fm", "lognormal_fm", "weibull_fag", "weibull_fmid"]
FIXED_FIRST = ["normal_fm", "lognormal_fm", "weibull_fag", "weibull_fmid"]     # a fixed parameter BEFORE a dependent one
NORMALS = ("normal", "normal_fs", "normal_fm")
LOGNORMALS = ("lognormal", "lognormal_fs", "lognormal_fm")
TEMPL_IND = ["weibull", "weibull2", "lognormal", "ewfree", "ew"]
STRUCTS = [[None, 0], [None, 0], [None, 0, 1], [None, 0, 0], [None, None, 1], [None, None, 0]]


def gen_slicer(rng, n_rows, kindpref=None):
    kind = kindpref or rng.choice(["width", "number", "ppi"])
    mnp = rng.choice([10, 20, 20, 30, 50])
    mni = rng.choice([1, 2, 3, 3])
    if kind == "width":
        w = rng.choice([0.5, 0.5, 1.0, 0.25, 0.3, 0.7])
        r = rng.random()
        vr = None if r < 0.55 else ([0.5, None] if r < 0.7 else ([None, 6.0] if r < 0.85 else [w, 5.0]))
        return {"kind": "width", "width": w, "reference": rng.choice(["center", "center", "left", "right", "median"]),
                "right_open": rng.random() < 0.6, "value_range": vr, "min_n_points": mnp, "min_n_intervals": mni}
    if kind == "number":
        r = rng.random()
        vr = None if r < 0.6 else rng.choice([[0.0, 8.0], [0.5, 6.0], [0.1, 7.3]])
        return {"kind": "number", "n_intervals": rng.randrange(3, 14), "reference": rng.choice(["center", "center", "left", "right", "mean"]),
                "include_max": rng.random() < 0.7, "value_range": vr, "min_n_points": mnp, "min_n_intervals": mni}
    npts = rng.choice([n_rows // 4, n_rows // 7, n_rows // 10, 50, 73, 100])
    npts = max(10, min(npts, n_rows))
    return {"kind": "ppi", "n_points": npts, "reference": rng.choice(["median", "median", "mean"]),
            "last_full": rng.random() < 0.5, "min_n_points": rng.choice([10, 50, npts]), "min_n_intervals": mni}


def gen_spec(rng, n_rows, kindpref=None):
    st = rng.choice(STRUCTS)
    dims = []
    for i, c in enumerate(st):
        is_conditioner = i in [x for x in st if x is not None]
        if c is None:
            tname = rng.choice(TEMPL_IND)
            dm = {"template": tname, "conditional_on": None}
        else:
            tname = rng.choice(TEMPL_COND)
            V = _imp()[0]
            t = make_template(V, tname)
            deps = {}
            for pn in t.parameters:
                if getattr(t, "f_" + pn) is None:
                    deps[pn] = rng.choice(LIN_KINDS) if rng.random() < 0.8 else rng.choice(["power3", "exp3"])
            dm = {"template": tname, "conditional_on": c, "deps": deps}
        dm["slicer"] = gen_slicer(rng, n_rows, kindpref) if (is_conditioner or rng.random() < 0.2) else None
        dims.append(dm)
    # fit descriptions: wlsq only where the template implements it
    r = rng.random()
    if r < 0.3:
        fds = None
    else:
        fds = []
        for dm in dims:
            ew = dm["template"] in ("ew", "ewfree")
            q = rng.random()
            if q < 0.25:
                fds.append(None)
            elif ew and q < 0.8:
                d = {"method": rng.choice(["wlsq", "wlsq", "lsq", "WLSQ", "Wlsq", "LSQ"])}
                if rng.random() < 0.75:
                    d["weights"] = rng.choice([None, "linear", "quadratic", "cubic"])
                fds.append(d)
            else:
                if dm["template"] == "ewfree" and dims.index(dm) >= 0 and rng.random() < 0.9:
                    fds.append({"method": "wlsq"})   # the unconstrained exponentiated Weibull MLE is slow: rarely
                else:
                    d = {"method": rng.choice(["mle", "mle", "MLE"])}
                    if rng.random() < 0.3:
                        d["weights"] = None
                    fds.append(d)
    # the slow MLE of the free exponentiated Weibull is kept out of the default path as well
    if fds is None and any(dm["template"] == "ewfree" for dm in dims):
        fds = [({"method": "wlsq", "weights": "quadratic"} if dm["template"] == "ewfree" else None) for dm in dims]
    if fds is not None:
        for k, dm in enumerate(dims):
            if dm["template"] == "ewfree" and (fds[k] is None or fds[k]["method"].lower() == "mle"):
                fds[k] = {"method": "wlsq"}
    return {"dims": dims, "fds": fds}


def gen_data(nrng, spec, n_rows, variant):
    cols = []
    for i, dm in enumerate(spec["dims"]):
        c = dm["conditional_on"]
        if c is None:
            x = nrng.weibull(1.5, n_rows) * 2.6 + 0.15
        else:
            p = cols[c]
            if dm["template"] in NORMALS:
                x = nrng.normal(2.0 + 0.6 * p, 0.4 + 0.08 * p)
            elif dm["template"] in LOGNORMALS:
                x = np.exp(nrng.normal(0.9 + 0.3 * np.sqrt(p), 0.18))
            else:
                x = (1.0 + 0.5 * p) * nrng.weibull(2.2, n_rows) + 0.05
        cols.append(np.asarray(x, dtype=float))
    data = np.column_stack(cols)
    if variant == "sorted":
        data = data[np.argsort(data[:, 0], kind="stable")]
    elif variant == "rounded1":
        data = np.round(data, 1)
    elif variant == "rounded2":
        data = np.round(data, 2)
    elif variant == "ties":
        base = np.round(nrng.uniform(0.2, 6.0, 40), 1)
        data[:, 0] = nrng.choice(base, n_rows)
    # keep positive supports positive after rounding (normal-distributed columns may be anything)
    for i, dm in enumerate(spec["dims"]):
        if dm["template"] not in NORMALS:
            data[:, i] = np.maximum(data[:, i], 0.05)
    return data


VARIANTS = ["shuffled", "shuffled", "sorted", "rounded1", "rounded2", "ties"]


def gen_case(ctx, k, big=False):
    rng = ctx.rng
    nrng = ctx.np_rng(k)
    if ctx.quick():
        n_rows = rng.choice([300, 300, 400, 600, 1000, 1500, 3000] if big else [300, 300, 400, 500, 700, 1000])
    else:
        n_rows = rng.choice([3000, 8000, 20000] if big else [300, 500, 1000, 2000, 3000])
    kindpref = ["width", "number", "ppi"][k % 3] if rng.random() < 0.7 else None
    spec = gen_spec(rng, n_rows, kindpref)
    variant = VARIANTS[(k // 3) % len(VARIANTS)] if rng.random() < 0.7 else rng.choice(VARIANTS)
    if k % 10 == 7:
        # exponentiated Weibull in every dimension, (weighted) least squares with each weight option in turn
        wopts = [None, "linear", "quadratic", "cubic"]
        spec["dims"][0]["template"] = rng.choice(["ew", "ewfree"])
        for dm in spec["dims"][1:]:
            if dm["conditional_on"] is not None:
                dm["template"], dm["deps"] = "ew", {"alpha": "lin", "beta": "lin"}
            else:
                dm["template"] = "ew"
        # ... and every accepted spelling of the method keyword (Distribution.fit dispatches on method.lower())
        spellings = ["wlsq", "WLSQ", "lsq", "Wlsq", "LSQ", "wLsQ"]
        spec["fds"] = [{"method": spellings[(k // 10 + j) % len(spellings)], "weights": wopts[(k // 10 + j) % 4]} for j in range(len(spec["dims"]))]
        if variant == "sorted":
            variant = "shuffled"
    if k % 10 == 3:
        # a fixed parameter before / between the conditional ones
        for j, dm in enumerate(spec["dims"]):
            if dm["conditional_on"] is not None:
                dm["template"] = FIXED_FIRST[(k // 10 + j) % len(FIXED_FIRST)]
                t = make_template(_imp()[0], dm["template"])
                dm["deps"] = {pn: rng.choice(LIN_KINDS) for pn in t.parameters if getattr(t, "f_" + pn) is None}
        if spec["fds"] is not None:
            spec["fds"] = [None if (d is not None and d["method"].lower() != "mle" and spec["dims"][j]["template"] in FIXED_FIRST) else d
                           for j, d in enumerate(spec["fds"])]
    if k % 10 == 1:
        # dependence functions with every combination of bounds / weights in turn
        for dm in spec["dims"]:
            if dm["conditional_on"] is not None:
                dm["deps"] = {pn: LIN_KINDS[(k // 10 + j) % len(LIN_KINDS)] for j, pn in enumerate(dm["deps"])}
        if (k // 10) % 2 == 0:      # the first conditional parameter's slope bound of exactly 0 is active in the generated data
            for dm in spec["dims"]:
                if dm["conditional_on"] is not None:
                    dm["deps"][next(iter(dm["deps"]))] = "lin_ub0" if (k // 20) % 2 == 0 else "lin_ub0w"
    if k % 10 == 4:
        # float coincidences: decimal widths (no binary fractions) with conditioning values rounded to one decimal,
        # i.e. many observations exactly on interval edges
        variant = rng.choice(["rounded1", "ties"])
        for dm in spec["dims"]:
            if dm.get("slicer") is not None:
                dm["slicer"] = {"kind": "width", "width": rng.choice([0.2, 0.3, 0.4, 0.6, 0.7]), "reference": rng.choice(["center", "left", "median"]),
                                "right_open": rng.random() < 0.5, "value_range": None, "min_n_points": 10, "min_n_intervals": 2}
    data = gen_data(nrng, spec, n_rows, variant)
    if k % 10 == 2:
        # NumberOfIntervalsSlicer / WidthOfIntervalSlicer with an explicit value range INSIDE the data range (both ends):
        # observations below and above the range belong to no interval
        for c in {dm["conditional_on"] for dm in spec["dims"] if dm["conditional_on"] is not None}:
            lo, hi = (round(float(v), 1) for v in np.quantile(data[:, c], [0.12, 0.8]))
            if hi <= lo:
                continue
            if (k // 10) % 3 == 2:
                spec["dims"][c]["slicer"] = {"kind": "width", "width": round((hi - lo) / 5, 2) or 0.1, "reference": "center", "right_open": rng.random() < 0.5,
                                             "value_range": [lo, hi], "min_n_points": 10, "min_n_intervals": 2}
            else:
                spec["dims"][c]["slicer"] = {"kind": "number", "n_intervals": rng.randrange(3, 8), "reference": rng.choice(["center", "right", "mean"]),
                                             "include_max": (k // 10) % 3 == 0 or rng.random() < 0.5, "value_range": [lo, hi],
                                             "min_n_points": 10, "min_n_intervals": 2}
    perm = [int(i) for i in nrng.permutation(n_rows)]
    refit = rng.random() < 0.5
    # model/Intervals.v's PointsPerInterval masks use unary position numbers (cubic in the number of rows under
    # vm_compute): larger PointsPerInterval cases go through the search only
    conditioners = {dm["conditional_on"] for dm in spec["dims"] if dm["conditional_on"] is not None}
    ppi = any((spec["dims"][c].get("slicer") or {}).get("kind") == "ppi" for c in conditioners)
    return {"spec": spec, "variant": variant, "data": data, "perm": perm, "refit": refit, "corr": not (ppi and n_rows > 700)}


# ------------------------------------------------------------------ Coq side
PRELUDE = """From V.base Require Import FloatBits.
From V.model Require Import Intervals JointFit.
Local Open Scope float_scope.
Definition pair_close (a b : float * float) : bool := fclose9 (fst a) (fst b) && fclose9 (snd a) (snd b).
Definition fitted_f := @fitted float float (list float) (list float).
(* expected state of one dimension: unconditional = parameters; conditional = (conditioning values, boundaries,
   parameters per interval, dependence parameters).  data_intervals are checked through the template-fit table
   (a model interval that was not handed to a template fit bit for bit finds no entry). *)
Inductive expd := EI (p : list float) | EC (refs : list float) (bs : list (float * float)) (pars : list (list float)) (dps : list (list float)).
(* 0 ok; 2 number of intervals; 3 conditioning values; 4 boundaries; 5 parameters per interval / data handed to a
   template fit; 6 dependence parameters / their (x, y); 7 unconditional parameters / column; 8 kind of dimension *)
Definition cmp_dim (m : option fitted_f) (e : expd) : Z :=
  match m, e with
  | Some (FI p), EI q => if fl_eqb p q then 0 else 7
  | Some (FC ivs refs bs pars dps), EC erefs ebs epars edps =>
      if negb (Nat.eqb (List.length ivs) (List.length epars)) then 2
      else if negb (all2 fclose9 refs erefs) then 3
      else if negb (all2 pair_close bs ebs) then 4
      else if negb (all2 fl_eqb pars epars) then 5
      else if negb (all2 fl_eqb dps edps) then 6
      else 0
  | _, _ => 8
  end%Z.
(* whole model: 1 = one side raised and the other did not; 9 = number of dimensions *)
Fixpoint cmp_dims (ms : list (option fitted_f)) (es : list expd) : Z :=
  match ms, es with
  | [], [] => 0
  | m :: ms', e :: es' => let c := cmp_dim m e in if (c =? 0)%Z then cmp_dims ms' es' else c
  | _, _ => 9
  end%Z.
Definition cmp_fit (m : option (list (option fitted_f))) (e : option (list expd)) : Z :=
  match m, e with
  | None, None => 0
  | Some ms, Some es => cmp_dims ms es
  | _, _ => 1
  end%Z.
Definition state_of (m : option (list (option fitted_f))) : list (option fitted_f) := match m with Some s => s | None => [] end.
Definition sort_ok (tab : list (list float * list nat)) : bool := forallb (fun c => argsort_ok (snd c) (fst c)) tab.
"""


def cstr(s):
    return '"%s"%%string' % s


def opt_f(v):
    return "None" if v is None else "(Some %s)" % fl(v)


def coq_slicer(s):
    if s is None:
        return "(SNumber 10%nat RCenter true None 50%nat 3%nat)"
    if s["kind"] == "width":
        vr = s["value_range"] or [None, None]
        return "(SWidth %s %s %s %s %s %d%%nat %d%%nat)" % (fl(s["width"]), REFK[s["reference"]], "true" if s["right_open"] else "false",
                                                            opt_f(vr[0]), opt_f(vr[1]), s["min_n_points"], s["min_n_intervals"])
    if s["kind"] == "number":
        vr = s["value_range"]
        vrs = "None" if vr is None else "(Some (%s, %s))" % (fl(vr[0]), fl(vr[1]))
        return "(SNumber %d%%nat %s %s %s %d%%nat %d%%nat)" % (s["n_intervals"], REFK[s["reference"]], "true" if s["include_max"] else "false",
                                                              vrs, s["min_n_points"], s["min_n_intervals"])
    return "(SPpi %d%%nat %s %d%%nat %d%%nat)" % (s["n_points"], "true" if s["last_full"] else "false", s["min_n_points"], s["min_n_intervals"])


def coq_wts(w):
    if w is None:
        return "WNone"
    if isinstance(w, str):
        return "(WStr %s)" % cstr(w)
    return "(WArr %s)" % fl_list(w)


def coq_fds(fds):
    if fds is None:
        return "None"
    out = []
    for d in fds:
        if d is None:
            out.append("None")
        else:
            m = "(Some %s)" % cstr(d["method"]) if "method" in d else "None"
            w = "(Some %s)" % coq_wts(d["weights"]) if "weights" in d else "None"
            out.append("(Some (mkfd %s %s))" % (m, w))
    return "(Some [%s])" % "; ".join(out)


def coq_dims(b, spec):
    out = []
    for i, dm in enumerate(spec["dims"]):
        if dm["conditional_on"] is None:
            out.append("DI %d%%nat" % i)
        else:
            deps = []
            for j, pn in enumerate(b.param_names[i]):
                if pn in dm["deps"]:
                    deps.append("(%d%%nat, %d%%nat)" % (b.dep_ids[(i, pn)], j))
            out.append("DC %d%%nat %d%%nat [%s]" % (i, dm["conditional_on"], "; ".join(deps)))
    return "[" + "; ".join(out) + "]"


def opt_prev(pre, init):
    return "None" if pre == init else "(Some %s)" % fl_list(pre)


def coq_tables(b, recs):
    tt, dt, rt, so = [], [], [], []
    for rec in recs:
        for c in rec.tcalls:
            tt.append("mktcall %d%%nat %s %s %s %s %s" % (c["tag"], opt_prev(c["pre"], b.init_t.get(c["tag"])), cstr(c["method"]),
                                                         coq_wts(c["weights"]), fl_list(c["data"]), fl_list(c["post"])))
        for c in rec.dcalls:
            dt.append("mkdcall %d%%nat %s %s %s %s" % (c["tag"], opt_prev(c["pre"], b.init_d.get(c["tag"])), fl_list(c["x"]),
                                                      fl_list(c["y"]), fl_list(c["post"])))
        for mem, v in rec.refs:
            rt.append("(%s, %s)" % (fl_list(mem), fl(v)))
        for a, p in rec.sorts:
            so.append("(%s, [%s]%%nat)" % (fl_list(a), "; ".join("%d" % i for i in p)))
    return ("[" + ";\n ".join(tt) + "]", "[" + ";\n ".join(dt) + "]", "[" + ";\n ".join(rt) + "]", "[" + ";\n ".join(so) + "]")


def coq_expected(out):
    if not out["ok"]:
        return "None"
    ds = []
    for d in out["dims"]:
        if d["cond"]:
            ds.append("EC %s [%s] [%s] [%s]" % (fl_list(d["conditioning_values"]),
                                                "; ".join("(%s, %s)" % (fl(a), fl(bb)) for a, bb in d["boundaries"]),
                                                "; ".join(fl_list(p) for p in d["pars"]),
                                                "; ".join(fl_list(p) for _, p in d["deps"])))
        else:
            ds.append("EI %s" % fl_list(d["pars"]))
    return "(Some [" + "; ".join(ds) + "])"


def coq_case(b, spec, fits):
    """fits: list of (data, fds, outcome, Recording) in history order on ONE model"""
    tt, dt, rt, so = coq_tables(b, [f[3] for f in fits])
    lines = [PRELUDE,
             "Definition ttab : list tcall := %s." % tt,
             "Definition dtab : list dcall := %s." % dt,
             "Definition reftab : list (list float * float) := %s." % rt,
             "Definition sorttab : list (list float * list nat) := %s." % so,
             "Definition slicers : list slicer_desc := [%s]." % "; ".join(coq_slicer(dm.get("slicer")) for dm in spec["dims"]),
             "Definition dims : list (@dimdesc nat (nat * nat)) := %s." % coq_dims(b, spec),
             "Definition st0 : list (option fitted_f) := []."]
    codes = []
    for k, (data, fds, out, rec) in enumerate(fits):
        lines.append("Definition rows%d : list (list float) := %s." % (k, vlib.fl_mat(data)))
        lines.append("Definition res%d := fit_f ttab dtab reftab sorttab slicers dims st%d rows%d %s." % (k, k, k, coq_fds(fds)))
        lines.append("Definition st%d := state_of res%d." % (k + 1, k))
        lines.append("Definition code%d := cmp_fit res%d %s." % (k, k, coq_expected(out)))
        codes.append("code%d" % k)
    lines.append("Eval vm_compute in (if sort_ok sorttab then [%s] else [(-1)%%Z])." % "; ".join(codes))
    return "\n".join(lines) + "\n"


CODES = {1: "one side raises, the other does not", 2: "number of intervals", 3: "conditioning values", 4: "interval boundaries",
         5: "parameters per interval / data handed to a template fit", 6: "dependence parameters or their (x, y) arguments",
         7: "parameters of an unconditional dimension / its column or options", 8: "kind of dimension", 9: "number of dimensions",
         -1: "argsort contract (not a sorting permutation)"}


# ------------------------------------------------------------------ property oracle (search)
def relclose(a, b, rel=1e-6, abs_=1e-9):
    return a == b or abs(a - b) <= rel * max(abs(a), abs(b)) + abs_


def ms_equal(a, b):
    a, b = np.sort(np.asarray(a, dtype=float)), np.sort(np.asarray(b, dtype=float))
    return a.shape == b.shape and np.array_equal(a, b)


def ms_contains(big, small):
    """multiset inclusion small <= big"""
    from collections import Counter
    cb, cs = Counter(np.asarray(big, dtype=float).tolist()), Counter(np.asarray(small, dtype=float).tolist())
    return all(cb.get(k, 0) >= v for k, v in cs.items())


def filled(fds, i):
    d = None if fds is None else fds[i]
    if d is None:
        return ("mle", None)
    return (d["method"], d.get("weights"))


def ppi_profile(n, s):
    """ranks [a, b) of the chunks of a PointsPerIntervalSlicer"""
    npts, rem = s["n_points"], n % s["n_points"]
    cuts = []
    if rem and s["last_full"]:
        cuts.append((0, rem))
        a = rem
        while a < n:
            cuts.append((a, a + npts))
            a += npts
    else:
        a = 0
        while a + npts <= n:
            cuts.append((a, a + npts))
            a += npts
        if rem:
            cuts.append((a, n))
    return cuts


def ties_across_chunks(x, s):
    sx = np.sort(np.asarray(x, dtype=float))
    return any(a > 0 and sx[a - 1] == sx[a] for a, _ in ppi_profile(len(sx), s))


def default_slicer():
    return {"kind": "number", "n_intervals": 10, "reference": "center", "include_max": True, "value_range": None,
            "min_n_points": 50, "min_n_intervals": 3}


def check_membership(spec, data, i, d):
    """clause: interval k of dimension i holds exactly {y_r | x_r in interval k} (recomputed from the reported boundaries)"""
    c = spec["dims"][i]["conditional_on"]
    s = spec["dims"][c].get("slicer") or default_slicer()
    x, y = data[:, c], data[:, i]
    sig = {"clause": "interval-data", "slicer": s["kind"]}
    nb = len(d["boundaries"])
    if not (len(d["data_intervals"]) == len(d["conditioning_values"]) == nb == len(d["pars"]) == d["n_dists"]):
        return (dict(sig, clause="lists"), "dimension %d: lists have different lengths (%d data_intervals, %d conditioning_values, %d boundaries, %d parameters, %d distributions)" % (
            i, len(d["data_intervals"]), len(d["conditioning_values"]), nb, len(d["pars"]), d["n_dists"]))
    if s["kind"] in ("width", "number"):
        for k, (lo, hi) in enumerate(d["boundaries"]):
            if s["kind"] == "width":
                m = ((lo <= x) & (x < hi)) if s["right_open"] else ((lo < x) & (x <= hi))
            else:
                vr = s["value_range"] or [x.min(), x.max()]
                last = (hi == vr[1])
                m = ((lo <= x) & (x <= hi)) if (last and s["include_max"]) else ((lo <= x) & (x < hi))
            if not np.array_equal(np.asarray(d["data_intervals"][k]), y[m]):
                if ms_equal(d["data_intervals"][k], y[m]):
                    continue
                return (sig, "dimension %d interval %d %r: fitted to %d observations, but %d observations have their conditioning value in it" % (
                    i, k, (lo, hi), len(d["data_intervals"][k]), int(m.sum())))
            ref = s["reference"]
            want = {"callable": None, "center": (lo + hi) / 2, "left": lo, "right": hi, "median": float(np.median(x[m])) if m.any() else None,
                    "mean": float(np.mean(x[m])) if m.any() else None}[ref]
            if want is not None and not relclose(d["conditioning_values"][k], want, 1e-9, 1e-9):
                return (dict(sig, clause="reference"), "dimension %d interval %d: conditioning value %r is not the %s (%r) of the interval" % (
                    i, k, d["conditioning_values"][k], ref, want))
    else:
        sx = np.sort(x)
        cuts = ppi_profile(len(x), s)
        mnp = min(s["min_n_points"], s["n_points"])
        cuts = [(a, bb) for a, bb in cuts if bb - a >= mnp]
        if len(cuts) != nb:
            return (sig, "dimension %d: %d intervals, expected %d chunks" % (i, nb, len(cuts)))
        for k, (a, bb) in enumerate(cuts):
            lo, hi = sx[a], sx[bb - 1]
            got = d["data_intervals"][k]
            if len(got) != bb - a:
                return (sig, "dimension %d interval %d: %d observations, chunk has %d" % (i, k, len(got), bb - a))
            if not ms_contains(got, y[(lo < x) & (x < hi)]) or not ms_contains(y[(lo <= x) & (x <= hi)], got):
                return (sig, "dimension %d interval %d: observations are not those whose conditioning value has rank %d..%d" % (i, k, a, bb - 1))
    return None


def check_calls(b, spec, fds, out, rec):
    """clauses: options per dimension; template fits are fresh copies fitted to the stored interval data;
    dependence functions are fitted to (conditioning values, estimates)"""
    by_dim = {}
    for c in rec.tcalls:
        by_dim.setdefault(c["tag"], []).append(c)
    for i, d in enumerate(out["dims"]):
        m, w = filled(fds, i)
        calls = by_dim.get(i, [])
        for c in calls:
            if c["method"] != m or c["weights"] != w:
                return ({"clause": "options"}, "dimension %d is fitted with (method=%r, weights=%r), its fit description says (%r, %r)" % (
                    i, c["method"], c["weights"], m, w))
        if d["cond"]:
            if d["fixed"] != b.fixed[i] or [pn for pn, _ in d["deps"]] != [pn for pn in b.param_names[i] if pn not in b.fixed[i]]:
                return ({"clause": "fixed-parameters"}, "dimension %d: fixed parameters %r / dependence functions for %r, the template fixes %r" % (
                    i, d["fixed"], [pn for pn, _ in d["deps"]], b.fixed[i]))
            for k, p in enumerate(d["pars"]):
                for j, pn in enumerate(b.param_names[i]):
                    if pn in b.fixed[i] and p[j] != b.fixed[i][pn]:
                        return ({"clause": "fixed-parameters"}, "dimension %d interval %d: fixed parameter %s = %r was estimated as %r" % (i, k, pn, b.fixed[i][pn], p[j]))
            if d["dist_pars"] != d["pars"]:
                return ({"clause": "lists"}, "dimension %d: distributions_per_interval and parameters_per_interval do not run parallel" % i)
            if len(calls) != len(d["data_intervals"]):
                return ({"clause": "template-fits"}, "dimension %d: %d template fits for %d intervals" % (i, len(calls), len(d["data_intervals"])))
            for k, c in enumerate(calls):
                if not np.array_equal(c["data"], d["data_intervals"][k]):
                    return ({"clause": "template-fits"}, "dimension %d interval %d: the template was fitted to other data than data_intervals[%d]" % (i, k, k))
                if c["pre"] != b.init_t[i]:
                    return ({"clause": "template-fits"}, "dimension %d interval %d: the fitted object is not a fresh copy of the template (parameters before the fit %r)" % (i, k, c["pre"]))
                if c["post"] != d["pars"][k]:
                    return ({"clause": "template-fits"}, "dimension %d interval %d: parameters_per_interval is not the result of that interval's fit" % (i, k))
            dcalls = {c["tag"]: c for c in rec.dcalls}
            for j, pn in enumerate(b.param_names[i]):
                if pn not in spec["dims"][i]["deps"]:
                    continue
                c = dcalls.get(b.dep_ids[(i, pn)])
                if c is None:
                    return ({"clause": "dependence-fit"}, "dimension %d: dependence function of %s was not fitted" % (i, pn))
                if c["x"] != d["conditioning_values"] or c["y"] != [p[j] for p in d["pars"]]:
                    return ({"clause": "dependence-fit"}, "dimension %d: dependence function of %s is not fitted to (conditioning values, %s estimates)" % (i, pn, pn))
                v = independent_dep_fit(b, i, pn, c)
                if v:
                    return v
        else:
            if len(calls) != 1:
                return ({"clause": "template-fits"}, "dimension %d (unconditional): %d fits" % (i, len(calls)))
    return None


_DEP_REFITS = {}


def independent_dep_fit(b, i, pn, c):
    """the fitted parameters of a dependence function equal an independent scipy fit of its function to the
    (conditioning value, estimate) pairs with ITS configured bounds and weights (as sigma), same start values"""
    df = b.model.distributions[i].conditional_parameters[pn]
    if df.dependent_parameters or df.constraints is not None:
        return None                      # nested / constrained ones: other clauses
    from scipy.optimize import curve_fit
    import warnings
    x, y = np.array(c["x"], dtype=float), np.array(c["y"], dtype=float)
    kw = {}
    if df.weights is not None:
        kw["sigma"] = df.weights(x, y)
    if df.bounds is not None:
        kw["bounds"] = ([-np.inf if lo is None else lo for lo, _ in df.bounds], [np.inf if hi is None else hi for _, hi in df.bounds])
    try:
        with warnings.catch_warnings(), np.errstate(all="ignore"):
            warnings.simplefilter("ignore")
            popt, _ = curve_fit(df.func, x, y, c["pre"], **kw)
    except Exception:
        return None
    _DEP_REFITS[(df.bounds is not None, df.weights is not None)] = _DEP_REFITS.get((df.bounds is not None, df.weights is not None), 0) + 1
    if df.bounds is not None:
        for v, (lo, hi) in zip(c["post"], df.bounds):
            if (lo is not None and v < lo - 1e-12) or (hi is not None and v > hi + 1e-12):
                return ({"clause": "dependence-fit", "kind": "outside-bounds"},
                        "dimension %d: dependence function of %s has parameters %r outside its declared bounds %r (independent bounded fit: %r)" % (
                            i, pn, c["post"], df.bounds, [float(q) for q in popt]))
            if hi == 0 and abs(v) <= 1e-9:
                _DEP_REFITS["active upper bound 0"] = _DEP_REFITS.get("active upper bound 0", 0) + 1
    if not all(relclose(float(a), float(bb), 1e-6, 1e-9) for a, bb in zip(popt, c["post"])):
        return ({"clause": "dependence-fit", "kind": "independent-fit", "bounds": df.bounds is not None, "weights": df.weights is not None},
                "dimension %d: dependence function of %s (bounds %s, weights %s) has parameters %r, an independent fit to the "
                "(conditioning value, estimate) pairs with its bounds and weights gives %r" % (
                    i, pn, "set" if df.bounds is not None else "None", "set" if df.weights is not None else "None", c["post"], [float(v) for v in popt]))
    return None


def standalone(b, spec, fds, out):
    """clause: per-interval estimates equal a stand-alone fit of a fresh template to exactly those observations"""
    V = _imp()[0]
    import warnings
    bad = None
    exact = tot = 0
    for i, d in enumerate(out["dims"]):
        if not d["cond"]:
            continue
        m, w = filled(fds, i)
        for k, obs in enumerate(d["data_intervals"]):
            t = copy.deepcopy(b.fresh[i])
            try:
                with warnings.catch_warnings(), np.errstate(all="ignore"):
                    warnings.simplefilter("ignore")
                    t.fit(np.array(obs, dtype=float), m, w)
            except Exception:
                continue
            got = [float(t.parameters[pn]) for pn in b.param_names[i]]
            tot += 1
            exact += got == d["pars"][k]
            if m.lower() in ("lsq", "wlsq") and bad is None:
                # the stand-alone fit does not depend on the order in which it gets the interval's observations
                t2 = copy.deepcopy(b.fresh[i])
                try:
                    with warnings.catch_warnings(), np.errstate(all="ignore"):
                        warnings.simplefilter("ignore")
                        t2.fit(np.sort(np.array(obs, dtype=float)), m, w)
                    got2 = [float(t2.parameters[pn]) for pn in b.param_names[i]]
                    if not all(relclose(a, bb, 1e-9, 1e-12) or (math.isnan(a) and math.isnan(bb)) for a, bb in zip(got2, d["pars"][k])):
                        bad = ({"clause": "standalone-fit", "kind": "order", "method": "wlsq"},
                               "dimension %d interval %d (%r): estimate %r, stand-alone fit of the template to the interval's observations in sorted order %r" % (
                                   i, k, (m, w), d["pars"][k], got2))
                except Exception:
                    pass
            if not all(relclose(a, bb) or (math.isnan(a) and math.isnan(bb)) for a, bb in zip(got, d["pars"][k])) and bad is None:
                bad = ({"clause": "standalone-fit"}, "dimension %d interval %d: estimate %r, stand-alone fit of the template to the interval's observations %r" % (
                    i, k, d["pars"][k], got))
    return bad, exact, tot


def compare_models(spec, data, o1, o2, what, notes):
    """o1, o2: outcomes of fitting the same observations (in two orders / histories)"""
    if o1["ok"] != o2["ok"]:
        return ({"clause": what, "kind": "raises"}, "one fit raises (%s), the other does not" % (o1.get("err") or o2.get("err")))
    if not o1["ok"]:
        return None
    for i, (d1, d2) in enumerate(zip(o1["dims"], o2["dims"])):
        c = spec["dims"][i]["conditional_on"]
        s = None if c is None else (spec["dims"][c].get("slicer") or default_slicer())
        sig = {"clause": what, "slicer": s["kind"] if s else "none"}
        if s and s["kind"] == "ppi":
            sig["ties_across_chunk_boundary"] = bool(ties_across_chunks(data[:, c], s))
        # (weighted) least squares sorts the observations first: no summation-order or optimiser noise between two
        # orders of the same observations, the estimates have to agree (1e-9); maximum likelihood: 1e-6, beyond = noise
        exact = filled(spec.get("fds"), i)[0].lower() in ("lsq", "wlsq")
        if not d1["cond"]:
            if exact and what == "order-invariance":
                if not all(relclose(a, bb, 1e-9, 1e-12) for a, bb in zip(d1["pars"], d2["pars"])):
                    return (dict(sig, kind="estimates", method="wlsq"), "dimension %d (unconditional, %r): estimates %r vs %r for two orders of the same observations" % (
                        i, filled(spec.get("fds"), i), d1["pars"], d2["pars"]))
            elif not all(relclose(a, bb) for a, bb in zip(d1["pars"], d2["pars"])):
                notes["optimiser_noise_unjudged"] = notes.get("optimiser_noise_unjudged", 0) + 1
            continue
        if len(d1["data_intervals"]) != len(d2["data_intervals"]):
            return (sig, "dimension %d: %d intervals vs %d" % (i, len(d1["data_intervals"]), len(d2["data_intervals"])))
        for k in range(len(d1["data_intervals"])):
            if not ms_equal(d1["data_intervals"][k], d2["data_intervals"][k]):
                return (sig, "dimension %d interval %d holds different observations (%d vs %d; as multisets)" % (
                    i, k, len(d1["data_intervals"][k]), len(d2["data_intervals"][k])))
        if not all(relclose(a, bb, 1e-9, 1e-12) for a, bb in zip(d1["conditioning_values"], d2["conditioning_values"])):
            return (dict(sig, kind="conditioning_values"), "dimension %d: conditioning values differ" % i)
        if not all(relclose(a[0], bb[0], 1e-9, 1e-12) and relclose(a[1], bb[1], 1e-9, 1e-12) for a, bb in zip(d1["boundaries"], d2["boundaries"])):
            return (dict(sig, kind="boundaries"), "dimension %d: interval boundaries differ" % i)
        # same observations per interval: remaining differences of the estimates are optimiser / summation noise
        if exact:
            for k, (p, q) in enumerate(zip(d1["pars"], d2["pars"])):
                if not all(relclose(a, bb, 1e-9, 1e-12) or (math.isnan(a) and math.isnan(bb)) for a, bb in zip(p, q)):
                    return (dict(sig, kind="estimates", method="wlsq"), "dimension %d interval %d (%r): the same observations in another order give the estimates %r instead of %r" % (
                        i, k, filled(spec.get("fds"), i), q, p))
        same_est = all(relclose(a, bb) or (math.isnan(a) and math.isnan(bb)) for p, q in zip(d1["pars"], d2["pars"]) for a, bb in zip(p, q))
        if not same_est:
            notes["optimiser_noise_unjudged"] = notes.get("optimiser_noise_unjudged", 0) + 1
            continue
        for (pn, p), (_, q) in zip(d1["deps"], d2["deps"]):
            if not all(relclose(a, bb, 1e-6, 1e-6) for a, bb in zip(p, q)):
                notes["dependence_fit_noise_unjudged"] = notes.get("dependence_fit_noise_unjudged", 0) + 1
    return None


def oracle(case, notes, light=False):
    """None if the property holds on this case, else (signature, message)"""
    spec, data, fds = case["spec"], np.asarray(case["data"], dtype=float), case["spec"]["fds"]
    perm = np.asarray(case["perm"], dtype=int)
    b1 = build_model(spec)
    o1, r1 = run_fit(b1, data, fds)
    if not o1["ok"] and o1["engine"]:
        notes["engine_errors_unjudged"] = notes.get("engine_errors_unjudged", 0) + 1
        return None
    if not o1["ok"] and o1["err"] not in ("RuntimeError", "ValueError"):
        return ({"clause": "unexpected-exception", "err": o1["err"]}, "fit raises %s: %s" % (o1["err"], o1["msg"]))
    if o1["ok"]:
        for i, d in enumerate(o1["dims"]):
            if d["cond"]:
                v = check_membership(spec, data, i, d)
                if v:
                    return v
        v = check_calls(b1, spec, fds, o1, r1)
        if v:
            return v
        if not light:
            v, ex, tot = standalone(b1, spec, fds, o1)
            notes["standalone_fits"] = notes.get("standalone_fits", 0) + tot
            notes["standalone_fits_bit_exact"] = notes.get("standalone_fits_bit_exact", 0) + ex
            if v:
                return v
    # order invariance
    b2 = build_model(spec)
    o2, r2 = run_fit(b2, data[perm], fds)
    if not o2["ok"] and o2["engine"]:
        if o1["ok"] and o2["err"] != "RuntimeError":   # not a convergence failure: the engine was handed something else
            return ({"clause": "order-invariance", "kind": "raises"}, "fit of the permuted matrix raises %s: %s" % (o2["err"], o2["msg"]))
        notes["engine_errors_unjudged"] = notes.get("engine_errors_unjudged", 0) + 1
        return None
    v = compare_models(spec, data, o1, o2, "order-invariance", notes)
    if v:
        return v
    if o2["ok"]:
        for i, d in enumerate(o2["dims"]):
            if d["cond"]:
                v = check_membership(spec, data[perm], i, d)
                if v:
                    return v
    # re-fit of the already fitted model b2 with the original order = fresh fit b1
    if case.get("refit") and o1["ok"]:
        o3, r3 = run_fit(b2, data, fds)
        if not o3["ok"] and o3["engine"]:
            if o3["err"] != "RuntimeError":
                return ({"clause": "re-fit", "kind": "raises"}, "re-fit of an already fitted model raises %s: %s" % (o3["err"], o3["msg"]))
            notes["engine_errors_unjudged"] = notes.get("engine_errors_unjudged", 0) + 1
            return None
        v = compare_models(spec, data, o1, o3, "re-fit", notes)
        if v:
            return v
        if o3["ok"]:
            for i, (d1, d3) in enumerate(zip(o1["dims"], o3["dims"])):
                if d1["cond"] and not all(np.array_equal(a, bb) for a, bb in zip(d1["data_intervals"], d3["data_intervals"])):
                    return ({"clause": "re-fit"}, "dimension %d: data_intervals of the re-fit differ from a first fit" % i)
            v = check_calls(b2, spec, fds, o3, r3)
            if v:
                return dict(v[0], history="re-fit"), "re-fit: " + v[1]
            for i, d in enumerate(o3["dims"]):
                if d["cond"]:
                    v = check_membership(spec, data, i, d)
                    if v:
                        return dict(v[0], history="re-fit"), "re-fit: " + v[1]
    return None


def shrink(case, sig, notes):
    """fewer rows while the same clause still fails (bounded number of fits)"""
    budget = [40]
    data = np.asarray(case["data"], dtype=float)

    def fails(rows):
        if budget[0] <= 0 or len(rows) < 60:
            return False
        budget[0] -= 1
        d = np.array(rows, dtype=float)
        c2 = dict(case, data=d, perm=[int(i) for i in np.random.default_rng(len(rows)).permutation(len(rows))])
        try:
            o = oracle(c2, {}, light=(sig.get("clause") != "standalone-fit"))
        except Exception:
            return False
        return o is not None and o[0].get("clause") == sig.get("clause") and o[0].get("slicer") == sig.get("slicer") \
            and o[0].get("ties_across_chunk_boundary") == sig.get("ties_across_chunk_boundary")

    rows = vlib.shrink_list([list(map(float, r)) for r in data], fails, min_len=60)
    if len(rows) < len(data):
        return dict(case, data=np.array(rows, dtype=float),
                    perm=[int(i) for i in np.random.default_rng(len(rows)).permutation(len(rows))])
    return case


def jsonable_case(case):
    return {"spec": case["spec"], "variant": case.get("variant"), "refit": bool(case.get("refit")),
            "data": [[float(v) for v in r] for r in np.asarray(case["data"], dtype=float)],
            "perm": [int(i) for i in case["perm"]]}


def replay(ctx, c):
    notes = {}
    special = shipped_oracle if c.get("predefined") else input_oracle if c.get("input") else exception_oracle if c.get("bad") else None
    if special:
        o = special(dict(c, data=np.array(c["data"], dtype=float)), notes)
        if o:
            print("  ", o[0], o[1])
        return o is not None
    if c.get("nested"):
        o = nested_oracle(c, notes)
        if o:
            print("  ", o[0], o[1])
        return o is not None
    o = oracle({"spec": c["spec"], "data": np.array(c["data"], dtype=float), "perm": c["perm"], "refit": c.get("refit", True)}, notes)
    if o:
        print("  ", o[0], o[1])
    return o is not None


# ------------------------------------------------------------------ nested dependence functions, fit A then re-fit B
NESTED_TEMPL = [("lognormal", ["mu", "sigma"]), ("normal", ["mu", "sigma"]), ("weibull2", ["alpha", "beta"]), ("ew", ["alpha", "beta"])]


def gen_regime_data(nrng, template, n_rows, regime):
    p = nrng.weibull(1.5, n_rows) * (2.6 if regime == "A" else 3.4) + 0.15
    if template == "normal":
        x = nrng.normal(2.0 + 0.6 * p, 0.4 + 0.08 * p) if regime == "A" else nrng.normal(0.5 + 1.1 * p, 0.9 + 0.02 * p)
    elif template == "lognormal":
        x = np.exp(nrng.normal(0.9 + 0.3 * np.sqrt(p), 0.18)) if regime == "A" else np.exp(nrng.normal(0.3 + 0.6 * np.sqrt(p), 0.32))
    else:
        x = ((1.0 + 0.5 * p) * nrng.weibull(2.2, n_rows) if regime == "A" else (2.5 + 0.15 * p) * nrng.weibull(1.3, n_rows)) + 0.05
    return np.column_stack([p, x])


def gen_nested_case(ctx, k):
    rng, nrng = ctx.rng, ctx.np_rng(10000 + k)
    tname, pnames = NESTED_TEMPL[k % len(NESTED_TEMPL)]
    order = "dependent-first" if (k // len(NESTED_TEMPL)) % 2 == 0 else "conditioner-first"
    if order == "dependent-first":      # first parameter uses the dependence function of the second
        deps = {pnames[0]: {"nested_on": pnames[1]}, pnames[1]: "lin"}
    else:
        deps = {pnames[0]: "lin", pnames[1]: {"nested_on": pnames[0]}}
    sl = rng.choice([{"kind": "width", "width": rng.choice([0.5, 0.7, 1.0]), "reference": rng.choice(["center", "median"]), "right_open": True,
                      "value_range": None, "min_n_points": 20, "min_n_intervals": 3},
                     {"kind": "number", "n_intervals": rng.randrange(5, 10), "reference": "center", "include_max": True,
                      "value_range": None, "min_n_points": 20, "min_n_intervals": 3}])
    fds = [None, {"method": "wlsq", "weights": rng.choice([None, "linear"])}] if tname == "ew" else rng.choice([None, [None, {"method": "mle"}]])
    spec = {"dims": [{"template": "weibull2", "conditional_on": None, "slicer": sl},
                     {"template": tname, "conditional_on": 0, "deps": deps, "slicer": None}], "fds": fds}
    n = rng.choice([300, 400, 600, 1000])
    return {"nested": order, "spec": spec, "data_a": gen_regime_data(nrng, tname, n, "A"),
            "data_b": gen_regime_data(nrng, tname, rng.choice([300, 500, 800]), "B")}


def plain_fit(b, data, fds):
    import warnings
    try:
        with warnings.catch_warnings(), np.errstate(all="ignore"):
            warnings.simplefilter("ignore")
            b.model.fit(np.array(data, dtype=float), copy.deepcopy(fds))
        return None
    except Exception as e:  # noqa
        return "%s: %s" % (type(e).__name__, str(e)[:160])


def nested_oracle(case, notes):
    """model fitted to A and re-fitted to B  ==  fresh model fitted to B (dependence functions that use another
    dependence function included).  None if it holds, else (signature, message)."""
    spec, fds = case["spec"], case["spec"]["fds"]
    A, B = np.asarray(case["data_a"], dtype=float), np.asarray(case["data_b"], dtype=float)
    sig = {"clause": "re-fit", "nested": case["nested"]}
    m, f = build_model(spec), build_model(spec)
    e = plain_fit(m, A, fds)
    if e:
        notes["nested_unjudged"] = notes.get("nested_unjudged", 0) + 1
        return None
    e_m, e_f = plain_fit(m, B, fds), plain_fit(f, B, fds)
    if e_f:
        notes["nested_unjudged"] = notes.get("nested_unjudged", 0) + 1
        return None
    if e_m:
        if e_m.startswith("RuntimeError: Failed to fit"):
            notes["nested_unjudged"] = notes.get("nested_unjudged", 0) + 1
            return None
        return (dict(sig, kind="raises"), "re-fit to other data raises %s, a fresh model fits" % e_m)
    sm, sf = snapshot(m), snapshot(f)
    for i, (dm, df) in enumerate(zip(sm, sf)):
        if not dm["cond"]:
            continue
        if len(dm["pars"]) != len(df["pars"]) or dm["n_dists"] != df["n_dists"] or \
                not all(np.array_equal(a, bb) for a, bb in zip(dm["data_intervals"], df["data_intervals"])):
            return (dict(sig, kind="lists"), "dimension %d: interval data of the re-fit differ from a fresh fit" % i)
        if not all(relclose(a, bb, 1e-9, 1e-12) for p, q in zip(dm["pars"], df["pars"]) for a, bb in zip(p, q)) or \
                not all(relclose(a, bb, 1e-9, 1e-12) for a, bb in zip(dm["conditioning_values"], df["conditioning_values"])):
            return (dict(sig, kind="estimates"), "dimension %d: per-interval estimates / conditioning values of the re-fit differ from a fresh fit" % i)
        refs = np.array(df["conditioning_values"], dtype=float)
        cm, cf = m.model.distributions[i].conditional_parameters, f.model.distributions[i].conditional_parameters
        for j, pn in enumerate(b_names(m, i)):
            if pn not in cm:
                continue
            y = np.array([p[j] for p in df["pars"]], dtype=float)
            vm, vf = np.asarray(cm[pn](refs), dtype=float), np.asarray(cf[pn](refs), dtype=float)
            scale = float(np.max(np.abs(y))) or 1.0
            res_m, res_f = float(np.sum((vm - y) ** 2)), float(np.sum((vf - y) ** 2))
            worst = float(np.max(np.abs(vm - vf) / (np.abs(vf) + 1e-3 * scale)))
            if worst > 1e-4 or res_m > res_f * (1 + 1e-3) + 1e-12 * scale ** 2:
                return (dict(sig, kind="dependence"),
                        "dimension %d: dependence function of %s after fit(A); fit(B) differs from a fresh fit(B) by up to %.3g relative at the interval "
                        "references (squared residual against the interval estimates %.6g vs %.6g)" % (i, pn, worst, res_m, res_f))
    return None


def b_names(b, i):
    return b.param_names[i]


def shrink_nested(case, sig):
    budget = [24]
    out = dict(case)
    for key in ("data_b", "data_a"):
        def fails(rows, key=key):
            if budget[0] <= 0 or len(rows) < 150:
                return False
            budget[0] -= 1
            try:
                o = nested_oracle(dict(out, **{key: np.array(rows, dtype=float)}), {})
            except Exception:
                return False
            return o is not None and o[0].get("kind") == sig.get("kind")
        rows = vlib.shrink_list([list(map(float, r)) for r in np.asarray(out[key], dtype=float)], fails, min_len=150)
        out[key] = np.array(rows, dtype=float)
    return out


def jsonable_nested(case):
    return {"nested": case["nested"], "spec": case["spec"],
            "data_a": [[float(v) for v in r] for r in np.asarray(case["data_a"], dtype=float)],
            "data_b": [[float(v) for v in r] for r in np.asarray(case["data_b"], dtype=float)]}


# ------------------------------------------------------------------ shipped models, input types, history after an exception
def slicer_spec(sl):
    IV = _imp()[3]
    ref = sl.reference.fn if isinstance(sl.reference, RecRef) else sl.reference
    r = ("median" if ref is np.median else "mean" if ref is np.mean else "callable") if callable(ref) else str(ref).lower()
    kw = {"min_n_points": sl.min_n_points, "min_n_intervals": sl.min_n_intervals, "reference": r}
    if isinstance(sl, IV.WidthOfIntervalSlicer):
        return dict(kw, kind="width", width=sl.width, right_open=sl.right_open, value_range=None if sl.value_range is None else list(sl.value_range))
    if isinstance(sl, IV.NumberOfIntervalsSlicer):
        return dict(kw, kind="number", n_intervals=sl.n_intervals, include_max=sl.include_max,
                    value_range=None if sl.value_range is None else list(sl.value_range))
    return dict(kw, kind="ppi", n_points=sl.n_points, last_full=sl.last_full)


def wrap_model(model, fds):
    """tags and a spec-like description for a model that was NOT built by build_model (shipped model descriptions)"""
    V, D, DEP, IV, JM = _imp()
    b = Built()
    b.model, b.reflog, b.param_names, b.init_t, b.init_d, b.dep_ids, b.fresh, b.fixed = model, [], [], {}, {}, {}, {}, {}
    spec = {"dims": [], "fds": fds}
    dep_id = 0
    for i, d in enumerate(model.distributions):
        cond = isinstance(d, D.ConditionalDistribution)
        t = d.distribution if cond else d
        t._c09_tag = i
        b.fresh[i] = copy.deepcopy(t)
        names = list(t.parameters)
        b.param_names.append(names)
        b.init_t[i] = [float(v) for v in t.parameters.values()]
        b.fixed[i] = {pn: float(getattr(t, "f_" + pn)) for pn in names if getattr(t, "f_" + pn) is not None}
        dm = {"template": type(t).__name__, "conditional_on": model.conditional_on[i], "slicer": slicer_spec(model.interval_slicers[i])}
        if cond:
            dm["deps"] = {}
            for pn, df in d.conditional_parameters.items():
                df._c09_tag = dep_id
                b.init_d[dep_id] = [float(v) for v in df.parameters.values()]
                b.dep_ids[(i, pn)] = dep_id
                dep_id += 1
                dm["deps"][pn] = "shipped"
        spec["dims"].append(dm)
    return b, spec


PREDEFINED = ["get_DNVGL_Hs_Tz", "get_DNVGL_Hs_U", "get_OMAE2020_Hs_Tz", "get_OMAE2020_V_Hs", "get_Windmeier_EW_Hs_S", "get_Nonzero_EW_Hs_S"]
_DATASETS = {}


def shipped_data(name):
    """rows for a shipped model description from the datasets of the repository (in the model's variable order;
    hs-tz for the two models that are defined in hs-steepness space)"""
    import os
    def load(fn):
        if fn not in _DATASETS:
            _DATASETS[fn] = np.genfromtxt(os.path.join(vlib.REPO, "datasets", fn), delimiter=";", skip_header=1, usecols=(1, 2))
        return _DATASETS[fn]
    if name == "get_DNVGL_Hs_U":
        return load("ec-benchmark_dataset_D_1year.txt")[:, ::-1].copy()
    if name == "get_OMAE2020_V_Hs":
        return load("ec-benchmark_dataset_D_1year.txt").copy()
    return load("ec-benchmark_dataset_A_1year.txt").copy()


def shipped_build(name, via_transformed):
    V, D, DEP, IV, JM = _imp()
    import virocon.predefined as PRE
    got = getattr(PRE, name)()
    descs, fds = got[0], got[1]
    model = V.GlobalHierarchicalModel(descs)
    b, spec = wrap_model(model, fds)
    b.transform = got[3]["transform"] if len(got) > 3 else None
    b.entry = JM.TransformedModel(model, got[3]["transform"], got[3]["inverse"], got[3]["jacobian"]) if (via_transformed and len(got) > 3) else model
    return b, spec


def shipped_fit(b, data, fds):
    """like run_fit, through b.entry (GlobalHierarchicalModel or the TransformedModel around it)"""
    import warnings
    with np.errstate(all="ignore"), Recording() as rec:
        try:
            with warnings.catch_warnings():
                warnings.simplefilter("ignore")
                b.entry.fit(data, copy.deepcopy(fds))
            out = {"ok": True, "dims": snapshot(b)}
        except Exception as e:  # noqa
            out = {"ok": False, "engine": rec.engine_raised or isinstance(e, NotImplementedError), "err": type(e).__name__, "msg": str(e)[:200]}
    rec.refs = []
    return out, rec


def shipped_oracle(case, notes):
    """the clauses of the property on a shipped model description, fitted to rows of a shipped dataset"""
    name, via = case["predefined"], case.get("via_transformed", False)
    data, perm = np.asarray(case["data"], dtype=float), np.asarray(case["perm"], dtype=int)
    b1, spec = shipped_build(name, via)
    fds = spec["fds"]
    sigx = {"model": name}
    if b1.transform is not None and not via:
        data = b1.transform(data)                # fitted directly in the model's own (hs, steepness) space
        b1.transform = None
    o1, r1 = shipped_fit(b1, data, fds)
    if not o1["ok"]:
        if o1["engine"] or o1["err"] == "RuntimeError":
            notes["shipped_unjudged"] = notes.get("shipped_unjudged", 0) + 1
            return None
        return (dict(sigx, clause="unexpected-exception", err=o1["err"]), "%s: fit raises %s: %s" % (name, o1["err"], o1["msg"]))
    seen = b1.transform(data) if b1.transform is not None else data      # what the hierarchical model is fitted to
    for i, d in enumerate(o1["dims"]):
        if d["cond"]:
            v = check_membership(spec, seen, i, d)
            if v:
                return dict(v[0], **sigx), name + ": " + v[1]
    v = check_calls(b1, spec, fds, o1, r1)
    if v:
        return dict(v[0], **sigx), name + ": " + v[1]
    v, ex, tot = standalone(b1, spec, fds, o1)
    notes["standalone_fits"] = notes.get("standalone_fits", 0) + tot
    notes["standalone_fits_bit_exact"] = notes.get("standalone_fits_bit_exact", 0) + ex
    if v:
        return dict(v[0], **sigx), name + ": " + v[1]
    b2, _ = shipped_build(name, via)
    o2, r2 = shipped_fit(b2, data[perm], fds)
    if not o2["ok"] and (o2["engine"] and o2["err"] == "RuntimeError"):
        notes["shipped_unjudged"] = notes.get("shipped_unjudged", 0) + 1
        return None
    v = compare_models(spec, seen, o1, o2, "order-invariance", notes)
    if v:
        return dict(v[0], **sigx), name + ": " + v[1]
    # re-fit of the (permuted-data) model to the original order = the first model
    o3, r3 = shipped_fit(b2, data, fds)
    if not o3["ok"] and (o3["engine"] and o3["err"] == "RuntimeError"):
        notes["shipped_unjudged"] = notes.get("shipped_unjudged", 0) + 1
        return None
    v = compare_models(spec, seen, o1, o3, "re-fit", notes)
    if v:
        return dict(v[0], **sigx), name + ": " + v[1]
    if o3["ok"]:
        v = check_calls(b2, spec, fds, o3, r3)
        if v:
            return dict(v[0], history="re-fit", **sigx), name + ": re-fit: " + v[1]
        # dependence functions (some nested, some weighted) of the re-fit against the first fit, at the references
        for i, (d1, d3) in enumerate(zip(o1["dims"], o3["dims"])):
            if not d1["cond"]:
                continue
            refs = np.array(d1["conditioning_values"], dtype=float)
            c1, c3 = b1.model.distributions[i].conditional_parameters, b2.model.distributions[i].conditional_parameters
            for j, pn in enumerate(b1.param_names[i]):
                if pn not in c1:
                    continue
                y = np.array([p[j] for p in d1["pars"]], dtype=float)
                v1, v3 = np.asarray(c1[pn](refs), dtype=float), np.asarray(c3[pn](refs), dtype=float)
                scale = float(np.max(np.abs(y))) or 1.0
                r1_, r3_ = float(np.sum((v1 - y) ** 2)), float(np.sum((v3 - y) ** 2))
                if float(np.max(np.abs(v1 - v3))) > 1e-3 * scale and r3_ > r1_ * 1.05 + 1e-12 * scale ** 2:
                    return (dict(sigx, clause="re-fit", kind="dependence"),
                            "%s: dependence function of %s of a re-fitted model is a worse fit to the interval estimates than that of a fresh model "
                            "(squared residual %.6g vs %.6g)" % (name, pn, r3_, r1_))
    return None


def as_input(data, kind):
    if kind == "list":
        return [[float(v) for v in r] for r in data]
    if kind == "tuple":
        return tuple(tuple(float(v) for v in r) for r in data)
    if kind == "dataframe":
        import pandas as pd
        return pd.DataFrame(data, columns=["v%d" % i for i in range(data.shape[1])])
    if kind == "fortran":
        return np.asfortranarray(data)
    if kind == "strided":                       # a non-contiguous view
        big = np.zeros((2 * len(data), data.shape[1] + 1))
        big[::2, :-1] = data
        return big[::2, :-1]
    if kind == "float32":
        return data.astype(np.float32)
    return data


INPUT_KINDS = ["list", "tuple", "dataframe", "fortran", "strided", "int"]


def same_snapshot(o1, o2, tol=None):
    """tol=None: everything exactly; else estimates to tol relative and dependence parameters not compared
    (float32 input: the engines then compute in single precision)"""
    if o1["ok"] != o2["ok"]:
        return "one raises (%s), the other does not" % (o1.get("err") or o2.get("err"))
    if not o1["ok"]:
        return None if o1["err"] == o2["err"] else "different exceptions %s / %s" % (o1["err"], o2["err"])
    for i, (d1, d2) in enumerate(zip(o1["dims"], o2["dims"])):
        if tol is None and d1["pars"] != d2["pars"]:
            return "dimension %d: different estimates" % i
        if tol is not None:
            flat1 = d1["pars"] if not d1["cond"] else [v for p in d1["pars"] for v in p]
            flat2 = d2["pars"] if not d2["cond"] else [v for p in d2["pars"] for v in p]
            if len(flat1) != len(flat2) or not all(relclose(a, bb, tol, tol) for a, bb in zip(flat1, flat2)):
                return "dimension %d: estimates differ by more than %g relative" % (i, tol)
        if d1["cond"]:
            if len(d1["data_intervals"]) != len(d2["data_intervals"]) or \
                    not all(np.array_equal(a, bb) for a, bb in zip(d1["data_intervals"], d2["data_intervals"])):
                return "dimension %d: different interval data" % i
            if d1["conditioning_values"] != d2["conditioning_values"] or d1["boundaries"] != d2["boundaries"]:
                return "dimension %d: different conditioning values / boundaries" % i
            if tol is None and d1["deps"] != d2["deps"]:
                return "dimension %d: different dependence parameters" % i
    return None


def input_oracle(case, notes):
    """the data matrix as list of lists / tuples / pandas DataFrame / Fortran-ordered / strided view / integer or
    float32 dtype gives the model an ndarray of the same values gives (every step is deterministic: exactly)"""
    spec, fds, kind = case["spec"], case["spec"]["fds"], case["input"]
    data = np.asarray(case["data"], dtype=float)
    if kind == "int":
        data = np.floor(data * 8) + 1.0       # integral values, positive
        arg = data.astype(np.int64)
    elif kind == "float32":
        data = data.astype(np.float32).astype(float)
        arg = data.astype(np.float32)
    else:
        arg = as_input(data, kind)
    b1, b2 = build_model(spec), build_model(spec)
    o1, _ = run_fit_raw(b1, data, fds)
    o2, _ = run_fit_raw(b2, arg, fds)
    if not o1["ok"] and o1.get("engine"):
        notes["engine_errors_unjudged"] = notes.get("engine_errors_unjudged", 0) + 1
        return None
    d = same_snapshot(o1, o2, tol=1e-3 if kind == "float32" else None)
    if d:
        return ({"clause": "input-type", "input": kind}, "data given as %s: %s (%s)" % (kind, d, o2.get("msg", "")))
    return None


def run_fit_raw(b, data_arg, fds):
    """run_fit without converting the data argument"""
    import warnings
    with np.errstate(all="ignore"), Recording() as rec:
        try:
            with warnings.catch_warnings():
                warnings.simplefilter("ignore")
                b.model.fit(data_arg, copy.deepcopy(fds))
            out = {"ok": True, "dims": snapshot(b)}
        except Exception as e:  # noqa
            out = {"ok": False, "engine": rec.engine_raised or isinstance(e, NotImplementedError), "err": type(e).__name__, "msg": str(e)[:200]}
    rec.refs = []
    return out, rec


BAD_INPUTS = ["too-few-intervals", "wrong-columns", "fds-length", "fds-no-method", "unknown-method"]


def exception_oracle(case, notes):
    """rejected input raises the documented exception, and a model whose fit raised is afterwards fitted like a fresh one"""
    spec, fds, bad = case["spec"], case["spec"]["fds"], case["bad"]
    data = np.asarray(case["data"], dtype=float)
    nd = len(spec["dims"])
    b1, b2 = build_model(spec), build_model(spec)
    if bad == "too-few-intervals":
        arg, f, want = data[:25], fds, "RuntimeError"          # fewer rows than min_n_points in every interval
        if all(dm["conditional_on"] is None for dm in spec["dims"]):
            return None
    elif bad == "wrong-columns":
        arg, f, want = np.column_stack([data, data[:, 0]]), fds, "ValueError"
    elif bad == "fds-length":
        arg, f, want = data, [None] * (nd + 1), "ValueError"
    elif bad == "fds-no-method":
        arg, f, want = data, [None] * (nd - 1) + [{"weights": None}], "ValueError"
    else:
        # raised lazily, when the last dimension's template is fitted: only if nothing raises before
        arg, f, want = data, [None] * (nd - 1) + [{"method": "moments"}], "ValueError"
        if not run_fit_raw(build_model(spec), data, [None] * nd)[0]["ok"]:
            notes["rejected_unjudged"] = notes.get("rejected_unjudged", 0) + 1
            return None
    ob, _ = run_fit_raw(b1, arg, f)
    conditioners = {dm["conditional_on"] for dm in spec["dims"] if dm["conditional_on"] is not None}
    if bad == "too-few-intervals" and not ob["ok"] and \
            any((spec["dims"][c].get("slicer") or {}).get("kind") == "ppi" for c in conditioners):
        want = ob["err"]   # fewer rows than n_points: np.split into 0 chunks (ZeroDivisionError) -- rejected, class not part of the property
    if ob["ok"] or ob["err"] != want:
        if bad == "too-few-intervals" and not ob["ok"] and ob.get("engine"):
            notes["engine_errors_unjudged"] = notes.get("engine_errors_unjudged", 0) + 1
            return None
        return ({"clause": "rejected-input", "bad": bad}, "%s: expected %s, got %s" % (bad, want, "no exception" if ob["ok"] else ob["err"] + ": " + ob["msg"]))
    o1, _ = run_fit(b1, data, fds)       # the model whose previous fit raised
    o2, _ = run_fit(b2, data, fds)       # fresh
    if (not o2["ok"] and o2.get("engine")) or (not o1["ok"] and o1.get("engine") and o1["err"] == "RuntimeError"):
        notes["engine_errors_unjudged"] = notes.get("engine_errors_unjudged", 0) + 1
        return None
    v = compare_models(spec, data, o2, o1, "re-fit", notes)
    if v:
        return dict(v[0], history="after-" + bad), "fit after a fit that raised (%s): %s" % (bad, v[1])
    if o1["ok"]:
        for i, (d1, d2) in enumerate(zip(o1["dims"], o2["dims"])):
            if d1["cond"] and (d1["n_dists"] != d2["n_dists"] or not all(np.array_equal(a, bb) for a, bb in zip(d1["data_intervals"], d2["data_intervals"]))):
                return ({"clause": "re-fit", "history": "after-" + bad}, "dimension %d: lists differ from a fresh fit after a fit that raised" % i)
    return None


# ------------------------------------------------------------------ driver
def nontrivial(case, out):
    if not out["ok"]:
        return True
    return any(d["cond"] and len(d["data_intervals"]) >= 2 for d in out["dims"])


def run(ctx):
    _imp()
    ctx.proof_gate()
    import time as _t
    t_gate = _t.time() - ctx.t0
    ncases = ctx.n(60, 240)
    cases = [gen_case(ctx, k, big=(k % 6 == 5)) for k in range(ncases)]
    dist = {}
    items, meta, suspects = [], [], []
    skipped = 0
    for k, case in enumerate(cases):
        spec, data, fds = case["spec"], case["data"], case["spec"]["fds"]
        if not case["corr"]:
            dist["search only (PointsPerInterval, > 700 rows)"] = dist.get("search only (PointsPerInterval, > 700 rows)", 0) + 1
            continue
        b = build_model(spec)
        fits = []
        o1, r1 = run_fit(b, data, fds)
        fits.append((data, fds, o1, r1))
        if case["refit"] and not (not o1["ok"] and o1["engine"]):
            # history: the same model object is fitted again, to the permuted matrix and with other options
            data2 = data[np.asarray(case["perm"])]
            fds2 = None if fds is not None and ctx.rng.random() < 0.3 else fds
            o2, r2 = run_fit(b, data2, fds2)
            fits.append((data2, fds2, o2, r2))
        kinds = "+".join(sorted({(dm.get("slicer") or {"kind": "default"})["kind"] for i, dm in enumerate(spec["dims"])
                                 if i in [d.get("conditional_on") for d in spec["dims"]]}))
        key = "%dD/%s/%s/%s%s" % (len(spec["dims"]), kinds, case["variant"],
                                  "wlsq" if fds and any(d and d["method"].lower() != "mle" for d in fds) else "mle",
                                  "" if o1["ok"] else ("/engine-error" if o1["engine"] else "/" + o1["err"]))
        dist[key] = dist.get(key, 0) + 1
        if any((not f[2]["ok"]) and f[2]["engine"] for f in fits):
            skipped += 1
            ctx.notes.setdefault("engine_error_examples", [])
            if len(ctx.notes["engine_error_examples"]) < 4:
                ctx.notes["engine_error_examples"].append("%s: %s" % (fits[-1][2]["err"], fits[-1][2]["msg"][:120]))
            if o1["ok"] and fits[-1][2]["err"] != "RuntimeError":
                ctx.mismatch("joint fit case %d fit 1" % k, "re-fit raises %s inside an engine (%s), the first fit did not" % (fits[-1][2]["err"], fits[-1][2]["msg"]))
                suspects.append(k)
            continue
        ctx.count((k, key, len(data), float(data[0, 0])), nontrivial(case, o1), n=len(fits))
        if k < 2 and o1["ok"]:
            ctx.sample({"spec": spec, "rows": len(data), "variant": case["variant"],
                        "dimensions": [{"intervals": len(d["data_intervals"]), "conditioning_values": d["conditioning_values"][:3],
                                        "parameters_per_interval": d["pars"][:2], "dependence": d["deps"]} if d["cond"] else {"parameters": d["pars"]}
                                       for d in o1["dims"]]})
        for j, f in enumerate(fits):
            # distributions_per_interval is not in the Coq state: it must run parallel to parameters_per_interval
            if f[2]["ok"] and any(d["cond"] and d["n_dists"] != len(d["pars"]) for d in f[2]["dims"]):
                ctx.mismatch("joint fit case %d fit %d" % (k, j), "distributions_per_interval and parameters_per_interval have different lengths")
                suspects.append(k)
        items.append(("case_%d" % k, coq_case(b, spec, fits)))
        meta.append((k, len(fits)))
    ctx.notes["input_distribution"] = dist
    ctx.notes["rows"] = {"min": min(len(c["data"]) for c in cases), "max": max(len(c["data"]) for c in cases)}
    ctx.notes["engine_errors_skipped_in_correspondence"] = skipped
    # ---- correspondence
    import time
    ctx.notes["seconds_proof_gate"] = round(t_gate, 1)
    ctx.notes["seconds_real_fits"] = round(time.time() - ctx.t0, 1)
    t1 = time.time()
    outs = ctx.coq_eval_many(items, jobs=12, timeout=1500)
    ctx.notes["seconds_coq_evaluation"] = round(time.time() - t1, 1)
    ctx.notes["case_file_bytes"] = sum(len(t) for _, t in items)
    ncmp = 0
    if skipped > max(3, ncases // 4):
        ctx.broken.append(("correspondence", "engine errors", "%d of %d cases raise inside a fitting engine" % (skipped, ncases)))
    for (k, nf), o in zip(meta, outs):
        if o is None:
            suspects.append(k)
            continue
        codes = vlib.parse_term(o[0])
        for j, code in enumerate(codes):
            ncmp += 1
            if code != 0:
                ctx.mismatch("joint fit case %d fit %d" % (k, j), "%s differ (structure %s, slicers %s, %d rows, %s)" % (
                    CODES.get(code, code), [dm["conditional_on"] for dm in cases[k]["spec"]["dims"]],
                    [(dm.get("slicer") or {}).get("kind") for dm in cases[k]["spec"]["dims"]], len(cases[k]["data"]), cases[k]["variant"]))
                suspects.append(k)
    ctx.cov["programs"] = 4
    ctx.notes["correspondence"] = {"fits_compared": ncmp, "mismatching_cases": len(set(suspects))}
    # ---- search: the property oracle, disagreeing cases first
    order = list(dict.fromkeys(suspects)) + [k for k in range(ncases) if k not in suspects]
    if ctx.quick() and not suspects:
        order = order[:ctx.n(48, 240)]
    found = 0
    for k in order:
        if found >= 4:
            break
        case = cases[k]
        try:
            o = oracle(case, ctx.notes)
        except Exception as e:  # noqa
            ctx.notes["oracle_crashes"] = ctx.notes.get("oracle_crashes", 0) + 1
            ctx.notes["oracle_crash_last"] = "%s: %s" % (type(e).__name__, str(e)[:200])
            continue
        ctx.cov["evaluations"] += 1
        if o is not None:
            sig, msg = o
            known = any(f.get("status") == "known" and all(sig.get(a) == v for a, v in f["match"].items()) for f in ctx.findings)
            small = case if known else shrink(case, sig, ctx.notes)
            o2 = oracle(small, {}, light=(sig.get("clause") != "standalone-fit")) or o
            if o2[0].get("clause") != sig.get("clause"):
                small, o2 = case, o
            if ctx.violation(o2[0], "joint fit (%s, %d rows, %s): %s" % (
                    [dm["conditional_on"] for dm in case["spec"]["dims"]], len(small["data"]), case["variant"], o2[1]), jsonable_case(small)):
                found += 1
    # nested dependence functions (both parameter orders): fit(A); fit(B) against a fresh fit(B) -- search only
    n_nested = ctx.n(8, 32)
    nested_found = 0
    for k in range(n_nested):
        if nested_found >= 2:
            break
        nc = gen_nested_case(ctx, k)
        try:
            o = nested_oracle(nc, ctx.notes)
        except Exception as e:  # noqa
            ctx.notes["oracle_crashes"] = ctx.notes.get("oracle_crashes", 0) + 1
            ctx.notes["oracle_crash_last"] = "nested %s: %s" % (type(e).__name__, str(e)[:200])
            continue
        ctx.count(("nested", k, nc["nested"], nc["spec"]["dims"][1]["template"], len(nc["data_a"]), len(nc["data_b"])), True)
        ctx.notes["nested_refit_cases"] = ctx.notes.get("nested_refit_cases", 0) + 1
        if o is not None:
            small = shrink_nested(nc, o[0])
            o2 = nested_oracle(small, {}) or o
            if ctx.violation(o2[0], "joint fit with nested dependence functions (%s, %s, fit to %d rows then re-fit to %d rows): %s" % (
                    nc["nested"], nc["spec"]["dims"][1]["template"], len(small["data_a"]), len(small["data_b"]), o2[1]), jsonable_nested(small)):
                nested_found += 1
    ctx.notes["seconds_until_extra_oracles"] = round(_t.time() - ctx.t0, 1)
    # shipped model descriptions on rows of the shipped datasets (also through TransformedModel.fit)
    extra = []
    for j, name in enumerate(PREDEFINED if not ctx.quick() else [PREDEFINED[(ctx.seed + j) % len(PREDEFINED)] for j in range(3)]):
        full = shipped_data(name)
        n = ctx.rng.choice([2000, 3000] if ctx.quick() else [3000, len(full)])
        idx = np.sort(ctx.np_rng(20000 + j).choice(len(full), size=min(n, len(full)), replace=False))   # time order kept
        rows = full[idx]
        extra.append((shipped_oracle, "shipped", {"predefined": name, "via_transformed": bool(ctx.rng.random() < 0.5), "data": rows,
                                                  "perm": [int(i) for i in ctx.np_rng(21000 + j).permutation(len(rows))]}))
    # input types and rejected input / history after an exception, on generated cases without PointsPerInterval ties trouble
    plain = [c for c in cases if len(c["data"]) <= 1500]
    for j in range(ctx.n(7, 28)):
        c = plain[(3 * j) % len(plain)]
        extra.append((input_oracle, "input", {"spec": c["spec"], "data": c["data"], "input": INPUT_KINDS[j % len(INPUT_KINDS)]}))
    for j in range(ctx.n(5, 20)):
        c = plain[(5 * j + 1) % len(plain)]
        extra.append((exception_oracle, "rejected", {"spec": c["spec"], "data": c["data"], "bad": BAD_INPUTS[j % len(BAD_INPUTS)]}))
    extra_found = 0
    for fn, label, ec in extra:
        if extra_found >= 3:
            break
        try:
            o = fn(ec, ctx.notes)
        except Exception as e:  # noqa
            ctx.notes["oracle_crashes"] = ctx.notes.get("oracle_crashes", 0) + 1
            ctx.notes["oracle_crash_last"] = "%s %s: %s" % (label, type(e).__name__, str(e)[:200])
            continue
        ctx.notes[label + "_cases"] = ctx.notes.get(label + "_cases", 0) + 1
        ctx.count((label, ec.get("predefined"), ec.get("input"), ec.get("bad"), len(ec["data"]), float(ec["data"][0][0])), True)
        if o is not None:
            rep = dict(ec, data=[[float(v) for v in r] for r in np.asarray(ec["data"], dtype=float)])
            if ctx.violation(o[0], "joint fit (%s, %d rows): %s" % (label, len(ec["data"]), o[1]), rep):
                extra_found += 1
    ctx.notes["independent_dependence_fits (bounds set, weights set)"] = {str(k): v for k, v in sorted(_DEP_REFITS.items(), key=str)}
    ctx.notes["seconds_total_before_finish"] = round(_t.time() - ctx.t0, 1)
    if ctx.notes.get("oracle_crashes", 0) > max(2, len(order) // 4):
        ctx.broken.append(("search", "property oracle crashed on %d cases" % ctx.notes["oracle_crashes"], ctx.notes.get("oracle_crash_last", "")))
    ctx.cov["rule"] = ("random 2-D / 3-D hierarchical models (chain, star, extra unconditional dimension) x the three slicers and their options x "
                       "templates (Weibull, log-normal, normal, exponentiated Weibull) x fit descriptions (None, partial, mle, (w)lsq with weights) x "
                       "data (shuffled, sorted, rounded to 1 / 2 decimals, tied conditioning values), 300..3000 rows (thorough: ..20000), first fit and re-fit; "
                       "non-trivial = a conditional dimension with >= 2 fitted intervals or an exception; distinct = hash of (case index, configuration, size, first datum)")
    ctx.cov["trusted_base"] = ["Coq 8.16.1 kernel + vm_compute (primitive floats)", "harness tools/harness/c09.py (generators, recorders, comparison)",
                               "engines as recorded tables: scipy template fits, curve_fit dependence fits, np.argsort (contract checked per case), np.median / np.mean references",
                               "interval edge arithmetic: model/Intervals.v (C10), validated bit for bit by this run's correspondence"]
    ctx.assumptions += ["template fit is invariant under permutation of its observations (exact for the estimators; to optimiser tolerance for scipy)",
                        "no NaN in the data; value range max/min taken over a strict total order",
                        "PointsPerIntervalSlicer: no two observations in different chunks have tied conditioning values (otherwise known finding C09-ppi-ties)",
                        "Coq model: dependence functions without dependent parameters (the callback protocol is C14); nested ones are "
                        "covered by the search only (fit A, re-fit B vs fresh fit B)"]
