(* C07, clause "so the Rosenblatt transform of the sample is independent standard normal": the deterministic core.
   The Rosenblatt transform of a joint sample maps entry (r, i) to F_i(x_ri | x_r,cond(i)), the cdf of variable
   i with the parameters its dependence functions give at THE SAME ROW's value of its conditioning variable.
   Contract on the sampling engine (pit_engine): the probability-integral transform of the values one rvs call
   returns -- each taken with ITS OWN parameter tuple -- is a stream U n g that depends on the requested
   count and on the generator state only, not on the parameters.  (True of every inverse-transform and
   location-scale sampler; it is what "element r is drawn from the distribution with the r-th parameters"
   means once the randomness is separated from the parameters.)
   Theorem: column i of the Rosenblatt image of virocon's sample IS that stream, taken at the generator state
   the i-th call received; so the image depends on (n, initial state) alone -- the model, its dependence
   functions and its parameters cancel out completely.  Independence and uniformity of the streams of
   successive generator states is numpy's, not virocon's, and stays a contract (validated statistically by the
   harness).  A sampler that paired row r with the conditioning value of another row, used a stale column,
   or drew a conditional variable with the wrong parameters cannot satisfy this equation. *)
From Coq Require Import List Arith Lia ZArith.
From V.model Require Import Joint.
From V.proofs Require Import JointProofs.
Import ListNotations.

Section Rosenblatt.
  Variable T : Type.
  Variable zero : T.
  Variables G P : Type.
  Notation sdim := (sdim T G P).
  Notation draw_cols := (draw_cols T zero G P).
  Notation rows_of_cols := (rows_of_cols T zero).

  Variable cdf : sdim -> P -> T -> T.        (* the cdf of the dimension's family at a parameter tuple *)
  Variable U : nat -> G -> list T.           (* the engine's probability-integral-transform stream *)

  Definition pit_engine (d : sdim) : Prop :=
    (forall p n g r, r < n -> cdf d p (nth r (fst (rvs_n d p n g)) zero) = nth r (U n g) zero) /\
    (forall ps g r dP, r < length ps ->
        cdf d (nth r ps dP) (nth r (fst (rvs_par d ps g)) zero) = nth r (U (length ps) g) zero).

  (* entry i of the Rosenblatt image of one row *)
  Definition rosen_entry (d : sdim) (i : nat) (row : list T) : T :=
    match scond d with
    | None => cdf d (own d) (nth i row zero)
    | Some j => cdf d (theta d (nth j row zero)) (nth i row zero)
    end.

  (* the whole Rosenblatt image of a row, in model order *)
  Fixpoint rosen_from (i : nat) (ds : list sdim) (row : list T) : list T :=
    match ds with [] => [] | d :: ds' => rosen_entry d i row :: rosen_from (S i) ds' row end.
  Definition rosenblatt (ds : list sdim) (row : list T) : list T := rosen_from 0 ds row.

  Lemma rosen_from_nth : forall ds i row k d, nth_error ds k = Some d ->
    nth k (rosen_from i ds row) zero = rosen_entry d (i + k) row.
  Proof.
    induction ds as [|d0 ds IH]; intros i row k d H; [destruct k; discriminate|].
    destruct k as [|k]; cbn in *.
    - inversion H; subst. now rewrite Nat.add_0_r.
    - rewrite (IH (S i) row k d H). f_equal. lia.
  Qed.

  Lemma rosen_from_length : forall ds i row, length (rosen_from i ds row) = length ds.
  Proof. induction ds as [|d ds IH]; intros i row; cbn; [reflexivity|now rewrite IH]. Qed.

  Theorem rosenblatt_column (ds1 : list sdim) d ds2 n g cols' tr' g' :
    (forall d', In d' (ds1 ++ d :: ds2) -> rvs_len T G P d') -> pit_engine d ->
    draw_cols (ds1 ++ d :: ds2) n g [] [] = (cols', tr', g') ->
    (forall j, scond d = Some j -> j < length ds1) ->
    exists c, nth_error tr' (length ds1) = Some c /\
      forall r row, nth_error (rows_of_cols n cols') r = Some row ->
        rosen_entry d (length ds1) row = nth r (U n (call_state G P c)) zero.
  Proof.
    intros Hc [Hn Hp] H Hw. unfold rosen_entry. destruct (scond d) as [j|] eqn:Hs.
    - destruct (draw_row_pairing T zero G P ds1 d ds2 n g cols' tr' g' j Hc H Hs (Hw j eq_refl))
        as [gi [Hcall [Hcol Hlen]]].
      eexists. split; [exact Hcall|]. cbn [Joint.call_state]. intros r row Hrow.
      set (rows := rows_of_cols n cols') in *.
      assert (Hr : r < length rows) by (apply nth_error_Some; congruence).
      assert (Hrow' : nth r rows [] = row) by (now apply nth_error_nth).
      set (ps := map (fun row0 => theta d (nth j row0 zero)) rows) in *.
      assert (Hrp : r < length ps) by (unfold ps; now rewrite map_length).
      pose proof (Hp ps gi r (theta d zero) Hrp) as E. rewrite <- Hcol, Hlen in E.
      unfold ps in E at 1. rewrite (nth_map_in _ _ _ []) in E by exact Hr.
      rewrite (nth_map_in _ _ _ []) in E by exact Hr. now rewrite Hrow' in E.
    - destruct (draw_unconditional T zero G P ds1 d ds2 n g cols' tr' g' H Hs) as [gi [Hcall Hcol]].
      eexists. split; [exact Hcall|]. cbn [Joint.call_state]. intros r row Hrow.
      assert (Hr : r < n).
      { pose proof (proj1 (sample_shape T zero n cols')) as L. rewrite <- L. apply nth_error_Some. congruence. }
      assert (Hrow' : nth r (rows_of_cols n cols') [] = row) by (now apply nth_error_nth).
      rewrite <- Hrow', (sample_entry T zero n cols' r (length ds1) Hr).
      rewrite (nth_error_nth _ _ [] Hcol). apply Hn, Hr.
  Qed.

  (* admissible hierarchy: variable i conditions on an earlier one *)
  Fixpoint wf_sfrom (i : nat) (ds : list sdim) : Prop :=
    match ds with [] => True
    | d :: ds' => (forall j, scond d = Some j -> j < i) /\ wf_sfrom (S i) ds' end.

  Lemma wf_sfrom_nth : forall ds i k d, wf_sfrom i ds -> nth_error ds k = Some d ->
    forall j, scond d = Some j -> j < i + k.
  Proof.
    induction ds as [|d0 ds IH]; intros i k d W H; [destruct k; discriminate|].
    destruct W as [W0 W]. destruct k as [|k]; cbn in H.
    - inversion H; subst. intros j Hj. specialize (W0 j Hj). lia.
    - intros j Hj. pose proof (IH (S i) k d W H j Hj). lia.
  Qed.

  Lemma split_at {A} : forall (l : list A) k d, nth_error l k = Some d ->
    exists l1 l2, l = l1 ++ d :: l2 /\ length l1 = k.
  Proof.
    intros l k d H. destruct (nth_error_split l k H) as [l1 [l2 [E L]]]. now exists l1, l2.
  Qed.

  (* THE WHOLE IMAGE: for an admissible hierarchy sampled by PIT engines, the Rosenblatt image of row r of the
     sample is, entry by entry, element r of the stream of the state the corresponding call received --
     whatever the families, parameters and dependence functions of the model are *)
  Theorem rosenblatt_of_sample (ds : list sdim) n g cols' tr' g' :
    (forall d, In d ds -> rvs_len T G P d) -> (forall d, In d ds -> pit_engine d) -> wf_sfrom 0 ds ->
    draw_cols ds n g [] [] = (cols', tr', g') ->
    forall r row, nth_error (rows_of_cols n cols') r = Some row ->
      length (rosenblatt ds row) = length ds /\
      forall k, k < length ds ->
        exists c, nth_error tr' k = Some c /\
                  nth k (rosenblatt ds row) zero = nth r (U n (call_state G P c)) zero.
  Proof.
    intros Hc Hpit W H r row Hrow. split; [apply rosen_from_length|].
    - intros k Hk. destruct (nth_error ds k) as [d|] eqn:Hd; [|apply nth_error_None in Hd; lia].
      destruct (split_at ds k d Hd) as [ds1 [ds2 [E L]]]. subst ds.
      assert (Hin : In d (ds1 ++ d :: ds2)) by (apply in_or_app; right; now left).
      destruct (rosenblatt_column ds1 d ds2 n g cols' tr' g' Hc (Hpit d Hin) H) as [c [Hcall Hrows]].
      { intros j Hj. pose proof (wf_sfrom_nth _ 0 k d W Hd j Hj). lia. }
      exists c. rewrite <- L. split; [exact Hcall|].
      unfold rosenblatt. rewrite (rosen_from_nth _ 0 row (length ds1) d) by (now rewrite L).
      cbn [Nat.add]. apply (Hrows r row Hrow).
  Qed.
End Rosenblatt.
