(* Lemmas for C09: what the joint fit hands to the template / dependence fits, invariance under row
   permutations, locality of the fit options, re-fit.  The interval model and its lemmas are imported from
   model/Intervals.v and proofs/IntervalsProofs.v. *)
From Coq Require Import List Bool Arith Lia Permutation.
From V.model Require Import Intervals JointFit.
From V.proofs Require Import IntervalsProofs.
Import ListNotations.

(* ------------------------------------------------------------------ lists *)
Section Lists.
  Lemma selm_map {A B} (f : A -> bool) (g : A -> B) (l : list A) :
    selm (map f l) (map g l) = map g (filter f l).
  Proof. unfold selm. induction l as [|a l IH]; [reflexivity|]. cbn [map combine filter fst].
    destruct (f a); cbn [map snd]; rewrite IH; reflexivity. Qed.

  Lemma perm_filter {A} (f : A -> bool) (l l' : list A) :
    Permutation l l' -> Permutation (filter f l) (filter f l').
  Proof. induction 1 as [|x l l' _ IH|x y l|l l' l'' _ IH1 _ IH2]; cbn [filter].
    - constructor.
    - destruct (f x); [constructor|]; exact IH.
    - destruct (f x), (f y); try apply Permutation_refl. apply perm_swap.
    - exact (perm_trans IH1 IH2). Qed.

  Lemma perm_forallb {A} (f : A -> bool) (l l' : list A) : Permutation l l' -> forallb f l = forallb f l'.
  Proof. induction 1 as [|x l l' _ IH|x y l|l l' l'' _ IH1 _ IH2]; cbn [forallb]; try congruence.
    destruct (f x), (f y); reflexivity. Qed.

  Lemma count_true_map {A} (f : A -> bool) (l : list A) : count_true (map f l) = length (filter f l).
  Proof. unfold count_true. induction l as [|a l IH]; [reflexivity|]. cbn [map filter].
    destruct (f a); cbn [length]; rewrite IH; reflexivity. Qed.

  Lemma filter_map_comm {A B} (p : B -> bool) (f : A -> B) (l : list A) :
    filter p (map f l) = map f (filter (fun a => p (f a)) l).
  Proof. induction l as [|a l IH]; [reflexivity|]. cbn [map filter]. destruct (p (f a)); cbn [map]; rewrite IH; reflexivity. Qed.

  Lemma Forall2_refl_perm {A} (l : list (list A)) : Forall2 (@Permutation A) l l.
  Proof. induction l; constructor; auto. Qed.

  Lemma Forall2_map_same {A B} (P : B -> B -> Prop) (f g : A -> B) (l : list A) :
    (forall a, In a l -> P (f a) (g a)) -> Forall2 P (map f l) (map g l).
  Proof. induction l as [|a l IH]; intros H; cbn [map]; constructor.
    - apply H. left. reflexivity.
    - apply IH. intros b Hb. apply H. right. exact Hb. Qed.

  Lemma map_perm_inv {A B} (f : list A -> B) (l l' : list (list A)) :
    (forall x x', Permutation x x' -> f x = f x') -> Forall2 (@Permutation A) l l' -> map f l = map f l'.
  Proof. intros Hf. induction 1 as [|x x' l l' Hx _ IH]; [reflexivity|]. cbn [map]. rewrite (Hf _ _ Hx), IH. reflexivity. Qed.
End Lists.

(* ------------------------------------------------------------------ edge slicers (Width / Number) *)
Section Edge.
  Variables T R : Type.
  Variable leb : T -> T -> bool.
  Variable d0 : T.
  Notation col := (col T d0).
  Notation inb := (inb T leb).

  (* the observations of column i whose conditioning value (column c) lies in the interval, in row order *)
  Definition members (k : kind) (iv : T * T) (c i : nat) (rows : list (list T)) : list T :=
    map (fun r => nth i r d0) (filter (fun r => inb k iv (nth c r d0)) rows).

  Lemma mask_col k iv c rows : mask T leb k iv (col c rows) = map (fun r => inb k iv (nth c r d0)) rows.
  Proof. unfold mask, JointFit.col. apply map_map. Qed.

  Lemma sel_mask_members k iv c i rows : selm (mask T leb k iv (col c rows)) (col i rows) = members k iv c i rows.
  Proof. rewrite mask_col. unfold JointFit.col. apply selm_map. Qed.

  Lemma members_perm k iv c i rows rows' : Permutation rows rows' ->
    Permutation (members k iv c i rows) (members k iv c i rows').
  Proof. intros H. unfold members. apply Permutation_map. apply perm_filter. exact H. Qed.

  Lemma col_perm c rows rows' : Permutation rows rows' -> Permutation (col c rows) (col c rows').
  Proof. apply Permutation_map. Qed.

  (* the intervals of a plan as (kind, (lower, upper), reference) *)
  Definition arows (pl : plan T R) : list (kind * (T * T) * R) :=
    combine (combine (kinds (pl_kind pl) (pl_close pl) (length (intervals T (pl_edges pl)))) (intervals T (pl_edges pl)))
            (pl_refs pl).
  (* those with at least min_n_points members *)
  Definition kept (pl : plan T R) (x : list T) : list (kind * (T * T) * R) :=
    filter (fun a => pl_mnp pl <=? length (filter (inb (fst (fst a)) (snd (fst a))) x)) (arows pl).
  Definition mkr (x : list T) (a : kind * (T * T) * R) : row T R :=
    mkrow (mask T leb (fst (fst a)) (snd (fst a)) x) (snd a) (snd (fst a)).

  Lemma drop_rows_of pl x :
    drop T (pl_mnp pl) (rows_of T leb (pl_kind pl) (pl_close pl) (pl_edges pl) (pl_refs pl) x) = map (mkr x) (kept pl x).
  Proof. unfold drop, rows_of, kept, arows. rewrite filter_map_comm. f_equal. apply filter_ext.
    intros a. cbn [r_mask]. unfold mask. rewrite count_true_map. reflexivity. Qed.

  Lemma plan_slice_spec pl x :
    plan_slice T R leb pl x = if length (kept pl x) <? pl_mni pl then None else Some (map (mkr x) (kept pl x)).
  Proof. unfold plan_slice. rewrite drop_rows_of. unfold finish. rewrite map_length. reflexivity. Qed.

  Lemma kept_perm pl x x' : Permutation x x' -> kept pl x = kept pl x'.
  Proof. intros H. unfold kept. apply filter_ext. intros a.
    rewrite (Permutation_length (perm_filter (inb (fst (fst a)) (snd (fst a))) x x' H)). reflexivity. Qed.

  Definition ref_of (rf : option (list T -> R)) (c : nat) (rows : list (list T)) (a : kind * (T * T) * R) : R :=
    match rf with None => snd a | Some f => f (members (fst (fst a)) (snd (fst a)) c c rows) end.

  (* (c) what _split_in_intervals returns for a Width/Number slicer: for every surviving interval exactly the
     observations {y_r | x_r in interval}, in row order; RuntimeError iff too few intervals survive *)
  Theorem split_edge_spec slicers mk rf rows i c :
    nth_error slicers c = Some (edge_slicer T R leb mk rf) ->
    split_in_intervals T R d0 slicers rows i c =
    let pl := mk (col c rows) in
    let ks := kept pl (col c rows) in
    if length ks <? pl_mni pl then None
    else Some (map (fun a => members (fst (fst a)) (snd (fst a)) c i rows) ks,
               map (ref_of rf c rows) ks,
               map (fun a => snd (fst a)) ks).
  Proof.
    intros Hs. unfold split_in_intervals. rewrite Hs. unfold edge_slicer. rewrite plan_slice_spec. cbv zeta.
    destruct (length (kept (mk (col c rows)) (col c rows)) <? pl_mni (mk (col c rows))); [reflexivity|].
    cbn [option_map]. f_equal. f_equal; [f_equal|].
    - destruct rf; unfold reref; rewrite ?map_map; apply map_ext; intros a; cbn [r_mask mkr]; apply sel_mask_members.
    - destruct rf; unfold reref, ref_of; rewrite ?map_map; apply map_ext; intros a; cbn [r_ref r_mask mkr]; [|reflexivity].
      f_equal. apply sel_mask_members.
    - destruct rf; unfold reref; rewrite ?map_map; apply map_ext; intros a; reflexivity.
  Qed.

  Definition split_equiv (a b : option (list (list T) * list R * list (T * T))) : Prop :=
    match a, b with
    | None, None => True
    | Some (ivs, refs, bs), Some (ivs', refs', bs') => Forall2 (@Permutation T) ivs ivs' /\ refs = refs' /\ bs = bs'
    | _, _ => False
    end.

  Definition plan_inv (mk : list T -> plan T R) : Prop := forall x x', Permutation x x' -> mk x = mk x'.
  Definition rf_inv (rf : option (list T -> R)) : Prop :=
    match rf with None => True | Some f => forall x x', Permutation x x' -> f x = f x' end.

  (* (a) interval k of the permuted matrix is a permutation of interval k of the original; references,
     boundaries and the RuntimeError condition are identical *)
  Theorem split_edge_perm slicers mk rf rows rows' i c :
    nth_error slicers c = Some (edge_slicer T R leb mk rf) -> plan_inv mk -> rf_inv rf ->
    Permutation rows rows' ->
    split_equiv (split_in_intervals T R d0 slicers rows i c) (split_in_intervals T R d0 slicers rows' i c).
  Proof.
    intros Hs Hmk Hrf HP. rewrite !(split_edge_spec slicers mk rf _ i c Hs). cbv zeta.
    rewrite <- (Hmk _ _ (col_perm c rows rows' HP)).
    rewrite <- (kept_perm (mk (col c rows)) _ _ (col_perm c rows rows' HP)).
    destruct (length (kept (mk (col c rows)) (col c rows)) <? pl_mni (mk (col c rows))); cbn; [exact I|].
    split; [|split; [|reflexivity]].
    - apply Forall2_map_same. intros a _. apply members_perm. exact HP.
    - apply map_ext. intros a. unfold ref_of. destruct rf as [f|]; [|reflexivity].
      apply Hrf. apply members_perm. exact HP.
  Qed.
End Edge.

(* ------------------------------------------------------------------ the whole fit *)
Section Fit.
  Variables T R : Type.
  Variable d0 : T.
  Variables M W : Type.
  Variable mle : M.
  Variable wnone : W.
  Variables Tm P : Type.
  Variable tfit : Tm -> option P -> M -> W -> list T -> P.
  Variables Dep DP Y : Type.
  Variable proj : Dep -> P -> Y.
  Variable dfit : Dep -> option DP -> list R -> list Y -> DP.
  Notation fitted := (fitted T R P DP).
  Notation fit_dim := (fit_dim T R d0 M W Tm P tfit Dep DP Y proj dfit).
  Notation fit_dims := (fit_dims T R d0 M W Tm P tfit Dep DP Y proj dfit).
  Notation fit := (fit T R d0 M W mle wnone Tm P tfit Dep DP Y proj dfit).
  Notation cond_fit := (cond_fit T R M W Tm P tfit Dep DP Y proj dfit).
  Notation split := (split_in_intervals T R d0).
  Notation col := (col T d0).

  Definition oeq {A} (r : A -> A -> Prop) (a b : option A) : Prop :=
    match a, b with None, None => True | Some x, Some y => r x y | _, _ => False end.

  (* two fitted dimensions are the same model: everything equal, the stored interval data equal as multisets *)
  Definition feq (a b : fitted) : Prop :=
    match a, b with
    | FI p, FI q => p = q
    | FC ivs refs bs pars dps, FC ivs' refs' bs' pars' dps' =>
        Forall2 (@Permutation T) ivs ivs' /\ refs = refs' /\ bs = bs' /\ pars = pars' /\ dps = dps'
    | _, _ => False
    end.

  (* oracle contract: the template fit does not depend on the order of the observations *)
  Definition tfit_inv : Prop := forall tm p m w x x', Permutation x x' -> tfit tm p m w x = tfit tm p m w x'.

  Lemma cond_fit_perm tm deps prev m w ivs ivs' refs bs :
    tfit_inv -> Forall2 (@Permutation T) ivs ivs' ->
    feq (cond_fit tm deps prev m w ivs refs bs) (cond_fit tm deps prev m w ivs' refs bs).
  Proof. intros Ht Hiv. unfold JointFit.cond_fit. cbn [feq].
    rewrite (map_perm_inv (tfit tm None m w) ivs ivs' (Ht tm None m w) Hiv). repeat split; auto. Qed.

  Lemma fit_dim_perm slicers rows rows' i d mw prev :
    tfit_inv -> Permutation rows rows' ->
    (forall c, split_equiv T R (split slicers rows i c) (split slicers rows' i c)) ->
    oeq feq (fit_dim slicers rows i d mw prev) (fit_dim slicers rows' i d mw prev).
  Proof.
    intros Ht HP Hsp. destruct d as [tm|tm c deps]; cbn [JointFit.fit_dim oeq feq].
    - apply Ht. apply Permutation_map. exact HP.
    - specialize (Hsp c). destruct (split slicers rows i c) as [[[ivs refs] bs]|], (split slicers rows' i c) as [[[ivs' refs'] bs']|];
        cbn [split_equiv] in Hsp; try contradiction; cbn [oeq]; [|exact I].
      destruct Hsp as [H1 [H2 H3]]. subst refs' bs'. apply cond_fit_perm; assumption.
  Qed.

  Lemma fit_dims_perm slicers rows rows' :
    tfit_inv -> Permutation rows rows' ->
    (forall i c, split_equiv T R (split slicers rows i c) (split slicers rows' i c)) ->
    forall ds i mws st, oeq (Forall2 (oeq feq)) (fit_dims slicers rows i ds mws st) (fit_dims slicers rows' i ds mws st).
  Proof.
    intros Ht HP Hsp. induction ds as [|d ds IH]; intros i mws st; cbn [JointFit.fit_dims].
    - cbn. constructor.
    - destruct mws as [|mw mws]; [exact I|].
      pose proof (fit_dim_perm slicers rows rows' i d mw (hd None st) Ht HP (Hsp i)) as Hd.
      destruct (fit_dim slicers rows i d mw (hd None st)) as [f|], (fit_dim slicers rows' i d mw (hd None st)) as [f'|];
        cbn [oeq] in Hd; try contradiction; [|exact I].
      specialize (IH (S i) mws (tl st)).
      destruct (fit_dims slicers rows (S i) ds mws (tl st)) as [r|], (fit_dims slicers rows' (S i) ds mws (tl st)) as [r'|];
        cbn [oeq option_map] in *; try contradiction; [|exact I].
      constructor; [exact Hd|exact IH].
  Qed.

  (* order invariance of the fitted model, for any slicers that split equivalently *)
  Theorem fit_perm slicers ds st rows rows' fds :
    tfit_inv -> Permutation rows rows' ->
    (forall i c, split_equiv T R (split slicers rows i c) (split slicers rows' i c)) ->
    oeq (Forall2 (oeq feq)) (fit slicers ds st rows fds) (fit slicers ds st rows' fds).
  Proof.
    intros Ht HP Hsp. unfold JointFit.fit. destruct (fill M W mle wnone (length ds) fds) as [mws|]; [|exact I].
    rewrite <- (perm_forallb _ rows rows' HP). destruct (forallb _ rows); [|exact I].
    apply fit_dims_perm; assumption.
  Qed.

  (* all slicers of the model are Width/Number slicers with a permutation-invariant value range *)
  Definition edge_slicers (leb : T -> T -> bool) (slicers : list (slicer T R)) : Prop :=
    Forall (fun sl => exists mk rf, sl = edge_slicer T R leb mk rf /\ plan_inv T R mk /\ rf_inv T R rf) slicers.

  Lemma edge_slicers_split leb slicers rows rows' : edge_slicers leb slicers -> Permutation rows rows' ->
    forall i c, split_equiv T R (split slicers rows i c) (split slicers rows' i c).
  Proof.
    intros Hall HP i c. destruct (nth_error slicers c) as [sl|] eqn:E.
    - pose proof (proj1 (Forall_forall _ _) Hall sl (nth_error_In _ _ E)) as [mk [rf [-> [Hmk Hrf]]]].
      exact (split_edge_perm T R leb d0 slicers mk rf rows rows' i c E Hmk Hrf HP).
    - unfold split_in_intervals. rewrite E. exact I.
  Qed.

  Theorem fit_perm_edge leb slicers ds st rows rows' fds :
    tfit_inv -> edge_slicers leb slicers -> Permutation rows rows' ->
    oeq (Forall2 (oeq feq)) (fit slicers ds st rows fds) (fit slicers ds st rows' fds).
  Proof. intros Ht Hall HP. apply fit_perm; auto. apply (edge_slicers_split leb); assumption. Qed.

  (* ---- (d) fit options: dimension j is fitted with the filled description j and nothing else *)
  Lemma all_some_nth {A} (l : list (option A)) r j : all_some l = Some r -> nth_error l j = option_map Some (nth_error r j).
  Proof. revert r j. induction l as [|o l IH]; intros r j H.
    - cbn in H. inversion H. destruct j; reflexivity.
    - cbn [all_some] in H. destruct o as [a|]; [|discriminate]. destruct (all_some l) as [r'|]; [|discriminate].
      cbn in H. inversion H; subst. destruct j; [reflexivity|]. cbn [nth_error]. apply IH. reflexivity. Qed.

  Lemma all_some_length {A} (l : list (option A)) r : all_some l = Some r -> length r = length l.
  Proof. revert r. induction l as [|o l IH]; intros r H; cbn [all_some] in H.
    - inversion H. reflexivity.
    - destruct o; [|discriminate]. destruct (all_some l) as [r'|]; [|discriminate]. cbn in H. inversion H. cbn. rewrite (IH r'); reflexivity. Qed.

  Definition desc_of (fds : option (list (option (fdesc M W)))) (j : nat) : option (fdesc M W) :=
    match fds with None => None | Some l => nth j l None end.

  Lemma fill_nth n fds mws j : fill M W mle wnone n fds = Some mws -> j < n ->
    length mws = n /\ exists mw, nth_error mws j = Some mw /\ fill1 M W mle wnone (desc_of fds j) = Some mw.
  Proof.
    intros H Hj. destruct fds as [l|]; cbn [fill desc_of] in *.
    - destruct (Nat.eqb_spec (length l) n) as [E|]; [|discriminate]. subst n.
      pose proof (all_some_length _ _ H) as HL. rewrite map_length in HL. split; [exact HL|].
      pose proof (all_some_nth _ _ j H) as HN.
      destruct (nth_error mws j) as [mw|] eqn:Emw.
      + exists mw. split; [reflexivity|]. cbn in HN. rewrite nth_error_map in HN.
        destruct (nth_error l j) as [o|] eqn:El; [|discriminate]. cbn in HN. inversion HN.
        rewrite (nth_error_nth _ _ None El). congruence.
      + apply nth_error_None in Emw. lia.
    - inversion H; subst. rewrite repeat_length. split; [reflexivity|]. exists (mle, wnone). split; [|reflexivity].
      rewrite (nth_error_nth' _ (mle, wnone)) by (rewrite repeat_length; exact Hj). f_equal. apply nth_repeat. Qed.

  Lemma fit_dims_nth slicers rows : forall ds i mws st res j d mw,
    fit_dims slicers rows i ds mws st = Some res -> nth_error ds j = Some d -> nth_error mws j = Some mw ->
    exists f, fit_dim slicers rows (i + j) d mw (nth j st None) = Some f /\ nth_error res j = Some (Some f).
  Proof.
    induction ds as [|d0' ds IH]; intros i mws st res j d mw H Hd Hmw; [destruct j; discriminate|].
    destruct mws as [|mw0 mws]; [destruct j; discriminate|]. cbn [JointFit.fit_dims] in H.
    destruct (fit_dim slicers rows i d0' mw0 (hd None st)) as [f0|] eqn:E0; [|discriminate].
    destruct (fit_dims slicers rows (S i) ds mws (tl st)) as [r|] eqn:E1; [|discriminate].
    cbn in H. inversion H; subst res. destruct j as [|j].
    - cbn in Hd, Hmw. inversion Hd; inversion Hmw; subst. exists f0. rewrite Nat.add_0_r. split; [|reflexivity].
      destruct st; exact E0.
    - cbn [nth_error] in *. destruct (IH (S i) mws (tl st) r j d mw E1 Hd Hmw) as [f [Hf Hr]]. exists f.
      replace (i + S j) with (S i + j) by lia. split; [|exact Hr]. destruct st; [destruct j|]; exact Hf. Qed.

  (* component j of a successful fit is fit_dim with dimension j's own filled description (defaults mle / None) *)
  Theorem fit_component slicers ds st rows fds res j d :
    fit slicers ds st rows fds = Some res -> nth_error ds j = Some d ->
    exists mw f, fill1 M W mle wnone (desc_of fds j) = Some mw /\
                 fit_dim slicers rows j d mw (nth j st None) = Some f /\ nth_error res j = Some (Some f).
  Proof.
    intros H Hd. unfold JointFit.fit in H. destruct (fill M W mle wnone (length ds) fds) as [mws|] eqn:EF; [|discriminate].
    destruct (forallb _ rows); [|discriminate].
    assert (Hj : j < length ds) by (apply nth_error_Some; congruence).
    destruct (fill_nth _ _ _ j EF Hj) as [_ [mw [Hmw H1]]].
    destruct (fit_dims_nth slicers rows ds 0 mws st res j d mw H Hd Hmw) as [f [Hf Hr]].
    exists mw, f. auto. Qed.

  Lemma fill1_default : fill1 M W mle wnone None = Some (mle, wnone).
  Proof. reflexivity. Qed.
  Lemma fill1_no_weights m : fill1 M W mle wnone (Some (mkfd (Some m) None)) = Some (m, wnone).
  Proof. reflexivity. Qed.
  Lemma fill1_given m w : fill1 M W mle wnone (Some (mkfd (Some m) (Some w))) = Some (m, w).
  Proof. reflexivity. Qed.

  (* the options of the other dimensions do not reach dimension j *)
  Theorem options_local slicers ds st rows fds fds' res res' j :
    fit slicers ds st rows fds = Some res -> fit slicers ds st rows fds' = Some res' ->
    fill1 M W mle wnone (desc_of fds j) = fill1 M W mle wnone (desc_of fds' j) ->
    nth_error res j = nth_error res' j.
  Proof.
    intros H H' E. destruct (nth_error ds j) as [d|] eqn:Ed.
    - destruct (fit_component _ _ _ _ _ _ j d H Ed) as [mw [f [A [B C]]]].
      destruct (fit_component _ _ _ _ _ _ j d H' Ed) as [mw' [f' [A' [B' C']]]].
      rewrite C, C'. rewrite E in A. rewrite A in A'. inversion A'; subst mw'. rewrite B in B'. inversion B'. reflexivity.
    - (* j outside the model: both results have length (length ds) *)
      assert (L : forall fds0 res0, fit slicers ds st rows fds0 = Some res0 -> length res0 = length ds).
      { clear. intros fds0 res0 H. unfold JointFit.fit in H. destruct (fill M W mle wnone (length ds) fds0) as [mws|]; [|discriminate].
        destruct (forallb _ rows); [|discriminate]. revert H. generalize 0 as i. revert mws st res0.
        induction ds as [|d ds IH]; intros mws st res0 i H; cbn [JointFit.fit_dims] in H.
        - inversion H. reflexivity.
        - destruct mws as [|mw mws]; [discriminate|]. destruct (fit_dim slicers rows i d mw (hd None st)); [|discriminate].
          destruct (fit_dims slicers rows (S i) ds mws (tl st)) as [r|] eqn:E1; [|discriminate]. cbn in H. inversion H.
          cbn. f_equal. exact (IH _ _ _ _ E1). }
      apply nth_error_None in Ed.
      rewrite (proj2 (nth_error_None res j)) by (rewrite (L _ _ H); exact Ed).
      rewrite (proj2 (nth_error_None res' j)) by (rewrite (L _ _ H'); exact Ed). reflexivity.
  Qed.

  (* ---- (e) re-fit: the lists of a conditional dimension are built afresh *)
  Definition lists_of (o : option fitted) : option (list (list T) * list R * list (T * T) * list P) :=
    match o with Some (FC ivs refs bs pars _) => Some (ivs, refs, bs, pars) | _ => None end.
  Definition lists_view (r : option (list (option fitted))) := option_map (map lists_of) r.

  Lemma fit_dim_lists slicers rows i d mw prev :
    option_map (fun f => lists_of (Some f)) (fit_dim slicers rows i d mw prev) =
    option_map (fun f => lists_of (Some f)) (fit_dim slicers rows i d mw None).
  Proof. destruct d as [tm|tm c deps]; cbn [JointFit.fit_dim]; [reflexivity|].
    destruct (split slicers rows i c) as [[[ivs refs] bs]|]; reflexivity. Qed.

  Lemma fit_dims_lists slicers rows : forall ds i mws st,
    lists_view (fit_dims slicers rows i ds mws st) = lists_view (fit_dims slicers rows i ds mws []).
  Proof.
    induction ds as [|d ds IH]; intros i mws st; [reflexivity|]. destruct mws as [|mw mws]; [reflexivity|].
    cbn [JointFit.fit_dims hd tl]. pose proof (fit_dim_lists slicers rows i d mw (hd None st)) as Hd.
    specialize (IH (S i) mws (tl st)).
    destruct (fit_dim slicers rows i d mw (hd None st)) as [f|], (fit_dim slicers rows i d mw None) as [f'|];
      cbn [option_map] in Hd; try discriminate; [|reflexivity].
    unfold lists_view in *.
    destruct (fit_dims slicers rows (S i) ds mws (tl st)) as [r|], (fit_dims slicers rows (S i) ds mws []) as [r'|];
      cbn [option_map map] in *; try discriminate; [|reflexivity].
    inversion Hd. inversion IH. congruence.
  Qed.

  (* fitting an already fitted model: same exceptions and the same data_intervals, conditioning_values,
     boundaries and parameters_per_interval as fitting a fresh model (no hypothesis on the engines) *)
  Theorem refit_lists slicers ds st rows fds :
    lists_view (fit slicers ds st rows fds) = lists_view (fit slicers ds [] rows fds).
  Proof. unfold JointFit.fit. destruct (fill M W mle wnone (length ds) fds); [|reflexivity].
    destruct (forallb _ rows); [|reflexivity]. apply fit_dims_lists. Qed.

  (* oracle contracts: the engines do not depend on their start values *)
  Definition tfit_start_free : Prop := forall tm p m w x, tfit tm p m w x = tfit tm None m w x.
  Definition dfit_start_free : Prop := forall dep p x y, dfit dep p x y = dfit dep None x y.

  Lemma fit_dim_start_free slicers rows i d mw prev : tfit_start_free -> dfit_start_free ->
    fit_dim slicers rows i d mw prev = fit_dim slicers rows i d mw None.
  Proof. intros Ht Hd. destruct d as [tm|tm c deps]; cbn [JointFit.fit_dim].
    - rewrite Ht. reflexivity.
    - destruct (split slicers rows i c) as [[[ivs refs] bs]|]; [|reflexivity]. f_equal. unfold JointFit.cond_fit. f_equal.
      apply map_ext. intros [j dep]. rewrite Hd. symmetry. rewrite Hd. reflexivity. Qed.

  Theorem refit_same slicers ds st rows fds : tfit_start_free -> dfit_start_free ->
    fit slicers ds st rows fds = fit slicers ds [] rows fds.
  Proof. intros Ht Hd. unfold JointFit.fit. destruct (fill M W mle wnone (length ds) fds) as [mws|]; [|reflexivity].
    destruct (forallb _ rows); [|reflexivity]. generalize 0 as i. revert mws st.
    induction ds as [|d ds IH]; intros mws st i; [reflexivity|]. destruct mws as [|mw mws]; [reflexivity|].
    cbn [JointFit.fit_dims hd tl]. rewrite (fit_dim_start_free slicers rows i d mw (hd None st) Ht Hd).
    rewrite (IH mws (tl st) (S i)). destruct ds; reflexivity. Qed.
End Fit.
