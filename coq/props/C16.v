(* C16 -- transformed models are exact push-forwards (closed forms proved; Monte-Carlo clauses partial) *)
From Coq Require Import QArith Qreals Reals List.
From Coquelicot Require Import Coquelicot.
From V.base Require Import Num.
From V.gen Require Import VariableTransform Predefined.
From V.model Require Import Transformed.
From V.proofs Require Import TransformProofs.
Import ListNotations.
Local Open Scope R_scope.

(* s_d_to_hs_tz(hs_tz_to_s_d(hs,tz)) = (hs,tz) on the positive quadrant (GENERATED definitions) *)
Theorem C16_roundtrip_hs_tz_via_s_d :
  forall hs tz : R,
       0 < hs -> 0 < tz -> (let '(s, d) := vt_hs_tz_to_s_d RN hs tz in vt_s_d_to_hs_tz RN s d) = (hs, tz).
Proof. exact (@roundtrip_hs_tz_via_s_d). Qed.

(* hs_tz_to_s_d(s_d_to_hs_tz(s,d)) = (s,d) on the positive quadrant (all six compositions are now proved) *)
Theorem C16_roundtrip_s_d_via_hs_tz :
  forall s d : R,
       0 < s -> 0 < d -> (let '(hs, tz) := vt_s_d_to_hs_tz RN s d in vt_hs_tz_to_s_d RN hs tz) = (s, d).
Proof. exact (@roundtrip_s_d_via_hs_tz). Qed.

(* hs_s_to_hs_tz(hs_tz_to_hs_s(hs,tz)) = (hs,tz) *)
Theorem C16_roundtrip_hs_tz_via_hs_s :
  forall hs tz : R,
       0 < hs -> 0 < tz -> (let '(h, s) := vt_hs_tz_to_hs_s RN hs tz in vt_hs_s_to_hs_tz RN h s) = (hs, tz).
Proof. exact (@roundtrip_hs_tz_via_hs_s). Qed.

(* hs_tz_to_hs_s(hs_s_to_hs_tz(hs,s)) = (hs,s) *)
Theorem C16_roundtrip_hs_s_via_hs_tz :
  forall hs s : R,
       0 < hs -> 0 < s -> (let '(h, tz) := vt_hs_s_to_hs_tz RN hs s in vt_hs_tz_to_hs_s RN h tz) = (hs, s).
Proof. exact (@roundtrip_hs_s_via_hs_tz). Qed.

(* s_tz_to_hs_tz(hs_tz_to_s_tz(hs,tz)) = (hs,tz) *)
Theorem C16_roundtrip_hs_tz_via_s_tz :
  forall hs tz : R,
       0 < hs -> 0 < tz -> (let '(s, t) := vt_hs_tz_to_s_tz RN hs tz in vt_s_tz_to_hs_tz RN s t) = (hs, tz).
Proof. exact (@roundtrip_hs_tz_via_s_tz). Qed.

(* hs_tz_to_s_tz(s_tz_to_hs_tz(s,tz)) = (s,tz) *)
Theorem C16_roundtrip_s_tz_via_hs_tz :
  forall s tz : R,
       0 < s -> 0 < tz -> (let '(h, t) := vt_s_tz_to_hs_tz RN s tz in vt_hs_tz_to_s_tz RN h t) = (s, tz).
Proof. exact (@roundtrip_s_tz_via_hs_tz). Qed.

(* predefined triple: inverse(transform(x)) = x *)
Theorem C16_triple_inverse :
  forall hs tz : R,
       0 < hs ->
       0 < tz ->
       pd_get_Windmeier_EW_Hs_S_inv_transform RN (pd_get_Windmeier_EW_Hs_S_transform RN (hs, tz)) =
       (hs, tz).
Proof. exact (@triple_inverse). Qed.

(* transform keeps hs, so D(transform) is triangular *)
Theorem C16_triple_first_coordinate :
  forall hs tz : R, fst (pd_get_Windmeier_EW_Hs_S_transform RN (hs, tz)) = hs.
Proof. exact (@triple_first_coordinate). Qed.

(* supplied Jacobian = |det D(transform)| = |d s/d tz| (Coquelicot is_derive) *)
Theorem C16_triple_jacobian :
  forall hs tz : R,
       0 < hs ->
       0 < tz ->
       is_derive (fun t : R_AbsRing => snd (pd_get_Windmeier_EW_Hs_S_transform RN (hs, t))) tz
         (- pd_get_Windmeier_EW_Hs_S_jacobian RN (hs, tz)) /\
       Rabs (- pd_get_Windmeier_EW_Hs_S_jacobian RN (hs, tz)) =
       pd_get_Windmeier_EW_Hs_S_jacobian RN (hs, tz).
Proof. exact (@triple_jacobian). Qed.

(* both predefined transformed models ship the same triple *)
Theorem C16_triples_agree :
  forall x : R * R,
       pd_get_Nonzero_EW_Hs_S_transform RN x = pd_get_Windmeier_EW_Hs_S_transform RN x /\
       pd_get_Nonzero_EW_Hs_S_inv_transform RN x = pd_get_Windmeier_EW_Hs_S_inv_transform RN x /\
       pd_get_Nonzero_EW_Hs_S_jacobian RN x = pd_get_Windmeier_EW_Hs_S_jacobian RN x.
Proof. exact (@triples_agree). Qed.

(* TransformedModel.pdf is the change-of-variables density base_pdf(T x) |det DT x| (hand model of pdf, tied by correspondence) *)
Theorem C16_pdf_is_pushforward :
  forall (base_pdf : R * R -> R) (hs tz : R),
       0 < hs ->
       0 < tz ->
       exists dsdtz : R_NormedModule,
         is_derive (fun t : R_AbsRing => snd (pd_get_Windmeier_EW_Hs_S_transform RN (hs, t))) tz dsdtz /\
         fst (pd_get_Windmeier_EW_Hs_S_transform RN (hs, tz)) = hs /\
         tm_pdf RN base_pdf (pd_get_Windmeier_EW_Hs_S_transform RN) (pd_get_Windmeier_EW_Hs_S_jacobian RN)
           (hs, tz) = base_pdf (pd_get_Windmeier_EW_Hs_S_transform RN (hs, tz)) * Rabs dsdtz.
Proof. exact (@tm_pdf_is_pushforward). Qed.

(* samples are the inverse-transformed samples of the base model, one per base row, in order *)
Theorem C16_samples_are_inverse_images :
  forall bs : list (R * R),
       tm_draw (pd_get_Windmeier_EW_Hs_S_inv_transform RN) bs =
       map (pd_get_Windmeier_EW_Hs_S_inv_transform RN) bs /\
       length (tm_draw (pd_get_Windmeier_EW_Hs_S_inv_transform RN) bs) = length bs.
Proof. exact (@tm_draw_spec). Qed.

(* inverse-transforming transformed points returns them *)
Theorem C16_samples_roundtrip :
  forall bs : list (R * R),
       List.Forall (fun x : R * R => 0 < fst x /\ 0 < snd x) bs ->
       tm_draw (pd_get_Windmeier_EW_Hs_S_inv_transform RN) (map (pd_get_Windmeier_EW_Hs_S_transform RN) bs) =
       bs.
Proof. exact (@tm_draw_roundtrip). Qed.

(* PARTIAL: only the counting skeleton of empirical_cdf; that Monte-Carlo conditional samples/cdf/quantiles follow the conditional density (no tail truncation) is probabilistic and validated with DKW bounds by the harness, not proved *)
Theorem C16_empirical_count_partial :
  forall (sample : list (R * R)) (x : R * R), (tm_empirical_count RN sample x <= length sample)%nat.
Proof. exact (@tm_empirical_count_le). Qed.

Example C16_nonvacuous : 0 < factor /\ fst (pd_get_Windmeier_EW_Hs_S_transform RN (2, 7)) = 2.
Proof. split; [exact factor_pos|reflexivity]. Qed.

Print Assumptions C16_roundtrip_hs_tz_via_s_d.
Print Assumptions C16_roundtrip_s_d_via_hs_tz.
Print Assumptions C16_roundtrip_hs_tz_via_hs_s.
Print Assumptions C16_roundtrip_hs_s_via_hs_tz.
Print Assumptions C16_roundtrip_hs_tz_via_s_tz.
Print Assumptions C16_roundtrip_s_tz_via_hs_tz.
Print Assumptions C16_triple_inverse.
Print Assumptions C16_triple_first_coordinate.
Print Assumptions C16_triple_jacobian.
Print Assumptions C16_triples_agree.
Print Assumptions C16_pdf_is_pushforward.
Print Assumptions C16_samples_are_inverse_images.
Print Assumptions C16_samples_roundtrip.
Print Assumptions C16_empirical_count_partial.
