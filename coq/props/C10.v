(* C10 -- interval slicing partitions the data.  Property theorems only; proofs are in
   proofs/IntervalsProofs.v, the model in model/Intervals.v. *)
From Coq Require Import List Bool Arith Permutation PrimFloat Reals ZArith.
From V.model Require Import Intervals.
From V.proofs Require Import IntervalsProofs FloatOrder FloatMono ArangeOrder LinspaceLast.
From V.base Require Import FloatBits.
Import ListNotations.

Section Abstract.
  Variable T : Type.
  Variable leb : T -> T -> bool.
  Hypothesis leb_trans : forall a b c, leb a b = true -> leb b c = true -> leb a c = true.

  (* never none: for ANY edge vector, a datum with e_0 <= d < e_n is in at least one interval *)
  Theorem C10_at_least_one : forall R e a (refs : list R) data j d0,
    length refs = length (intervals T (a :: e)) -> j < length data ->
    leb a (nth j data d0) = true -> ltb T leb (nth j data d0) (last (a :: e) a) = true ->
    1 <= rows_true_at T j (rows_of T leb RightOpen false (a :: e) refs data).
  Proof. exact (fun R => @at_least_one_any_edges T leb R). Qed.

  (* exactly one, [a,b) intervals, masks and boundaries from one non-decreasing edge vector *)
  Theorem C10_partition_right_open : forall R e a (refs : list R) data j d0,
    sorted T leb (a :: e) -> length refs = length (intervals T (a :: e)) -> j < length data ->
    leb a (nth j data d0) = true -> ltb T leb (nth j data d0) (last (a :: e) a) = true ->
    rows_true_at T j (rows_of T leb RightOpen false (a :: e) refs data) = 1.
  Proof. exact (fun R => @partition_right_open T leb leb_trans R). Qed.

  (* exactly one, (a,b] intervals *)
  Theorem C10_partition_left_open : forall R e a (refs : list R) data j d0,
    sorted T leb (a :: e) -> length refs = length (intervals T (a :: e)) -> j < length data ->
    ltb T leb a (nth j data d0) = true -> leb (nth j data d0) (last (a :: e) a) = true ->
    rows_true_at T j (rows_of T leb LeftOpen false (a :: e) refs data) = 1.
  Proof. exact (fun R => @partition_left_open T leb leb_trans R). Qed.

  (* include_max: with the last interval closed every d in [e_0, e_n] -- the maximum included -- is in exactly one *)
  Theorem C10_partition_include_max : forall R e a b (refs : list R) data j d0,
    sorted T leb (a :: b :: e) -> length refs = length (intervals T (a :: b :: e)) -> j < length data ->
    leb a (nth j data d0) = true -> leb (nth j data d0) (last (b :: e) b) = true ->
    rows_true_at T j (rows_of T leb RightOpen true (a :: b :: e) refs data) = 1.
  Proof. exact (fun R => @partition_include_max T leb leb_trans R). Qed.

  (* masks are aligned with the input positions: entry j depends on datum j only *)
  Theorem C10_masks_aligned : forall k iv data j d0, j < length data ->
    length (mask T leb k iv data) = length data /\
    nth j (mask T leb k iv data) false = inb T leb k iv (nth j data d0).
  Proof. exact (fun k iv data j d0 H => conj (mask_length T leb k iv data) (mask_aligned T leb k iv data j d0 H)). Qed.

  (* reported boundaries contain their members, neighbouring boundaries share one edge value *)
  Theorem C10_members_in_bounds : (forall a b, leb a b = false -> leb b a = true) ->
    forall k iv d, inb T leb k iv d = true -> leb (fst iv) d = true /\ leb d (snd iv) = true.
  Proof. exact (member_in_bounds T leb). Qed.
  Theorem C10_boundaries_abut : forall e i lo hi lo' hi' dflt,
    nth_error (intervals T e) i = Some (lo, hi) -> nth_error (intervals T e) (S i) = Some (lo', hi') ->
    hi = lo' /\ nth (S i) e dflt = hi.
  Proof. exact (boundaries_abut T). Qed.

  (* exactly the intervals with fewer than min_n_points members are dropped, order kept *)
  Theorem C10_drop : forall R m (rs rs' : list (row T R)) r,
    (In r (drop T m rs) <-> In r rs /\ m <= count_true (r_mask r)) /\
    drop T m (rs ++ rs') = drop T m rs ++ drop T m rs'.
  Proof. exact (fun R m rs rs' r => conj (drop_spec T m rs r) (drop_app T m rs rs')). Qed.

  (* RuntimeError (None) iff fewer than min_n_intervals remain *)
  Theorem C10_too_few_intervals : forall R m (rs : list (row T R)), finish T m rs = None <-> length rs < m.
  Proof. exact (fun R => @finish_error T R). Qed.
End Abstract.

(* PointsPerIntervalSlicer: for any sorting permutation, each position is in exactly one mask,
   and a mask is set exactly at the positions its chunk names (input positions, any order) *)
Theorem C10_ppi_partition : forall n lf perm j, 0 < n -> Permutation perm (seq 0 (length perm)) ->
  j < length perm -> length (filter (fun m => nth j m false) (ppi_masks n lf perm)) = 1.
Proof. exact ppi_partition. Qed.
Theorem C10_ppi_aligned : forall len idc j, j < len -> nth j (mask_of_idc len idc) false = true <-> In j idc.
Proof. exact ppi_mask_positions. Qed.

(* the executable binary64 model run against the implementation IS rows_of over one edge vector *)
Theorem C10_width_model_one_edge_vector : forall width r ro vmin vmax mnp mni data,
  width_slice width r ro vmin vmax mnp mni data =
  let dmin := match vmin with Some v => v | None => 0%float end in
  let dmax := match vmax with Some v => v | None => FloatBits.fmax data end in
  finish float mni (drop float mnp
    (rows_of float fleb (if ro then RightOpen else LeftOpen) false (snd (width_edges dmin dmax width))
             (width_refs r (fst (width_edges dmin dmax width)) width) data)).
Proof. reflexivity. Qed.
Theorem C10_number_model_one_edge_vector : forall n r im v0 v1 mnp mni data,
  number_slice n r im (Some (v0, v1)) mnp mni data =
  finish float (Nat.min n mni) (drop float mnp
    (rows_of float fleb RightOpen im (snd (number_edges v0 v1 n))
             (number_refs r (fst (fst (number_edges v0 v1 n))) (snd (fst (number_edges v0 v1 n)))) data)).
Proof. intros. unfold number_slice. destruct (number_edges v0 v1 n) as [[s w] e]. reflexivity. Qed.

(* ---- binary64: PrimFloat.leb IS transitive on all floats and total on non-NaN floats (Flocq), so the
   abstract theorems above hold verbatim for the executable model that is run against the implementation *)
Theorem C10_binary64_order_transitive : forall a b c : PrimFloat.float,
  PrimFloat.leb a b = true -> PrimFloat.leb b c = true -> PrimFloat.leb a c = true.
Proof. exact fleb_trans. Qed.
Theorem C10_binary64_order_total : forall a b : PrimFloat.float, PrimFloat.is_nan a = false -> PrimFloat.is_nan b = false ->
  PrimFloat.leb a b = false -> PrimFloat.leb b a = true.
Proof. exact fleb_total. Qed.
Theorem C10_binary64_partition_right_open : forall R e a (refs : list R) data j d0,
  sorted PrimFloat.float fleb (a :: e) -> length refs = length (intervals PrimFloat.float (a :: e)) -> j < length data ->
  fleb a (nth j data d0) = true -> ltb PrimFloat.float fleb (nth j data d0) (last (a :: e) a) = true ->
  rows_true_at PrimFloat.float j (rows_of PrimFloat.float fleb RightOpen false (a :: e) refs data) = 1.
Proof. exact (fun R => @partition_right_open PrimFloat.float fleb fleb_trans R). Qed.
Theorem C10_binary64_partition_include_max : forall R e a b (refs : list R) data j d0,
  sorted PrimFloat.float fleb (a :: b :: e) -> length refs = length (intervals PrimFloat.float (a :: b :: e)) -> j < length data ->
  fleb a (nth j data d0) = true -> fleb (nth j data d0) (last (b :: e) b) = true ->
  rows_true_at PrimFloat.float j (rows_of PrimFloat.float fleb RightOpen true (a :: b :: e) refs data) = 1.
Proof. exact (fun R => @partition_include_max PrimFloat.float fleb fleb_trans R). Qed.
(* with nothing dropped the Width slicer's model returns exactly these rows *)
Theorem C10_width_slice_nodrop : forall width r ro vmin vmax data,
  width_slice width r ro vmin vmax 0 0 data =
  let dmin := match vmin with Some v => v | None => 0%float end in
  let dmax := match vmax with Some v => v | None => FloatBits.fmax data end in
  Some (rows_of PrimFloat.float fleb (if ro then RightOpen else LeftOpen) false (snd (width_edges dmin dmax width))
                (width_refs r (fst (width_edges dmin dmax width)) width) data).
Proof. exact width_slice_nodrop. Qed.

(* ---- the edge vector itself: numpy.arange(start, stop, step) reproduced in binary64 (base/FloatBits.arange: element i is
   start, start+step, start + i*((start+step)-start)) is non-decreasing for EVERY finite start, finite step >= 0 and every stop
   (fewer than 2^62 elements); proved through Flocq: each operation is the clamped correct rounding of the exact result, rounding is
   monotone, and fl(s1 - start) >= (s1 - start)/2 for the one step that is not plain monotonicity *)
Theorem C10_arange_sorted : forall start stop step : PrimFloat.float,
  pfin start -> pfin step -> (0 <= pR step)%R ->
  (forall len, ceilZ ((stop - start) / step)%float = Some len -> (len < 2 ^ 62)%Z) ->
  sorted PrimFloat.float fleb (arange start stop step).
Proof. exact arange_sorted. Qed.

(* WidthOfIntervalSlicer: starts ++ [last start + width] is non-decreasing for every configuration *)
Theorem C10_width_edges_sorted : forall dmin dmax width : PrimFloat.float,
  PrimFloat.is_finite dmin = true -> PrimFloat.is_finite width = true -> PrimFloat.leb 0 width = true ->
  (forall len, ceilZ (((dmax + width) - dmin) / width)%float = Some len -> (len < 2 ^ 62)%Z) ->
  sorted PrimFloat.float fleb (snd (width_edges dmin dmax width)).
Proof. exact width_edges_sorted_prim. Qed.

(* hence, with NO sortedness hypothesis left: for every binary64 data vector and every Width-slicer configuration (finite lower
   end, finite width >= 0, any upper end) each datum of the covered range is in exactly one interval of the executable model that
   is run against the implementation *)
Theorem C10_width_partition_every_input : forall dmin dmax width r (data : list PrimFloat.float) a e j d0,
  PrimFloat.is_finite dmin = true -> PrimFloat.is_finite width = true -> PrimFloat.leb 0 width = true ->
  (forall len, ceilZ (((dmax + width) - dmin) / width)%float = Some len -> (len < 2 ^ 62)%Z) ->
  snd (width_edges dmin dmax width) = a :: e ->
  j < length data ->
  fleb a (nth j data d0) = true -> ltb PrimFloat.float fleb (nth j data d0) (last (a :: e) a) = true ->
  rows_true_at PrimFloat.float j
    (rows_of PrimFloat.float fleb RightOpen false (snd (width_edges dmin dmax width))
             (width_refs r (fst (width_edges dmin dmax width)) width) data) = 1.
Proof. exact width_partition_every_input. Qed.

(* NumberOfIntervalsSlicer: numpy.linspace(v0, v1, n, endpoint=False) in binary64 (both of numpy's branches, step == 0 or not) gives
   non-decreasing interval starts for every finite v0 <= v1 with a representable width and every 1 <= n < 2^62; the whole edge vector
   starts ++ [v1] is non-decreasing as soon as the last start does not exceed v1.  PARTIAL: that last comparison
   (fl((n-1)*fl((v1-v0)/n) + v0) <= v1) is checked per case by the correspondence run, not proved *)
Theorem C10_number_edges_sorted_partial : forall (v0 v1 : PrimFloat.float) (n : nat),
  PrimFloat.is_finite v0 = true -> PrimFloat.is_finite v1 = true -> PrimFloat.leb v0 v1 = true ->
  PrimFloat.is_finite (v1 - v0)%float = true -> 1 <= n -> (Z.of_nat n < 2 ^ 62)%Z ->
  let '(starts, w, edges) := number_edges v0 v1 n in
  sorted PrimFloat.float fleb starts /\
  (fleb (last starts v0) v1 = true -> sorted PrimFloat.float fleb edges).
Proof. exact number_edges_sorted. Qed.

(* ... and the closing comparison too, for 1 <= n <= 2^51 whose step (v1 - v0)/n is zero or above 2^-1022 (not subnormal): three
   correctly rounded operations lose at most a factor (1 + 2^-53)^3, which (n-1)/n absorbs; for subnormal steps the absolute rounding
   error can exceed the slack (v1 - v0)/n and the statement is false in general, so the hypothesis is needed *)
Theorem C10_number_edges_sorted : forall (v0 v1 : PrimFloat.float) (n : nat),
  PrimFloat.is_finite v0 = true -> PrimFloat.is_finite v1 = true -> PrimFloat.leb v0 v1 = true ->
  PrimFloat.is_finite (v1 - v0)%float = true -> 1 <= n -> (Z.of_nat n <= 2 ^ 51)%Z ->
  PrimFloat.eqb ((v1 - v0) / of_nat n) 0 = true \/ PrimFloat.ltb 0x1p-1022 ((v1 - v0) / of_nat n) = true ->
  sorted PrimFloat.float fleb (snd (number_edges v0 v1 n)).
Proof. exact number_edges_sorted_full. Qed.

(* hence the include_max theorem for the Number slicer's executable model with no sortedness hypothesis left *)
Theorem C10_number_partition_every_input : forall (v0 v1 : PrimFloat.float) (n : nat) R (refs : list R) data a b e j d0,
  PrimFloat.is_finite v0 = true -> PrimFloat.is_finite v1 = true -> PrimFloat.leb v0 v1 = true ->
  PrimFloat.is_finite (v1 - v0)%float = true -> 1 <= n -> (Z.of_nat n <= 2 ^ 51)%Z ->
  PrimFloat.eqb ((v1 - v0) / of_nat n) 0 = true \/ PrimFloat.ltb 0x1p-1022 ((v1 - v0) / of_nat n) = true ->
  snd (number_edges v0 v1 n) = a :: b :: e ->
  length refs = length (intervals PrimFloat.float (a :: b :: e)) -> j < length data ->
  fleb a (nth j data d0) = true -> fleb (nth j data d0) (last (b :: e) b) = true ->
  rows_true_at PrimFloat.float j (rows_of PrimFloat.float fleb RightOpen true (snd (number_edges v0 v1 n)) refs data) = 1.
Proof. exact number_partition_every_input. Qed.

(* non-vacuity of the binary64 statements: width 0.1 from 0 to 0.35 *)
Example C10_width_nonvacuous :
  PrimFloat.is_finite 0.1%float = true /\ PrimFloat.leb 0 0.1%float = true /\
  ceilZ (((0.35 + 0.1) - 0) / 0.1)%float = Some 5%Z /\
  length (snd (width_edges 0 0.35 0.1)) = 6.
Proof. vm_compute. repeat split. Qed.

(* non-vacuity: a concrete edge vector and datum meeting every hypothesis (nat order) *)
Example C10_nonvacuous :
  sorted nat Nat.leb [0; 2; 4; 6] /\
  rows_true_at nat 1 (rows_of nat Nat.leb RightOpen false [0; 2; 4; 6] [1; 3; 5] [5; 2; 0]) = 1 /\
  rows_true_at nat 0 (rows_of nat Nat.leb RightOpen true [0; 2; 4; 6] [1; 3; 5] [6; 2; 0]) = 1 /\
  Permutation [2; 0; 1] (seq 0 3).
Proof. repeat split; try reflexivity. apply (perm_trans (l' := [0; 2; 1])); [apply perm_swap | apply perm_skip, perm_swap]. Qed.

Print Assumptions C10_at_least_one.
Print Assumptions C10_partition_right_open.
Print Assumptions C10_partition_left_open.
Print Assumptions C10_partition_include_max.
Print Assumptions C10_masks_aligned.
Print Assumptions C10_members_in_bounds.
Print Assumptions C10_boundaries_abut.
Print Assumptions C10_drop.
Print Assumptions C10_too_few_intervals.
Print Assumptions C10_ppi_partition.
Print Assumptions C10_ppi_aligned.
Print Assumptions C10_width_model_one_edge_vector.
Print Assumptions C10_number_model_one_edge_vector.
Print Assumptions C10_binary64_order_transitive.
Print Assumptions C10_binary64_order_total.
Print Assumptions C10_binary64_partition_right_open.
Print Assumptions C10_binary64_partition_include_max.
Print Assumptions C10_width_slice_nodrop.
Print Assumptions C10_arange_sorted.
Print Assumptions C10_width_edges_sorted.
Print Assumptions C10_width_partition_every_input.
Print Assumptions C10_number_edges_sorted_partial.
Print Assumptions C10_number_edges_sorted.
Print Assumptions C10_number_partition_every_input.
