(* Executable model of virocon/contours.py AndContour._compute and OrContour._compute: the ray search with at most
   100 iterations (rel_dist, rel_step_size, the probability of exceedance of the SAME iteration as the returned
   vector, the warning), exceedance counts with strict >, the range filter and the closure points.  No proofs here.
   Generic part: Section Gen over a number structure; binary64 instance below (cos / sin are recorded tables). *)
From Coq Require Import List Bool Arith ZArith PrimFloat.
From V.base Require Import FloatBits.
Import ListNotations.

Record ops (T : Type) := mkops {
  add : T -> T -> T; sub : T -> T -> T; mul : T -> T -> T; div : T -> T -> T; absf : T -> T; sqrtf : T -> T;
  ofn : nat -> T; ltb : T -> T -> bool;
  zero : T; c01 : T; c02 : T; c05 : T; c11 : T; c180 : T; pi : T;
  cosf : T -> T; sinf : T -> T;              (* np.cos, np.sin : oracles *)
  c100 : T; trunc : T -> Z                   (* Python int() *)
}.
Arguments add {T}. Arguments sub {T}. Arguments mul {T}. Arguments div {T}. Arguments absf {T}. Arguments sqrtf {T}.
Arguments ofn {T}. Arguments ltb {T}. Arguments zero {T}. Arguments c01 {T}. Arguments c02 {T}. Arguments c05 {T}.
Arguments c11 {T}. Arguments c180 {T}. Arguments pi {T}. Arguments cosf {T}. Arguments sinf {T}.
Arguments c100 {T}. Arguments trunc {T}.

(* result of the search along one ray *)
Record ray (T : Type) := mkray {
  r_vec : option (T * T);     (* current_vector; None = the loop body never ran (the source then reads an unbound name) *)
  r_pe : T;                   (* current_pe at exit *)
  r_warned : bool;            (* 'Could not achieve the required precision' was emitted *)
  r_trace : list nat          (* exceedance count of every iteration, in order *)
}.
Arguments mkray {T}. Arguments r_vec {T}. Arguments r_pe {T}. Arguments r_warned {T}. Arguments r_trace {T}.

Inductive mode := And | Or.

Section Gen.
  Variable T : Type.
  Variable K : ops T.
  Local Notation "x + y" := (add K x y).
  Local Notation "x - y" := (sub K x y).
  Local Notation "x * y" := (mul K x y).
  Local Notation "x / y" := (div K x y).

  (* unity_vector = (cos(theta/180*pi), sin(theta/180*pi)) *)
  Definition unit_vec (theta : T) : T * T := (cosf K (theta / c180 K * pi K), sinf K (theta / c180 K * pi K)).
  (* max_distance = sqrt(x_marginal**2 + y_marginal**2) *)
  Definition max_distance (xm ym : T) : T := sqrtf K (xm * xm + ym * ym).

  (* np.logical_and(x > v0, y > v1) / np.logical_or(...) : strict comparisons *)
  Definition exceeds (m : mode) (v p : T * T) : bool :=
    match m with
    | And => ltb K (fst v) (fst p) && ltb K (snd v) (snd p)
    | Or => ltb K (fst v) (fst p) || ltb K (snd v) (snd p)
    end.
  Definition count (m : mode) (v : T * T) (sample : list (T * T)) : nat := length (filter (exceeds m v) sample).
  (* current_pe = exceeded.sum() / exceeded.size *)
  Definition pe_of (c n : nat) : T := ofn K c / ofn K n.
  (* the loop condition  np.abs(current_pe - alpha) / alpha > allowed_error *)
  Definition not_precise (alpha allowed pe : T) : bool := ltb K allowed (absf K (pe - alpha) / alpha).
  (* current_vector = unity_vector * (rel_dist * max_distance) *)
  Definition point_at (u : T * T) (rd maxd : T) : T * T := (fst u * (rd * maxd), snd u * (rd * maxd)).

  (* the while loop; fuel = max_iterations - nr_iterations.  With one unit of fuel left the iteration that is run is
     the 100th: warning and break.  fuel = 0 with the condition still true cannot be reached from fuel >= 1 and is
     an explicit out-of-fuel result (no vector). *)
  Fixpoint search (fuel : nat) (m : mode) (sample : list (T * T)) (alpha allowed : T) (u : T * T) (maxd : T)
           (rd rs pe : T) (vec : option (T * T)) (trace : list nat) : ray T :=
    if not_precise alpha allowed pe then
      match fuel with
      | O => mkray None pe true trace
      | S f =>
          let v := point_at u rd maxd in
          let c := count m v sample in
          let pe' := pe_of c (length sample) in
          let rs' := if ltb K alpha pe' then rs else c05 K * rs in
          let rd' := if ltb K alpha pe' then rd + rs else rd - rs' in
          match f with
          | O => mkray (Some v) pe' true (trace ++ [c])
          | S _ => search f m sample alpha allowed u maxd rd' rs' pe' (Some v) (trace ++ [c])
          end
      end
    else mkray vec pe false trace.

  Definition max_iterations : nat := 100.

  (* one ray: rel_dist = 0.2, rel_step_size = 0.1, current_pe = 0 *)
  Definition search_ray (m : mode) (sample : list (T * T)) (alpha allowed xm ym theta : T) : ray T :=
    search max_iterations m sample alpha allowed (unit_vec theta) (max_distance xm ym)
           (c02 K) (c01 K) (zero K) None [].

  Definition rays (m : mode) (sample : list (T * T)) (alpha allowed xm ym : T) (thetas : list T) : list (ray T) :=
    map (search_ray m sample alpha allowed xm ym) thetas.

  (* all searched points, None if some ray has no vector (unbound current_vector) *)
  Fixpoint points (rs : list (ray T)) : option (list (T * T)) :=
    match rs with
    | [] => Some []
    | r :: rs' => match r_vec r, points rs' with Some v, Some l => Some (v :: l) | _, _ => None end
    end.

  (* AndContour: the searched points followed by (0, 0) *)
  Definition and_coords (rs : list (ray T)) : option (list (T * T)) :=
    match points rs with Some l => Some (l ++ [(zero K, zero K)]) | None => None end.

  (* builtin max over the array *)
  Fixpoint maxl_from (l : list T) (acc : T) : T :=
    match l with [] => acc | x :: l' => maxl_from l' (if ltb K acc x then x else acc) end.
  Definition maxl (l : list T) (dflt : T) : T := match l with [] => dflt | x :: l' => maxl_from l' x end.

  (* OrContour: points with both coordinates below 1.1 * the sample maximum are kept (others dropped, none altered),
     then (0, y_last), (0, 0), (x_first, 0); None if nothing is kept (coords_y[-1] raises) *)
  Definition in_range (xmax ymax : T) (v : T * T) : bool := ltb K (fst v) xmax && ltb K (snd v) ymax.
  Definition or_close (kept : list (T * T)) : option (list (T * T)) :=
    match kept with
    | [] => None
    | first :: _ => Some (kept ++ [(zero K, snd (last kept first)); (zero K, zero K); (fst first, zero K)])
    end.
  Definition or_coords (sample : list (T * T)) (rs : list (ray T)) (dflt : T) : option (list (T * T)) :=
    let xmax := c11 K * maxl (map fst sample) dflt in
    let ymax := c11 K * maxl (map snd sample) dflt in
    match points rs with
    | Some l => or_close (filter (in_range xmax ymax) l)
    | None => None
    end.

  (* __init__ of both classes: n = int(100/alpha) unless given; a supplied sample is used as it is, otherwise
     model.draw_sample(n) *)
  Definition sample_size (n_opt : option Z) (alpha : T) : Z :=
    match n_opt with Some n => n | None => trunc K (c100 K / alpha) end.
  Definition used_sample {S} (draw : Z -> S) (sample_opt : option S) (n_opt : option Z) (alpha : T) : S :=
    match sample_opt with Some s => s | None => draw (sample_size n_opt alpha) end.

  Definition and_contour (sample : list (T * T)) (alpha allowed xm ym : T) (thetas : list T) :=
    let rs := rays And sample alpha allowed xm ym thetas in (and_coords rs, rs).
  Definition or_contour (sample : list (T * T)) (alpha allowed xm ym : T) (thetas : list T) (dflt : T) :=
    let rs := rays Or sample alpha allowed xm ym thetas in (or_coords sample rs dflt, rs).
End Gen.

(* ------------------------------------------------------------------ binary64 instance *)
Local Open Scope float_scope.

Definition fkey_eq (k a : float) : bool := PrimFloat.eqb k a && PrimFloat.eqb (1 / k) (1 / a).
Fixpoint lookup (tab : list (float * float)) (a : float) : float :=
  match tab with
  | [] => nan
  | (k, v) :: tab' => if fkey_eq k a then v else lookup tab' a
  end.

Definition fops (ctab stab : list (float * float)) : ops float :=
  mkops float PrimFloat.add PrimFloat.sub PrimFloat.mul PrimFloat.div PrimFloat.abs PrimFloat.sqrt FloatBits.of_nat
        PrimFloat.ltb 0 0x1.999999999999ap-4 0x1.999999999999ap-3 0.5 0x1.199999999999ap+0 180 0x1.921fb54442d18p+1 (lookup ctab) (lookup stab)
        100 (fun x => match truncZ x with Some k => k | None => 0%Z end).
Definition sample_size_f (n_opt : option Z) (alpha : float) : Z := sample_size float (fops [] []) n_opt alpha.

(* thetas = np.arange(lowest, highest, deg_step) *)
Definition and_contour_f (ctab stab : list (float * float)) (sample : list (float * float))
           (alpha allowed xm ym deg_step : float) :=
  and_contour float (fops ctab stab) sample alpha allowed xm ym (arange 0 90 deg_step).
Definition or_contour_f (ctab stab : list (float * float)) (sample : list (float * float))
           (alpha allowed xm ym lowest highest deg_step : float) :=
  or_contour float (fops ctab stab) sample alpha allowed xm ym (arange lowest highest deg_step) nan.
