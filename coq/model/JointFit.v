(* Executable model of the joint fit of virocon:
     jointmodels.py  GlobalHierarchicalModel.fit / _split_in_intervals / _check_and_fill_fit_desc
     distributions.py ConditionalDistribution.fit (deep copy of the template per interval, dependence fits)
     intervals.py     IntervalSlicer.slice_ (callable reference), the three slicers (model/Intervals.v, imported)
     dependencies.py  DependenceFunction.fit on the (reference_k, estimate_k) pairs
   The generic part (Section Gen) is parametric in the value type, its order and the fitting engines
   (template fit, dependence fit, argsort, reference callable: oracles = Section variables) and is the object
   of the C09 theorems; the binary64 part instantiates the engines with tables recorded from the real code and
   is evaluated against the implementation by the correspondence check.  NO proofs in this file. *)
From Coq Require Import String List Bool Arith ZArith PrimFloat.
From V.base Require Import FloatBits.
From V.model Require Import Intervals.
Import ListNotations.

Section Gen.
  Variables T R : Type.             (* observations / interval reference values *)
  Variable leb : T -> T -> bool.
  Variable d0 : T.                  (* default of nth, never read on a rectangular matrix *)

  (* data[mask]  (boolean-mask indexing keeps the order of the rows) *)
  Definition selm {A} (m : list bool) (l : list A) : list A := map snd (filter (fun p => fst p) (combine m l)).
  (* data[:, i] *)
  Definition col (i : nat) (rows : list (list T)) : list T := map (fun r => nth i r d0) rows.

  (* what IntervalSlicer.slice_ returns: None = RuntimeError *)
  Definition slicer := list T -> option (list (row T R)).

  (* ---- Width / Number slicers: one "plan" (kind, edge vector, references, thresholds), computed from the
     value range; masks are  map (inb kind interval)  of the conditioning column *)
  Record plan := mkplan { pl_kind : kind; pl_close : bool; pl_edges : list T; pl_refs : list R;
                          pl_mnp : nat; pl_mni : nat }.
  Definition plan_slice (pl : plan) (x : list T) : option (list (row T R)) :=
    finish T (pl_mni pl) (drop T (pl_mnp pl) (rows_of T leb (pl_kind pl) (pl_close pl) (pl_edges pl) (pl_refs pl) x)).
  (* slice_: a callable reference is evaluated on the members of each surviving interval *)
  Definition reref (rf : option (list T -> R)) (x : list T) (rs : list (row T R)) : list (row T R) :=
    match rf with
    | None => rs
    | Some f => map (fun r => mkrow (r_mask r) (f (selm (r_mask r) x)) (r_bounds r)) rs
    end.
  Definition edge_slicer (mk : list T -> plan) (rf : option (list T -> R)) : slicer :=
    fun x => option_map (reref rf x) (plan_slice (mk x) x).

  (* ---- PointsPerIntervalSlicer: argsort is an oracle; boundaries are computed from the members of the
     surviving intervals by [bnds]; the reference is always a callable *)
  Definition ppi_slicer (argsort : list T -> list nat) (n : nat) (last_full : bool) (mnp mni : nat)
             (bnds : list (list T) -> list (T * T)) (rf : list T -> R) : slicer :=
    fun x =>
      let perm := argsort x in
      if length perm <? n then None else
      let ms := filter (fun m => Nat.min n mnp <=? count_true m) (ppi_masks n last_full perm) in
      match ms with
      | [] => None
      | _ => if length ms <? mni then None
             else Some (map (fun mb => mkrow (fst mb) (rf (selm (fst mb) x)) (snd mb))
                            (combine ms (bnds (map (fun m => selm m x) ms))))
      end.

  (* ---- fit descriptions (_check_and_fill_fit_desc) *)
  Variables M W : Type.             (* method, weights: handed through untouched *)
  Variable mle : M.
  Variable wnone : W.
  (* a fit description dict: keys "method" / "weights" present or not *)
  Record fdesc := mkfd { fd_method : option M; fd_weights : option W }.
  Definition fill1 (d : option fdesc) : option (M * W) :=
    match d with
    | None => Some (mle, wnone)
    | Some d => match fd_method d with
                | None => None                       (* ValueError: mandatory key 'method' *)
                | Some m => Some (m, match fd_weights d with Some w => w | None => wnone end)
                end
    end.
  Fixpoint all_some {A} (l : list (option A)) : option (list A) :=
    match l with
    | [] => Some []
    | None :: _ => None
    | Some a :: l' => option_map (cons a) (all_some l')
    end.
  Definition fill (n_dim : nat) (fds : option (list (option fdesc))) : option (list (M * W)) :=
    match fds with
    | None => Some (repeat (mle, wnone) n_dim)
    | Some l => if length l =? n_dim then all_some (map fill1 l) else None
    end.

  (* ---- engines *)
  Variables Tm P : Type.            (* template distribution, fitted parameter values *)
  (* template.fit(data, method, weights) ; parameters.   The second argument is the distribution's state
     before the call (None = as constructed): an unconditional distribution is fitted in place, every
     interval of a conditional one is fitted on a deep copy of the never-fitted template *)
  Variable tfit : Tm -> option P -> M -> W -> list T -> P.
  Variables Dep DP Y : Type.        (* a conditional parameter (name + dependence function), its fitted parameters *)
  Variable proj : Dep -> P -> Y.    (* params[par_name] *)
  (* dep_func.fit(x, y); parameters.  Second argument: the parameters before the call (start values) *)
  Variable dfit : Dep -> option DP -> list R -> list Y -> DP.

  Inductive dimdesc :=
  | DI (tm : Tm)                                   (* unconditional *)
  | DC (tm : Tm) (on : nat) (deps : list Dep).     (* conditional on dimension [on] *)

  Inductive fitted :=
  | FI (p : P)
  | FC (data_intervals : list (list T)) (conditioning_values : list R) (boundaries : list (T * T))
       (parameters_per_interval : list P) (dep_parameters : list DP).

  Definition prevP (s : option fitted) : option P := match s with Some (FI p) => Some p | _ => None end.
  Definition prevD (s : option fitted) (j : nat) : option DP :=
    match s with Some (FC _ _ _ _ dps) => nth_error dps j | _ => None end.

  (* _split_in_intervals: the slicer of the CONDITIONING dimension slices the conditioning column,
     its masks select from the dependent column *)
  Definition split_in_intervals (slicers : list slicer) (rows : list (list T)) (i c : nat)
    : option (list (list T) * list R * list (T * T)) :=
    match nth_error slicers c with
    | None => None
    | Some sl => match sl (col c rows) with
                 | None => None
                 | Some rs => Some (map (fun r => selm (r_mask r) (col i rows)) rs, map r_ref rs, map r_bounds rs)
                 end
    end.

  (* ConditionalDistribution.fit: all lists are built afresh *)
  Definition cond_fit (tm : Tm) (deps : list Dep) (prev : option fitted) (m : M) (w : W)
             (ivs : list (list T)) (refs : list R) (bs : list (T * T)) : fitted :=
    let pars := map (tfit tm None m w) ivs in
    FC ivs refs bs pars
       (map (fun jd => dfit (snd jd) (prevD prev (fst jd)) refs (map (proj (snd jd)) pars))
            (combine (seq 0 (length deps)) deps)).

  Definition fit_dim (slicers : list slicer) (rows : list (list T)) (i : nat) (d : dimdesc) (mw : M * W)
             (prev : option fitted) : option fitted :=
    match d with
    | DI tm => Some (FI (tfit tm (prevP prev) (fst mw) (snd mw) (col i rows)))
    | DC tm c deps =>
        match split_in_intervals slicers rows i c with
        | None => None
        | Some (ivs, refs, bs) => Some (cond_fit tm deps prev (fst mw) (snd mw) ivs refs bs)
        end
    end.

  Fixpoint fit_dims (slicers : list slicer) (rows : list (list T)) (i : nat) (ds : list dimdesc)
           (mws : list (M * W)) (st : list (option fitted)) : option (list (option fitted)) :=
    match ds, mws with
    | [], _ => Some []
    | d :: ds', mw :: mws' =>
        match fit_dim slicers rows i d mw (hd None st) with
        | None => None
        | Some f => option_map (cons (Some f)) (fit_dims slicers rows (S i) ds' mws' (tl st))
        end
    | _ :: _, [] => None
    end.

  (* GlobalHierarchicalModel.fit(data, fit_descriptions) on a model in state [st]
     (st = [] or all None: never fitted).  None = an exception is raised. *)
  Definition fit (slicers : list slicer) (ds : list dimdesc) (st : list (option fitted))
             (rows : list (list T)) (fds : option (list (option fdesc))) : option (list (option fitted)) :=
    match fill (length ds) fds with
    | None => None
    | Some mws =>
        if forallb (fun r => length r =? length ds) rows then fit_dims slicers rows 0 ds mws st else None
    end.
End Gen.

Arguments mkplan {T R}. Arguments pl_kind {T R}. Arguments pl_close {T R}. Arguments pl_edges {T R}.
Arguments pl_refs {T R}. Arguments pl_mnp {T R}. Arguments pl_mni {T R}.
Arguments mkfd {M W}. Arguments fd_method {M W}. Arguments fd_weights {M W}.
Arguments DI {Tm Dep}. Arguments DC {Tm Dep}.
Arguments FI {T R P DP}. Arguments FC {T R P DP}.

(* ------------------------------------------------------------------ binary64 instance *)
Local Open Scope float_scope.

(* the plans of the two edge slicers: exactly the arguments model/Intervals.v hands to rows_of *)
Definition width_plan (width : float) (r : refkind) (right_open : bool) (vmin vmax : option float)
           (mnp mni : nat) (data : list float) : plan float float :=
  let data_min := match vmin with Some v => v | None => 0 end in
  let data_max := match vmax with Some v => v | None => fmax data end in
  let se := width_edges data_min data_max width in
  mkplan (if right_open then RightOpen else LeftOpen) false (snd se) (width_refs r (fst se) width) mnp mni.

Definition number_plan (n : nat) (r : refkind) (include_max : bool) (vr : option (float * float))
           (mnp mni : nat) (data : list float) : plan float float :=
  let v := match vr with Some p => p | None => (fmin data, fmax data) end in
  let swe := number_edges (fst v) (snd v) n in
  mkplan RightOpen include_max (snd swe) (number_refs r (fst (fst swe)) (snd (fst swe))) mnp (Nat.min n mni).

Definition ppi_bnds (ivs : list (list float)) : list (float * float) :=
  match ivs with [] => [] | first :: rest => ppi_bounds (fmin first) first rest end.

(* recorded engine calls: association lists, keys compared bit for bit *)
Fixpoint all2 {A B} (f : A -> B -> bool) (a : list A) (b : list B) : bool :=
  match a, b with [], [] => true | x :: a', y :: b' => f x y && all2 f a' b' | _, _ => false end.
Definition fl_eqb := all2 fbits_eq.
Definition ofl_eqb (a b : option (list float)) : bool :=
  match a, b with None, None => true | Some x, Some y => fl_eqb x y | _, _ => false end.

Inductive wts := WNone | WStr (s : string) | WArr (l : list float).
Definition wts_eqb (a b : wts) : bool :=
  match a, b with
  | WNone, WNone => true
  | WStr s, WStr t => String.eqb s t
  | WArr x, WArr y => fl_eqb x y
  | _, _ => false
  end.

Record tcall := mktcall { tc_tm : nat; tc_prev : option (list float); tc_method : string; tc_weights : wts;
                          tc_data : list float; tc_result : list float }.
Record dcall := mkdcall { dc_dep : nat; dc_prev : option (list float); dc_x : list float; dc_y : list float;
                          dc_result : list float }.

(* a call the implementation never made has no entry: the result [] differs from every recorded result *)
Definition tfit_tab (tab : list tcall) (tm : nat) (prev : option (list float)) (m : string) (w : wts)
           (data : list float) : list float :=
  match find (fun c => Nat.eqb (tc_tm c) tm && ofl_eqb (tc_prev c) prev && String.eqb (tc_method c) m
                       && wts_eqb (tc_weights c) w && fl_eqb (tc_data c) data) tab with
  | Some c => tc_result c
  | None => []
  end.
(* references are recomputed by the model (arange / linspace arithmetic): matched to 1e-9 relative, not bit for bit *)
Definition fclose9 (a b : float) : bool :=
  fbits_eq a b || (PrimFloat.leb (abs (a - b)) (0x1.12e0be826d695p-30 * (if PrimFloat.ltb (abs a) (abs b) then abs b else abs a))).
Definition dfit_tab (tab : list dcall) (dep : nat * nat) (prev : option (list float)) (x y : list float) : list float :=
  match find (fun c => Nat.eqb (dc_dep c) (fst dep) && ofl_eqb (dc_prev c) prev && all2 fclose9 (dc_x c) x
                       && fl_eqb (dc_y c) y) tab with
  | Some c => dc_result c
  | None => []
  end.
(* a dependence function is (identifier, position of its parameter in the template's parameter list) *)
Definition proj_f (dep : nat * nat) (p : list float) : float := nth (snd dep) p nan.
Definition ref_tab (tab : list (list float * float)) (members : list float) : float :=
  match find (fun c => fl_eqb (fst c) members) tab with Some c => snd c | None => nan end.

Inductive slicer_desc :=
| SWidth (width : float) (r : refkind) (right_open : bool) (vmin vmax : option float) (mnp mni : nat)
| SNumber (n : nat) (r : refkind) (include_max : bool) (vr : option (float * float)) (mnp mni : nat)
| SPpi (n : nat) (last_full : bool) (mnp mni : nat).

Definition is_callable (r : refkind) : bool := match r with RCallable => true | _ => false end.

(* argsort oracle: the recorded permutation of the column it was asked for *)
Definition argsort_tab (tab : list (list float * list nat)) (x : list float) : list nat :=
  match find (fun c => fl_eqb (fst c) x) tab with Some c => snd c | None => [] end.

Definition slicer_f (reftab : list (list float * float)) (sorttab : list (list float * list nat))
           (s : slicer_desc) : slicer float float :=
  match s with
  | SWidth width r ro vmin vmax mnp mni =>
      edge_slicer float float fleb (width_plan width r ro vmin vmax mnp mni)
                  (if is_callable r then Some (ref_tab reftab) else None)
  | SNumber n r im vr mnp mni =>
      edge_slicer float float fleb (number_plan n r im vr mnp mni)
                  (if is_callable r then Some (ref_tab reftab) else None)
  | SPpi n lf mnp mni =>
      ppi_slicer float float (argsort_tab sorttab) n lf mnp mni ppi_bnds (ref_tab reftab)
  end.

Definition fit_f (ttab : list tcall) (dtab : list dcall) (reftab : list (list float * float))
           (sorttab : list (list float * list nat)) (slicers : list slicer_desc)
           (ds : list (@dimdesc nat (nat * nat))) (st : list (option (@fitted float float (list float) (list float))))
           (rows : list (list float)) (fds : option (list (option (@fdesc string wts))))
  : option (list (option (@fitted float float (list float) (list float)))) :=
  fit float float nan string wts "mle"%string WNone nat (list float) (tfit_tab ttab)
      (nat * nat)%type (list float) float proj_f (dfit_tab dtab)
      (map (slicer_f reftab sorttab) slicers) ds st rows fds.
