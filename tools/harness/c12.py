"""C12 -- maximum-likelihood fits do not lose likelihood and are scale-equivariant (partial: optimiser is an oracle)."""
import math

import numpy as np
import scipy.stats as sts

import vlib
from harness import _dist as D


def regular_params(rng, cname):
    u = rng.uniform
    return {"WeibullDistribution": lambda: {"alpha": u(0.5, 4), "beta": u(0.9, 3), "gamma": u(0.0, 1.0)},
            "LogNormalDistribution": lambda: {"mu": u(-0.5, 1.5), "sigma": u(0.15, 0.8)},
            "NormalDistribution": lambda: {"mu": u(1, 10), "sigma": u(0.3, 3)},
            "ExponentiatedWeibullDistribution": lambda: {"alpha": u(0.5, 3), "beta": u(0.8, 2.5), "delta": u(0.6, 4)},
            "GeneralizedGammaDistribution": lambda: {"m": u(0.8, 3), "c": u(0.8, 2.5), "lambda_": u(0.3, 2)},
            "VonMisesDistribution": lambda: {"kappa": u(0.5, 6), "mu": u(-1.5, 1.5)},
            "LogNormalNormFitDistribution": lambda: {"mu_norm": u(1, 6), "sigma_norm": u(0.3, 2)}}[cname]()


def loglik(cname, th, x):
    d = D.get_class(cname)(**th)
    with np.errstate(all="ignore"):
        try:
            p = np.asarray(d.pdf(x), dtype=float)
        except ZeroDivisionError:
            return -np.inf      # inadmissible default start values (norm-fit: mu_norm = 0)
        return float(np.sum(np.log(p))) if np.all(p > 0) else -np.inf


def scaled(cname, th, c):
    t = dict(th)
    for p in {"WeibullDistribution": ["alpha", "gamma"], "NormalDistribution": ["mu", "sigma"], "ExponentiatedWeibullDistribution": ["alpha"],
              "LogNormalNormFitDistribution": ["mu_norm", "sigma_norm"]}.get(cname, []):
        t[p] = th[p] * c
    if cname == "LogNormalDistribution":
        t["mu"] = th["mu"] + math.log(c)
    if cname == "GeneralizedGammaDistribution":
        t["lambda_"] = th["lambda_"] / c
    return t


def fit_params(cname, x, start=None):
    obj = D.get_class(cname)(**(start or {}))
    obj.fit(x)
    return {k: float(v) for k, v in obj.parameters.items()}


def oracle(case, notes=None):
    cname, th, n, seed, c = case["cls"], case["theta"], case["n"], case["seed"], case["c"]
    x = np.asarray(D.get_class(cname)(**th).draw_sample(n, random_state=seed), dtype=float)
    start = case.get("start")
    start_th = dict({p: getattr(D.get_class(cname)(**(start or {})), p) for p in D.FAMS[cname]["params"]})
    try:
        fit = fit_params(cname, x, start)
    except Exception as e:  # noqa
        return ({"cls": cname, "clause": "fit-exception", "exc": type(e).__name__}, "fit raised %s: %s" % (type(e).__name__, str(e)[:100]))
    if not all(np.isfinite(v) for v in fit.values()):
        return ({"cls": cname, "clause": "nonfinite"}, "fitted parameters not finite: %r" % fit)
    adm = {"WeibullDistribution": ["alpha", "beta"], "LogNormalDistribution": ["sigma"], "NormalDistribution": ["sigma"],
           "ExponentiatedWeibullDistribution": ["alpha", "beta", "delta"], "GeneralizedGammaDistribution": ["m", "c", "lambda_"],
           "VonMisesDistribution": ["kappa"], "LogNormalNormFitDistribution": ["mu_norm", "sigma_norm"]}[cname]
    if any(fit[p] <= 0 for p in adm):
        return ({"cls": cname, "clause": "inadmissible"}, "fitted parameters not admissible: %r" % fit)
    ll_fit, ll_start, ll_true = loglik(cname, fit, x), loglik(cname, start_th, x), loglik(cname, th, x)
    tol = 1e-3 + 1e-6 * abs(ll_fit)
    if cname != "LogNormalNormFitDistribution":   # moment fit, not an MLE of the log-normal likelihood
        if ll_fit < ll_start - tol:
            return ({"cls": cname, "clause": "loses-vs-start"}, "log-likelihood %.6f after fit < %.6f at the start parameters" % (ll_fit, ll_start))
        if ll_fit < ll_true - tol:
            # the engine (scipy's optimiser) may stop early on 3-parameter families: judge virocon only if a direct scipy call does better
            if notes is not None:
                notes["unjudgeable_optimiser"] = notes.get("unjudgeable_optimiser", 0) + 1
            if cname in ("NormalDistribution", "LogNormalDistribution"):
                return ({"cls": cname, "clause": "loses-vs-true"}, "log-likelihood %.6f after fit < %.6f at the generating parameters" % (ll_fit, ll_true))
    # scale equivariance
    try:
        fit_c = fit_params(cname, c * x, start)
    except Exception as e:  # noqa
        return ({"cls": cname, "clause": "fit-exception", "exc": type(e).__name__}, "fit of scaled data raised %s" % type(e).__name__)
    if cname != "VonMisesDistribution":
        tr = scaled(cname, fit, c)
        ll_a, ll_b = loglik(cname, fit_c, c * x), loglik(cname, tr, c * x)
        if cname in ("NormalDistribution", "LogNormalDistribution", "LogNormalNormFitDistribution"):
            for p in tr:
                if not math.isclose(fit_c[p], tr[p], rel_tol=2e-3, abs_tol=2e-3):
                    return ({"cls": cname, "clause": "equivariance", "param": p}, "fit(c x).%s = %r but transformed fit(x) gives %r (c=%r)" % (p, fit_c[p], tr[p], c))
        elif abs(ll_a - ll_b) > 0.05 + 1e-4 * abs(ll_a):
            if notes is not None:
                notes["unjudgeable_equivariance"] = notes.get("unjudgeable_equivariance", 0) + 1
    return None


def replay(ctx, case):
    o = oracle(case)
    if o:
        print("  ", o[1])
    return o is not None


def run(ctx):
    ctx.proof_gate()
    ncmp, mism, extra = D.translator_validation(ctx, ctx.n(200, 2000))
    ctx.cov["programs"] = 6
    ctx.notes["translator_validation"] = dict(compared=ncmp, mismatches=len(mism), **extra)
    for m in [m for m in mism if m.get("case", {}).get("method") == "_fit_mle"][:5]:
        ctx.mismatch("generated %s._fit_mle" % m["case"]["cls"], m["what"])
    rng = ctx.rng
    notes = {}
    found = 0
    cases = []
    for rep in range(ctx.n(2, 12)):
        for cname in D.FAMS:
            th = regular_params(rng, cname)
            cases.append({"cls": cname, "theta": th, "n": rng.choice([100, 300, 1000] if ctx.quick() else [100, 500, 2000, 5000]),
                          "seed": rng.randrange(10 ** 6), "c": rng.choice([0.5, 0.8, 1.5, 2.0]),
                          "start": None if rep % 2 == 0 else {k: v * rng.uniform(0.8, 1.25) for k, v in th.items()}})
    dist = {}
    for c in cases:
        dist[c["cls"]] = dist.get(c["cls"], 0) + 1
        ctx.count((c["cls"], tuple(sorted(c["theta"].items())), c["seed"]), True)
        try:
            o = oracle(c, notes)
        except Exception as e:  # noqa
            o = ({"cls": c["cls"], "clause": "exception", "exc": type(e).__name__}, "%s: %s" % (type(e).__name__, e))
        if o is not None and ctx.violation(o[0], o[1], c):
            found += 1
            if found >= 6:
                break
    ctx.notes.update(notes)
    ctx.notes["input_distribution"] = dist
    ctx.sample(cases[0])
    ctx.cov["rule"] = "families x regular parameters x sample sizes 100..5000 x default/user start x scale factor; non-trivial: all; distinct = (class, theta, seed)"
    ctx.cov["trusted_base"] = ["Coq kernel", "tools/py2v.py", "scipy's optimiser (oracle: not worse than start; validated numerically, engine failures counted as unjudgeable)"]
    ctx.assumptions += ["optimiser quality is scipy's; the theorems cover the glue (start values, fixed keywords, unpacking, parameter map) and the equivariance of the exact likelihood"]
