(* C02 over the reals: the generic model of model/Hdc.v instantiated with R (exact arithmetic), the order /
   addition hypotheses of HdcProofs.v discharged, sums and products in their mathematical form. *)
From Coq Require Import Reals Lra List Bool ZArith Lia Permutation PrimFloat.
From V.model Require Import Hdc.
From V.proofs Require Import HdcProofs HdcArrayProofs.
Import ListNotations.
Local Open Scope R_scope.

Definition Rleb (a b : R) : bool := if Rle_dec a b then true else false.
Definition Rltb (a b : R) : bool := if Rlt_dec a b then true else false.
Definition Rnan (_ : R) : bool := false.

Lemma Rleb_true a b : Rleb a b = true <-> a <= b.
Proof. unfold Rleb. destruct (Rle_dec a b); split; auto; discriminate. Qed.
Lemma Rleb_false a b : Rleb a b = false <-> b < a.
Proof. unfold Rleb. destruct (Rle_dec a b); split; intros; try discriminate; try lra; auto. Qed.
Lemma Rltb_true a b : Rltb a b = true <-> a < b.
Proof. unfold Rltb. destruct (Rlt_dec a b); split; auto; discriminate. Qed.

Lemma Rleb_total a b : Rleb a b = true \/ Rleb b a = true.
Proof. rewrite !Rleb_true. lra. Qed.
Lemma Rleb_trans a b c : Rleb a b = true -> Rleb b c = true -> Rleb a c = true.
Proof. rewrite !Rleb_true. lra. Qed.
Lemma Radd_nonneg a x : Rleb 0 x = true -> Rleb a (a + x) = true.
Proof. rewrite !Rleb_true. lra. Qed.
Lemma Rltb_leb a b : Rltb a b = negb (Rleb b a).
Proof. unfold Rltb, Rleb. destruct (Rlt_dec a b), (Rle_dec b a); simpl; auto; lra. Qed.

(* the model at type R *)
Definition Rcbu := cumsum_biggest_until R 0 Rplus Rleb Rltb Rnan.
Definition Rhdr := hdr_select R 0 Rplus Rleb Rltb Rnan.
Definition cellp (a : list R) (k : Z) : R := pval R 0 a k.
Definition in_range (a : list R) (k : Z) : Prop := (0 <= k < Z.of_nat (length a))%Z.
Definition nonnegR (a : list R) : Prop := Forall (fun x => 0 <= x) a.
(* sum of the cells with the given flat indices *)
Definition sumR (a : list R) (ks : list Z) : R := fold_right (fun k s => cellp a k + s) 0 ks.
Definition sum_all (a : list R) : R := fold_right Rplus 0 a.
Definition prodR (l : list R) : R := fold_right Rmult 1 l.

Lemma nonnegR_all a : nonnegR a -> all_nonneg R 0 Rleb a.
Proof. unfold nonnegR, all_nonneg. apply Forall_impl. intros x. apply Rleb_true. Qed.

Lemma sum_at_sumR a : forall ks acc, sum_at R 0 Rplus a ks acc = acc + sumR a ks.
Proof. induction ks as [|k ks IH]; intros acc; simpl; [lra|]. rewrite IH. unfold cellp. lra. Qed.

Lemma sumR_perm a : forall l m, Permutation l m -> sumR a l = sumR a m.
Proof. intros l m H. induction H; simpl; try lra. Qed.

Lemma sumR_zrange a : sumR a (zrange (length a)) = sum_all a.
Proof.
  unfold zrange, cellp, pval.
  assert (G : forall (a : list R) (s : nat) (pre : list R), length pre = s ->
     sumR (pre ++ a) (map Z.of_nat (seq s (length a))) = sum_all a).
  { clear. induction a as [|x a IH]; intros s pre Hs; simpl; auto.
    unfold cellp, pval. rewrite Nat2Z.id. rewrite app_nth2 by lia. rewrite Hs, Nat.sub_diag. simpl. f_equal.
    replace (pre ++ x :: a) with ((pre ++ [x]) ++ a) by (rewrite <- app_assoc; reflexivity).
    apply IH. rewrite app_length. simpl. lia. }
  apply (G a 0%nat []). reflexivity.
Qed.

Section Selection.
  Variable a : list R.
  Variable lim : R.
  Hypothesis a_nonneg : nonnegR a.
  Variables (sel : list Z) (lastv : R) (warn : bool).
  Hypothesis Hok : Rcbu a lim = CbuOk sel lastv warn.

  Let H0 := nonnegR_all a a_nonneg.
  Let Esel : sel = sel_idx R 0 Rplus Rleb a lim :=
    proj1 (cbu_ok R 0 Rplus Rleb Rltb Rnan a lim sel lastv warn Hok).

  (* each selected index is a cell of the array, no cell twice *)
  Lemma sel_cells : NoDup sel /\ forall k, In k sel -> in_range a k.
  Proof.
    rewrite Esel. split.
    - apply (sel_idx_nodup R 0 Rplus Rleb Rleb_trans Radd_nonneg a lim H0).
    - intros k Hk. apply (sel_idx_range R 0 Rplus Rleb Rnan Rleb_trans Radd_nonneg a lim k H0 Hk).
  Qed.

  (* selection = a prefix of the stable descending order *)
  Lemma sel_is_prefix : exists n, sel = map snd (firstn n (argsort_desc R Rleb a)).
  Proof. exists (nsel R 0 Rplus Rleb a lim). rewrite Esel. apply (sel_idx_prefix R 0 Rplus Rleb Rleb_trans Radd_nonneg a lim H0). Qed.

  (* content at most the limit (1 - alpha) *)
  Lemma content_le_limit : sumR a sel <= lim.
  Proof.
    pose proof (content_le_ok R 0 Rplus Rleb Rltb Rnan Rleb_trans Radd_nonneg a lim sel lastv warn H0 Hok) as H.
    rewrite (sum_sel_sum_at R 0 Rplus Rleb Rnan Rleb_trans Radd_nonneg a lim H0) in H.
    rewrite sum_at_sumR in H. apply Rleb_true in H. rewrite Esel. lra.
  Qed.

  (* if any cell is excluded, the densest excluded cell e satisfies lim - content < p_e *)
  Lemma misses_by_less_than_densest_excluded : forall k, in_range a k -> ~ In k sel ->
    exists e, in_range a e /\ ~ In e sel /\
              (forall k', in_range a k' -> ~ In k' sel -> cellp a k' <= cellp a e) /\
              lim - sumR a sel < cellp a e.
  Proof.
    intros k Hk Hn. rewrite Esel in Hn.
    destruct (first_excluded_exists R 0 Rplus Rleb Rleb_trans Radd_nonneg a lim k H0 Hk Hn) as [e [He [Hr Hne]]].
    exists e. rewrite Esel. split; [exact Hr|]. split; [exact Hne|]. split.
    - intros k' Hk' Hn'. apply Rleb_true.
      apply (first_excluded_densest R 0 Rplus Rleb Rleb_total Rleb_trans Radd_nonneg a lim (pval R 0 a e, e) k' H0 He Hk' Hn').
    - pose proof (first_excluded_overshoots R 0 Rplus Rleb Rltb Rleb_trans Radd_nonneg Rltb_leb a lim _ H0 He) as Ho.
      apply Rltb_true in Ho. rewrite (sum_sel_sum_at R 0 Rplus Rleb Rnan Rleb_trans Radd_nonneg a lim H0) in Ho.
      rewrite sum_at_sumR in Ho. simpl in Ho. unfold cellp. lra.
  Qed.

  (* every enclosed cell is at least as probable as every excluded cell *)
  Lemma enclosed_denser : forall c e, In c sel -> in_range a e -> ~ In e sel -> cellp a e <= cellp a c.
  Proof.
    intros c e Hc He Hn. rewrite Esel in *. apply Rleb_true.
    apply (selected_denser R 0 Rplus Rleb Rleb_total Rleb_trans Radd_nonneg a lim c e H0 Hc He Hn).
  Qed.

  (* the reported value is the probability of the last selected = least probable enclosed cell *)
  Lemma last_summed_is_min :
    (exists k, In k sel /\ last sel 0%Z = k /\ lastv = cellp a k) /\ (forall c, In c sel -> lastv <= cellp a c).
  Proof.
    destruct (last_is_min R 0 Rplus Rleb Rltb Rnan Rleb_total Rleb_trans Radd_nonneg a lim sel lastv warn H0 Hok) as [A B].
    split; [exact A|]. intros c Hc. apply Rleb_true. apply B. exact Hc.
  Qed.

  (* the selection is the super-level set {p >= last_summed}, up to excluded cells that tie with the threshold *)
  Lemma region_is_superlevel_set : forall k, in_range a k ->
    (In k sel -> lastv <= cellp a k) /\ (~ In k sel -> lastv <= cellp a k -> cellp a k = lastv).
  Proof.
    intros k Hk.
    destruct (superlevel R 0 Rplus Rleb Rltb Rnan Rleb_total Rleb_trans Radd_nonneg a lim sel lastv warn H0 Hok k Hk) as [A B].
    split.
    - intros Hin. apply Rleb_true. apply A. exact Hin.
    - intros Hn Hl. specialize (B Hn (proj2 (Rleb_true _ _) Hl)). apply Rleb_true in B. unfold cellp in *. lra.
  Qed.

  Lemma region_is_superlevel_set_no_ties :
    (forall e, in_range a e -> ~ In e sel -> cellp a e <> lastv) ->
    forall k, in_range a k -> (In k sel <-> lastv <= cellp a k).
  Proof.
    intros Hnt k Hk. destruct (region_is_superlevel_set k Hk) as [A B]. split; auto.
    intros Hl. destruct (in_dec Z.eq_dec k sel) as [|Hn]; auto. exfalso. apply (Hnt k Hk Hn). apply B; auto.
  Qed.

  (* the warning flag: the whole array sums to less than the limit *)
  Lemma warn_iff_unreachable : warn = true <-> sum_all a < lim.
  Proof.
    pose proof (proj1 (proj2 (cbu_ok R 0 Rplus Rleb Rltb Rnan a lim sel lastv warn Hok))) as Ew. rewrite Ew.
    rewrite Rltb_true. rewrite (total_sum_at R 0 Rplus Rleb Rnan a). rewrite sum_at_sumR.
    rewrite (sumR_perm a _ _ (argsort_idx_perm R Rleb a)). rewrite sumR_zrange. split; intros; lra.
  Qed.
End Selection.

(* the try/except of _compute *)
Lemma hdr_fallback cp lim m pm w : nonnegR cp -> Rhdr cp lim = HdrOk m pm w ->
  (w = true <-> sum_all cp < lim) /\
  (w = true -> m = map (fun _ => true) cp /\ pm = 0) /\
  (w = false -> exists sel, Rcbu cp lim = CbuOk sel pm false /\ m = mask_of (length cp) sel).
Proof.
  intros Hn H. destruct (hdr_select_spec R 0 Rplus Rleb Rltb Rnan cp lim m pm w H) as [sel [lastv [Hc [Ew [A B]]]]].
  split; [|split].
  - rewrite Ew. rewrite <- (warn_iff_unreachable cp lim sel lastv _ Hc). reflexivity.
  - exact A.
  - intros Hw. destruct (B Hw) as [-> ->]. exists sel. rewrite <- Ew, Hw in Hc. auto.
Qed.

(* ------------------------------------------------------------------ fm and cell probabilities *)
Lemma scale_cells_nth : forall deltas f k, nth k (scale_cells R Rmult f deltas) 0 = nth k f 0 * prodR deltas.
Proof.
  unfold scale_cells. induction deltas as [|dl deltas IH]; intros f k; simpl; [lra|].
  rewrite IH. destruct (Nat.lt_ge_cases k (length f)) as [Hk|Hk].
  - rewrite (nth_map_lt _ _ k 0 0) by exact Hk. lra.
  - rewrite !nth_overflow by (rewrite ?map_length; exact Hk). lra.
Qed.

Lemma fm_of_div : forall deltas pm, Forall (fun d => d <> 0) deltas -> fm_of R Rdiv pm deltas * prodR deltas = pm.
Proof.
  unfold fm_of. induction deltas as [|dl deltas IH]; intros pm H; simpl; [lra|]. inversion H; subst.
  replace (fold_left Rdiv deltas (pm / dl) * (dl * prodR deltas)) with (fold_left Rdiv deltas (pm / dl) * prodR deltas * dl) by lra.
  rewrite IH by assumption. field. assumption.
Qed.

Lemma prodR_pos deltas : Forall (fun d => 0 < d) deltas -> 0 < prodR deltas.
Proof. induction 1; simpl; [lra|]. apply Rmult_lt_0_compat; assumption. Qed.

(* fm is the DENSITY of the cell whose probability is prob_m, and density order = probability order *)
Lemma fm_is_density f deltas k pm : Forall (fun d => 0 < d) deltas ->
  nth k (scale_cells R Rmult f deltas) 0 = pm -> fm_of R Rdiv pm deltas = nth k f 0.
Proof.
  intros Hp Hk. pose proof (prodR_pos deltas Hp) as P. rewrite scale_cells_nth in Hk.
  assert (Hnz : Forall (fun d => d <> 0) deltas) by (eapply Forall_impl; [|exact Hp]; simpl; intros; lra).
  pose proof (fm_of_div deltas pm Hnz) as E.
  apply (Rmult_eq_reg_r (prodR deltas)); [|lra]. rewrite E. symmetry. exact Hk.
Qed.

Lemma density_order f deltas j k : Forall (fun d => 0 < d) deltas ->
  (nth j (scale_cells R Rmult f deltas) 0 <= nth k (scale_cells R Rmult f deltas) 0 <-> nth j f 0 <= nth k f 0).
Proof.
  intros Hp. pose proof (prodR_pos deltas Hp) as P. rewrite !scale_cells_nth. split; intros H.
  - apply (Rmult_le_reg_r (prodR deltas)); assumption.
  - apply Rmult_le_compat_r; lra.
Qed.

(* product form of the joint cell probability: with dx_d = delta_d (arange grid, exact arithmetic) the cell
   probability is the product of the CDF differences *)
Lemma factor_product_R : forall (g h : nat -> R) ds acc,
  (forall d, In d ds -> h d <> 0) ->
  fold_left (fun v d => v * (g d / h d)) ds acc * prodR (map h ds) = acc * prodR (map g ds).
Proof.
  induction ds as [|d ds IH]; intros acc H; simpl; [lra|].
  replace (fold_left (fun v d0 => v * (g d0 / h d0)) ds (acc * (g d / h d)) * (h d * prodR (map h ds)))
    with (fold_left (fun v d0 => v * (g d0 / h d0)) ds (acc * (g d / h d)) * prodR (map h ds) * h d) by lra.
  rewrite IH by (intros; apply H; right; assumption). field. apply H. left. reflexivity.
Qed.

Lemma map_seq_nth {A B} (f : A -> B) (l : list A) (d : A) : map (fun i => f (nth i l d)) (seq 0 (length l)) = map f l.
Proof.
  apply (nth_ext _ _ (f d) (f d)); [rewrite !map_length, seq_length; reflexivity|].
  intros i Hi. rewrite map_length, seq_length in Hi.
  rewrite (nth_map_lt _ _ i (f d) 0%nat) by (rewrite seq_length; exact Hi). rewrite seq_nth by exact Hi.
  rewrite (nth_map_lt _ _ i (f d) d) by exact Hi. reflexivity.
Qed.

Section CellProbability.
  Variable cdfv : nat -> option R -> list R -> list R.
  Variable cdf1 : nat -> option R -> R -> R.
  Hypothesis cdfv_pointwise : forall d g xs, cdfv d g xs = map (cdf1 d g) xs.
  Variable cond : list (option nat).
  Variable coords : list (list R).
  Variable deltas : list R.
  Hypothesis axes_nonempty : Forall (fun c => (0 < length c)%nat) coords.
  Hypothesis cond_earlier : forall d ci, nth d cond None = Some ci -> (ci < d)%nat.
  (* the grid is equidistant with the cell size that is used for the cell probability (arange, exact arithmetic) *)
  Hypothesis spacing : deltas = map (dx_of R 0 Rminus) coords.
  Hypothesis spacing_nonzero : Forall (fun d => d <> 0) deltas.

  Definition Rjoint := cell_averaged_joint_pdf R 0 1 (1/2) Rplus Rminus Rmult Rdiv cdfv cond coords.
  Definition cell_prob : list R := scale_cells R Rmult (a_data Rjoint) deltas.
  Definition grid_shape : list nat := map (@length R) coords.
  (* F_d(x_d + dx_d/2 | x_cond(d)) - F_d(x_d - dx_d/2 | x_cond(d)) at the cell idx *)
  Definition cdf_difference (idx : list nat) (d : nat) : R :=
    let g := given_of R 0 cond coords d idx in
    let x := coord R 0 coords d idx in
    let dx := dx_of R 0 Rminus (nth d coords []) in
    cdf1 d g (x + 1/2 * dx) - cdf1 d g (x - 1/2 * dx).

  Theorem cell_probability idx : in_shape grid_shape idx ->
    a_shape Rjoint = grid_shape /\ length cell_prob = prod grid_shape /\
    nth (ravel grid_shape idx) cell_prob 0 = prodR (map (cdf_difference idx) (seq 0 (length coords))).
  Proof.
    intros Hidx.
    destruct (joint_spec R 0 1 (1/2) Rplus Rminus Rmult Rdiv cdfv cdf1 cdfv_pointwise cond coords axes_nonempty cond_earlier idx Hidx)
      as [Hs [Hl Hg]].
    fold Rjoint in Hs, Hl, Hg. fold grid_shape in Hs, Hl. split; [exact Hs|]. split.
    - unfold cell_prob, scale_cells. clear -Hl. revert Hl. generalize (a_data Rjoint) as data.
      induction deltas as [|dl dls IH]; intros data Hl; simpl; auto. apply IH. rewrite map_length. exact Hl.
    - unfold cell_prob. rewrite scale_cells_nth.
      unfold aget in Hg. rewrite Hs in Hg.
      rewrite clip_id in Hg.
      2:{ apply in_shape_length. exact Hidx. }
      2:{ intros j Hj E. pose proof (in_shape_nth _ _ j Hidx Hj). lia. }
      rewrite Hg. unfold factor_product.
      assert (Hd : prodR deltas = prodR (map (fun d => dx_of R 0 Rminus (nth d coords [])) (seq 0 (length coords)))).
      { rewrite spacing. rewrite (map_seq_nth (dx_of R 0 Rminus) coords []). reflexivity. }
      rewrite Hd.
      rewrite (factor_product_R (cdf_difference idx) (fun d => dx_of R 0 Rminus (nth d coords []))).
      + lra.
      + intros d Hin. apply in_seq in Hin. rewrite Forall_forall in spacing_nonzero. apply spacing_nonzero.
        rewrite spacing. apply in_map. apply nth_In. lia.
  Qed.
End CellProbability.

(* ------------------------------------------------------------------ statements in the form used by props/C02.v *)
Lemma region_cells_R a lim sel lastv warn : nonnegR a -> Rcbu a lim = CbuOk sel lastv warn ->
  NoDup sel /\ (forall k, In k sel -> in_range a k) /\ exists n, sel = map snd (firstn n (argsort_desc R Rleb a)).
Proof.
  intros Hn Hok. destruct (sel_cells a lim Hn sel lastv warn Hok) as [A B].
  exact (conj A (conj B (sel_is_prefix a lim Hn sel lastv warn Hok))).
Qed.

Lemma fm_is_least_dense_enclosed f deltas lim sel lastv warn :
  Forall (fun d => 0 < d) deltas -> nonnegR (scale_cells R Rmult f deltas) ->
  Rcbu (scale_cells R Rmult f deltas) lim = CbuOk sel lastv warn ->
  exists k, In k sel /\ last sel 0%Z = k /\
            fm_of R Rdiv lastv deltas = nth (Z.to_nat k) f 0 /\
            forall c, In c sel -> nth (Z.to_nat k) f 0 <= nth (Z.to_nat c) f 0.
Proof.
  intros Hd Hn Hok.
  destruct (last_summed_is_min _ lim Hn sel lastv warn Hok) as [[k [Hk [Hl Ev]]] Hmin].
  exists k. split; [exact Hk|]. split; [exact Hl|]. split.
  - apply (fm_is_density f deltas (Z.to_nat k) lastv Hd). symmetry. exact Ev.
  - intros c Hc. apply (density_order f deltas (Z.to_nat k) (Z.to_nat c) Hd). specialize (Hmin c Hc). rewrite Ev in Hmin. exact Hmin.
Qed.

Lemma superlevel_set_R a lim sel lastv warn : nonnegR a -> Rcbu a lim = CbuOk sel lastv warn ->
  (forall k, in_range a k -> (In k sel -> lastv <= cellp a k) /\ (~ In k sel -> lastv <= cellp a k -> cellp a k = lastv)) /\
  ((forall e, in_range a e -> ~ In e sel -> cellp a e <> lastv) -> forall k, in_range a k -> (In k sel <-> lastv <= cellp a k)).
Proof.
  intros Hn Hok.
  exact (conj (region_is_superlevel_set a lim Hn sel lastv warn Hok) (region_is_superlevel_set_no_ties a lim Hn sel lastv warn Hok)).
Qed.

Lemma mask_positions sh sel idx : in_shape sh idx ->
  length (mask_of (prod sh) sel) = prod sh /\
  (nth (ravel sh idx) (mask_of (prod sh) sel) false = true <-> In (Z.of_nat (ravel sh idx)) sel) /\
  unravel sh (ravel sh idx) = idx.
Proof.
  intros H. split; [apply mask_of_length|]. split; [apply mask_of_nth, ravel_lt, H|apply unravel_ravel, H].
Qed.

Lemma float_entry_points :
  f_cbu = cumsum_biggest_until PrimFloat.float 0%float PrimFloat.add PrimFloat.leb PrimFloat.ltb fisnan /\
  f_hdr_select = hdr_select PrimFloat.float 0%float PrimFloat.add PrimFloat.leb PrimFloat.ltb fisnan /\
  f_joint = cell_averaged_joint_pdf PrimFloat.float 0%float 1%float 0.5%float PrimFloat.add PrimFloat.sub PrimFloat.mul PrimFloat.div /\
  f_region = hdc_region PrimFloat.float 0%float 1%float 0.5%float PrimFloat.add PrimFloat.sub PrimFloat.mul PrimFloat.div
                        PrimFloat.leb PrimFloat.ltb fisnan.
Proof. repeat split; reflexivity. Qed.

(* ------------------------------------------------------------------ error branches over R *)
Lemma Rnan_never a : existsb Rnan a = false.
Proof. induction a; simpl; auto. Qed.

Lemma index_error_iff a lim : nonnegR a ->
  (Rcbu a lim = CbuIndexError <-> a = [] \/ exists k, in_range a k /\ lim < cellp a k).
Proof.
  intros Hn. pose proof (nonnegR_all a Hn) as H0.
  destruct (cbu_error_cases R 0 Rplus Rleb Rltb Rnan a lim) as [_ HI]. unfold Rcbu. rewrite HI.
  rewrite (nothing_selected R 0 Rplus Rleb Rltb Rnan Rleb_trans Radd_nonneg a lim H0). split.
  - intros [_ [E|Hs]]; [left; exact E|].
    destruct (argsort_desc R Rleb a) as [|x l] eqn:Ea.
    + left. pose proof (Permutation_length (argsort_perm R Rleb a)) as L. rewrite Ea in L.
      destruct a; [reflexivity|discriminate].
    + right. destruct (argsort_head_max R 0 Rleb Rleb_total Rleb_trans a x l Ea) as [Hr [Hv _]].
      exists (snd x). split; [exact Hr|]. apply Rleb_false in Hs. unfold cellp. rewrite <- Hv. lra.
  - intros Hor. split; [apply Rnan_never|]. destruct Hor as [E|[k [Hk Hlt]]]; [left; exact E|right].
    destruct (argsort_desc R Rleb a) as [|x l] eqn:Ea; [exact I|].
    destruct (argsort_head_max R 0 Rleb Rleb_total Rleb_trans a x l Ea) as [_ [_ Hmax]].
    specialize (Hmax k Hk). apply Rleb_true in Hmax. apply Rleb_false. unfold cellp in Hlt. lra.
Qed.

(* ------------------------------------------------------------------ _compute = selection on the cell probabilities *)
Lemma short_axis_false (coords : list (list R)) : Forall (fun c => (2 <= length c)%nat) coords ->
  existsb (fun c : list R => (length c <? 2)%nat) coords = false.
Proof.
  induction 1 as [|c l Hc Hl IH]; simpl; [reflexivity|]. rewrite IH, orb_false_r. apply Nat.ltb_ge. exact Hc.
Qed.

Section Compute.
  Variable cdfv : nat -> option R -> list R -> list R.
  Variable cond : list (option nat).
  Variable coords : list (list R).
  Variable deltas : list R.
  Variable alpha : R.

  Definition Rregion := hdc_region R 0 1 (1/2) Rplus Rminus Rmult Rdiv Rleb Rltb Rnan cdfv cond coords deltas alpha.

  Hypothesis axes_two_cells : Forall (fun c => (2 <= length c)%nat) coords.

  Lemma short_axis_never : existsb (fun c : list R => (length c <? 2)%nat) coords = false.
  Proof. exact (short_axis_false coords axes_two_cells). Qed.

  Lemma region_is_selection :
    Rregion = (Rhdr (cell_prob cdfv cond coords deltas) (1 - alpha),
               match Rhdr (cell_prob cdfv cond coords deltas) (1 - alpha) with
               | HdrOk _ pm _ => fm_of R Rdiv pm deltas | _ => 0 end).
  Proof. unfold Rregion, hdc_region. rewrite short_axis_never, Rnan_never. reflexivity. Qed.

  Lemma region_ok m pm fm : nonnegR (cell_prob cdfv cond coords deltas) -> Rregion = (HdrOk m pm false, fm) ->
    exists sel, Rcbu (cell_prob cdfv cond coords deltas) (1 - alpha) = CbuOk sel pm false /\
                m = mask_of (length (cell_prob cdfv cond coords deltas)) sel /\
                fm = fm_of R Rdiv pm deltas /\ ~ (sum_all (cell_prob cdfv cond coords deltas) < 1 - alpha).
  Proof.
    intros Hn H. rewrite region_is_selection in H. injection H as H1 H2.
    destruct (hdr_fallback _ _ _ _ _ Hn H1) as [Hw [_ Hf]]. destruct (Hf eq_refl) as [sel [Hs Hm]].
    exists sel. split; [exact Hs|]. split; [exact Hm|]. split.
    - rewrite H1 in H2. symmetry. exact H2.
    - intro Hlt. apply Hw in Hlt. discriminate.
  Qed.

  Lemma region_warned m pm fm : nonnegR (cell_prob cdfv cond coords deltas) -> Forall (fun d => d <> 0) deltas ->
    Rregion = (HdrOk m pm true, fm) ->
    sum_all (cell_prob cdfv cond coords deltas) < 1 - alpha /\ m = map (fun _ => true) (cell_prob cdfv cond coords deltas) /\ fm = 0.
  Proof.
    intros Hn Hd H. rewrite region_is_selection in H. injection H as H1 H2.
    destruct (hdr_fallback _ _ _ _ _ Hn H1) as [Hw [Hf _]]. destruct (Hf eq_refl) as [Hm Hp].
    split; [apply Hw; reflexivity|]. split; [exact Hm|]. rewrite H1 in H2. subst pm. rewrite <- H2.
    pose proof (fm_of_div deltas 0 Hd) as E.
    assert (P : prodR deltas <> 0).
    { clear -Hd. induction Hd; simpl; [lra|]. apply Rmult_integral_contrapositive_currified; assumption. }
    apply (Rmult_eq_reg_r (prodR deltas)); [|exact P]. rewrite E. lra.
  Qed.
End Compute.

(* an axis with fewer than two cells: IndexError (cell_averaged_pdf reads coords[d][1]) *)
Lemma region_short_axis cdfv cond coords deltas alpha :
  Exists (fun c : list R => (length c < 2)%nat) coords ->
  Rregion cdfv cond coords deltas alpha = (HdrIndexError, 0).
Proof.
  intros H. unfold Rregion, hdc_region.
  assert (E : existsb (fun c : list R => (length c <? 2)%nat) coords = true).
  { apply existsb_exists. apply Exists_exists in H. destruct H as [c [Hin Hc]]. exists c. split; auto. apply Nat.ltb_lt. exact Hc. }
  rewrite E. reflexivity.
Qed.

(* ------------------------------------------------------------------ an equidistant grid has the cell size as spacing *)
Definition Rgrid (start delta : R) (n : nat) : list R := map (fun i => start + INR i * delta) (seq 0 n).
Lemma Rgrid_spacing start delta n : (2 <= n)%nat -> dx_of R 0 Rminus (Rgrid start delta n) = delta.
Proof.
  intros Hn. destruct n as [|[|n]]; try lia. unfold dx_of, Rgrid. simpl. lra.
Qed.
Lemma Rgrid_length start delta n : length (Rgrid start delta n) = n.
Proof. unfold Rgrid. rewrite map_length. apply seq_length. Qed.
