"""Entry point: run_check.py CXX tier | setup | replay file"""
import importlib
import json
import os
import sys
import traceback

sys.path.insert(0, os.path.join(os.path.dirname(os.path.abspath(__file__)), "lib"))
sys.path.insert(0, os.path.dirname(os.path.abspath(__file__)))
import vlib


def main():
    a = sys.argv[1:]
    if a[0] == "setup":
        if os.path.exists(os.path.join(vlib.VERIF, "tools", "py2v.py")):
            ok, log, fails = vlib.regen()
            print(log[-3000:])
        ok, out = vlib.build()
        print(out[-3000:])
        if not ok:
            print("setup: some files did not build; the checks whose cone contains them will report it (proof gate)")
        sys.exit(0)
    if a[0] == "replay":
        data = json.load(open(a[1]))
        prop = data["property"]
        mod = importlib.import_module("harness.%s" % prop.lower())
        ctx = vlib.Ctx(prop, data.get("tier", "quick"), data.get("seed", 0))
        if data.get("no_failing_input_found"):
            print("replay names broken obligations only:")
            for b in data["broken"]:
                print("  %s: %s" % (b["kind"], b["name"]))
            ctx.proof_gate()
            sys.exit(1 if ctx.broken else 0)
        res = mod.replay(ctx, data["replay"])
        print("replay:", "property FAILS on this input" if res else "property holds on this input")
        sys.exit(1 if res else 0)
    prop, tier = a[0], (a[1] if len(a) > 1 else "quick")
    ctx = vlib.Ctx(prop, tier)
    try:
        mod = importlib.import_module("harness.%s" % prop.lower())
        mod.run(ctx)
    except Exception:
        tb = traceback.format_exc()
        ctx.broken.append(("harness-crash", prop, tb[-2500:]))
    sys.exit(ctx.finish())


if __name__ == "__main__":
    main()
