(* C20 -- exported, plotted and loaded data are exactly the computed / stored values (PARTIAL).
   Property theorems only; proofs are in proofs/ExportProofs.v, the model in model/Export.v.

   What is proved in full is virocon's own list logic: the path rule, the header built from the
   semantics, the closed polyline with swap_axis, which scatter data is drawn.  Clauses named
   `_partial` rest on an engine that is NOT modelled and enters as a contract:
     - np.savetxt: "header line, then one line per row, fields formatted by fmt and joined by the
       delimiter, every line newline-terminated" IS the model file_lines/file_text; printf's "%1.6f"
       rounding is the hypothesis printf_6f_rounding;
     - matplotlib: Line2D / PathCollection keep the arrays they are given (checked on every run by
       reading get_xydata() / get_offsets() back);
     - pandas: read_csv's tokenizer is the model `fields`; its number and time-stamp parsers are the
       hypotheses read_show_num / read_show_ts.
   The correspondence check compares the model with the real file bytes, artists and DataFrame. *)
From Coq Require Import List Bool Ascii String Arith Reals.
From V.model Require Import Export.
From V.proofs Require Import ExportProofs.
Import ListNotations.

(* ---- save_contour_coordinates *)

(* a path with an extension is used unchanged, one without gets ".txt" appended *)
Theorem C20_path_rule : forall p,
  (has_ext p = true -> out_path p = p) /\ (has_ext p = false -> out_path p = p ++ T ".txt").
Proof. exact (fun p => conj (out_path_ext p) (out_path_noext p)). Qed.

(* ... where "has an extension" means: the last path component is stem.ext with a stem that does not
   consist of dots only; a name without a dot, or ".name", has none *)
Theorem C20_extension_rule : forall pre stem e name,
  (pre = [] \/ exists q, pre = q ++ [slash]) ->
  (~ In slash stem -> ~ In slash e -> ~ In dot e -> (exists c, In c stem /\ c <> dot) ->
     has_ext (pre ++ stem ++ dot :: e) = true) /\
  (~ In slash stem -> ~ In slash e -> ~ In dot e -> (forall c, In c stem -> c = dot) ->
     has_ext (pre ++ stem ++ dot :: e) = false) /\
  (~ In slash name -> ~ In dot name -> has_ext (pre ++ name) = false).
Proof.
  exact (fun pre stem e name Hp =>
    conj (fun a b c d => has_ext_dot pre stem e Hp a b c d)
   (conj (fun a b c d => has_ext_dots_only pre stem e Hp a b c d)
         (fun a b => has_ext_nodot pre name Hp a b))).
Qed.

(* the header is built from the semantics: one "name (unit)" label per dimension, in dimension order *)
Theorem C20_header : forall names units n, (0 < n)%nat ->
  (forall d, (d < n)%nat -> ~ In semi (label (nth d names []) (nth d units []))) ->
  split semi (header names units n) = map (fun d => label (nth d names []) (nth d units [])) (seq 0 n).
Proof. exact header_fields. Qed.

(* one header line followed by one line per contour point, in order; the bytes of the file split at
   newlines are these lines; each row has one field per coordinate, the formatted coordinates in order.
   partial: np.savetxt's line building is the model (contract), validated against the file bytes *)
Theorem C20_file_lines_partial : forall V (fmt : V -> text) names units n coords,
  List.length (file_lines V fmt names units n coords) = S (List.length coords) /\
  nth_error (file_lines V fmt names units n coords) 0 = Some (header names units n) /\
  (forall i, nth_error (file_lines V fmt names units n coords) (S i) = option_map (row_line V fmt) (nth_error coords i)) /\
  (forall lines, Forall (fun l => ~ In newline l) lines -> split newline (file_text lines) = lines ++ [[]]) /\
  (forall row, row <> [] -> (forall v, ~ In semi (fmt v)) -> split semi (row_line V fmt row) = map fmt row).
Proof.
  exact (fun V fmt names units n coords =>
    conj (file_lines_length V fmt names units n coords)
   (conj (file_lines_header V fmt names units n coords)
   (conj (file_lines_row V fmt names units n coords)
   (conj file_text_lines (row_fields V fmt))))).
Qed.

(* the parsed values equal the coordinates to the written 6 decimals.
   partial: under the printf contract |parse("%1.6f" % v) - v| <= 5e-7 (engine, validated numerically) *)
Theorem C20_saved_values_partial : forall V (val : V -> R) (fmt : V -> text) (parse : text -> R),
  (forall v, (Rabs (parse (fmt v) - val v) <= 5 / 10000000)%R) -> (forall v, ~ In semi (fmt v)) ->
  forall row, row <> [] ->
  Forall2 (fun s v => (Rabs (parse s - val v) <= 5 / 10000000)%R) (split semi (row_line V fmt row)) row.
Proof. exact saved_values. Qed.

(* ---- plot_2D_contour *)

(* the line has n+1 points: point i is contour point i for every i < n (axes exchanged iff swap_axis),
   and the first point is repeated at the end *)
Theorem C20_polyline : forall V swap (p0 : V * V) tl,
  List.length (polyline V swap (p0 :: tl)) = S (List.length (p0 :: tl)) /\
  (forall i, (i < List.length (p0 :: tl))%nat ->
     nth_error (polyline V swap (p0 :: tl)) i = option_map (pproj V swap) (nth_error (p0 :: tl) i)) /\
  nth_error (polyline V swap (p0 :: tl)) (List.length (p0 :: tl)) = Some (pproj V swap p0) /\
  nth_error (polyline V swap (p0 :: tl)) 0 = Some (pproj V swap p0).
Proof.
  exact (fun V swap p0 tl =>
    conj (polyline_length_cons V swap p0 tl)
   (conj (polyline_point V swap (p0 :: tl)) (polyline_closing V swap p0 tl))).
Qed.

(* axes exchanged iff swap_axis *)
Theorem C20_swap_axis : forall V (p0 : V * V) tl coords (a b : V),
  polyline V false (p0 :: tl) = (p0 :: tl) ++ [p0] /\
  polyline V true coords = polyline V false (map (pproj V true) coords) /\
  pproj V true (a, b) = (b, a) /\ pproj V false (a, b) = (a, b).
Proof.
  exact (fun V p0 tl coords a b => conj (polyline_noswap V p0 tl) (conj (polyline_swap V coords) (conj eq_refl eq_refl))).
Qed.

(* sample and design conditions as supplied: every sample point in order (axes as for the line); no
   design conditions for None, the computed ones for True, a supplied array unchanged; drawing order *)
Theorem C20_scatter_data : forall V swap computed a (s : list (V * V)),
  (List.length (sample_scatter V swap s) = List.length s /\
   forall i, nth_error (sample_scatter V swap s) i = option_map (pproj V swap) (nth_error s i)) /\
  (dc_scatter V computed DcNone = None /\ dc_scatter V computed DcTrue = Some computed /\
   dc_scatter V computed (DcArray a) = Some a) /\
  (collections V swap computed (DcArray a) (Some s) = [a; sample_scatter V swap s] /\
   collections V swap computed DcTrue (Some s) = [computed; sample_scatter V swap s] /\
   collections V swap computed DcNone (Some s) = [sample_scatter V swap s] /\
   collections V swap computed (DcArray a) None = [a] /\
   collections V swap computed DcTrue None = [computed] /\
   collections V swap computed DcNone None = []).
Proof.
  exact (fun V swap computed a s =>
    conj (sample_scatter_spec V swap s) (conj (dc_scatter_spec V computed a) (collections_spec V swap computed a s))).
Qed.

(* ---- the other plot functions: pdf curves, dependence-function curves, per-interval estimates.
   partial: that each function hands exactly curve f xs / scatter_pairs xs ys to matplotlib is checked
   by the correspondence run (artists read back), not proved from the source *)
Theorem C20_curves_partial : forall V (f : V -> V) xs ys,
  (map fst (curve V f xs) = xs /\ map snd (curve V f xs) = map f xs /\ List.length (curve V f xs) = List.length xs) /\
  (List.length xs = List.length ys -> map fst (scatter_pairs V xs ys) = xs /\ map snd (scatter_pairs V xs ys) = ys).
Proof. exact (fun V f xs ys => conj (curve_spec V f xs) (scatter_pairs_spec V xs ys)). Qed.

(* ---- read_ec_benchmark_dataset: every data row, in order, with its time stamp as index.
   partial: pandas' leaf parsers are contracts (read . show = id for the writer of the file) *)
Theorem C20_reader_partial : forall TS N (read_ts : text -> TS) (read_num : text -> N) (show_ts : TS -> text) (show_num : N -> text),
  (forall t, read_ts (show_ts t) = t) -> (forall v, read_num (show_num v) = v) ->
  (forall t, clean (show_ts t)) -> (forall v, clean (show_num v)) ->
  forall hdr rows, hdr <> [] -> Forall clean hdr ->
  read_dataset TS N read_ts read_num (render TS N show_ts show_num hdr rows) = (tl hdr, rows).
Proof. exact read_render. Qed.

(* ---- audit round *)

(* write -> read round trip of the saved file: splitting the bytes at newlines and each line at ';' gives
   back the header labels and, row by row in order, exactly the formatted coordinates.
   partial: np.savetxt's line building is the model (contract) *)
Theorem C20_file_roundtrip_partial : forall V (fmt : V -> text) names units n coords,
  ~ In newline (header names units n) -> (forall v, ~ In newline (fmt v)) -> (forall v, ~ In semi (fmt v)) ->
  Forall (fun row => row <> []) coords ->
  parse_back (file_text (file_lines V fmt names units n coords)) =
  split semi (header names units n) :: map (map fmt) coords.
Proof. exact parse_back_file. Qed.

(* the reader's tokenizer ignores any number of blanks after the delimiter: files written with ";",
   "; " or ";   " as separator read the same.  partial: pandas' tokenizer is the model `fields` *)
Theorem C20_reader_separators_partial : forall k fs, fs <> [] -> Forall clean fs ->
  fields (join (semi :: repeat space k) fs) = fs.
Proof. exact fields_render_k. Qed.

(* non-vacuity: concrete paths, a concrete file, a concrete polyline, a concrete benchmark file
   (leaf parsers instantiated with the identity on text) *)
Example C20_nonvacuous :
  out_path (T "out/contour") = T "out/contour.txt" /\ out_path (T "out.d/c.csv") = T "out.d/c.csv" /\
  out_path (T "dir.x/.hidden") = T "dir.x/.hidden.txt" /\
  file_lines text (fun s => s) [T "Hs"; T "Tz"] [T "m"; T "s"] 2 [[T "1.000000"; T "2.500000"]; [T "3.000000"; T "4.000000"]]
    = [T "Hs (m);Tz (s)"; T "1.000000;2.500000"; T "3.000000;4.000000"] /\
  polyline nat true [(1, 2); (3, 4); (5, 6)] = [(2, 1); (4, 3); (6, 5); (2, 1)] /\
  read_dataset text text (fun s => s) (fun s => s)
    [T "time (YYYY-MM-DD-HH); significant wave height (m); zero-up-crossing period (s)"; T "1996-01-01-00; 0.2845; 4.7252"; T "1996-01-01-01;  0.2774;4.6210"]
    = ([T "significant wave height (m)"; T "zero-up-crossing period (s)"],
       [(T "1996-01-01-00", [T "0.2845"; T "4.7252"]); (T "1996-01-01-01", [T "0.2774"; T "4.6210"])]) /\
  parse_back (file_text (file_lines text (fun s => s) [T "Hs"; T "Tz"] [T "m"; T "s"] 2 [[T "1.000000"; T "2.500000"]; [T "3.000000"; T "4.000000"]]))
    = [[T "Hs (m)"; T "Tz (s)"]; [T "1.000000"; T "2.500000"]; [T "3.000000"; T "4.000000"]] /\
  fields (T "a;b;  c; d") = [T "a"; T "b"; T "c"; T "d"].
Proof. repeat split; vm_compute; reflexivity. Qed.


Print Assumptions C20_path_rule.
Print Assumptions C20_extension_rule.
Print Assumptions C20_header.
Print Assumptions C20_file_lines_partial.
Print Assumptions C20_saved_values_partial.
Print Assumptions C20_polyline.
Print Assumptions C20_swap_axis.
Print Assumptions C20_scatter_data.
Print Assumptions C20_curves_partial.
Print Assumptions C20_reader_partial.
Print Assumptions C20_file_roundtrip_partial.
Print Assumptions C20_reader_separators_partial.
