(* Lemmas for C19: frame property of the footprint semantics, histories (a model's cells change only when
   that model is fitted; arrays, templates, structure and slicers never), repeatability of deterministic
   evaluations, disjointness of the regions of models built from separate descriptions. *)
From Coq Require Import List Arith Lia Bool.
From V.model Require Import Heap.
Import ListNotations.

Lemma field_eqb_spec a b : field_eqb a b = true <-> a = b.
Proof.
  destruct a, b; cbn; split; intros H; try discriminate; try reflexivity;
    try (apply Nat.eqb_eq in H; subst; reflexivity);
    try (inversion H; subst; apply Nat.eqb_refl).
  - apply andb_true_iff in H. destruct H as [A B]. apply Nat.eqb_eq in A, B. subst. reflexivity.
  - inversion H; subst. rewrite !Nat.eqb_refl. reflexivity.
Qed.

Lemma cell_eqb_spec a b : cell_eqb a b = true <-> a = b.
Proof.
  destruct a, b; cbn; split; intros H; try discriminate; try reflexivity;
    try (apply Nat.eqb_eq in H; subst; reflexivity);
    try (inversion H; subst; apply Nat.eqb_refl).
  - apply andb_true_iff in H. destruct H as [A B]. apply Nat.eqb_eq in A. apply field_eqb_spec in B. subst. reflexivity.
  - inversion H; subst. rewrite Nat.eqb_refl. cbn. apply field_eqb_spec. reflexivity.
Qed.

Lemma mem_spec c l : mem c l = true <-> In c l.
Proof.
  unfold mem. rewrite existsb_exists. split.
  - intros [x [Hx E]]. apply cell_eqb_spec in E. subst. exact Hx.
  - intros H. exists c. split; auto. apply cell_eqb_spec. reflexivity.
Qed.

Lemma mem_false c l : ~ In c l -> mem c l = false.
Proof. intros H. destruct (mem c l) eqn:E; auto. apply mem_spec in E. contradiction. Qed.

Section Frames.
  Variable shape : nat -> list (option nat).
  Variable V : Type.
  Variable result : op -> list V -> V.
  Variable effect : nat -> op -> list V -> cell -> V.
  Notation step := (step shape V result effect).
  Notation run := (run shape V result effect).
  Notation wset := (wset shape).
  Notation rset := (rset shape).

  (* FRAME: an operation changes only its write set *)
  Lemma frame t o (h : heap V) c : ~ In c (wset t o) -> step t o h c = h c.
  Proof. intros H. unfold Heap.step. rewrite (mem_false _ _ H). reflexivity. Qed.

  Lemma run_unchanged : forall ops t (h : heap V) c,
    (forall i o, nth_error ops i = Some o -> ~ In c (wset (t + i) o)) -> run t ops h c = h c.
  Proof.
    induction ops as [|o ops IH]; intros t h c H; [reflexivity|]. cbn [Heap.run].
    rewrite IH.
    - apply frame. specialize (H 0 o eq_refl). rewrite Nat.add_0_r in H. exact H.
    - intros i o' Hi. replace (S t + i) with (t + S i) by lia. apply H. exact Hi.
  Qed.

  Lemma run_app : forall a b t (h : heap V), run t (a ++ b) h = run (t + length a) b (run t a h).
  Proof.
    induction a as [|o a IH]; intros b t h; cbn [app Heap.run length]; [rewrite Nat.add_0_r; reflexivity|].
    rewrite IH. f_equal. lia.
  Qed.

  (* ---- who writes what *)
  Lemma in_fit_writes k c : In c (fit_writes shape k) ->
    exists i, c = M k (DistParams i) \/ c = M k (PerInterval i) \/ exists p, c = M k (DepFun i p).
  Proof.
    unfold fit_writes. rewrite in_flat_map. intros [[i d] [_ H]]. cbn [fst snd] in H. exists i. destruct d as [m|].
    - destruct H as [H|H]; [right; left; auto|]. apply in_map_iff in H. destruct H as [p [E _]]. right; right. exists p. auto.
    - destruct H as [H|[]]. left. auto.
  Qed.

  (* a cell of model k is written only by fitting model k -- or, for the sample cache, by empirical_cdf on model k *)
  Lemma model_cell_writers t o k f : In (M k f) (wset t o) ->
    (exists d fd, o = Fit k d fd) \/ (f = SampleCache /\ exists args, o = Eval k EmpiricalCdf args).
  Proof.
    destruct o as [k' e args|c p args|k' d fd]; cbn [Heap.wset]; intros H.
    - right. destruct H as [H|H]; [discriminate|].
      apply in_app_or in H. destruct H as [H|H]; [destruct (may_use_rng e); [destruct H as [H|[]]; discriminate|contradiction]|].
      apply in_app_or in H. destruct H as [H|H]; [destruct (plots e); [destruct H as [H|[]]; discriminate|contradiction]|].
      destruct e; try contradiction. destruct H as [H|[]]. inversion H; subst. split; eauto.
    - destruct p; cbn in H; intuition discriminate.
    - left. apply in_app_or in H. destruct H as [H|H].
      + apply in_fit_writes in H. destruct H as [i [H|[H|[p H]]]]; inversion H; subst; eauto.
      + destruct fd; [destruct H as [H|[]]; discriminate|contradiction].
  Qed.

  Lemma fit_never_writes_fixed t k d fd k' f : In (M k' f) (wset t (Fit k d fd)) ->
    k' = k /\ (exists i, f = DistParams i \/ f = PerInterval i \/ exists p, f = DepFun i p).
  Proof.
    cbn [Heap.wset]. intros H. apply in_app_or in H. destruct H as [H|H].
    - apply in_fit_writes in H. destruct H as [i [H|[H|[p H]]]]; inversion H; subst; split; eauto.
    - destruct fd; [destruct H as [H|[]]; discriminate|contradiction].
  Qed.

  Lemma arr_never_written t o a : ~ In (Arr a) (wset t o).
  Proof.
    destruct o as [k e args|c p args|k d fd]; cbn [Heap.wset]; intros H.
    - destruct H as [H|H]; [discriminate|].
      apply in_app_or in H. destruct H as [H|H]; [destruct (may_use_rng e); [destruct H as [H|[]]; discriminate|contradiction]|].
      apply in_app_or in H. destruct H as [H|H]; [destruct (plots e); [destruct H as [H|[]]; discriminate|contradiction]|].
      destruct e; try contradiction. destruct H as [H|[]]. discriminate.
    - destruct p; cbn in H; intuition discriminate.
    - apply in_app_or in H. destruct H as [H|H].
      + apply in_fit_writes in H. destruct H as [i [H|[H|[p H]]]]; discriminate.
      + destruct fd; [destruct H as [H|[]]; discriminate|contradiction].
  Qed.

  (* result objects and files are written once, by the operation that creates them; module-level objects never;
     numpy's global random state only by the Monte-Carlo entry points; matplotlib's registry only by plotting *)
  Lemma side_cells t o c : In c (wset t o) ->
    match c with
    | Obj x => x = t
    | File x => exists args, o = OnContour x SaveContour args
    | Glob _ => False
    | Rng => exists k e args, o = Eval k e args /\ may_use_rng e = true
    | Figs => (exists k e args, o = Eval k e args /\ plots e = true) \/ (exists x args, o = OnContour x PlotContour args)
    | _ => True
    end.
  Proof.
    destruct o as [k e args|x p args|k d fd]; cbn [Heap.wset]; intros H.
    - destruct H as [H|H]; [subst c; reflexivity|].
      apply in_app_or in H. destruct H as [H|H].
      { destruct (may_use_rng e) eqn:E; [destruct H as [H|[]]; subst c; eauto|contradiction]. }
      apply in_app_or in H. destruct H as [H|H].
      { destruct (plots e) eqn:E; [destruct H as [H|[]]; subst c; left; eauto|contradiction]. }
      destruct e; try contradiction. destruct H as [H|[]]. subst c. exact I.
    - destruct p; cbn in H.
      + destruct H as [H|[]]. subst c. reflexivity.
      + destruct H as [H|[H|[]]]; subst c; [reflexivity|right; eauto].
      + destruct H as [H|[]]. subst c. eauto.
    - apply in_app_or in H. destruct H as [H|H].
      + apply in_fit_writes in H. destruct H as [i [H|[H|[p H]]]]; subst c; exact I.
      + destruct fd; [destruct H as [H|[]]; subst c; exact I|contradiction].
  Qed.

  (* a contour / result object is never changed after the operation that built it (nor a written file) *)
  Theorem objects_immutable : forall ops t (h : heap V) c, c < t -> run t ops h (Obj c) = h (Obj c).
  Proof. intros ops t h c Hc. apply run_unchanged; intros i o _ Hw; apply side_cells in Hw; cbn in Hw; lia. Qed.

  (* the file of contour c changes only when contour c is exported *)
  Theorem file_changes_only_at_save : forall ops t (h : heap V) c,
    (forall o args, In o ops -> o <> OnContour c SaveContour args) -> run t ops h (File c) = h (File c).
  Proof.
    intros ops t h c Hn. apply run_unchanged. intros i o Hi Hw. apply side_cells in Hw. destruct Hw as [args E].
    exact (Hn o args (nth_error_In _ _ Hi) E).
  Qed.

  (* an export OVERWRITES: what the file holds afterwards is a function of the contour and the arguments alone -- not of
     the previous content of the file, not of the position in the history; saving the same contour again to the same
     path therefore reproduces the file *)
  Theorem save_overwrites : forall c args t t' (h h' : heap V),
    (forall x, In x (rset (OnContour c SaveContour args)) -> h x = h' x) ->
    step t (OnContour c SaveContour args) h (File c) = step t' (OnContour c SaveContour args) h' (File c).
  Proof.
    intros c args t t' h h' E. unfold Heap.step.
    assert (M : forall t0, mem (File c) (wset t0 (OnContour c SaveContour args)) = true) by (intros; apply mem_spec; left; reflexivity).
    rewrite !M. assert (Ef : forall t0, cell_eqb (File c) (Obj t0) || is_file (File c) = true) by reflexivity.
    rewrite !Ef. f_equal. apply map_ext_in. exact E.
  Qed.

  Theorem globals_untouched : forall ops t (h : heap V) g, run t ops h (Glob g) = h (Glob g).
  Proof. intros. apply run_unchanged. intros i o _ Hw. apply side_cells in Hw. exact Hw. Qed.

  Theorem rng_untouched : forall ops t (h : heap V),
    (forall o k e args, In o ops -> o = Eval k e args -> may_use_rng e = false) -> run t ops h Rng = h Rng.
  Proof.
    intros ops t h Hn. apply run_unchanged. intros i o Hi Hw. apply side_cells in Hw.
    destruct Hw as [k [e [args [E R]]]]. rewrite (Hn o k e args (nth_error_In _ _ Hi) E) in R. discriminate.
  Qed.

  Theorem figs_untouched : forall ops t (h : heap V),
    (forall o k e args, In o ops -> o = Eval k e args -> plots e = false) ->
    (forall o x args, In o ops -> o <> OnContour x PlotContour args) -> run t ops h Figs = h Figs.
  Proof.
    intros ops t h Hn Hp. apply run_unchanged. intros i o Hi Hw. apply side_cells in Hw.
    pose proof (nth_error_In _ _ Hi) as Ho. destruct Hw as [[k [e [args [E R]]]]|[x [args E]]].
    - rewrite (Hn o k e args Ho E) in R. discriminate.
    - exact (Hp o x args Ho E).
  Qed.

  (* fitting writes inside the region of the model it fits (and the caller's fit_descriptions) *)
  Lemma fit_writes_in_region k c : In c (fit_writes shape k) -> In c (region shape k).
  Proof.
    unfold fit_writes, region. rewrite in_flat_map. intros [[i d] [Hid H]]. right. right.
    apply in_flat_map. exists (i, d). split; [exact Hid|]. cbn [fst snd] in *. unfold dim_cells. destruct d as [m|].
    - apply in_or_app. destruct H as [H|H]; [left; subst c; cbn; auto|right; exact H].
    - destruct H as [H|[]]. subst c. left. reflexivity.
  Qed.

  Theorem fit_footprint k d fd t c : In c (wset t (Fit k d fd)) -> In c (region shape k) \/ (exists a, fd = Some a /\ c = FitDesc a).
  Proof.
    cbn [Heap.wset]. intros H. apply in_app_or in H. destruct H as [H|H]; [left; apply fit_writes_in_region; exact H|].
    right. destruct fd as [a|]; [destruct H as [H|[]]; eauto|contradiction].
  Qed.

  Definition fits (k : nat) (o : op) : Prop := exists d fd, o = Fit k d fd.

  (* HISTORY: over any history, the parameters of model k (everything but the sample cache) change only when
     model k itself is fitted: evaluations, contours, plots, exports and fits of OTHER models leave them alone *)
  Theorem model_changes_only_at_own_fit : forall ops t (h : heap V) k f, f <> SampleCache ->
    (forall o, In o ops -> ~ fits k o) -> run t ops h (M k f) = h (M k f).
  Proof.
    intros ops t h k f Hf Hn. apply run_unchanged. intros i o Hi Hw.
    destruct (model_cell_writers _ _ _ _ Hw) as [[d [fd E]]|[E _]]; [|contradiction].
    apply (Hn o); [eapply nth_error_In; eauto|]. exists d, fd. exact E.
  Qed.

  (* ... the sample cache of a TransformedModel only by empirical_cdf / fit of that model *)
  Theorem cache_changes_only_at_own_ops : forall ops t (h : heap V) k,
    (forall o, In o ops -> ~ fits k o /\ (forall args, o <> Eval k EmpiricalCdf args)) ->
    run t ops h (M k SampleCache) = h (M k SampleCache).
  Proof.
    intros ops t h k Hn. apply run_unchanged. intros i o Hi Hw.
    assert (Ho : In o ops) by (eapply nth_error_In; eauto). destruct (Hn o Ho) as [A B].
    destruct (model_cell_writers _ _ _ _ Hw) as [[d [fd E]]|[_ [args E]]].
    - apply A. exists d, fd. exact E.
    - exact (B args E).
  Qed.

  (* the caller's arrays are never written, by any history *)
  Theorem arrays_untouched : forall ops t (h : heap V) a, run t ops h (Arr a) = h (Arr a).
  Proof. intros. apply run_unchanged. intros i o _. apply arr_never_written. Qed.

  (* the template of a conditional distribution, the structure and the slicers survive every history, fits included *)
  Theorem fixed_cells_untouched : forall ops t (h : heap V) k f,
    (f = Struct \/ (exists i, f = Template i) \/ (exists i, f = Slicer i)) -> run t ops h (M k f) = h (M k f).
  Proof.
    intros ops t h k f Hf. apply run_unchanged. intros i o _ Hw.
    destruct (model_cell_writers _ _ _ _ Hw) as [[d [fd E]]|[E _]].
    - subst o. destruct (fit_never_writes_fixed _ _ _ _ _ _ Hw) as [_ [j [E|[E|[p E]]]]];
        destruct Hf as [F|[[j' F]|[j' F]]]; congruence.
    - destruct Hf as [F|[[j' F]|[j' F]]]; congruence.
  Qed.

  (* ---- regions *)
  Lemma in_region k c : In c (region shape k) -> exists f, c = M k f.
  Proof.
    unfold region. intros [H|[H|H]]; [eauto|eauto|]. apply in_flat_map in H. destruct H as [[i d] [_ H]].
    unfold dim_cells in H. cbn [fst snd] in H. destruct d as [m|].
    - apply in_app_or in H. destruct H as [H|H].
      + destruct H as [H|[H|[H|[]]]]; eauto.
      + apply in_map_iff in H. destruct H as [p [E _]]. eauto.
    - destruct H as [H|[H|[]]]; eauto.
  Qed.

  (* models built from separate descriptions share no cell *)
  Theorem regions_disjoint k k' c : In c (region shape k) -> In c (region shape k') -> k = k'.
  Proof. intros H H'. apply in_region in H, H'. destruct H as [f E], H' as [f' E']. congruence. Qed.

  (* fitting one model never changes another *)
  Theorem fit_leaves_other_models k k' d fd t (h : heap V) c : k <> k' -> In c (region shape k') ->
    step t (Fit k d fd) h c = h c.
  Proof.
    intros Hk Hc. apply frame. intros Hw. apply in_region in Hc. destruct Hc as [f E]. subst c.
    destruct (fit_never_writes_fixed _ _ _ _ _ _ Hw) as [E _]. congruence.
  Qed.

  (* ---- repeatability *)
  Lemma written_false : forall ops t cs, written shape t ops cs = false ->
    forall c, In c cs -> forall i o, nth_error ops i = Some o -> ~ In c (wset (t + i) o).
  Proof.
    induction ops as [|o ops IH]; intros t cs H c Hc i o' Hi; [destruct i; discriminate|].
    cbn [written] in H. apply orb_false_iff in H. destruct H as [H1 H2]. destruct i as [|i].
    - inversion Hi; subst o'. rewrite Nat.add_0_r. intros Hw.
      assert (E : existsb (fun c0 => mem c0 (wset t o)) cs = true).
      { apply existsb_exists. exists c. split; auto. apply mem_spec. exact Hw. }
      congruence.
    - replace (t + S i) with (S t + i) by lia. apply (IH (S t) cs H2 c Hc i o' Hi).
  Qed.

  Lemma firstn_split : forall (A : Type) i d (l : list A), firstn (i + d) l = firstn i l ++ firstn d (skipn i l).
  Proof. induction i as [|i IH]; intros d l; [reflexivity|]. destruct l as [|x l]; cbn; [now rewrite firstn_nil|]. now rewrite IH. Qed.

  Lemma nth_firstn : forall (A : Type) d m (l : list A), m < d -> nth_error (firstn d l) m = nth_error l m.
  Proof. induction d as [|d IH]; intros m l H; [lia|]. destruct l as [|x l]; [destruct m; reflexivity|].
    destruct m as [|m]; [reflexivity|]. cbn. apply IH. lia. Qed.
  Lemma nth_skipn : forall (A : Type) i m (l : list A), nth_error (skipn i l) m = nth_error l (i + m).
  Proof. induction i as [|i IH]; intros m l; [reflexivity|]. destruct l as [|x l]; [destruct m; reflexivity|]. cbn. apply IH. Qed.

  Definition heap_before (ops : list op) (h : heap V) (m : nat) : heap V := run 0 (firstn m ops) h.

  (* what a deterministic operation reads is the same before its repetition as before its first occurrence,
     whenever the executable test `same_result_guaranteed` says so; hence it computes the same object *)
  Theorem repeatable : forall ops (h : heap V) i j a, same_result_guaranteed shape ops i j = true ->
    nth_error ops i = Some a ->
    map (heap_before ops h j) (rset a) = map (heap_before ops h i) (rset a) /\
    result a (map (heap_before ops h j) (rset a)) = result a (map (heap_before ops h i) (rset a)).
  Proof.
    intros ops h i j a G Ha. unfold same_result_guaranteed in G. rewrite Ha in G.
    apply andb_true_iff in G. destruct G as [G G3]. apply andb_true_iff in G. destruct G as [_ G2].
    apply Nat.ltb_lt in G2. apply negb_true_iff in G3.
    assert (E : map (heap_before ops h j) (rset a) = map (heap_before ops h i) (rset a)).
    { apply map_ext_in. intros c Hc. unfold heap_before.
      replace j with (i + (j - i)) at 1 by lia. rewrite firstn_split, run_app.
      assert (Li : length (firstn i ops) = i).
      { apply firstn_length_le. apply Nat.lt_le_incl. apply nth_error_Some. congruence. }
      rewrite Li. cbn [Nat.add]. apply run_unchanged. intros m o Hm.
      apply (written_false _ _ _ G3 c Hc m o Hm). }
    split; [exact E|]. rewrite E. reflexivity.
  Qed.

  (* unseeded Monte-Carlo operations: reproducible through np.random.seed -- if the global generator holds the same value
     before both occurrences and nothing else the operation reads was written in between, it computes the same object *)
  Theorem repeatable_if_reseeded : forall ops (h : heap V) i j a, same_result_if_reseeded shape ops i j = true ->
    nth_error ops i = Some a -> heap_before ops h j Rng = heap_before ops h i Rng ->
    result a (map (heap_before ops h j) (rset a)) = result a (map (heap_before ops h i) (rset a)).
  Proof.
    intros ops h i j a G Ha Hr. unfold same_result_if_reseeded in G. rewrite Ha in G.
    apply andb_true_iff in G. destruct G as [G G3]. apply andb_true_iff in G. destruct G as [_ G2].
    apply Nat.ltb_lt in G2. apply negb_true_iff in G3.
    f_equal. apply map_ext_in. intros c Hc. destruct (is_rng c) eqn:Er; [destruct c; try discriminate; exact Hr|].
    unfold heap_before. replace j with (i + (j - i)) at 1 by lia. rewrite firstn_split, run_app.
    assert (Li : length (firstn i ops) = i).
    { apply firstn_length_le. apply Nat.lt_le_incl. apply nth_error_Some. congruence. }
    rewrite Li. cbn [Nat.add]. apply run_unchanged. intros m o Hm.
    apply (written_false _ _ _ G3 c); [|exact Hm]. apply filter_In. split; [exact Hc|]. rewrite Er. reflexivity.
  Qed.

  (* ... and they DO advance the global generator: it is in their write set (the only operations that write it) *)
  Lemma unseeded_writes_rng t k e args : may_use_rng e = true -> In Rng (wset t (Eval k e args)).
  Proof. intros H. cbn [Heap.wset]. right. apply in_or_app. left. rewrite H. left. reflexivity. Qed.

  (* and the object it returns is the same object (as a value) *)
  Definition returns (o : op) : bool :=
    match o with Eval _ _ _ => true | OnContour _ SaveContour _ => false | OnContour _ _ _ => true | Fit _ _ _ => false end.

  Lemma returns_obj t o : returns o = true -> mem (Obj t) (wset t o) = true.
  Proof.
    intros H. apply mem_spec. destruct o as [k e args|c p args|k d fd]; cbn in *; [left; reflexivity| |discriminate].
    destruct p; cbn; try discriminate; left; reflexivity.
  Qed.

  Theorem repeated_evaluation_equal : forall ops (h : heap V) i j a, same_result_guaranteed shape ops i j = true ->
    nth_error ops i = Some a -> returns a = true ->
    step j a (heap_before ops h j) (Obj j) = step i a (heap_before ops h i) (Obj i).
  Proof.
    intros ops h i j a G Ha R. unfold Heap.step. rewrite !(returns_obj _ _ R).
    assert (Ei : cell_eqb (Obj i) (Obj i) = true) by (apply cell_eqb_spec; reflexivity).
    assert (Ej : cell_eqb (Obj j) (Obj j) = true) by (apply cell_eqb_spec; reflexivity).
    rewrite Ei, Ej. cbn [orb]. apply (repeatable ops h i j a G Ha).
  Qed.

  (* the semantic reading of the executable test: between two evaluations of model k nothing fits k
     (and no earlier result object it reads is overwritten -- result objects are written once) *)
  Lemma eval_guaranteed_if_no_fit : forall ops i j k e args,
    nth_error ops i = Some (Eval k e args) -> may_use_rng e = false -> i < j ->
    (forall m o, i <= m < j -> nth_error ops m = Some o -> ~ fits k o /\ (forall a, o <> Eval k EmpiricalCdf a)) ->
    same_result_guaranteed shape ops i j = true.
  Proof.
    intros ops i j k e args Ha Hr Hij Hn. unfold same_result_guaranteed. rewrite Ha. cbn [deterministic]. rewrite Hr. cbn [negb andb].
    assert (L : (i <? j) = true) by (apply Nat.ltb_lt; exact Hij). rewrite L. cbn [andb]. apply negb_true_iff.
    destruct (written shape i (firstn (j - i) (skipn i ops)) (rset (Eval k e args))) eqn:W; [exfalso|reflexivity].
    assert (Ex : forall l t cs, written shape t l cs = true -> exists m o c, nth_error l m = Some o /\ In c cs /\ In c (wset (t + m) o)).
    { induction l as [|o l IH]; intros t cs Hw; [discriminate|]. cbn [written] in Hw. apply orb_true_iff in Hw. destruct Hw as [Hw|Hw].
      - apply existsb_exists in Hw. destruct Hw as [c [Hc Hm]]. apply mem_spec in Hm. exists 0, o, c. rewrite Nat.add_0_r. auto.
      - destruct (IH _ _ Hw) as [m [o' [c [A [B C]]]]]. exists (S m), o', c. replace (t + S m) with (S t + m) by lia. auto. }
    destruct (Ex _ _ _ W) as [m [o [c [A [B C]]]]].
    assert (Hm : m < j - i).
    { assert (m < length (firstn (j - i) (skipn i ops))) by (apply nth_error_Some; congruence).
      rewrite firstn_length in H. lia. }
    assert (A' : nth_error ops (i + m) = Some o).
    { rewrite nth_firstn in A by exact Hm. rewrite nth_skipn in A. exact A. }
    destruct (Hn (i + m) o) as [N1 N2]; [lia|exact A'|].
    cbn [Heap.rset] in B. rewrite Hr in B. rewrite app_nil_r in B. apply in_app_or in B. destruct B as [B|B].
    - apply in_region in B. destruct B as [f E]. subst c.
      destruct (model_cell_writers _ _ _ _ C) as [[d [fd E]]|[_ [a E]]].
      + apply N1. exists d, fd. exact E.
      + exact (N2 a E).
    - apply in_map_iff in B. destruct B as [a [E _]]. subst c. exact (arr_never_written _ _ _ C).
  Qed.
End Frames.
