(* Monotonicity of the binary64 operations, through Flocq: every non-NaN float has an extended-real
   value (finite real, +inf, -inf); x + y, x - y, x * y of finite operands are the CLAMPED rounding of
   the exact result; rounding and clamping are monotone.  Used by proofs/ArangeOrder.v to show that the
   edge vectors of the interval slicers are non-decreasing for every input. *)
From Coq Require Import Reals PrimFloat FloatOps ZArith Lia Lra Bool SpecFloat Psatz.
From Flocq Require Import Core BinarySingleNaN PrimFloat.
From V.proofs Require Import FloatOrder.
Local Open Scope R_scope.

Local Instance Hprec : FLX.Prec_gt_0 prec := eq_refl _.
Local Instance Hmax : Prec_lt_emax prec emax := eq_refl _.
Notation fexp := (SpecFloat.fexp prec emax).
Local Instance Hfexp : Valid_exp fexp := fexp_correct prec emax Hprec.
Notation rnd := (round radix2 fexp (round_mode mode_NE)).
Notation M := (bpow radix2 emax).

Inductive val := Fin (r : R) | PInf | NInf.

Definition vle (a b : val) : Prop :=
  match a, b with
  | NInf, _ => True
  | _, PInf => True
  | Fin x, Fin y => x <= y
  | _, _ => False
  end.

Lemma vle_refl a : vle a a.
Proof. destruct a; simpl; auto; lra. Qed.
Lemma vle_trans a b c : vle a b -> vle b c -> vle a c.
Proof. destruct a, b, c; simpl; intros; auto; try lra; try contradiction. Qed.

(* value of a non-NaN float *)
Definition V (x : B) : option val :=
  match x with
  | B754_nan => None
  | B754_infinity false => Some PInf
  | B754_infinity true => Some NInf
  | _ => Some (Fin (B2R x))
  end.

Lemma V_fin (x : B) : is_finite x = true -> V x = Some (Fin (B2R x)).
Proof. destruct x as [s|s| |s m e H]; try discriminate; reflexivity. Qed.

Lemma V_Fin_inv (x : B) r : V x = Some (Fin r) -> r = B2R x /\ is_finite x = true.
Proof. destruct x as [s|[|]| |s m e H]; simpl; intros E; try discriminate E; inversion E; auto. Qed.

Lemma V_some_not_nan (x : B) v : V x = Some v -> is_nan x = false.
Proof. destruct x as [s|s| |s m e H]; try discriminate; reflexivity. Qed.

Lemma Bleb_V (x y : B) vx vy : V x = Some vx -> V y = Some vy -> (Bleb x y = true <-> vle vx vy).
Proof.
  intros Hx Hy.
  destruct x as [sx|sx| |sx mx ex Hmx], y as [sy|sy| |sy my ey Hmy]; try discriminate Hx; try discriminate Hy;
    try destruct sx; try destruct sy; simpl in Hx, Hy; inversion Hx; inversion Hy; subst; clear Hx Hy;
    try (simpl; split; auto; fail);
    try (split; [intros E; try discriminate E; simpl; auto | intros E; simpl in E; try contradiction; reflexivity]; fail);
    try (rewrite Bleb_fin by reflexivity; unfold vle; split; [intros E; revert E; case Rle_bool_spec; intros; [assumption|discriminate] | intros E; apply Rle_bool_true; exact E]).
Qed.

(* clamping an exactly rounded result into the float range *)
Definition clamp (r : R) : val :=
  if Rlt_bool (Rabs r) M then Fin r else if Rlt_bool 0 r then PInf else NInf.

Lemma M_pos : 0 < M.
Proof. apply bpow_gt_0. Qed.

Lemma clamp_mono r1 r2 : r1 <= r2 -> vle (clamp r1) (clamp r2).
Proof.
  intros H. unfold clamp. pose proof M_pos as HM.
  case (Rlt_bool_spec (Rabs r1) M); intros H1; case (Rlt_bool_spec (Rabs r2) M); intros H2; simpl.
  - exact H.
  - case (Rlt_bool_spec 0 r2); intros H3; simpl; auto.
    apply Rabs_lt_inv in H1. unfold Rabs in H2. destruct (Rcase_abs r2); lra.
  - case (Rlt_bool_spec 0 r1); intros H3; simpl; auto.
    apply Rabs_lt_inv in H2. unfold Rabs in H1. destruct (Rcase_abs r1); lra.
  - case (Rlt_bool_spec 0 r1); intros H3; case (Rlt_bool_spec 0 r2); intros H4; simpl; auto. lra.
Qed.

Lemma clamp_cases r : (Rabs r < M /\ clamp r = Fin r) \/ (M <= r /\ clamp r = PInf) \/ (r <= - M /\ clamp r = NInf).
Proof.
  unfold clamp. pose proof M_pos as HM. case (Rlt_bool_spec (Rabs r) M); intros H1; [left; auto|right].
  case (Rlt_bool_spec 0 r); intros H2; [left|right]; split; auto; unfold Rabs in H1; destruct (Rcase_abs r); lra.
Qed.

Lemma clamp_fin r : Rabs r < M -> clamp r = Fin r.
Proof. intros H. unfold clamp. now rewrite Rlt_bool_true. Qed.

Lemma rnd_le x y : x <= y -> rnd x <= rnd y.
Proof. apply round_le; auto with typeclass_instances. Qed.

Lemma rnd_0 : rnd 0 = 0.
Proof. apply round_0; auto with typeclass_instances. Qed.

Lemma rnd_B2R (x : B) : rnd (B2R x) = B2R x.
Proof. apply round_generic; auto with typeclass_instances. apply generic_format_B2R. Qed.

Lemma abs_B2R_lt (x : B) : Rabs (B2R x) < M.
Proof. apply abs_B2R_lt_emax. Qed.

Lemma clamp_B2R (x : B) : clamp (B2R x) = Fin (B2R x).
Proof. apply clamp_fin, abs_B2R_lt. Qed.

(* sign and value of a finite float *)
Lemma Bsign_true_le0 (x : B) : is_finite x = true -> Bsign x = true -> B2R x <= 0.
Proof.
  destruct x as [s|s| |s m e H]; try discriminate; simpl; intros _ E; [lra|].
  subst s. apply Rlt_le, F2R_lt_0. simpl. lia.
Qed.
Lemma Bsign_false_ge0 (x : B) : is_finite x = true -> Bsign x = false -> 0 <= B2R x.
Proof.
  destruct x as [s|s| |s m e H]; try discriminate; simpl; intros _ E; [lra|].
  subst s. apply Rlt_le, F2R_gt_0. simpl. lia.
Qed.

Lemma SF_inf_eq (z : B) s : B2SF z = S754_infinity s -> z = B754_infinity s.
Proof. destruct z as [s'|s'| |s' m e H]; simpl; intros E; try discriminate; now inversion E. Qed.

(* ---------------------------------------------------------------- addition *)
Lemma Vplus_fin (a b : B) : is_finite a = true -> is_finite b = true ->
  V (Bplus mode_NE a b) = Some (clamp (rnd (B2R a + B2R b))).
Proof.
  intros Fa Fb. generalize (Bplus_correct prec emax Hprec Hmax mode_NE a b Fa Fb).
  unfold clamp. case Rlt_bool_spec; intros Hov.
  - intros [E [F _]]. rewrite V_fin by exact F. now rewrite E.
  - intros [E S]. unfold binary_overflow in E. simpl overflow_to_inf in E. cbv iota in E.
    apply SF_inf_eq in E. rewrite E. pose proof M_pos.
    destruct (Bsign a) eqn:Sa.
    + assert (rnd (B2R a + B2R b) <= 0).
      { rewrite <- rnd_0. apply rnd_le. pose proof (Bsign_true_le0 a Fa Sa). pose proof (Bsign_true_le0 b Fb (eq_sym S)). lra. }
      rewrite Rlt_bool_false by lra. reflexivity.
    + assert (0 <= rnd (B2R a + B2R b)).
      { rewrite <- rnd_0. apply rnd_le. pose proof (Bsign_false_ge0 a Fa Sa). pose proof (Bsign_false_ge0 b Fb (eq_sym S)). lra. }
      rewrite Rlt_bool_true; [reflexivity|]. rewrite Rabs_pos_eq in Hov by assumption. lra.
Qed.

(* a finite, b any non-NaN value *)
Definition vplus (a : R) (vb : val) : val :=
  match vb with Fin rb => clamp (rnd (a + rb)) | PInf => PInf | NInf => NInf end.

Lemma Vplus (a b : B) vb : is_finite a = true -> V b = Some vb -> V (Bplus mode_NE a b) = Some (vplus (B2R a) vb).
Proof.
  intros Fa Hb.
  destruct b as [sb|sb| |sb mb eb Hmb]; try discriminate Hb.
  - rewrite Vplus_fin by (assumption || reflexivity). inversion Hb. reflexivity.
  - destruct a as [sa|sa| |sa ma ea Hma]; try discriminate Fa; destruct sb; inversion Hb; reflexivity.
  - rewrite Vplus_fin by (assumption || reflexivity). inversion Hb. reflexivity.
Qed.

Lemma vplus_mono a v1 v2 : vle v1 v2 -> vle (vplus a v1) (vplus a v2).
Proof.
  destruct v1, v2; simpl; intros H; auto; try contradiction.
  - apply clamp_mono, rnd_le. lra.
  - destruct (clamp _); simpl; auto.
Qed.

(* b + a with b any non-NaN value (commuted form used for "x + width") *)
Lemma Vplus_l (a b : B) vb : is_finite a = true -> V b = Some vb -> V (Bplus mode_NE b a) = Some (vplus (B2R a) vb).
Proof.
  intros Fa Hb.
  destruct b as [sb|sb| |sb mb eb Hmb]; try discriminate Hb.
  - rewrite Vplus_fin by (assumption || reflexivity). inversion Hb. simpl. now rewrite Rplus_comm.
  - destruct a as [sa|sa| |sa ma ea Hma]; try discriminate Fa; destruct sb; inversion Hb; reflexivity.
  - rewrite Vplus_fin by (assumption || reflexivity). inversion Hb. simpl. now rewrite Rplus_comm.
Qed.

(* ---------------------------------------------------------------- subtraction  b - a *)
Lemma Vminus_fin (b a : B) : is_finite a = true -> is_finite b = true ->
  V (Bminus mode_NE b a) = Some (clamp (rnd (B2R b - B2R a))).
Proof.
  intros Fa Fb. generalize (Bminus_correct prec emax Hprec Hmax mode_NE b a Fb Fa).
  unfold clamp. case Rlt_bool_spec; intros Hov.
  - intros [E [F _]]. rewrite V_fin by exact F. now rewrite E.
  - intros [E S]. unfold binary_overflow in E. simpl overflow_to_inf in E. cbv iota in E.
    apply SF_inf_eq in E. rewrite E. pose proof M_pos.
    destruct (Bsign b) eqn:Sb.
    + assert (rnd (B2R b - B2R a) <= 0).
      { rewrite <- rnd_0. apply rnd_le. pose proof (Bsign_true_le0 b Fb Sb).
        assert (Bsign a = false) by (destruct (Bsign a); [discriminate S|reflexivity]).
        pose proof (Bsign_false_ge0 a Fa H1). lra. }
      rewrite Rlt_bool_false by lra. reflexivity.
    + assert (0 <= rnd (B2R b - B2R a)).
      { rewrite <- rnd_0. apply rnd_le. pose proof (Bsign_false_ge0 b Fb Sb).
        assert (Bsign a = true) by (destruct (Bsign a); [reflexivity|discriminate S]).
        pose proof (Bsign_true_le0 a Fa H1). lra. }
      rewrite Rlt_bool_true; [reflexivity|]. rewrite Rabs_pos_eq in Hov by assumption. lra.
Qed.

Definition vminus (vb : val) (a : R) : val :=
  match vb with Fin rb => clamp (rnd (rb - a)) | PInf => PInf | NInf => NInf end.

Lemma Vminus (b a : B) vb : is_finite a = true -> V b = Some vb -> V (Bminus mode_NE b a) = Some (vminus vb (B2R a)).
Proof.
  intros Fa Hb.
  destruct b as [sb|sb| |sb mb eb Hmb]; try discriminate Hb.
  - rewrite Vminus_fin by (assumption || reflexivity). inversion Hb. reflexivity.
  - destruct a as [sa|sa| |sa ma ea Hma]; try discriminate Fa; destruct sb; inversion Hb; reflexivity.
  - rewrite Vminus_fin by (assumption || reflexivity). inversion Hb. reflexivity.
Qed.

(* ---------------------------------------------------------------- multiplication *)
Lemma Vmult_fin (x d : B) : is_finite x = true -> is_finite d = true ->
  V (Bmult mode_NE x d) = Some (clamp (rnd (B2R x * B2R d))).
Proof.
  intros Fx Fd. generalize (Bmult_correct prec emax Hprec Hmax mode_NE x d).
  unfold clamp. case Rlt_bool_spec; intros Hov.
  - intros [E [F _]]. rewrite Fx, Fd in F. rewrite V_fin by exact F. now rewrite E.
  - intros E. unfold binary_overflow in E. simpl overflow_to_inf in E. cbv iota in E.
    apply SF_inf_eq in E. rewrite E. pose proof M_pos.
    destruct (Bsign x) eqn:Sx, (Bsign d) eqn:Sd; simpl xorb.
    + assert (0 <= rnd (B2R x * B2R d)).
      { rewrite <- rnd_0. apply rnd_le. pose proof (Bsign_true_le0 x Fx Sx). pose proof (Bsign_true_le0 d Fd Sd). nra. }
      rewrite Rlt_bool_true; [reflexivity|]. rewrite Rabs_pos_eq in Hov by assumption. lra.
    + assert (rnd (B2R x * B2R d) <= 0).
      { rewrite <- rnd_0. apply rnd_le. pose proof (Bsign_true_le0 x Fx Sx). pose proof (Bsign_false_ge0 d Fd Sd). nra. }
      rewrite Rlt_bool_false by lra. reflexivity.
    + assert (rnd (B2R x * B2R d) <= 0).
      { rewrite <- rnd_0. apply rnd_le. pose proof (Bsign_false_ge0 x Fx Sx). pose proof (Bsign_true_le0 d Fd Sd). nra. }
      rewrite Rlt_bool_false by lra. reflexivity.
    + assert (0 <= rnd (B2R x * B2R d)).
      { rewrite <- rnd_0. apply rnd_le. pose proof (Bsign_false_ge0 x Fx Sx). pose proof (Bsign_false_ge0 d Fd Sd). nra. }
      rewrite Rlt_bool_true; [reflexivity|]. rewrite Rabs_pos_eq in Hov by assumption. lra.
Qed.

(* x finite and strictly positive, d any non-NaN value *)
Definition vmult (x : R) (vd : val) : val :=
  match vd with Fin rd => clamp (rnd (x * rd)) | PInf => PInf | NInf => NInf end.

Lemma Vmult (x d : B) vd : is_finite x = true -> 0 < B2R x -> V d = Some vd -> V (Bmult mode_NE x d) = Some (vmult (B2R x) vd).
Proof.
  intros Fx Px Hd.
  destruct d as [sd|sd| |sd md ed Hmd]; try discriminate Hd.
  - rewrite Vmult_fin by (assumption || reflexivity). inversion Hd. reflexivity.
  - destruct x as [sx|sx| |sx mx ex Hmx]; try discriminate Fx.
    + simpl in Px. lra.
    + assert (sx = false).
      { destruct sx; [|reflexivity]. exfalso. assert (B2R (B754_finite true mx ex Hmx) < 0) by (apply F2R_lt_0; simpl; lia). lra. }
      subst sx. destruct sd; inversion Hd; reflexivity.
  - rewrite Vmult_fin by (assumption || reflexivity). inversion Hd. reflexivity.
Qed.

Lemma vmult_mono_l x1 x2 vd : 0 <= x1 <= x2 -> vle (Fin 0) vd -> vle (vmult x1 vd) (vmult x2 vd).
Proof.
  intros Hx. destruct vd; simpl; intros H; auto; try contradiction.
  apply clamp_mono, rnd_le. nra.
Qed.

(* ---------------------------------------------------------------- transfer to primitive floats *)
Definition VP (x : PrimFloat.float) : option val := V (Prim2B x).

Lemma fleb_VP x y vx vy : VP x = Some vx -> VP y = Some vy -> (PrimFloat.leb x y = true <-> vle vx vy).
Proof. unfold VP. rewrite leb_equiv. apply Bleb_V. Qed.

Definition pfin (x : PrimFloat.float) : Prop := is_finite (Prim2B x) = true.
Definition pR (x : PrimFloat.float) : R := B2R (Prim2B x).

Lemma VP_fin x : pfin x -> VP x = Some (Fin (pR x)).
Proof. apply V_fin. Qed.

Lemma VP_add a b vb : pfin a -> VP b = Some vb -> VP (a + b)%float = Some (vplus (pR a) vb).
Proof. unfold VP, pfin, pR. rewrite add_equiv. apply Vplus. Qed.
Lemma VP_add_l a b vb : pfin a -> VP b = Some vb -> VP (b + a)%float = Some (vplus (pR a) vb).
Proof. unfold VP, pfin, pR. rewrite add_equiv. apply Vplus_l. Qed.
Lemma VP_sub b a vb : pfin a -> VP b = Some vb -> VP (b - a)%float = Some (vminus vb (pR a)).
Proof. unfold VP, pfin, pR. rewrite sub_equiv. apply Vminus. Qed.
Lemma VP_mul x d vd : pfin x -> 0 < pR x -> VP d = Some vd -> VP (x * d)%float = Some (vmult (pR x) vd).
Proof. unfold VP, pfin, pR. rewrite mul_equiv. apply Vmult. Qed.

(* ---------------------------------------------------------------- division by a non-zero finite float *)
Lemma Vdiv_fin (x y : B) : is_finite x = true -> is_finite y = true -> B2R y <> 0 ->
  V (Bdiv mode_NE x y) = Some (clamp (rnd (B2R x / B2R y))).
Proof.
  intros Fx Fy Ny. generalize (Bdiv_correct prec emax Hprec Hmax mode_NE x y Ny).
  unfold clamp. case Rlt_bool_spec; intros Hov.
  - intros [E [F _]]. rewrite Fx in F. rewrite V_fin by exact F. now rewrite E.
  - intros E. unfold binary_overflow in E. simpl overflow_to_inf in E. cbv iota in E.
    apply SF_inf_eq in E. rewrite E. pose proof M_pos.
    unfold Rdiv in *. set (iy := / B2R y) in *.
    assert (Hiy : (Bsign y = true -> iy < 0) /\ (Bsign y = false -> 0 < iy)).
    { split; intros Sy.
      - pose proof (Bsign_true_le0 y Fy Sy). apply Rinv_lt_0_compat. lra.
      - pose proof (Bsign_false_ge0 y Fy Sy). apply Rinv_0_lt_compat. lra. }
    destruct Hiy as [Hn Hp].
    destruct (Bsign x) eqn:Sx, (Bsign y) eqn:Sy; simpl xorb.
    + assert (0 <= rnd (B2R x * iy)).
      { rewrite <- rnd_0. apply rnd_le. pose proof (Bsign_true_le0 x Fx Sx). specialize (Hn eq_refl). nra. }
      rewrite Rlt_bool_true; [reflexivity|]. rewrite Rabs_pos_eq in Hov by assumption. lra.
    + assert (rnd (B2R x * iy) <= 0).
      { rewrite <- rnd_0. apply rnd_le. pose proof (Bsign_true_le0 x Fx Sx). specialize (Hp eq_refl). nra. }
      rewrite Rlt_bool_false by lra. reflexivity.
    + assert (rnd (B2R x * iy) <= 0).
      { rewrite <- rnd_0. apply rnd_le. pose proof (Bsign_false_ge0 x Fx Sx). specialize (Hn eq_refl). nra. }
      rewrite Rlt_bool_false by lra. reflexivity.
    + assert (0 <= rnd (B2R x * iy)).
      { rewrite <- rnd_0. apply rnd_le. pose proof (Bsign_false_ge0 x Fx Sx). specialize (Hp eq_refl). nra. }
      rewrite Rlt_bool_true; [reflexivity|]. rewrite Rabs_pos_eq in Hov by assumption. lra.
Qed.

Lemma VP_mul_fin x d : pfin x -> pfin d -> VP (x * d)%float = Some (clamp (rnd (pR x * pR d))).
Proof. unfold VP, pfin, pR. rewrite mul_equiv. apply Vmult_fin. Qed.
Lemma VP_div_fin x y : pfin x -> pfin y -> pR y <> 0 -> VP (x / y)%float = Some (clamp (rnd (pR x / pR y))).
Proof. unfold VP, pfin, pR. rewrite div_equiv. apply Vdiv_fin. Qed.

(* a float whose value is a finite real is finite *)
Lemma VP_Fin_pfin x r : VP x = Some (Fin r) -> pfin x /\ pR x = r.
Proof. unfold VP, pfin, pR. intros H. destruct (V_Fin_inv _ _ H) as [E F]. auto. Qed.
