#!/usr/bin/env python3
"""seed_all.py [ids...] -- run every seeded change under seeded/ against the check of its property (quick tier, scratch worktree)
and write seeded/RESULTS.md + seeded/results.json (which checks catch which changes)."""
import json, os, subprocess, sys, time
V = os.path.dirname(os.path.dirname(os.path.abspath(__file__)))
WRITE_ONLY = "--write-only" in sys.argv   # only regenerate RESULTS.md from results.json (after parallel lanes were merged)
ids = [a for a in sys.argv[1:] if not a.startswith("--")] or sorted(d for d in os.listdir(os.path.join(V, "seeded")) if os.path.isdir(os.path.join(V, "seeded", d)))
res_path = os.path.join(V, "seeded", "results.json")
res = json.load(open(res_path)) if os.path.exists(res_path) else {}
for sid in ([] if WRITE_ONLY else ids):
    meta = json.load(open(os.path.join(V, "seeded", sid, "meta.json")))
    t0 = time.time()
    r = subprocess.run([sys.executable, os.path.join(V, "tools", "seedtest.py"), sid], capture_output=True, text=True, cwd=V,
                       env=dict(os.environ, VERIF_NO_COQCHK="1"))
    lines = [l for l in r.stdout.splitlines() if not l.startswith("WARNING")]
    det = any("DETECTED" in l for l in lines)
    concrete = det and not any("no-failing-input-found" in l for l in lines)
    what = [l.strip()[6:] for l in lines if l.strip().startswith("what:")][:1]
    res[sid] = {"property": meta["property"], "needs": meta["needs"], "detected": det, "concrete_failing_input": concrete,
                "first_report": (what[0][:220] if what else ""), "seconds": round(time.time() - t0)}
    print(sid, "DETECTED" if det else "MISSED", "(concrete input)" if concrete else "", flush=True)
    json.dump(res, open(res_path, "w"), indent=1)
with open(os.path.join(V, "seeded", "RESULTS.md"), "w") as f:
    f.write("# Seeded changes and the checks that catch them\n\nEach change was produced by an independent sub-agent that saw only the property text and a scratch worktree, "
            "and was confirmed (demo passes on the unchanged tree, fails with the change, the test suite passes with it) before being stored here.\n"
            "`tools/seed_all.py` re-runs `./check.sh <property> quick` against a scratch worktree with the change applied.\n\n"
            "| seeded change | property | needs, in order to manifest | caught by ./check.sh <property> quick | first report |\n|---|---|---|---|---|\n")
    for sid in sorted(res):
        r = res[sid]
        f.write("| %s | %s | %s | %s | %s |\n" % (sid, r["property"], r["needs"].replace("|", "/"),
                ("yes, concrete failing input" if r["concrete_failing_input"] else "yes (broken proof/correspondence, no-failing-input-found)") if r["detected"] else "**NO**",
                r["first_report"].replace("|", "/")))
print("detected %d / %d" % (sum(1 for r in res.values() if r["detected"]), len(res)))
