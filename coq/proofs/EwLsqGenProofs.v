(* C13: the array code of ExponentiatedWeibullDistribution._estimate_alpha_beta, REGENERATED from the source on every run
   (coq/gen/EwLsqGen.v), computes exactly the hand model `alpha_beta` (model/EwLsq.v) on the linearised observations
   (w_i, p*_i, x*_i) of the non-zero data -- so the optimality / scale-invariance theorems are theorems about the current code. *)
From Coq Require Import Reals List Lra Lia.
From V.base Require Import Num.
From V.model Require Import EwLsq.
From V.gen Require Import EwLsqGen.
Import ListNotations.
Local Open Scope R_scope.
Notation RN := ROps.

Definition nzb (t : R) : bool := negb (n_leb RN t (n_Z RN 0) && n_leb RN (n_Z RN 0) t).
Definition pstar (delta p : R) : R :=
  n_log10 RN (n_opp RN (n_log RN (n_sub RN (n_Z RN 1) (n_rpow RN p (n_div RN (n_Z RN 1) delta))))).
Definition xstar (x : R) : R := n_log10 RN x.
(* the kept rows (x_i, (p_i, w_i)) and the observations handed to the regression *)
Definition kept (x p w : list R) : list (R * (R * R)) := filter (fun t => nzb (fst t)) (combine x (combine p w)).
Definition obs_list (delta : R) (x p w : list R) : list (@obs R) :=
  map (fun t => (snd (snd t), pstar delta (fst (snd t)), xstar (fst t))) (kept x p w).

Lemma vnonzero_x : forall x p w : list R, length p = length x -> length w = length x ->
  vnonzero RN x x = map fst (kept x p w) /\ vnonzero RN x p = map (fun t => fst (snd t)) (kept x p w) /\
  vnonzero RN x w = map (fun t => snd (snd t)) (kept x p w).
Proof.
  unfold vnonzero, kept. induction x as [|a x IH]; intros [|b p] [|c w] Hp Hw; try discriminate; [repeat split|].
  cbn [combine filter fst snd]. cbn [length] in Hp, Hw. destruct (IH p w) as [A [B C]]; [lia|lia|].
  unfold nzb. destruct (negb (n_leb RN a (n_Z RN 0) && n_leb RN (n_Z RN 0) a)); cbn [map fst snd]; rewrite ?A, ?B, ?C; repeat split; reflexivity.
Qed.

Lemma vmap2_map {A} (f : R -> R -> R) (a b : A -> R) (K : list A) :
  vmap2 f (map a K) (map b K) = map (fun k => f (a k) (b k)) K.
Proof. unfold vmap2. induction K as [|k K IH]; [reflexivity|]. cbn [map combine fst snd]. rewrite IH. reflexivity. Qed.

Lemma vsum_sum (l : list R) : vsum RN l = sum RN l.
Proof. unfold vsum, sum, zero. induction l as [|a l IH]; [reflexivity|]. cbn [fold_right]. rewrite IH. reflexivity. Qed.

Theorem ew_generated_is_model delta (x p w : list R) : length p = length x -> length w = length x ->
  ew_estimate_alpha_beta RN delta x p w = alpha_beta RN (obs_list delta x p w).
Proof.
  intros Hp Hw. destruct (vnonzero_x x p w Hp Hw) as [A [B C]].
  unfold ew_estimate_alpha_beta. cbv zeta. rewrite A, B, C.
  unfold alpha_beta, estimate, est_code, normalise, obs_list.
  set (K := kept x p w).
  rewrite !map_map. cbn [W P X fst snd].
  rewrite !vsum_sum.
  (* bring every vector expression into the form map (fun k => ...) K *)
  repeat rewrite map_map.
  repeat match goal with
         | |- context [vmap2 ?f (map ?a K) (map ?b K)] => rewrite (vmap2_map f a b K)
         end.
  reflexivity.
Qed.

From V.proofs Require Import EwLsqProofs.
(* the code's result IS the optimal weighted regression line of the linearised quantile relation *)
Theorem ew_generated_optimal delta (x p w : list R) : length p = length x -> length w = length x ->
  let l := obs_list delta x p w in
  l <> [] -> Forall (fun o => 0 < @W R o) l -> 0 < Dg l ->
  exists a_hat b_hat, ew_estimate_alpha_beta RN delta x p w = (Rpower 10 a_hat, 1 / b_hat) /\
                      a_hat = ahat l /\ b_hat = bhat l /\ forall a b, SSE a_hat b_hat l <= SSE a b l.
Proof.
  intros Hp Hw l Hne Hpos HD. rewrite (ew_generated_is_model delta x p w Hp Hw). fold l. rewrite alpha_beta_spec.
  pose proof (S1_pos l Hne Hpos) as H1.
  pose proof (estimate_is_general l) as G. pose proof (fun a b => estimate_optimal l a b Hne Hpos HD) as O.
  destruct (estimate RN l) as [[[ah bh] dd] dv]. destruct G as [A [B C]]; [lra|lra|].
  exists ah, bh. split; [rewrite C; reflexivity|]. split; [exact A|]. split; [exact B|]. intros a b. apply (O a b).
Qed.
