(* Row-major index algebra (ravel / unravel / enumeration of multi-indices), numpy broadcasting of
   equal-rank arrays, and the cell-averaged joint pdf of model/Hdc.v: the entry at EVERY multi-index
   is the product of the per-dimension CDF differences (C02, last clause), any number of dimensions. *)
From Coq Require Import List Bool Arith Lia.
From V.model Require Import Hdc.
Import ListNotations.

(* ------------------------------------------------------------------ index algebra *)
Lemma in_shape_length sh idx : in_shape sh idx -> length idx = length sh.
Proof. unfold in_shape. intros H. induction H; simpl; auto. Qed.

Lemma prod_pos : forall sh idx, in_shape sh idx -> 0 < prod sh.
Proof.
  unfold in_shape. intros sh idx H. induction H; simpl; [lia|]. unfold prod in *. simpl. nia.
Qed.

Lemma ravel_lt : forall sh idx, in_shape sh idx -> ravel sh idx < prod sh.
Proof.
  unfold in_shape. intros sh idx H. induction H as [|i n idx sh Hi H IH]; simpl; [lia|].
  change (fold_right Nat.mul 1 sh) with (prod sh). nia.
Qed.

Lemma unravel_in_shape : forall sh k, k < prod sh -> in_shape sh (unravel sh k).
Proof.
  unfold in_shape. induction sh as [|n sh IH]; intros k Hk; simpl; [constructor|].
  simpl in Hk. change (fold_right Nat.mul 1 sh) with (prod sh) in Hk.
  assert (P : prod sh <> 0) by (intro E; rewrite E in Hk; lia).
  constructor.
  - apply Nat.div_lt_upper_bound; auto. lia.
  - apply IH. apply Nat.mod_upper_bound. exact P.
Qed.

Lemma ravel_unravel : forall sh k, k < prod sh -> ravel sh (unravel sh k) = k.
Proof.
  induction sh as [|n sh IH]; intros k Hk; simpl in *; [lia|].
  change (fold_right Nat.mul 1 sh) with (prod sh) in *.
  assert (P : prod sh <> 0) by (intro E; rewrite E in Hk; lia).
  rewrite IH by (apply Nat.mod_upper_bound; exact P).
  pose proof (Nat.div_mod k (prod sh) P). lia.
Qed.

Lemma unravel_ravel : forall sh idx, in_shape sh idx -> unravel sh (ravel sh idx) = idx.
Proof.
  unfold in_shape. intros sh idx H. induction H as [|i n idx sh Hi H IH]; simpl; [reflexivity|].
  change (fold_right Nat.mul 1 sh) with (prod sh).
  pose proof (ravel_lt sh idx H) as Hr. assert (P : prod sh <> 0) by lia.
  rewrite Nat.div_add_l by exact P. rewrite (Nat.div_small _ _ Hr).
  rewrite Nat.add_comm with (n := i * prod sh). rewrite Nat.mod_add by exact P. rewrite (Nat.mod_small _ _ Hr).
  rewrite IH. f_equal. lia.
Qed.

Lemma nth_flat_map_uniform {A B} (f : A -> list B) (P : nat) (d : B) (a0 : A) : forall l i r,
  (forall a, In a l -> length (f a) = P) -> i < length l -> r < P ->
  nth (i * P + r) (flat_map f l) d = nth r (f (nth i l a0)) d.
Proof.
  induction l as [|x l IH]; intros i r HP Hi Hr; simpl in *; [lia|].
  destruct i as [|i].
  - simpl. rewrite app_nth1; auto. rewrite HP; auto.
  - rewrite app_nth2 by (rewrite HP; auto; simpl; lia).
    rewrite HP by auto. replace (S i * P + r - P) with (i * P + r) by (simpl; lia).
    apply IH; auto. lia.
Qed.

Lemma flat_map_length_uniform {A B} (f : A -> list B) (P : nat) : forall l,
  (forall a, In a l -> length (f a) = P) -> length (flat_map f l) = length l * P.
Proof.
  induction l as [|x l IH]; intros HP; simpl; auto. rewrite app_length. rewrite HP by (left; reflexivity).
  rewrite IH; auto. intros; apply HP; right; auto.
Qed.

Lemma all_idx_length : forall sh, length (all_idx sh) = prod sh.
Proof.
  induction sh as [|n sh IH]; simpl; auto. change (fold_right Nat.mul 1 sh) with (prod sh).
  rewrite (flat_map_length_uniform _ (prod sh)).
  - rewrite seq_length. reflexivity.
  - intros a _. rewrite map_length. exact IH.
Qed.

Lemma all_idx_nth : forall sh idx d, in_shape sh idx -> nth (ravel sh idx) (all_idx sh) d = idx.
Proof.
  unfold in_shape. intros sh idx d H. induction H as [|i n idx sh Hi H IH]; simpl; [reflexivity|].
  change (fold_right Nat.mul 1 sh) with (prod sh).
  rewrite (nth_flat_map_uniform _ (prod sh) d 0).
  - rewrite seq_nth by exact Hi. simpl.
    rewrite (nth_indep _ d (i :: d)) by (rewrite map_length, all_idx_length; apply ravel_lt; exact H).
    rewrite (map_nth (cons i)). rewrite IH. reflexivity.
  - intros a _. rewrite map_length. apply all_idx_length.
  - rewrite seq_length. exact Hi.
  - apply ravel_lt. exact H.
Qed.

Lemma all_idx_in : forall sh idx, In idx (all_idx sh) <-> in_shape sh idx.
Proof.
  unfold in_shape. induction sh as [|n sh IH]; intros idx; simpl.
  - split; [intros [<-|[]]; constructor|intros H; inversion H; auto].
  - rewrite in_flat_map. split.
    + intros [i [Hi Hin]]. apply in_map_iff in Hin. destruct Hin as [r [<- Hr]].
      apply in_seq in Hi. constructor; [lia|]. apply IH. exact Hr.
    + intros H. inversion H; subst. exists x. split; [apply in_seq; lia|].
      apply in_map. apply IH. assumption.
Qed.

Lemma all_idx_nodup : forall sh, NoDup (all_idx sh).
Proof.
  intros sh. apply (proj2 (NoDup_nth (all_idx sh) [])). intros i j Hi Hj E.
  rewrite all_idx_length in Hi, Hj.
  rewrite <- (ravel_unravel sh i Hi) in E. rewrite <- (ravel_unravel sh j Hj) in E.
  rewrite !all_idx_nth in E by (apply unravel_in_shape; assumption).
  rewrite <- (ravel_unravel sh i Hi), <- (ravel_unravel sh j Hj), E. reflexivity.
Qed.

(* the flat enumeration IS unravel of the flat position *)
Lemma all_idx_unravel : forall sh k d, k < prod sh -> nth k (all_idx sh) d = unravel sh k.
Proof. intros sh k d Hk. rewrite <- (ravel_unravel sh k Hk) at 1. apply all_idx_nth. apply unravel_in_shape. exact Hk. Qed.

(* ------------------------------------------------------------------ broadcasting *)
Lemma clip_length sh idx : length idx = length sh -> length (clip sh idx) = length sh.
Proof. intros H. unfold clip. rewrite map_length, combine_length. lia. Qed.

Lemma clip_in_shape : forall sh idx, length idx = length sh -> Forall (fun n => 0 < n) sh ->
  (forall j, j < length sh -> nth j sh 0 = 1 \/ nth j idx 0 < nth j sh 0) -> in_shape sh (clip sh idx).
Proof.
  unfold in_shape, clip. induction sh as [|n sh IH]; intros idx Hl Hp H; destruct idx as [|i idx]; simpl in *; try lia; [constructor|].
  inversion Hp; subst. constructor.
  - destruct (n =? 1) eqn:E; [lia|]. apply Nat.eqb_neq in E. destruct (H 0) as [H0|H0]; simpl in *; lia.
  - apply IH; auto. intros j Hj. apply (H (S j)). lia.
Qed.

Lemma clip_id : forall sh idx, length idx = length sh ->
  (forall j, j < length sh -> nth j sh 0 = 1 -> nth j idx 0 = 0) -> clip sh idx = idx.
Proof.
  unfold clip. induction sh as [|n sh IH]; intros idx Hl H; destruct idx as [|i idx]; simpl in *; try lia; auto.
  f_equal.
  - destruct (n =? 1) eqn:E; auto. apply Nat.eqb_eq in E. symmetry. apply (H 0); simpl; lia.
  - apply IH; auto. intros j Hj. apply (H (S j)). lia.
Qed.

Lemma clip_clip : forall sa so idx, length sa = length so -> length idx = length so ->
  (forall j, j < length so -> nth j so 0 = 1 -> nth j sa 0 = 1) -> clip sa (clip so idx) = clip sa idx.
Proof.
  unfold clip. induction sa as [|a sa IH]; intros so idx H1 H2 H; destruct so as [|o so]; destruct idx as [|i idx]; simpl in *; try lia; auto.
  f_equal.
  - destruct (a =? 1) eqn:Ea; auto. destruct (o =? 1) eqn:Eo; auto.
    apply Nat.eqb_eq in Eo. apply Nat.eqb_neq in Ea. exfalso. apply Ea. apply (H 0); simpl; lia.
  - apply IH; auto. intros j Hj. apply (H (S j)). lia.
Qed.

Lemma bshape_length s1 s2 : length s1 = length s2 -> length (bshape s1 s2) = length s1.
Proof. intros H. unfold bshape. rewrite map_length, combine_length. lia. Qed.

Lemma bshape_nth : forall s1 s2 j, length s1 = length s2 -> nth j (bshape s1 s2) 0 = Nat.max (nth j s1 0) (nth j s2 0).
Proof.
  unfold bshape. induction s1 as [|a s1 IH]; intros s2 j H; destruct s2 as [|b s2]; simpl in H; try lia.
  - destruct j; reflexivity.
  - destruct j; [reflexivity|]. cbn [nth combine map]. rewrite IH by lia. reflexivity.
Qed.

Section Bmul.
  Variable T : Type.
  Variable mul : T -> T -> T.
  Variable d0 : T.

  (* shapes that numpy can broadcast against the full grid shape N: every axis is 1 or N_j *)
  Definition compat (N sh : list nat) : Prop :=
    length sh = length N /\ forall j, j < length N -> nth j sh 0 = 1 \/ nth j sh 0 = nth j N 0.

  Lemma compat_bshape N s1 s2 : compat N s1 -> compat N s2 -> compat N (bshape s1 s2).
  Proof.
    intros [L1 H1] [L2 H2]. split; [rewrite bshape_length; lia|].
    intros j Hj. rewrite bshape_nth by lia. destruct (H1 j Hj), (H2 j Hj); lia.
  Qed.

  (* reading a broadcast array: the value at idx is the product of the operands' values at idx *)
  Lemma aget_bmul N (a b : arr T) idx : Forall (fun n => 0 < n) N ->
    compat N (a_shape a) -> compat N (a_shape b) -> in_shape N idx ->
    aget d0 (bmul mul d0 a b) idx = mul (aget d0 a idx) (aget d0 b idx).
  Proof.
    intros HN Ca Cb Hidx. pose proof (compat_bshape _ _ _ Ca Cb) as Co.
    destruct Ca as [La Ha], Cb as [Lb Hb], Co as [Lo Ho].
    pose proof (in_shape_length _ _ Hidx) as Li.
    unfold bmul. set (so := bshape (a_shape a) (a_shape b)) in *. unfold aget at 1. simpl a_shape. simpl a_data.
    assert (Hin : in_shape so (clip so idx)).
    { apply clip_in_shape; [lia| |].
      - rewrite Forall_forall. intros n Hn. destruct (In_nth _ _ 0 Hn) as [j [Hj <-]].
        rewrite Lo in Hj. destruct (Ho j Hj) as [E|E]; rewrite E; [lia|].
        rewrite Forall_forall in HN. apply HN. apply nth_In. exact Hj.
      - intros j Hj. rewrite Lo in Hj. destruct (Ho j Hj) as [E|E]; [left; exact E|right]. rewrite E.
        clear -Hidx Hj. unfold in_shape in Hidx. revert j Hj. induction Hidx; intros j Hj; simpl in *; [lia|].
        destruct j; [assumption|]. apply IHHidx. lia. }
    rewrite (nth_indep _ d0 (mul (aget d0 a []) (aget d0 b [])))
      by (rewrite map_length, all_idx_length; apply ravel_lt; exact Hin).
    rewrite (map_nth (fun i => mul (aget d0 a i) (aget d0 b i))). rewrite all_idx_nth by exact Hin.
    unfold aget. f_equal; f_equal; f_equal; apply clip_clip; try lia.
    - intros j Hj E. subst so. rewrite bshape_nth in E by lia. rewrite Lo in Hj.
      assert (0 < nth j N 0) by (rewrite Forall_forall in HN; apply HN, nth_In, Hj).
      destruct (Ha j Hj), (Hb j Hj); lia.
    - intros j Hj E. subst so. rewrite bshape_nth in E by lia. rewrite Lo in Hj.
      assert (0 < nth j N 0) by (rewrite Forall_forall in HN; apply HN, nth_In, Hj).
      destruct (Ha j Hj), (Hb j Hj); lia.
  Qed.
End Bmul.

(* ------------------------------------------------------------------ shapes with at most two axes longer than 1 *)
Definition clipv (n i : nat) : nat := if n =? 1 then 0 else i.

Lemma ravel_ones : forall sh idx, length idx = length sh -> (forall j, j < length sh -> nth j sh 0 = 1) ->
  ravel sh (clip sh idx) = 0 /\ prod sh = 1.
Proof.
  unfold clip. induction sh as [|n sh IH]; intros idx Hl H; destruct idx as [|i idx]; simpl in *; try lia; auto.
  change (fold_right Nat.mul 1 sh) with (prod sh).
  assert (E : n = 1) by (apply (H 0); lia). subst n. simpl.
  destruct (IH idx) as [A B]; [lia|intros j Hj; apply (H (S j)); lia|]. rewrite A, B. lia.
Qed.

Lemma ravel_one : forall sh idx d, length idx = length sh -> d < length sh ->
  (forall j, j < length sh -> j <> d -> nth j sh 0 = 1) ->
  ravel sh (clip sh idx) = clipv (nth d sh 0) (nth d idx 0) /\ prod sh = nth d sh 0.
Proof.
  unfold clip. induction sh as [|n sh IH]; intros idx d Hl Hd H; destruct idx as [|i idx]; simpl in *; try lia.
  change (fold_right Nat.mul 1 sh) with (prod sh).
  destruct d as [|d].
  - destruct (ravel_ones sh idx) as [A B]; [lia|intros j Hj; apply (H (S j)); lia|].
    unfold clip in A. rewrite A, B. unfold clipv. split; lia.
  - assert (E : n = 1) by (apply (H 0); lia). subst n. simpl.
    destruct (IH idx d) as [A B]; [lia|lia|intros j Hj Hn; apply (H (S j)); lia|]. rewrite A, B. split; lia.
Qed.

Lemma ravel_two : forall sh idx c d, length idx = length sh -> c < d -> d < length sh ->
  (forall j, j < length sh -> j <> c -> j <> d -> nth j sh 0 = 1) ->
  ravel sh (clip sh idx) = clipv (nth c sh 0) (nth c idx 0) * nth d sh 0 + clipv (nth d sh 0) (nth d idx 0).
Proof.
  unfold clip. induction sh as [|n sh IH]; intros idx c d Hl Hc Hd H; destruct idx as [|i idx]; simpl in *; try lia.
  change (fold_right Nat.mul 1 sh) with (prod sh).
  destruct d as [|d]; [lia|]. destruct c as [|c].
  - destruct (ravel_one sh idx d) as [A B]; [lia|lia|intros j Hj Hn; apply (H (S j)); lia|].
    unfold clip in A. rewrite A, B. unfold clipv. reflexivity.
  - assert (E : n = 1) by (apply (H 0); lia). subst n. simpl.
    rewrite (IH idx c d); try lia. intros j Hj H1 H2. apply (H (S j)); lia.
Qed.

Lemma nth_map_lt {A B} (f : A -> B) : forall l i d d', i < length l -> nth i (map f l) d = f (nth i l d').
Proof. induction l as [|x l IH]; intros i d d' H; simpl in *; [lia|]. destruct i; auto. apply IH. lia. Qed.

Lemma set_nth_length {A} k (v : A) l : length (set_nth k v l) = length l.
Proof. unfold set_nth. rewrite map_length, combine_length, seq_length. lia. Qed.

Lemma set_nth_nth {A} k (v : A) l j d : j < length l -> nth j (set_nth k v l) d = if j =? k then v else nth j l d.
Proof.
  intros Hj. unfold set_nth.
  rewrite (nth_map_lt _ _ j d (0, d)) by (rewrite combine_length, seq_length; lia).
  rewrite combine_nth by (rewrite seq_length; reflexivity).
  rewrite seq_nth by exact Hj. reflexivity.
Qed.

Lemma nth_map2 {A B C} (f : A -> B -> C) : forall l m i da db dc, i < length l -> i < length m ->
  nth i (map2 f l m) dc = f (nth i l da) (nth i m db).
Proof.
  induction l as [|x l IH]; intros m i da db dc Hl Hm; destruct m as [|y m]; simpl in *; try lia.
  destruct i; auto. apply IH; lia.
Qed.
Lemma map2_length {A B C} (f : A -> B -> C) : forall l m, length l = length m -> length (map2 f l m) = length l.
Proof. induction l as [|x l IH]; intros m H; destruct m; simpl in *; try lia. rewrite IH; lia. Qed.

Lemma in_shape_nth : forall sh idx j, in_shape sh idx -> j < length sh -> nth j idx 0 < nth j sh 0.
Proof.
  unfold in_shape. intros sh idx j H. revert j. induction H; intros j Hj; simpl in *; [lia|].
  destruct j; auto. apply IHForall2. lia.
Qed.

(* ------------------------------------------------------------------ cell averaged pdfs *)
Section Joint.
  Variable T : Type.
  Variables zero one half : T.
  Variables add sub mul div : T -> T -> T.
  Variable cdfv : nat -> option T -> list T -> list T.
  (* oracle contract: a vectorised cdf call is the pointwise cdf (one value of `given` per call) *)
  Variable cdf1 : nat -> option T -> T -> T.
  Hypothesis cdfv_pointwise : forall d g xs, cdfv d g xs = map (cdf1 d g) xs.

  Notation capdf := (cell_averaged_pdf T zero half add sub mul div cdfv).
  Notation upper := (upper_of T zero half add sub mul).
  Notation lower := (lower_of T zero half sub mul).
  Notation dxof := (dx_of T zero sub).
  Notation joint := (cell_averaged_joint_pdf T zero one half add sub mul div cdfv).

  Variable cond : list (option nat).
  Variable coords : list (list T).
  Let n := length coords.
  Let N := map (@length T) coords.
  Hypothesis axes_nonempty : Forall (fun c => 0 < length c) coords.
  (* the hierarchy: a variable is conditional only on an EARLIER variable *)
  Hypothesis cond_earlier : forall d ci, nth d cond None = Some ci -> ci < d.

  Definition coord (d : nat) (idx : list nat) : T := nth (nth d idx 0) (nth d coords []) zero.
  Definition given_of (d : nat) (idx : list nat) : option T :=
    match nth d cond None with None => None | Some ci => Some (coord ci idx) end.
  (* (F(x + dx/2 | given) - F(x - dx/2 | given)) / dx for dimension d at the cell idx *)
  Definition factor (d : nat) (idx : list nat) : T :=
    let c := nth d coords [] in
    let dx := dxof c in
    div (sub (cdf1 d (given_of d idx) (add (coord d idx) (mul half dx)))
             (cdf1 d (given_of d idx) (sub (coord d idx) (mul half dx)))) dx.

  Lemma N_length : length N = n.
  Proof. unfold N, n. apply map_length. Qed.
  Lemma N_nth d : d < n -> nth d N 0 = length (nth d coords []).
  Proof. intros H. unfold N. rewrite (nth_indep _ 0 (length (@nil T))) by (rewrite map_length; exact H). apply map_nth. Qed.
  Lemma N_pos : Forall (fun k => 0 < k) N.
  Proof. unfold N. rewrite Forall_forall in *. intros k Hk. apply in_map_iff in Hk. destruct Hk as [c [<- Hc]]. auto. Qed.

  Lemma row_nth d g c i : i < length c ->
    nth i (map2 sub (cdfv d g (upper c)) (cdfv d g (lower c))) zero
    = sub (cdf1 d g (add (nth i c zero) (mul half (dxof c))))
          (cdf1 d g (sub (nth i c zero) (mul half (dxof c)))).
  Proof.
    intros Hi. rewrite !cdfv_pointwise. unfold upper_of, lower_of.
    rewrite (nth_map2 sub _ _ i zero zero) by (rewrite !map_length; exact Hi).
    rewrite !(nth_map_lt _ _ i zero zero) by (rewrite ?map_length; exact Hi). reflexivity.
  Qed.
  Lemma row_length d g c :
    length (map2 sub (cdfv d g (upper c)) (cdfv d g (lower c))) = length c.
  Proof. rewrite !cdfv_pointwise. unfold upper_of, lower_of. rewrite map2_length; rewrite !map_length; reflexivity. Qed.

  Lemma ones_nth k j : j < k -> nth j (repeat 1 k) 0 = 1.
  Proof. intros H. rewrite (nth_indep _ 0 1) by (rewrite repeat_length; exact H). apply nth_repeat. Qed.

  Lemma clipv_lt k i : i < k -> clipv k i = i.
  Proof. unfold clipv. destruct (k =? 1) eqn:E; auto. apply Nat.eqb_eq in E. lia. Qed.

  Lemma capdf_spec d idx : d < n -> in_shape N idx ->
    compat N (a_shape (capdf cond coords d)) /\ nth d (a_shape (capdf cond coords d)) 0 = nth d N 0 /\
    aget zero (capdf cond coords d) idx = factor d idx.
  Proof.
    intros Hd Hidx. pose proof (in_shape_length _ _ Hidx) as Li. rewrite N_length in Li.
    pose proof (in_shape_nth _ _ d Hidx) as Hid. rewrite N_length, (N_nth d Hd) in Hid. specialize (Hid Hd).
    unfold cell_averaged_pdf, factor, given_of. fold n. destruct (nth d cond None) as [ci|] eqn:Ec.
    - pose proof (cond_earlier _ _ Ec) as Hci. assert (Hcin : ci < n) by lia.
      pose proof (in_shape_nth _ _ ci Hidx) as Hic. rewrite N_length, (N_nth ci Hcin) in Hic. specialize (Hic Hcin).
      set (c := nth d coords []) in *. set (cc := nth ci coords []) in *.
      set (sh := set_nth ci (length cc) (set_nth d (length c) (repeat 1 n))).
      assert (Lsh : length sh = n) by (unfold sh; rewrite !set_nth_length, repeat_length; reflexivity).
      assert (Hsh : forall j, j < n -> nth j sh 0 = if j =? ci then length cc else if j =? d then length c else 1).
      { intros j Hj. unfold sh. rewrite set_nth_nth by (rewrite set_nth_length, repeat_length; exact Hj).
        rewrite set_nth_nth by (rewrite repeat_length; exact Hj). rewrite ones_nth by exact Hj. reflexivity. }
      split; [|split].
      + split; [simpl; rewrite Lsh, N_length; reflexivity|]. intros j Hj. rewrite N_length in Hj. simpl a_shape.
        rewrite (Hsh j Hj). destruct (j =? ci) eqn:E1; [apply Nat.eqb_eq in E1; subst j; right; rewrite N_nth by lia; reflexivity|].
        destruct (j =? d) eqn:E2; [apply Nat.eqb_eq in E2; subst j; right; rewrite N_nth by lia; reflexivity|]. left. reflexivity.
      + simpl a_shape. rewrite (Hsh d Hd). replace (d =? ci) with false by (symmetry; apply Nat.eqb_neq; lia).
        rewrite Nat.eqb_refl. rewrite N_nth by lia. reflexivity.
      + unfold aget. simpl a_shape. simpl a_data.
        rewrite (ravel_two sh idx ci d); try lia.
        2:{ intros j Hj H1 H2. rewrite Lsh in Hj. rewrite (Hsh j Hj).
            replace (j =? ci) with false by (symmetry; apply Nat.eqb_neq; lia).
            replace (j =? d) with false by (symmetry; apply Nat.eqb_neq; lia). reflexivity. }
        rewrite (Hsh ci Hcin), (Hsh d Hd). rewrite Nat.eqb_refl.
        replace (d =? ci) with false by (symmetry; apply Nat.eqb_neq; lia). rewrite Nat.eqb_refl.
        rewrite !clipv_lt by assumption.
        assert (Hlen : length (flat_map (fun g => map2 sub (cdfv d (Some g) (upper c)) (cdfv d (Some g) (lower c))) cc) = length cc * length c).
        { apply flat_map_length_uniform. intros a _. apply row_length. }
        rewrite (nth_map_lt _ _ _ zero zero) by (rewrite Hlen; nia).
        rewrite (nth_flat_map_uniform _ (length c) zero zero); [|intros a _; apply row_length|exact Hic|exact Hid].
        rewrite row_nth by exact Hid. reflexivity.
    - set (c := nth d coords []) in *.
      set (sh := set_nth d (length c) (repeat 1 n)).
      assert (Lsh : length sh = n) by (unfold sh; rewrite !set_nth_length, repeat_length; reflexivity).
      assert (Hsh : forall j, j < n -> nth j sh 0 = if j =? d then length c else 1).
      { intros j Hj. unfold sh. rewrite set_nth_nth by (rewrite repeat_length; exact Hj). rewrite ones_nth by exact Hj. reflexivity. }
      split; [|split].
      + split; [simpl; rewrite Lsh, N_length; reflexivity|]. intros j Hj. rewrite N_length in Hj. simpl a_shape.
        rewrite (Hsh j Hj). destruct (j =? d) eqn:E2; [apply Nat.eqb_eq in E2; subst j; right; rewrite N_nth by lia; reflexivity|]. left. reflexivity.
      + simpl a_shape. rewrite (Hsh d Hd). rewrite Nat.eqb_refl. rewrite N_nth by lia. reflexivity.
      + unfold aget. simpl a_shape. simpl a_data.
        destruct (ravel_one sh idx d) as [A _]; try lia.
        { intros j Hj H1. rewrite Lsh in Hj. rewrite (Hsh j Hj).
          replace (j =? d) with false by (symmetry; apply Nat.eqb_neq; lia). reflexivity. }
        rewrite A. rewrite (Hsh d Hd), Nat.eqb_refl. rewrite clipv_lt by assumption.
        rewrite (nth_map_lt _ _ _ zero zero) by (rewrite row_length; exact Hid).
        rewrite row_nth by exact Hid. reflexivity.
  Qed.

  (* product of the first factors, in the association order of the code: ((1 * f_0) * f_1) * ... *)
  Definition factor_product (ds : list nat) (idx : list nat) (start : T) : T :=
    fold_left (fun v d => mul v (factor d idx)) ds start.

  Lemma joint_fold : forall ds acc idx, (forall d, In d ds -> d < n) -> in_shape N idx -> compat N (a_shape acc) ->
    let r := fold_left (fun acc d => bmul mul zero acc (capdf cond coords d)) ds acc in
    compat N (a_shape r) /\
    (forall j, j < n -> nth j (a_shape acc) 0 = nth j N 0 \/ In j ds -> nth j (a_shape r) 0 = nth j N 0) /\
    aget zero r idx = factor_product ds idx (aget zero acc idx).
  Proof.
    induction ds as [|d ds IH]; intros acc idx Hds Hidx Hc; simpl.
    - split; [exact Hc|]. split; [|reflexivity]. intros j Hj [H|[]]. exact H.
    - assert (Hd : d < n) by (apply Hds; left; reflexivity).
      destruct (capdf_spec d idx Hd Hidx) as [C1 [C2 C3]].
      pose proof (compat_bshape _ _ _ Hc C1) as Cb.
      destruct (IH (bmul mul zero acc (capdf cond coords d)) idx) as [A [B C]]; auto.
      { intros d' H'. apply Hds. right. exact H'. }
      split; [exact A|]. split.
      + intros j Hj Hor. apply B; auto.
        assert (Hmax : nth j (a_shape (bmul mul zero acc (capdf cond coords d))) 0
                       = Nat.max (nth j (a_shape acc) 0) (nth j (a_shape (capdf cond coords d)) 0)).
        { simpl. apply bshape_nth. destruct Hc as [L1 _], C1 as [L2 _]. lia. }
        assert (Hpos : 0 < nth j N 0).
        { pose proof N_pos as P. rewrite Forall_forall in P. apply P. apply nth_In. rewrite N_length. exact Hj. }
        destruct Hc as [_ Hc], C1 as [_ C1]. rewrite <- N_length in Hj.
        destruct Hor as [H|[E|H]]; [left|left; subst j|right; exact H]; rewrite Hmax.
        * destruct (Hc j Hj), (C1 j Hj); lia.
        * destruct (Hc d Hj), (C1 d Hj); lia.
      + rewrite C. unfold factor_product. simpl. f_equal.
        rewrite (aget_bmul T mul zero N); auto. { rewrite C3. reflexivity. } apply N_pos.
  Qed.

  Lemma fold_wf : forall ds acc, length (a_data acc) = prod (a_shape acc) ->
    let r := fold_left (fun acc d => bmul mul zero acc (capdf cond coords d)) ds acc in
    length (a_data r) = prod (a_shape r).
  Proof.
    induction ds as [|d ds IH]; intros acc H; simpl; auto. apply IH.
    unfold bmul. simpl. rewrite map_length, all_idx_length. reflexivity.
  Qed.

  (* C02, last clause: shape and EVERY entry of the joint cell-averaged pdf *)
  Theorem joint_spec idx : in_shape N idx ->
    a_shape (joint cond coords) = N /\
    length (a_data (joint cond coords)) = prod N /\
    aget zero (joint cond coords) idx = factor_product (seq 0 n) idx one.
  Proof.
    intros Hidx. unfold cell_averaged_joint_pdf. fold n.
    assert (C0 : compat N (a_shape (mkarr (repeat 1 n) [one]))).
    { split; [simpl; rewrite repeat_length, N_length; reflexivity|]. intros j Hj. left. simpl. apply ones_nth. rewrite <- N_length. exact Hj. }
    destruct (joint_fold (seq 0 n) (mkarr (repeat 1 n) [one]) idx) as [A [B C]]; auto.
    { intros d Hd. apply in_seq in Hd. lia. }
    assert (Hshape : a_shape (fold_left (fun acc d => bmul mul zero acc (capdf cond coords d)) (seq 0 n) (mkarr (repeat 1 n) [one])) = N).
    { apply (nth_ext _ _ 0 0); [destruct A as [A _]; exact A|]. intros j Hj. destruct A as [A _]. rewrite A, N_length in Hj.
      apply B; auto. right. apply in_seq. lia. }
    split; [exact Hshape|]. split.
    - rewrite <- Hshape. apply fold_wf. simpl. clear. induction n; simpl; auto. rewrite <- IHn0. simpl. lia.
    - rewrite C. f_equal. unfold aget. simpl.
      destruct (ravel_ones (repeat 1 n) idx) as [E _].
      { rewrite repeat_length. rewrite (in_shape_length _ _ Hidx). apply N_length. }
      { intros j Hj. rewrite repeat_length in Hj. apply ones_nth. exact Hj. }
      rewrite E. reflexivity.
  Qed.
End Joint.
