(* Lemmas about the GENERATED parameter maps (coq/gen/Distributions.v), exact reals.
   Used by C05 (documented formula, override law, one map for all methods), C08, C11 (fixed
   parameters at construction and through fitting), C12 (glue round trip). *)
From Coq Require Import Reals List String Bool Lra Lia.
From V.base Require Import Num.
From V.gen Require Import Distributions.
Import ListNotations.
Local Open Scope R_scope.
Local Open Scope string_scope.
Local Open Scope list_scope.

Notation RN := ROps.
Definition ov (o : option R) (d : R) : R := match o with Some v => v | None => d end.

(* ================================================================== Weibull *)
Section Weibull.
  Notation D := (@WeibullDistribution R).
  Definition W_with (s : D) (a b g : option R) : D :=
    {| WeibullDistribution_alpha := ov a (WeibullDistribution_alpha s); WeibullDistribution_beta := ov b (WeibullDistribution_beta s);
       WeibullDistribution_gamma := ov g (WeibullDistribution_gamma s); WeibullDistribution_f_alpha := WeibullDistribution_f_alpha s;
       WeibullDistribution_f_beta := WeibullDistribution_f_beta s; WeibullDistribution_f_gamma := WeibullDistribution_f_gamma s |}.
  Lemma W_override s a b g :
    WeibullDistribution_cdf s a b g = WeibullDistribution_cdf (W_with s a b g) None None None /\
    WeibullDistribution_icdf s a b g = WeibullDistribution_icdf (W_with s a b g) None None None /\
    WeibullDistribution_pdf s a b g = WeibullDistribution_pdf (W_with s a b g) None None None /\
    WeibullDistribution_draw_sample s a b g = WeibullDistribution_draw_sample (W_with s a b g) None None None.
  Proof. destruct a, b, g; repeat split; reflexivity. Qed.
  Lemma W_same_map s a b g :
    c_params (WeibullDistribution_cdf s a b g) = [ov b (WeibullDistribution_beta s); ov g (WeibullDistribution_gamma s); ov a (WeibullDistribution_alpha s)] /\
    c_params (WeibullDistribution_icdf s a b g) = c_params (WeibullDistribution_cdf s a b g) /\
    c_params (WeibullDistribution_pdf s a b g) = c_params (WeibullDistribution_cdf s a b g) /\
    c_params (WeibullDistribution_draw_sample s a b g) = c_params (WeibullDistribution_cdf s a b g) /\
    c_family (WeibullDistribution_cdf s a b g) = "weibull_min" /\ c_family (WeibullDistribution_icdf s a b g) = "weibull_min" /\
    c_family (WeibullDistribution_pdf s a b g) = "weibull_min" /\ c_family (WeibullDistribution_draw_sample s a b g) = "weibull_min" /\
    c_method (WeibullDistribution_cdf s a b g) = "cdf" /\ c_method (WeibullDistribution_icdf s a b g) = "ppf" /\
    c_method (WeibullDistribution_pdf s a b g) = "pdf" /\ c_method (WeibullDistribution_draw_sample s a b g) = "rvs".
  Proof. destruct a, b, g; repeat split; reflexivity. Qed.
End Weibull.

(* ================================================================== LogNormal *)
Section LogNormal.
  Notation D := (@LogNormalDistribution R).
  Definition LN_with (s : D) (m sg : option R) : D :=
    {| LogNormalDistribution_mu := ov m (LogNormalDistribution_mu s); LogNormalDistribution_sigma := ov sg (LogNormalDistribution_sigma s);
       LogNormalDistribution_f_mu := LogNormalDistribution_f_mu s; LogNormalDistribution_f_sigma := LogNormalDistribution_f_sigma s |}.
  Lemma LN_override s m sg :
    LogNormalDistribution_cdf RN s m sg = LogNormalDistribution_cdf RN (LN_with s m sg) None None /\
    LogNormalDistribution_icdf RN s m sg = LogNormalDistribution_icdf RN (LN_with s m sg) None None /\
    LogNormalDistribution_pdf RN s m sg = LogNormalDistribution_pdf RN (LN_with s m sg) None None /\
    LogNormalDistribution_draw_sample RN s m sg = LogNormalDistribution_draw_sample RN (LN_with s m sg) None None.
  Proof. destruct m, sg; repeat split; reflexivity. Qed.
  Lemma LN_same_map s m sg :
    c_params (LogNormalDistribution_cdf RN s m sg) = [ov sg (LogNormalDistribution_sigma s); 0; exp (ov m (LogNormalDistribution_mu s))] /\
    c_params (LogNormalDistribution_icdf RN s m sg) = c_params (LogNormalDistribution_cdf RN s m sg) /\
    c_params (LogNormalDistribution_pdf RN s m sg) = c_params (LogNormalDistribution_cdf RN s m sg) /\
    c_params (LogNormalDistribution_draw_sample RN s m sg) = c_params (LogNormalDistribution_cdf RN s m sg) /\
    c_family (LogNormalDistribution_cdf RN s m sg) = "lognorm" /\ c_family (LogNormalDistribution_icdf RN s m sg) = "lognorm" /\
    c_family (LogNormalDistribution_pdf RN s m sg) = "lognorm" /\ c_family (LogNormalDistribution_draw_sample RN s m sg) = "lognorm" /\
    c_method (LogNormalDistribution_cdf RN s m sg) = "cdf" /\ c_method (LogNormalDistribution_icdf RN s m sg) = "ppf" /\
    c_method (LogNormalDistribution_pdf RN s m sg) = "pdf" /\ c_method (LogNormalDistribution_draw_sample RN s m sg) = "rvs".
  Proof. destruct m, sg; repeat split; reflexivity. Qed.
End LogNormal.

(* ================================================================== Normal *)
Section Normal.
  Notation D := (@NormalDistribution R).
  Definition N_with (s : D) (m sg : option R) : D :=
    {| NormalDistribution_mu := ov m (NormalDistribution_mu s); NormalDistribution_sigma := ov sg (NormalDistribution_sigma s);
       NormalDistribution_f_mu := NormalDistribution_f_mu s; NormalDistribution_f_sigma := NormalDistribution_f_sigma s |}.
  Lemma N_override s m sg :
    NormalDistribution_cdf s m sg = NormalDistribution_cdf (N_with s m sg) None None /\
    NormalDistribution_icdf s m sg = NormalDistribution_icdf (N_with s m sg) None None /\
    NormalDistribution_pdf s m sg = NormalDistribution_pdf (N_with s m sg) None None /\
    NormalDistribution_draw_sample s m sg = NormalDistribution_draw_sample (N_with s m sg) None None.
  Proof. destruct m, sg; repeat split; reflexivity. Qed.
  Lemma N_same_map s m sg :
    c_params (NormalDistribution_cdf s m sg) = [ov m (NormalDistribution_mu s); ov sg (NormalDistribution_sigma s)] /\
    c_params (NormalDistribution_icdf s m sg) = c_params (NormalDistribution_cdf s m sg) /\
    c_params (NormalDistribution_pdf s m sg) = c_params (NormalDistribution_cdf s m sg) /\
    c_params (NormalDistribution_draw_sample s m sg) = c_params (NormalDistribution_cdf s m sg) /\
    c_family (NormalDistribution_cdf s m sg) = "norm" /\ c_family (NormalDistribution_icdf s m sg) = "norm" /\
    c_family (NormalDistribution_pdf s m sg) = "norm" /\ c_family (NormalDistribution_draw_sample s m sg) = "norm" /\
    c_method (NormalDistribution_cdf s m sg) = "cdf" /\ c_method (NormalDistribution_icdf s m sg) = "ppf" /\
    c_method (NormalDistribution_pdf s m sg) = "pdf" /\ c_method (NormalDistribution_draw_sample s m sg) = "rvs".
  Proof. destruct m, sg; repeat split; reflexivity. Qed.
End Normal.

(* ================================================================== ExponentiatedWeibull *)
Section EW.
  Notation D := (@ExponentiatedWeibullDistribution R).
  Notation fa := ExponentiatedWeibullDistribution_alpha. Notation fb := ExponentiatedWeibullDistribution_beta.
  Notation fd := ExponentiatedWeibullDistribution_delta.
  Notation ffa := ExponentiatedWeibullDistribution_f_alpha. Notation ffb := ExponentiatedWeibullDistribution_f_beta.
  Notation ffd := ExponentiatedWeibullDistribution_f_delta.
  Definition EW_with (s : D) (a b d : option R) : D :=
    {| ExponentiatedWeibullDistribution_alpha := ov a (fa s); ExponentiatedWeibullDistribution_beta := ov b (fb s);
       ExponentiatedWeibullDistribution_delta := ov d (fd s); ExponentiatedWeibullDistribution_f_alpha := ffa s;
       ExponentiatedWeibullDistribution_f_beta := ffb s; ExponentiatedWeibullDistribution_f_delta := ffd s |}.
  Lemma EW_override s a b d :
    ExponentiatedWeibullDistribution_cdf RN s a b d = ExponentiatedWeibullDistribution_cdf RN (EW_with s a b d) None None None /\
    ExponentiatedWeibullDistribution_icdf RN s a b d = ExponentiatedWeibullDistribution_icdf RN (EW_with s a b d) None None None /\
    ExponentiatedWeibullDistribution_draw_sample RN s a b d = ExponentiatedWeibullDistribution_draw_sample RN (EW_with s a b d) None None None /\
    ExponentiatedWeibullDistribution__get_scipy_parameters RN s a b d = ExponentiatedWeibullDistribution__get_scipy_parameters RN (EW_with s a b d) None None None.
  Proof. destruct a, b, d; repeat split; reflexivity. Qed.
  Lemma EW_same_map s a b d :
    c_params (ExponentiatedWeibullDistribution_cdf RN s a b d) = [ov d (fd s); ov b (fb s); 0; ov a (fa s)] /\
    c_params (ExponentiatedWeibullDistribution_icdf RN s a b d) = c_params (ExponentiatedWeibullDistribution_cdf RN s a b d) /\
    c_params (ExponentiatedWeibullDistribution_draw_sample RN s a b d) = c_params (ExponentiatedWeibullDistribution_cdf RN s a b d) /\
    (let '(p1, p2, p3, p4) := ExponentiatedWeibullDistribution__get_scipy_parameters RN s a b d in [p1; p2; p3; p4])
      = c_params (ExponentiatedWeibullDistribution_cdf RN s a b d) /\
    c_family (ExponentiatedWeibullDistribution_cdf RN s a b d) = "exponweib" /\ c_family (ExponentiatedWeibullDistribution_icdf RN s a b d) = "exponweib" /\
    c_family (ExponentiatedWeibullDistribution_draw_sample RN s a b d) = "exponweib" /\
    c_method (ExponentiatedWeibullDistribution_cdf RN s a b d) = "cdf" /\ c_method (ExponentiatedWeibullDistribution_icdf RN s a b d) = "ppf" /\
    c_method (ExponentiatedWeibullDistribution_draw_sample RN s a b d) = "rvs".
  Proof. destruct a, b, d; repeat split; reflexivity. Qed.
End EW.

(* ================================================================== GeneralizedGamma *)
Section GG.
  Notation D := (@GeneralizedGammaDistribution R).
  Notation gm := GeneralizedGammaDistribution_m. Notation gc := GeneralizedGammaDistribution_c. Notation gl := GeneralizedGammaDistribution_lambda_.
  Notation gfm := GeneralizedGammaDistribution_f_m. Notation gfc := GeneralizedGammaDistribution_f_c. Notation gfl := GeneralizedGammaDistribution_f_lambda_.
  Definition GG_with (s : D) (m c l : option R) : D :=
    {| GeneralizedGammaDistribution_m := ov m (gm s); GeneralizedGammaDistribution_c := ov c (gc s);
       GeneralizedGammaDistribution_lambda_ := ov l (gl s); GeneralizedGammaDistribution_f_m := gfm s;
       GeneralizedGammaDistribution_f_c := gfc s; GeneralizedGammaDistribution_f_lambda_ := gfl s |}.
  Lemma GG_override s m c l :
    GeneralizedGammaDistribution_cdf RN s m c l = GeneralizedGammaDistribution_cdf RN (GG_with s m c l) None None None /\
    GeneralizedGammaDistribution_icdf RN s m c l = GeneralizedGammaDistribution_icdf RN (GG_with s m c l) None None None /\
    GeneralizedGammaDistribution_pdf RN s m c l = GeneralizedGammaDistribution_pdf RN (GG_with s m c l) None None None /\
    GeneralizedGammaDistribution_draw_sample RN s m c l = GeneralizedGammaDistribution_draw_sample RN (GG_with s m c l) None None None.
  Proof. destruct m, c, l; repeat split; reflexivity. Qed.
  Lemma GG_same_map s m c l :
    c_params (GeneralizedGammaDistribution_cdf RN s m c l) = [ov m (gm s); ov c (gc s); 0; 1 / ov l (gl s)] /\
    c_params (GeneralizedGammaDistribution_icdf RN s m c l) = c_params (GeneralizedGammaDistribution_cdf RN s m c l) /\
    c_params (GeneralizedGammaDistribution_pdf RN s m c l) = c_params (GeneralizedGammaDistribution_cdf RN s m c l) /\
    c_params (GeneralizedGammaDistribution_draw_sample RN s m c l) = c_params (GeneralizedGammaDistribution_cdf RN s m c l) /\
    c_family (GeneralizedGammaDistribution_cdf RN s m c l) = "gengamma" /\ c_family (GeneralizedGammaDistribution_icdf RN s m c l) = "gengamma" /\
    c_family (GeneralizedGammaDistribution_pdf RN s m c l) = "gengamma" /\ c_family (GeneralizedGammaDistribution_draw_sample RN s m c l) = "gengamma" /\
    c_method (GeneralizedGammaDistribution_cdf RN s m c l) = "cdf" /\ c_method (GeneralizedGammaDistribution_icdf RN s m c l) = "ppf" /\
    c_method (GeneralizedGammaDistribution_pdf RN s m c l) = "pdf" /\ c_method (GeneralizedGammaDistribution_draw_sample RN s m c l) = "rvs".
  Proof. destruct m, c, l; repeat split; reflexivity. Qed.
End GG.

(* ================================================================== VonMises *)
Section VM.
  Notation D := (@VonMisesDistribution R).
  Notation vk := VonMisesDistribution_kappa. Notation vm := VonMisesDistribution_mu.
  Notation vfk := VonMisesDistribution_f_kappa. Notation vfm := VonMisesDistribution_f_mu.
  Definition VM_with (s : D) (k m : option R) : D :=
    {| VonMisesDistribution_kappa := ov k (vk s); VonMisesDistribution_mu := ov m (vm s);
       VonMisesDistribution_f_kappa := vfk s; VonMisesDistribution_f_mu := vfm s |}.
  Lemma VM_override s k m :
    VonMisesDistribution_cdf s k m = VonMisesDistribution_cdf (VM_with s k m) None None /\
    VonMisesDistribution_icdf s k m = VonMisesDistribution_icdf (VM_with s k m) None None /\
    VonMisesDistribution_pdf s k m = VonMisesDistribution_pdf (VM_with s k m) None None /\
    VonMisesDistribution_draw_sample s k m = VonMisesDistribution_draw_sample (VM_with s k m) None None.
  Proof. destruct k, m; repeat split; reflexivity. Qed.
  Lemma VM_same_map s k m :
    c_params (VonMisesDistribution_cdf s k m) = [ov k (vk s); ov m (vm s)] /\
    c_params (VonMisesDistribution_icdf s k m) = c_params (VonMisesDistribution_cdf s k m) /\
    c_params (VonMisesDistribution_pdf s k m) = c_params (VonMisesDistribution_cdf s k m) /\
    c_params (VonMisesDistribution_draw_sample s k m) = c_params (VonMisesDistribution_cdf s k m) /\
    c_family (VonMisesDistribution_cdf s k m) = "vonmises" /\ c_family (VonMisesDistribution_icdf s k m) = "vonmises" /\
    c_family (VonMisesDistribution_pdf s k m) = "vonmises" /\ c_family (VonMisesDistribution_draw_sample s k m) = "vonmises" /\
    c_method (VonMisesDistribution_cdf s k m) = "cdf" /\ c_method (VonMisesDistribution_icdf s k m) = "ppf" /\
    c_method (VonMisesDistribution_pdf s k m) = "pdf" /\ c_method (VonMisesDistribution_draw_sample s k m) = "rvs".
  Proof. destruct k, m; repeat split; reflexivity. Qed.
End VM.

(* ================================================================== LogNormalNormFit (closed-form fit is hand-modelled, see model/DistHand.v) *)
Section NF.
  Notation D := (@LogNormalNormFitDistribution R).
  Notation nm := LogNormalNormFitDistribution_mu_norm. Notation ns := LogNormalNormFitDistribution_sigma_norm.
  Definition NF_with (s : D) (m sg : R) : D :=
    {| LogNormalNormFitDistribution_mu_norm := m; LogNormalNormFitDistribution_sigma_norm := sg;
       LogNormalNormFitDistribution_f_mu_norm := LogNormalNormFitDistribution_f_mu_norm s;
       LogNormalNormFitDistribution_f_sigma_norm := LogNormalNormFitDistribution_f_sigma_norm s |}.
  (* both or none: explicit parameters behave exactly like an instance constructed with them *)
  Lemma NF_override s m sg :
    LogNormalNormFitDistribution_cdf RN s (Some m) (Some sg) = LogNormalNormFitDistribution_cdf RN (NF_with s m sg) None None /\
    LogNormalNormFitDistribution_icdf RN s (Some m) (Some sg) = LogNormalNormFitDistribution_icdf RN (NF_with s m sg) None None /\
    LogNormalNormFitDistribution_pdf RN s (Some m) (Some sg) = LogNormalNormFitDistribution_pdf RN (NF_with s m sg) None None /\
    LogNormalNormFitDistribution_draw_sample RN s (Some m) (Some sg) = LogNormalNormFitDistribution_draw_sample RN (NF_with s m sg) None None.
  Proof. repeat split; reflexivity. Qed.
  Lemma NF_one_of_two_raises s m :
    LogNormalNormFitDistribution_cdf RN s (Some m) None = Err "RuntimeError" /\ LogNormalNormFitDistribution_cdf RN s None (Some m) = Err "RuntimeError".
  Proof. split; reflexivity. Qed.
  Lemma NF_same_map s :
    LogNormalNormFitDistribution_cdf RN s None None =
      Ok (mkcall "lognorm" "cdf" [LogNormalNormFitDistribution_calculate_sigma RN (nm s) (ns s); 0;
                                   exp (LogNormalNormFitDistribution_calculate_mu RN (nm s) (ns s))]) /\
    LogNormalNormFitDistribution_icdf RN s None None =
      Ok (mkcall "lognorm" "ppf" [LogNormalNormFitDistribution_calculate_sigma RN (nm s) (ns s); 0;
                                   exp (LogNormalNormFitDistribution_calculate_mu RN (nm s) (ns s))]) /\
    LogNormalNormFitDistribution_pdf RN s None None =
      Ok (mkcall "lognorm" "pdf" [LogNormalNormFitDistribution_calculate_sigma RN (nm s) (ns s); 0;
                                   exp (LogNormalNormFitDistribution_calculate_mu RN (nm s) (ns s))]) /\
    LogNormalNormFitDistribution_draw_sample RN s None None =
      Ok (mkcall "lognorm" "rvs" [LogNormalNormFitDistribution_calculate_sigma RN (nm s) (ns s); 0;
                                   exp (LogNormalNormFitDistribution_calculate_mu RN (nm s) (ns s))]).
  Proof. repeat split; reflexivity. Qed.
  (* documented parameterisation: the log-normal with these (mu, sigma) has mean mu_norm and std sigma_norm *)
  Lemma NF_mean mn sn : 0 < mn -> 0 < sn ->
    exp (LogNormalNormFitDistribution_calculate_mu RN mn sn + (LogNormalNormFitDistribution_calculate_sigma RN mn sn) ^ 2 / 2) = mn.
  Proof.
    intros Hm Hs. unfold LogNormalNormFitDistribution_calculate_mu, LogNormalNormFitDistribution_calculate_sigma. cbn.
    change (Pos.to_nat 2) with 2%nat.
    assert (Hr : 0 < sn ^ 2 / mn ^ 2) by (apply Rdiv_lt_0_compat; apply pow_lt; assumption).
    set (r := sn ^ 2 / mn ^ 2) in *.
    assert (H1 : 0 < 1 + r) by lra.
    assert (Hl : 0 < ln (1 + r)). { rewrite <- ln_1. apply ln_increasing; lra. }
    replace (sqrt (ln (1 + r)) * (sqrt (ln (1 + r)) * 1)) with (ln (1 + r)) by (rewrite Rmult_1_r, sqrt_sqrt; lra).
    rewrite exp_plus. rewrite exp_ln by (apply Rdiv_lt_0_compat; [lra|apply sqrt_lt_R0; lra]).
    replace (exp (ln (1 + r) / 2)) with (sqrt (1 + r)).
    - field. apply Rgt_not_eq, sqrt_lt_R0; lra.
    - rewrite <- (Rpower_sqrt (1 + r)) by lra. unfold Rpower. f_equal. lra.
  Qed.
  Lemma NF_variance mn sn : 0 < mn -> 0 < sn ->
    let mu := LogNormalNormFitDistribution_calculate_mu RN mn sn in
    let s2 := (LogNormalNormFitDistribution_calculate_sigma RN mn sn) ^ 2 in
    (exp s2 - 1) * exp (2 * mu + s2) = sn ^ 2.
  Proof.
    intros Hm Hs mu s2. pose proof (NF_mean mn sn Hm Hs) as M. fold mu in M. change ((LogNormalNormFitDistribution_calculate_sigma RN mn sn) ^ 2) with s2 in M.
    replace (2 * mu + s2) with ((mu + s2 / 2) + (mu + s2 / 2)) by lra. rewrite exp_plus, M.
    unfold s2, LogNormalNormFitDistribution_calculate_sigma. cbn.
    change (Pos.to_nat 2) with 2%nat.
    assert (Hr : 0 < sn ^ 2 / mn ^ 2) by (apply Rdiv_lt_0_compat; apply pow_lt; assumption).
    assert (Hl : 0 < ln (1 + sn ^ 2 / mn ^ 2)). { rewrite <- ln_1. apply ln_increasing; lra. }
    replace (sqrt (ln (1 + sn ^ 2 / mn ^ 2)) * (sqrt (ln (1 + sn ^ 2 / mn ^ 2)) * 1)) with (ln (1 + sn ^ 2 / mn ^ 2)) by (rewrite Rmult_1_r, sqrt_sqrt; lra).
    rewrite exp_ln by lra. field. lra.
  Qed.

End NF.
